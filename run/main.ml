module L = Stdlib.List
module S = Stdlib.String
let () =
  if Array.length Sys.argv < 4 then (prerr_endline "usage: modelrun <mode> <cases> <out>"; exit 2);
  let mode = Sys.argv.(1) in
  let f = try L.assoc mode !Driver.modes with Not_found -> (prerr_endline ("unknown mode " ^ mode); exit 2) in
  let ic = open_in Sys.argv.(2) and oc = open_out Sys.argv.(3) in
  (try while true do
     let line = input_line ic in
     output_string oc (try f line with
       | Stack_overflow -> "EXC stack_overflow"
       | e -> "EXC " ^ Printexc.to_string e);
     output_char oc '\n'
   done with End_of_file -> ());
  close_in ic; close_out oc
