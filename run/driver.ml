(* modelrun: runs the extracted Coq models on case files written by the Go harness.
   usage: modelrun <mode> <cases-file> <out-file>
   Only I/O and conversions live here; every result is computed by extracted code. *)

open BinNums
module L = Stdlib.List
module S = Stdlib.String

(* ---- conversions between OCaml data and the extracted inductive numbers ---- *)
let rec pos_of_int (n : int) : positive =
  if n <= 1 then Coq_xH
  else if n land 1 = 0 then Coq_xO (pos_of_int (n lsr 1))
  else Coq_xI (pos_of_int (n lsr 1))
let n_of_int (n : int) : coq_N = if n <= 0 then N0 else Npos (pos_of_int n)
let rec int_of_pos (p : positive) : int =
  match p with Coq_xH -> 1 | Coq_xO q -> 2 * int_of_pos q | Coq_xI q -> 2 * int_of_pos q + 1
let int_of_n (n : coq_N) : int = match n with N0 -> 0 | Npos p -> int_of_pos p
let z_of_int (n : int) : coq_Z =
  if n = 0 then Z0 else if n > 0 then Zpos (pos_of_int n) else Zneg (pos_of_int (-n))
let rec nat_of_int (n : int) : Datatypes.nat = if n <= 0 then Datatypes.O else Datatypes.S (nat_of_int (n - 1))
let rec int_of_nat (n : Datatypes.nat) : int = match n with Datatypes.O -> 0 | Datatypes.S m -> 1 + int_of_nat m

(* arbitrary-size decimal <-> N / Z, computed with the extracted arithmetic *)
let n_of_dec (s : string) : coq_N =
  let ten = n_of_int 10 in
  let acc = ref N0 in
  S.iter (fun c -> acc := BinNat.N.add (BinNat.N.mul !acc ten) (n_of_int (Char.code c - 48))) s;
  !acc
let dec_of_n (n : coq_N) : string =
  if n = N0 then "0" else begin
    let ten = n_of_int 10 in
    let b = Buffer.create 20 in
    let rec go n acc = if n = N0 then acc else
      let (q, r) = BinNat.N.div_eucl n ten in go q (Char.chr (48 + int_of_n r) :: acc) in
    L.iter (Buffer.add_char b) (go n []); Buffer.contents b end
let z_of_dec (s : string) : coq_Z =
  if S.length s > 0 && (Stdlib.String.get s (0)) = '-' then
    (match n_of_dec (S.sub s 1 (S.length s - 1)) with N0 -> Z0 | Npos p -> Zneg p)
  else (match n_of_dec s with N0 -> Z0 | Npos p -> Zpos p)
let dec_of_z (z : coq_Z) : string =
  match z with Z0 -> "0" | Zpos p -> dec_of_n (Npos p) | Zneg p -> "-" ^ dec_of_n (Npos p)

let bytes_tab = Array.init 256 n_of_int
let hexval c = match c with
  | '0'..'9' -> Char.code c - 48 | 'a'..'f' -> Char.code c - 87 | 'A'..'F' -> Char.code c - 55
  | _ -> failwith "bad hex"
let bytes_of_hex (s : string) : coq_N list =
  let n = S.length s / 2 in
  let rec go i acc = if i < 0 then acc else
    go (i - 1) (bytes_tab.(hexval (Stdlib.String.get s (2*i)) * 16 + hexval (Stdlib.String.get s (2*i+1))) :: acc) in
  go (n - 1) []
let hex_of_bytes (l : coq_N list) : string =
  let b = Buffer.create 64 in
  L.iter (fun x -> Buffer.add_string b (Printf.sprintf "%02x" (int_of_n x))) l;
  Buffer.contents b
let char_of_ascii (a : Ascii.ascii) : char =
  match a with Ascii.Ascii (b0, b1, b2, b3, b4, b5, b6, b7) ->
    let v b k = if b then 1 lsl k else 0 in
    Char.chr (v b0 0 + v b1 1 + v b2 2 + v b3 3 + v b4 4 + v b5 5 + v b6 6 + v b7 7)
let ascii_of_char (c : char) : Ascii.ascii =
  let n = Char.code c in let b k = (n lsr k) land 1 = 1 in
  Ascii.Ascii (b 0, b 1, b 2, b 3, b 4, b 5, b 6, b 7)
let rec string_of_coq (s : String.string) : string =
  match s with String.EmptyString -> "" | String.String (a, r) -> S.make 1 (char_of_ascii a) ^ string_of_coq r
let coq_of_string (s : string) : String.string =
  let r = ref String.EmptyString in
  for i = S.length s - 1 downto 0 do r := String.String (ascii_of_char (Stdlib.String.get s i), !r) done; !r

let split_ws s = L.filter (fun x -> x <> "") (S.split_on_char ' ' s)

(* ---- modes ---- *)
let modes : (string * (string -> string)) list ref = ref []
let register name f = modes := (name, f) :: !modes

let () = register "c12" (fun line ->
  let key = bytes_of_hex line in
  let slot = Slot.slot_of Tables.crc16tab Tables.slot_num key in
  let crc = Slot.crc16_tab Tables.crc16tab key in
  let tag = Slot.hashtag key in
  Printf.sprintf "%d %d %s" (int_of_n slot) (int_of_n crc) (hex_of_bytes tag))

let () = register "c12spec" (fun line ->
  let key = bytes_of_hex line in
  Printf.sprintf "%d %d %s" (int_of_n (Slot.slot_spec key)) (int_of_n (Slot.crc16_spec key)) (hex_of_bytes (Slot.hashtag key)))

(* ---------------- C10: RESP values in token form ---------------- *)
let rec fmt_val (b : Buffer.t) (v : Resp.resp) : unit =
  match v with
  | Resp.Simple t -> Buffer.add_string b ("S" ^ hex_of_bytes t)
  | Resp.Err t -> Buffer.add_string b ("E" ^ hex_of_bytes t)
  | Resp.Int z -> Buffer.add_string b ("I" ^ dec_of_z z)
  | Resp.Bulk None -> Buffer.add_string b "Bn"
  | Resp.Bulk (Some t) -> Buffer.add_string b ("B" ^ hex_of_bytes t)
  | Resp.Arr None -> Buffer.add_string b "An"
  | Resp.Arr (Some l) ->
    Buffer.add_string b ("A" ^ string_of_int (L.length l));
    L.iter (fun x -> Buffer.add_char b ' '; fmt_val b x) l
let val_string v = let b = Buffer.create 64 in fmt_val b v; Buffer.contents b

let parse_val (toks : string array) (pos : int ref) : Resp.resp =
  let rec go () =
    let t = toks.(!pos) in incr pos;
    let rest = S.sub t 1 (S.length t - 1) in
    match (Stdlib.String.get t (0)) with
    | 'S' -> Resp.Simple (bytes_of_hex rest)
    | 'E' -> Resp.Err (bytes_of_hex rest)
    | 'I' -> Resp.Int (z_of_dec rest)
    | 'B' -> if t = "Bn" then Resp.Bulk None else Resp.Bulk (Some (bytes_of_hex rest))
    | 'A' -> if t = "An" then Resp.Arr None else
        let k = int_of_string rest in
        let rec many i acc = if i = 0 then L.rev acc else let v = go () in many (i - 1) (v :: acc) in
        Resp.Arr (Some (many k []))
    | _ -> failwith "bad token" in
  go ()

let rerr_name (e : Reader.rerr) : string = match e with
  | Reader.EOF -> "EOF" | Reader.UnexpectedEOF -> "UnexpectedEOF" | Reader.NoProgress -> "NoProgress"
  | Reader.BufferFull -> "BufferFull" | Reader.SrcErr -> "SrcErr" | Reader.BadCRLF -> "BadCRLF"
  | Reader.BadRespType -> "BadRespType" | Reader.BadArrayLen -> "BadArrayLen"
  | Reader.BadArrayLenTooLong -> "BadArrayLenTooLong" | Reader.BadArrayDepth -> "BadArrayDepth" | Reader.BadBulkLen -> "BadBulkLen"
  | Reader.BadBulkLenTooLong -> "BadBulkLenTooLong" | Reader.BadMultiBulkLen -> "BadMultiBulkLen"
  | Reader.BadMultiBulkContent -> "BadMultiBulkContent" | Reader.IntSyntax -> "IntSyntax"
  | Reader.IntRange -> "IntRange" | Reader.OutOfFuel -> "OutOfFuel" | Reader.Impossible -> "Impossible"

let end_of s = if s = "S" then Reader.SrcErr else Reader.EOF
let sizes_of s = if s = "-" then [] else L.map (fun x -> n_of_int (int_of_string x)) (S.split_on_char ',' s)

let itoa_tab = lazy (Resp.mk_itoa_tab Tables.min_itoa Tables.max_itoa)

let dec_out (vs, e) =
  let b = Buffer.create 256 in
  L.iteri (fun i v -> if i > 0 then Buffer.add_char b '|'; fmt_val b v) vs;
  Buffer.add_string b ("!" ^ rerr_name e); Buffer.contents b

let () = register "c10dec" (fun line ->
  match S.split_on_char ' ' line with
  | [bs; e; sz; hx] ->
    dec_out (Codec.decode_all_chunked Tables.max_array_len Tables.max_bulk_len Tables.max_array_depth (n_of_int (int_of_string bs))
               (sizes_of sz) (end_of e) (bytes_of_hex hx))
  | _ -> failwith "bad c10dec case")

let () = register "c10decflat" (fun line ->
  match S.split_on_char ' ' line with
  | [bs; e; _; hx] ->
    dec_out (Codec.decode_all_flat Tables.max_array_len Tables.max_bulk_len Tables.max_array_depth (n_of_int (int_of_string bs))
               (end_of e) (bytes_of_hex hx))
  | _ -> failwith "bad c10dec case")

let () = register "c10enc" (fun line ->
  let toks = Array.of_list (S.split_on_char ' ' line) in
  let v = parse_val toks (ref 0) in
  let bs = Resp.encode (Lazy.force itoa_tab) v in
  let rt b = dec_out (Codec.decode_all_flat Tables.max_array_len Tables.max_bulk_len Tables.max_array_depth (n_of_int b) Reader.EOF bs) in
  hex_of_bytes bs ^ " " ^ rt 4096 ^ " " ^ rt 32)

let () = register "c10int" (fun line ->
  let arg = S.sub line 2 (S.length line - 2) in
  if (Stdlib.String.get line (0)) = 'b' then
    (match Resp.btoi64 (bytes_of_hex arg) with
     | Datatypes.Coq_inl z -> "ok " ^ dec_of_z z
     | Datatypes.Coq_inr Resp.SyntaxErr -> "err IntSyntax"
     | Datatypes.Coq_inr Resp.RangeErr -> "err IntRange")
  else hex_of_bytes (Resp.itoa (Lazy.force itoa_tab) (z_of_dec arg)))

(* Reader operations: chunked model and flat model side by side *)
let run_ops (type s) (o : s Reader.ops) (s0 : s) (ops : string list) : string =
  let st = ref s0 in
  let out = L.map (fun op ->
    let r tag (res, s') = st := s';
      (match res with Reader.Ok bs -> tag ^ ":" ^ hex_of_bytes bs | Reader.Fail e -> tag ^ "!" ^ rerr_name e) in
    match (Stdlib.String.get op (0)) with
    | 'P' -> r "p" (let (x, s') = o.Reader.o_peek !st in ((match x with Reader.Ok c -> Reader.Ok [c] | Reader.Fail e -> Reader.Fail e), s'))
    | 'Y' -> r "y" (let (x, s') = o.Reader.o_rbyte !st in ((match x with Reader.Ok c -> Reader.Ok [c] | Reader.Fail e -> Reader.Fail e), s'))
    | 'S' -> let (x, s') = o.Reader.o_rslice !st in st := s';
      (match x with Reader.Line l -> "s:" ^ hex_of_bytes l | Reader.Full f -> "s!BufferFull:" ^ hex_of_bytes f
                  | Reader.SErr e -> "s!" ^ rerr_name e)
    | 'L' -> r "l" (o.Reader.o_rbytes !st)
    | 'F' -> r "f" (o.Reader.o_rfull (n_of_int (int_of_string (S.sub op 1 (S.length op - 1)))) !st)
    | _ -> failwith "bad op") ops in
  S.concat ";" out

let () = register "c10rd" (fun line ->
  match S.split_on_char ' ' line with
  | [bs; e; sz; hx; ops] ->
    let data = bytes_of_hex hx in
    let b = n_of_int (int_of_string bs) in
    let f = nat_of_int (L.length data + 1) in
    run_ops (Reader.chunked_ops b f)
      { Reader.win = []; cerr = None; src = data; sizes = sizes_of sz; send = end_of e } (S.split_on_char ',' ops)
  | _ -> failwith "bad c10rd case")

let () = register "c10rdflat" (fun line ->
  match S.split_on_char ' ' line with
  | [bs; e; _; hx; ops] ->
    run_ops (Reader.flat_ops (n_of_int (int_of_string bs)))
      { Reader.stream = bytes_of_hex hx; ferr = None; fend = end_of e } (S.split_on_char ',' ops)
  | _ -> failwith "bad c10rd case")

(* is the stream the canonical encoding of the values the flat model decodes from it? *)
let () = register "c10canon" (fun line ->
  match S.split_on_char ' ' line with
  | [bs; e; _; hx] ->
    let data = bytes_of_hex hx in
    let (vs, err) = Codec.decode_all_flat Tables.max_array_len Tables.max_bulk_len Tables.max_array_depth (n_of_int (int_of_string bs)) (end_of e) data in
    if err = Reader.EOF && Resp.encode_list (Lazy.force itoa_tab) vs = data then "canon" else "other"
  | _ -> failwith "bad case")

(* ---------------- C17: hot-restart frames and dispatcher ---------------- *)
let hr_rs = Tables.hr_read_size
let () = register "c17frame" (fun line ->
  match S.split_on_char ' ' line with
  | ["r"; hx] ->
    (match Frame.read_frame hr_rs (bytes_of_hex hx) with
     | Frame.FOk (t, d) -> Printf.sprintf "ok %d %s" (int_of_n t) (hex_of_bytes d)
     | Frame.FErr Frame.InvalidHeader -> "err InvalidHeader"
     | Frame.FErr Frame.Incomplete -> "err Incomplete"
     | Frame.FPanic -> "PANIC")
  | ["s"; t; hx] ->
    (match Frame.send_frame (n_of_int (int_of_string t)) (bytes_of_hex hx) with
     | Some f -> hex_of_bytes f | None -> "PANIC")
  | ["s"; t] ->
    (match Frame.send_frame (n_of_int (int_of_string t)) [] with
     | Some f -> hex_of_bytes f | None -> "PANIC")
  | _ -> failwith "bad c17frame case")

let hr_handle = Frame.handle_child Tables.hr_message_types Tables.hr_dispatch_cases Tables.hr_dispatch_handlers
    Tables.hr_dispatch_default Tables.hr_handler_names Tables.hr_handler_scripts Tables.hr_ctor_names Tables.hr_ctor_types hr_rs

let () = register "c17disp" (fun line ->
  let children = S.split_on_char '|' line in
  let calls = ref [] in
  let outs = L.map (fun c ->
    let frames = if c = "" then [] else S.split_on_char ',' c in
    (* lock step: each write is answered (or not) before the next one *)
    let replies = L.map (fun f ->
      let evs = hr_handle [Frame.RdBytes (bytes_of_hex f); Frame.RdEOF] in
      let rs = L.filter_map (fun e -> match e with
        | Frame.EvReply (t, d) ->
          (match Frame.send_frame t d with Some b -> Some (hex_of_bytes b) | None -> Some "PANIC")
        | Frame.EvCall nm -> calls := string_of_coq nm :: !calls; None) evs in
      if rs = [] then "noreply" else S.concat "" rs) frames in
    S.concat "," replies) children in
  S.concat "|" outs ^ " calls=" ^ S.concat "," (L.rev !calls))

(* ---------------- C14 / C03: dispatch, routing, assembly ---------------- *)
let bytes_of_ocaml (s : string) : coq_N list = L.init (S.length s) (fun i -> n_of_int (Char.code (Stdlib.String.get s i)))
let ocaml_of_bytes (l : coq_N list) : string = S.init (L.length l) (fun i -> Char.chr (int_of_n (L.nth l i)))
let ascii_low (s : string) = S.lowercase_ascii s

let plan_of v = Dispatch.plan_of Tables.handler_names Tables.handler_funcs Tables.invalid_request_text v
let is_ro name = Dispatch.is_read_only Tables.read_only_commands name

(* the fake backends of the harness (harness/c14.go fakeAnswer) *)
let fake_answer (body : Resp.resp list) : Resp.resp =
  match body with
  | [] -> Resp.Err (bytes_of_ocaml "ERR bad request")
  | hd :: rest ->
    let name = ascii_low (ocaml_of_bytes (Dispatch.bulk_text hd)) in
    let key = match rest with k :: _ -> Dispatch.bulk_text k | [] -> [] in
    (match name with
     | "get" -> Resp.Bulk (Some (bytes_of_ocaml "v:" @ key))
     | "set" -> Resp.Simple (bytes_of_ocaml "OK")
     | "del" | "exists" | "touch" | "unlink" -> Resp.Int (z_of_int (L.length key mod 2))
     | "readonly" | "asking" -> Resp.Simple (bytes_of_ocaml "OK")
     | _ -> Resp.Bulk (Some (bytes_of_ocaml name @ [n_of_int 58] @ key)))

let strategy_of = function "0" -> Dispatch.SMaster | "1" -> Dispatch.SReplica | _ -> Dispatch.SBoth

let body_string (b : Resp.resp list) = S.concat "_" (S.split_on_char ' ' (val_string (Resp.Arr (Some b))))

let c14_run (is_ro : coq_N list -> bool) = (fun line ->
  match S.split_on_char ' ' line with
  | st :: seedhex :: nodeshex :: toks ->
    let seeds = S.split_on_char ',' (ocaml_of_bytes (bytes_of_hex seedhex)) in
    let v = parse_val (Array.of_list toks) (ref 0) in
    let insts = match Dispatch.parse_cluster_nodes (bytes_of_hex nodeshex) with
      | Dispatch.CnOk l -> l | _ -> failwith "cluster nodes" in
    let route (key, body) =
      let slot = Slot.slot_of Tables.crc16tab Tables.slot_num key in
      let name = Dispatch.bulk_text (L.hd body) in
      let cands = match Dispatch.owners insts slot with
        | [] -> seeds
        | os -> L.concat (L.map (fun o -> L.map ocaml_of_bytes (Dispatch.candidates (strategy_of st) (is_ro name) o)) os) in
      S.concat "," (L.sort compare cands) ^ "=" ^ body_string body in
    (match plan_of v with
     | Dispatch.PLocalErr t -> val_string (Resp.Err t) ^ " | "
     | Dispatch.PLocalSimple t -> val_string (Resp.Simple t) ^ " | "
     | Dispatch.PLocalInfo -> "LOCAL:info | "
     | Dispatch.PLocalTime -> "LOCAL:time | "
     | Dispatch.PLocalHotKey -> "LOCAL:hotkey | "
     | Dispatch.PScan args ->
       let hosts = L.sort compare seeds in
       (match Dispatch.scan_plan_of Tables.invalid_request_text Tables.invalid_cursor_text args (n_of_int (L.length hosts)) with
        | Dispatch.ScErr t -> val_string (Resp.Err t) ^ " | "
        | Dispatch.ScTerm -> val_string (Resp.Arr (Some [Resp.Bulk (Some [n_of_int 48]); Resp.Arr (Some [])])) ^ " | "
        | Dispatch.ScNode (idx, body) ->
          (match Dispatch.scan_reply idx (fake_answer body) with
           | None -> "PANIC | " ^ L.nth hosts (int_of_n idx) ^ "=" ^ body_string body
           | Some r -> val_string r ^ " | " ^ L.nth hosts (int_of_n idx) ^ "=" ^ body_string body))
     | Dispatch.PForward (a, subs) ->
       let reply = Dispatch.assemble_reply a (L.map (fun (_, b) -> fake_answer b) subs) in
       val_string reply ^ " | " ^ S.concat " " (L.sort compare (L.map route subs)))
  | _ -> failwith "bad c14 case")

let () = register "c14" (c14_run is_ro)
(* the same with Redis' own read-only flags instead of the proxy's regenerated table: the specification side *)
(* every request treated as a write: the owning master only *)
let () = register "c14master" (c14_run (fun _ -> false))
let () = register "c14spec" (c14_run (fun name -> Dispatch.is_read_only RedisFlags.redis_read_only name))


(* ---------------- C18: SCAN ---------------- *)
let scan_host i = Printf.sprintf "n%05d:1" i
let split_bar line = let parts = Str.split_delim (Str.regexp_string " | ") line in parts

let () = register "c18step" (fun line ->
  match split_bar line with
  | [n; reqs; reps] ->
    let nh = int_of_string n in
    let req = parse_val (Array.of_list (S.split_on_char ' ' reqs)) (ref 0) in
    let node_reply = parse_val (Array.of_list (S.split_on_char ' ' reps)) (ref 0) in
    (match plan_of req with
     | Dispatch.PScan args ->
       (match Dispatch.scan_plan_of Tables.invalid_request_text Tables.invalid_cursor_text args (n_of_int nh) with
        | Dispatch.ScErr t -> val_string (Resp.Err t) ^ " | "
        | Dispatch.ScTerm -> val_string (Resp.Arr (Some [Resp.Bulk (Some [n_of_int 48]); Resp.Arr (Some [])])) ^ " | "
        | Dispatch.ScNode (idx, body) ->
          let sent = scan_host (int_of_n idx) ^ "=" ^ body_string body in
          (match Dispatch.scan_reply idx node_reply with
           | None -> "PANIC | " ^ sent
           | Some r -> val_string r ^ " | " ^ sent))
     | Dispatch.PLocalErr t -> val_string (Resp.Err t) ^ " | "
     | _ -> "NOTSCAN | ")
  | _ -> failwith "bad c18step case")

let () = register "c18iter" (fun line ->
  match split_bar line with
  | nodes_s :: _ ->
    let parse_node s =
      if s = "" then [] else
      L.map (fun e -> match S.split_on_char ':' e with
        | [c; nx; ks] ->
          let keys = if ks = "" then [] else L.map bytes_of_hex (S.split_on_char ',' ks) in
          (n_of_dec c, (n_of_dec nx, keys))
        | _ -> failwith "bad entry") (S.split_on_char '/' s) in
    let nodes = L.map parse_node (S.split_on_char ';' nodes_s) in
    (match Scan.iterate (nat_of_int 6000) nodes N0 with
     | None -> "NONTERMINATING"
     | Some (keys, hits) ->
       Printf.sprintf "done keys=%s hits=%s steps=%d"
         (S.concat "," (L.map hex_of_bytes keys))
         (S.concat "," (L.map (fun (i, c) -> dec_of_n i ^ ":" ^ dec_of_n c) hits))
         (L.length hits + 1))
  | _ -> failwith "bad c18iter case")

(* ---------------- C13: compression ---------------- *)
let c13_known = lazy (L.sort_uniq compare (L.map string_of_coq (Tables.cps_commands @ Tables.banned_cmds_in_cps @ Tables.wk_skip_check_cmds)))

let () = register "c13" (fun line ->
  match split_bar line with
  | ops_s :: rest ->
    let orc_s = match rest with o :: _ -> o | [] -> "" in
    let ctab = Hashtbl.create 64 and dtab = Hashtbl.create 16 in
    L.iter (fun e -> if e <> "" then begin
      let k = Stdlib.String.get e 0 in
      match S.split_on_char '=' (S.sub e 1 (S.length e - 1)) with
      | [a; b] -> if k = 'c' then Hashtbl.replace ctab a b else Hashtbl.replace dtab a b
      | _ -> () end) (S.split_on_char ' ' orc_s);
    let comp v = let h = hex_of_bytes v in
      (match Hashtbl.find_opt ctab h with
       | Some z -> Hashtbl.replace dtab z h; bytes_of_hex z
       | None -> failwith ("no comp oracle for " ^ h)) in
    let decomp z = match Hashtbl.find_opt dtab (hex_of_bytes z) with Some v -> Some (bytes_of_hex v) | None -> None in
    let magic = Text.bytes_of_string Tables.cps_magic in
    let fdo = Compress.filter_do comp magic Tables.cps_commands Tables.cps_offsets Tables.banned_cmds_in_cps Tables.wk_skip_check_cmds in
    let cfg = ref { Compress.present = true; enable = false; threshold = N0 } in
    let store = ref [] in
    let outs = L.map (fun op ->
      match S.split_on_char ',' op with
      | ["cfg"; en; thr] ->
        cfg := { Compress.present = true; enable = (en = "1"); threshold = n_of_int (int_of_string thr) }; "cfg"
      | kind :: mv :: args ->
        ignore kind;
        let v = Resp.Arr (Some (L.map (fun h -> Resp.Bulk (Some (bytes_of_hex h))) args)) in
        let moved = ref (mv = "1") in
        let run_sub (_, body) =
          let name = S.lowercase_ascii (ocaml_of_bytes (Text.go_lower (Dispatch.bulk_text (L.hd body)))) in
          let cmd = if L.mem name (Lazy.force c13_known) then Some (coq_of_string name) else None in
          let r0 = { Compress.c_body = body; c_filtered = false; c_hook = false } in
          (match fdo !cfg cmd r0 with
           | Compress.FStop e -> Resp.Err e
           | Compress.FContinue r1 ->
             (* a MOVED reply makes the same request go through the filter once more on the other backend *)
             let r2 = if !moved then (moved := false;
                        match fdo !cfg cmd r1 with Compress.FContinue r -> r | Compress.FStop _ -> r1) else r1 in
             let (reply, s') = Compress.backend_exec !store r2.Compress.c_body in
             store := s';
             Compress.reply_through decomp magic r2 reply) in
        let reply = (match plan_of v with
          | Dispatch.PLocalErr t -> Resp.Err t
          | Dispatch.PLocalSimple t -> Resp.Simple t
          | Dispatch.PForward (a, subs) -> Dispatch.assemble_reply a (L.map run_sub subs)
          | _ -> Resp.Err (bytes_of_ocaml "?")) in
        S.concat "_" (S.split_on_char ' ' (val_string reply))
      | _ -> failwith "bad op") (S.split_on_char ' ' ops_s) in
    let dump = L.sort compare (L.map (fun (k, v) ->
      hex_of_bytes k ^ "=" ^ (match v with
        | Compress.KStr x -> "S" ^ hex_of_bytes x
        | Compress.KHash fs -> "H" ^ S.concat "," (L.map (fun (f, x) -> hex_of_bytes f ^ ">" ^ hex_of_bytes x) fs))) !store) in
    S.concat " " outs ^ " | " ^ S.concat ";" dump
  | _ -> failwith "bad c13 case")

(* the same operations against a store with no compression at all: the specification side of C13 *)
let () = register "c13plain" (fun line ->
  match split_bar line with
  | ops_s :: _ ->
    let store = ref [] in
    let outs = L.map (fun op ->
      match S.split_on_char ',' op with
      | ["cfg"; _; _] -> "cfg"
      | _ :: _ :: args ->
        let v = Resp.Arr (Some (L.map (fun h -> Resp.Bulk (Some (bytes_of_hex h))) args)) in
        let run_sub (_, body) = let (reply, s') = Compress.backend_exec !store body in store := s'; reply in
        let reply = (match plan_of v with
          | Dispatch.PLocalErr t -> Resp.Err t
          | Dispatch.PLocalSimple t -> Resp.Simple t
          | Dispatch.PForward (a, subs) -> Dispatch.assemble_reply a (L.map run_sub subs)
          | _ -> Resp.Err (bytes_of_ocaml "?")) in
        S.concat "_" (S.split_on_char ' ' (val_string reply))
      | _ -> failwith "bad op") (S.split_on_char ' ' ops_s) in
    S.concat " " outs
  | _ -> failwith "bad c13 case")

let () = register "c13conc" (fun _ -> "ok")

(* ---------------- C11: redirection outcomes, CLUSTER NODES ---------------- *)
let () = register "c11resp" (fun line ->
  let v = parse_val (Array.of_list (S.split_on_char ' ' line)) (ref 0) in
  let a = "10.7.0.1:7000" and b = "10.7.0.2:7000" in
  let get = "A2_B676574_B6b" in
  let ok_at addr = val_string (Resp.Simple (bytes_of_ocaml ("OK@" ^ addr))) in
  match Redirect.handle_resp v with
  | Redirect.OComplete r | Redirect.OCompleteRefresh r -> val_string r ^ " | " ^ a ^ "=" ^ get
  | Redirect.OResend (addr, asking) ->
    let addr = ocaml_of_bytes addr in
    if addr = b || addr = a then
      ok_at addr ^ " | " ^ a ^ "=" ^ get ^ (if asking then " " ^ addr ^ "=A1_B61736b696e67" else "") ^ " " ^ addr ^ "=" ^ get
    else "DIALERR | " ^ a ^ "=" ^ get
  | Redirect.OPanic -> "PANIC | " ^ a ^ "=" ^ get
  | Redirect.ONothing -> "NOREPLY | " ^ a ^ "=" ^ get)

let () = register "c11nodes" (fun line ->
  match Dispatch.parse_cluster_nodes (bytes_of_hex line) with
  | Dispatch.CnErr -> "ERR load:err"
  | Dispatch.CnPanic -> "PANIC"
  | Dispatch.CnAmbig -> "AMBIG"
  | Dispatch.CnOk insts ->
    let ms = L.map (fun (i : Dispatch.instance) ->
      let slots = L.map (fun z -> int_of_string (dec_of_z z)) i.Dispatch.i_slots in
      let sum = L.fold_left (fun acc x -> (acc * 31 + x + 7) mod 1000003) 0 slots in
      let lo = L.fold_left (fun acc x -> if acc = -1 || x < acc then x else acc) (-1) slots in
      let hi = L.fold_left (fun acc x -> if x > acc then x else acc) (-1) slots in
      Printf.sprintf "%s@%s#%d:%d:%d:%d[%s]" (hex_of_bytes i.Dispatch.i_id) (hex_of_bytes i.Dispatch.i_addr)
        (L.length slots) lo hi sum (S.concat "," (L.sort compare (L.map ocaml_of_bytes i.Dispatch.i_replicas)))) insts in
    S.trim ("OK " ^ S.concat " " (L.sort compare ms)) ^ " load:ok")

(* ---------------- C15 / C06: host set, health hysteresis, balancing ---------------- *)
let c15_desc (i : coq_N) : coq_N * HostSet.htype =
  let k = int_of_n i in
  (n_of_int (1 + k mod 4), if k mod 8 < 4 then HostSet.Main else HostSet.Backup)
let c15_u = L.map n_of_int [1; 2; 3; 4]
let c15_objs = 16

let () = register "c15" (fun line ->
  let ids_of s = if s = "" then [] else L.map (fun x -> n_of_int (int_of_string x)) (S.split_on_char ',' s) in
  let st = ref HostSet.empty in
  let outs = L.map (fun op ->
    let arg = S.sub op 1 (S.length op - 1) in
    let o = (match Stdlib.String.get op 0 with
      | 'a' -> HostSet.HAdd (ids_of arg) | 'r' -> HostSet.HRemove (ids_of arg) | 'p' -> HostSet.HReplaceAll (ids_of arg)
      | 'h' -> HostSet.HMarkHealthy (L.hd (ids_of arg)) | 'u' -> HostSet.HMarkUnhealthy (L.hd (ids_of arg))
      | _ -> failwith "bad op") in
    st := HostSet.hstep c15_desc c15_u !st o;
    let s = !st in
    let all_ids = L.init c15_objs (fun i -> i) in
    let str l = S.concat "," (L.map string_of_int l) in
    let members = L.sort compare (L.map string_of_int (L.map int_of_n (HostSet.members c15_u s.HostSet.all))) in
    "H" ^ str (L.map int_of_n s.HostSet.cache) ^ "/A" ^ S.concat "," members
    ^ "/R" ^ str (L.filter (fun i -> s.HostSet.removed (n_of_int i)) all_ids)
    ^ "/U" ^ str (L.filter (fun i -> not (s.HostSet.healthy (n_of_int i))) all_ids)) (S.split_on_char ' ' line) in
  S.concat " " outs)

let () = register "c15hc" (fun line ->
  match S.split_on_char ' ' line with
  | [rise; fall; results] ->
    let r = ref (n_of_int (int_of_string rise)) and f = ref (n_of_int (int_of_string fall)) in
    let st = ref { HostSet.flag = true; succ = N0; fail = N0 } in
    let b = Buffer.create 16 in
    (* "R<d>" / "F<d>": the thresholds in force change before the next check *)
    let i = ref 0 in
    while !i < S.length results do
      let c = Stdlib.String.get results !i in
      (if c = 'R' || c = 'F' then begin
         let v = n_of_int (Char.code (Stdlib.String.get results (!i + 1)) - 48) in
         (if c = 'R' then r := v else f := v); incr i
       end else begin
         st := HostSet.hc_step !r !f !st (c = '1'); Buffer.add_char b (if !st.HostSet.flag then 'H' else 'u')
       end);
      incr i
    done;
    Buffer.contents b ^ " usable=" ^ (if !st.HostSet.flag then "1" else "0")
  | _ -> failwith "bad c15hc case")

let () = register "c06lb" (fun line ->
  match S.split_on_char ' ' line with
  | ["RoundRobinConcurrent"; _; _] -> "fair"
  | [pol; conns; draws] ->
    let cs = if conns = "" then [] else L.map (fun x -> n_of_dec x) (S.split_on_char ',' conns) in
    let ds = Array.of_list (L.map n_of_dec (S.split_on_char ',' draws)) in
    let n = L.length cs in
    let picks = Array.length ds / 2 in
    if n = 0 then S.concat "," (L.init picks (fun _ -> "nil")) else begin
      let nn = n_of_int n in
      let p = ref 0 in
      let draw () = let d = ds.(!p mod Array.length ds) in incr p; d in
      let ctr = ref N0 in
      S.concat "," (L.init picks (fun _ ->
        match pol with
        | "RoundRobin" -> let (c, i) = HostSet.rr_pick !ctr nn in ctr := c; dec_of_n i
        | "Random" -> dec_of_n (HostSet.rand_pick (draw ()) nn)
        | _ -> let r1 = draw () in let r2 = draw () in dec_of_n (HostSet.least_pick r1 r2 cs)))
    end
  | _ -> failwith "bad c06lb case")

(* ---------------- C19: hot key counter and collector ---------------- *)
let () = register "c19" (fun line ->
  match S.split_on_char ' ' line with
  | cap :: ops ->
    let cap = n_of_int (int_of_string cap) in
    let b = ref [] in
    let outs = L.map (fun op ->
      match Stdlib.String.get op 0 with
      | 'L' ->
        let kv = L.concat (L.map (fun (f, ks) -> L.map (fun k -> dec_of_n k ^ "=" ^ dec_of_n f) ks) !b) in
        b := Counter.cstep cap !b Counter.CLatch;
        "latch{" ^ S.concat "," (L.sort compare kv) ^ "}"
      | c ->
        b := Counter.cstep cap !b (if c = 'F' then Counter.CFree else Counter.CIncr (n_of_dec (S.sub op 1 (S.length op - 1))));
        "ok[" ^ S.concat "|" (L.map (fun (f, ks) -> dec_of_n f ^ ":" ^ S.concat "," (L.map dec_of_n ks)) !b) ^ "]") ops in
    S.concat " " outs
  | _ -> failwith "bad c19 case")

(* the collector's report is checked against the property itself by the harness (the logarithmic
   counters are random); the model side just states what a correct report looks like *)
let () = register "c19col" (fun line ->
  match S.split_on_char ' ' line with
  | _ :: steps -> S.concat " " (L.map (fun _ -> "ok") steps)
  | _ -> "")

(* ---------------- C08: configuration store and controller ---------------- *)
let c08_ep tok =
  let b = S.length tok > 0 && Stdlib.String.get tok (S.length tok - 1) = 'b' in
  let a = if b then S.sub tok 0 (S.length tok - 1) else tok in
  { ConfigStore.eaddr = n_of_int (int_of_string a); ebackup = b }
let c08_eps s = if s = "" then [] else L.map c08_ep (L.filter (fun x -> x <> "") (S.split_on_char ',' s))
let c08_cfg tok =
  let v = Stdlib.String.get tok (S.length tok - 1) = 'v' in
  { ConfigStore.cid = n_of_int (int_of_string (S.sub tok 0 (S.length tok - 1))); cvalid = v }
let c08_names s = if s = "" then [] else L.map (fun x -> n_of_int (int_of_string x)) (L.filter (fun x -> x <> "") (S.split_on_char ',' s))

let c08_parse op =
  let body = S.sub op 1 (S.length op - 1) in
  match Stdlib.String.get op 0 with
  | 'S' -> (match S.split_on_char ':' body with
      | [n; c; e] -> ConfigStore.OStatic (n_of_int (int_of_string n), Some (c08_cfg c), Some (c08_eps e))
      | _ -> failwith "bad S")
  | 'D' -> (match S.split_on_char '/' body with
      | [a; r] -> ConfigStore.ODep (c08_names a, c08_names r) | _ -> failwith "bad D")
  | 'C' -> (match S.split_on_char ':' body with
      | [n; c] -> ConfigStore.OCfg (n_of_int (int_of_string n), c08_cfg c) | _ -> failwith "bad C")
  | 'E' -> (match S.split_on_char ':' body with
      | [n; ar] -> (match S.split_on_char '/' ar with
          | [a; r] -> ConfigStore.OEp (n_of_int (int_of_string n), c08_eps a, c08_eps r) | _ -> failwith "bad E")
      | _ -> failwith "bad E")
  | _ -> failwith "bad op"

let c08_dump (c : ConfigStore.ctl) =
  let names = L.init 12 (fun i -> i) in
  let rows = L.filter_map (fun i -> match c (n_of_int i) with
    | None -> None
    | Some p ->
      let hs = L.sort compare (L.map (fun e -> dec_of_n e.ConfigStore.eaddr ^ (if e.ConfigStore.ebackup then "b" else "")) p.ConfigStore.p_hosts) in
      Some (Printf.sprintf "%d=%s[%s]" i (dec_of_n p.ConfigStore.p_cfg.ConfigStore.cid) (S.concat "," hs))) names in
  S.concat " " (L.sort compare rows)

let () = register "c08" (fun line ->
  let ops = L.map c08_parse (L.filter (fun x -> x <> "") (S.split_on_char ' ' line)) in
  (* static services first, as the bootstrap does *)
  let (st, dyn) = L.partition (fun o -> match o with ConfigStore.OStatic _ -> true | _ -> false) ops in
  let (_, c) = ConfigStore.converge (st @ dyn) in
  c08_dump c)

(* the specification: one processor per service with a valid configuration and an endpoint list, holding the
   latest configuration and the current endpoints *)
let () = register "c08spec" (fun line ->
  let ops = L.map c08_parse (L.filter (fun x -> x <> "") (S.split_on_char ' ' line)) in
  let (st, dyn) = L.partition (fun o -> match o with ConfigStore.OStatic _ -> true | _ -> false) ops in
  let (s, _) = ConfigStore.run_ops ConfigStore.empty_store (st @ dyn) in
  let names = L.init 12 (fun i -> i) in
  let rows = L.filter_map (fun i -> match s (n_of_int i) with
    | Some { ConfigStore.s_cfg = Some c; s_eps = Some eps } when c.ConfigStore.cvalid ->
      let hs = L.sort compare (L.map (fun e -> dec_of_n e.ConfigStore.eaddr ^ (if e.ConfigStore.ebackup then "b" else "")) eps) in
      Some (Printf.sprintf "%d=%s[%s]" i (dec_of_n c.ConfigStore.cid) (S.concat "," hs))
    | _ -> None) names in
  S.concat " " (L.sort compare rows))

(* ---------------- C03 / C01: programs against a stable cluster ---------------- *)
type c03_case = { c3_mode : string; c3_nodes : int; c3_layout : int array; c3_reqs : (int * Resp.resp) list }

let c03_parse (line : string) : c03_case =
  let (hd, tl) = match Str.bounded_split_delim (Str.regexp_string " # ") line 2 with
    | [a; b] -> (a, b) | [a] -> (a, "") | _ -> failwith "bad c03 line" in
  let f = Array.of_list (L.filter (fun x -> x <> "") (S.split_on_char ' ' hd)) in
  let layout = Array.make 16384 0 in
  L.iter (fun r -> Scanf.sscanf r "%d-%d=%d" (fun lo hi n -> for s = lo to hi do layout.(s) <- n done)) (S.split_on_char ',' f.(2));
  let reqs = L.filter_map (fun rq ->
    let rq = S.trim rq in
    if rq = "" then None else
    let i = S.index rq ':' in
    let cn = int_of_string (S.sub rq 0 i) in
    let toks = Array.of_list (L.filter (fun x -> x <> "") (S.split_on_char ' ' (S.sub rq (i + 1) (S.length rq - i - 1)))) in
    Some (cn, parse_val toks (ref 0))) (Str.split (Str.regexp_string " ; ") tl) in
  { c3_mode = f.(0); c3_nodes = int_of_string f.(1); c3_layout = layout; c3_reqs = reqs }

let c03_owner (c : c03_case) (k : coq_N list) : coq_N =
  Cluster.owner_of Tables.crc16tab (fun s -> n_of_int c.c3_layout.(int_of_n s)) k

let c03_requests (c : c03_case) : (int * Cluster.request) list option =
  let rs = L.map (fun (cn, v) -> (cn, Cluster.req_of_plan (plan_of v))) c.c3_reqs in
  if L.exists (fun (_, r) -> r = None) rs then None
  else Some (L.map (fun (cn, r) -> match r with Some x -> (cn, x) | None -> assert false) rs)

let c03_empty_nodes : coq_N -> coq_N list -> RedisSem.rval option = fun _ _ -> None

let () = register "c03spec" (fun line ->
  let c = c03_parse line in
  match c03_requests c with
  | None -> "NOT-KEYED"
  | Some rs ->
    let (_, out) = Cluster.ss_run RedisSem.sem Dispatch.assemble_reply (fun _ -> None) (L.map snd rs) in
    S.concat " ; " (L.map val_string out))

let () = register "c03" (fun line ->
  let c = c03_parse line in
  match c03_requests c with
  | None -> "NOT-KEYED"
  | Some rs ->
    let owner = c03_owner c in
    let nconn = 1 + L.fold_left (fun a (cn, _) -> max a cn) 0 rs in
    let progs cn = L.filter_map (fun (x, r) -> if n_of_int x = cn then Some r else None) rs in
    let st0 = Cluster.init owner c03_empty_nodes progs in
    let subs r = Cluster.subs_of r in
    let sched =
      if c.c3_mode = "seq" then
        L.concat_map (fun (cn, r) ->
          let k = n_of_int cn in
          [Cluster.SRead k] @ L.map (fun _ -> Cluster.SSend k) (subs r)
          @ L.map (fun s -> Cluster.SExec (owner s.Cluster.sk)) (subs r) @ [Cluster.SWrite k]) rs
      else
        (* everything is read and sent first; the nodes answer last node first; then the writers run *)
        let reads = L.concat_map (fun (cn, r) -> let k = n_of_int cn in Cluster.SRead k :: L.map (fun _ -> Cluster.SSend k) (subs r)) rs in
        let all_subs = L.concat_map (fun (_, r) -> subs r) rs in
        let execs = L.concat_map (fun n ->
          L.filter_map (fun s -> if owner s.Cluster.sk = n_of_int n then Some (Cluster.SExec (n_of_int n)) else None) all_subs)
          (L.rev (L.init c.c3_nodes (fun i -> i))) in
        let writes = L.map (fun (cn, _) -> Cluster.SWrite (n_of_int cn)) rs in
        reads @ execs @ writes in
    let st = Cluster.run RedisSem.sem owner Dispatch.assemble_reply st0 sched in
    (* replies in listing order *)
    let outs = Array.init nconn (fun cn -> ref (Cluster.out (Cluster.conns st (n_of_int cn)))) in
    let replies = L.map (fun (cn, _) ->
      match !(outs.(cn)) with x :: t -> outs.(cn) := t; val_string x | [] -> "MISSING") rs in
    let logs =
      if c.c3_mode = "conc" then "-"
      else S.concat " | " (L.init c.c3_nodes (fun n ->
        S.concat " , " (L.filter_map (fun e ->
          if owner e.Cluster.e_s.Cluster.sk = n_of_int n then Some (val_string (Resp.Arr (Some e.Cluster.e_s.Cluster.sb))) else None)
          (Cluster.lin st)))) in
    S.concat " ; " replies ^ " || " ^ logs ^ " || moved=0 ask=0")

(* ---------------- C04: migration ---------------- *)
let c04_slot (k : coq_N list) : coq_N = Slot.slot_of Tables.crc16tab Tables.slot_num k

let c04_step (f : string list) : Gossip.gstep option =
  match f with
  | ["mb"; sl; t] -> Some (Gossip.GBase (Migrate.MBegin (n_of_int (int_of_string sl), n_of_int (int_of_string t))))
  | ["mk"; hx] -> Some (Gossip.GBase (Migrate.MMoveKey (bytes_of_hex hx)))
  | ["mf"; sl] -> Some (Gossip.GBase (Migrate.MFinish (n_of_int (int_of_string sl))))
  | ["mfl"; sl; b] -> Some (Gossip.GFinishLag (n_of_int (int_of_string sl), nat_of_int (int_of_string b)))
  | ["ml"; sl] -> Some (Gossip.GLearn (n_of_int (int_of_string sl)))
  | _ -> None

let c04_render (v : RedisSem.rval) : string =
  let hx = hex_of_bytes in
  match v with
  | RedisSem.VStr b -> "s:" ^ hx b
  | RedisSem.VList l -> "l:" ^ S.concat "," (L.map hx l)
  | RedisSem.VHash h -> "h:" ^ S.concat "," (L.sort compare (L.map (fun (f, x) -> hx f ^ "=" ^ hx x) h))
  | RedisSem.VSet s -> "S:" ^ S.concat "," (L.sort compare (L.map hx s))

(* the state is Model/Gossip.v's: Model/Migrate.v's cluster plus, per slot, a new owner that has not learned yet *)
let () = register "c04" (fun line ->
  let (hd, tl) = match Str.bounded_split_delim (Str.regexp_string " # ") line 2 with
    | [a; b] -> (a, b) | _ -> failwith "bad c04 line" in
  let f = Array.of_list (L.filter (fun x -> x <> "") (S.split_on_char ' ' hd)) in
  let layout = Array.make 16384 0 in
  L.iter (fun r -> Scanf.sscanf r "%d-%d=%d" (fun lo hi n -> for s = lo to hi do layout.(s) <- n done)) (S.split_on_char ',' f.(1));
  let cs = ref { Gossip.gb = { Migrate.ndb = (fun _ _ -> None); own = (fun s -> n_of_int layout.(int_of_n s)); mig = (fun _ -> None) };
                 lag = (fun _ -> None) } in
  let settle () = cs := { !cs with Gossip.lag = (fun _ -> None) } in
  let cdown4 = ref false in
  let pending = ref [] in
  let dead = ref [] in
  let keys = ref [] in
  let replies = ref [] and execs = ref [] in
  let steps_of (s : string) = L.filter_map (fun x -> c04_step (L.filter (fun y -> y <> "") (S.split_on_char ' ' x))) (S.split_on_char ',' s) in
  let flush () = cs := Gossip.do_gsteps c04_slot !cs !pending; pending := [] in
  L.iter (fun it ->
    let it = S.trim it in
    if it = "" || it = "w" then ()
    else
      let fs = L.filter (fun x -> x <> "") (S.split_on_char ' ' it) in
      match fs with
      | ["cd"] -> cdown4 := true
      | ["cu"] -> cdown4 := false
      | "q" :: body when !cdown4 ->
        (* CLUSTERDOWN is handed to the client as it is; nothing is executed; steps of an @ask hook wait *)
        let rec hook_of = function
          | "@ask" :: rest -> steps_of (S.concat " " rest)
          | _ :: rest -> hook_of rest
          | [] -> [] in
        pending := !pending @ hook_of body;
        replies := val_string (Resp.Err (bytes_of_ocaml "CLUSTERDOWN The cluster is down")) :: !replies;
        execs := "0" :: !execs
      | ("q" | "qx" as kind) :: body ->
        let (body, hook) =
          let rec split acc = function
            | "@ask" :: rest -> (L.rev acc, steps_of (S.concat " " rest))
            | x :: rest -> split (x :: acc) rest
            | [] -> (L.rev acc, []) in
          split [] body in
        let v = parse_val (Array.of_list body) (ref 0) in
        (match Cluster.req_of_plan (plan_of v) with
         | None -> replies := "NOT-KEYED" :: !replies; execs := "0" :: !execs
         | Some (Cluster.RLocal r) -> replies := val_string r :: !replies; execs := "0" :: !execs
         | Some (Cluster.RFwd (a, subs)) ->
           let hook_left = ref hook in
           let rs = L.map (fun s ->
             keys := s.Cluster.sk :: !keys;
             flush ();
             let sl = c04_slot s.Cluster.sk in
             let first = !cs.Gossip.gb.Migrate.own sl in
             (* the hook fires when the first ASK is sent: a slot whose new owner lags is not migrating, no ASK comes *)
             let lagging = (!cs.Gossip.lag sl <> None) in
             let q = { Gossip.gq_pre = []; gq_sub = s; gq_first = first; gq_envs = (if lagging then [] else [[]; !hook_left]) } in
             match Gossip.grun_seq RedisSem.sem c04_slot !cs [q] with
             | (cs2, [Some ((r, _), h)]) ->
               cs := cs2;
               if (not lagging) && int_of_nat h >= 2 then hook_left := [];
               r
             | (cs2, _) -> cs := cs2; Resp.Err (bytes_of_ocaml "LOOP")) subs in
           pending := !hook_left;
           (* qx: the command took effect once, its reply was lost with the connection *)
           replies := (if kind = "qx" then "LOST" else val_string (Dispatch.assemble_reply a rs)) :: !replies;
           execs := string_of_int (L.length subs) :: !execs)
      | ["p"; cnt; hx] ->
        let key = bytes_of_hex hx in
        keys := key :: !keys;
        flush (); settle ();
        for _ = 1 to int_of_string cnt do
          let s = { Cluster.sk = key; sb = [Resp.Bulk (Some (bytes_of_ocaml "incr")); Resp.Bulk (Some key)] } in
          let first = !cs.Gossip.gb.Migrate.own (c04_slot key) in
          (match Gossip.grun_seq RedisSem.sem c04_slot !cs [{ Gossip.gq_pre = []; gq_sub = s; gq_first = first; gq_envs = [] }] with
           | (cs2, [Some ((r, _), _)]) -> cs := cs2; replies := val_string r :: !replies
           | (cs2, _) -> cs := cs2; replies := "LOOP" :: !replies);
          execs := "1" :: !execs
        done
      | ["fo"; i] -> flush (); settle (); if not (L.mem i !dead) then dead := i :: !dead
      | ["mb"; _; t] when L.mem t !dead -> ()
      | _ -> (match c04_step fs with Some m -> pending := !pending @ [m] | None -> ()))
    (Str.split (Str.regexp_string " ; ") tl);
  let final = (Gossip.do_gsteps c04_slot !cs !pending).Gossip.gb in
  let ks = L.sort_uniq compare (L.map hex_of_bytes !keys) in
  let data = L.filter_map (fun hk ->
    match Migrate.abs c04_slot final (bytes_of_hex hk) with
    | Some v -> Some (hk ^ "=" ^ c04_render v)
    | None -> None) ks in
  let data = if Array.exists (fun x -> x = "cps") f then ["stored-compressed"] else data in
  S.concat " ; " (L.rev !replies) ^ " || " ^ S.concat " " (L.sort compare data) ^ " || " ^ S.concat "," (L.rev !execs)
  ^ " || redirected-to-client=0 lost-or-duplicated-keys=0"
  ^ (if f.(2) = "2" then " sent-to-a-node-that-does-not-own-the-slot=0" else ""))

(* ---------------- C07: healing ---------------- *)
let () = register "c07" (fun line ->
  let (hd, tl) = match Str.bounded_split_delim (Str.regexp_string " # ") line 2 with
    | [a; b] -> (a, b) | _ -> failwith "bad c07 line" in
  let f = Array.of_list (L.filter (fun x -> x <> "") (S.split_on_char ' ' hd)) in
  let nn = int_of_string f.(0) in
  let layout = Array.make 16384 0 in
  L.iter (fun r -> Scanf.sscanf r "%d-%d=%d" (fun lo hi n -> for s = lo to hi do layout.(s) <- n done)) (S.split_on_char ',' f.(1));
  (* rep=<m>,<m>..: replicas (nodes nn, nn+1, ..) of the masters named; configured hosts as well *)
  let reps = if Array.length f > 2 && S.length f.(2) > 4 && S.sub f.(2) 0 4 = "rep="
    then L.filter_map (fun x -> match int_of_string_opt x with Some m when m < nn -> Some m | _ -> None) (S.split_on_char ',' (S.sub f.(2) 4 (S.length f.(2) - 4)))
    else [] in
  let replica_of = Hashtbl.create 4 in   (* master -> its replicas' node indices, oldest first *)
  L.iteri (fun i m -> Hashtbl.replace replica_of m ((try Hashtbl.find replica_of m with Not_found -> []) @ [nn + i])) reps;
  let hosts = L.init (nn + L.length reps) n_of_int in
  let layout0 = Array.copy layout in
  let st = ref (Heal.hinit (fun s -> n_of_int layout0.(int_of_n s))) in
  let last = Hashtbl.create 8 in
  let outs = ref [] in
  let gone = ref [] and next_node = ref (nn + L.length reps) in
  let downs = ref [] in
  let cdown = ref false in
  let step o = let (s', r) = Heal.do_hop RedisSem.sem c04_slot hosts !st o in st := s'; r in
  L.iter (fun it ->
    let fs = L.filter (fun x -> x <> "") (S.split_on_char ' ' it) in
    let nat i = n_of_int (int_of_string (L.nth fs i)) in
    match fs with
    | [] -> ()
    | ["cdown"] -> cdown := true
    | ["cup"] -> cdown := false
    | ("q" | "q!") :: _ when !cdown ->
      (* CLUSTERDOWN is handed to the client; the proxy asks for the layout again *)
      st := Heal.refresh hosts !st;
      outs := "err" :: !outs
    | ("q" | "q!") :: body ->
      let v = parse_val (Array.of_list body) (ref 0) in
      (match Cluster.req_of_plan (plan_of v) with
       | Some (Cluster.RFwd (_, [s])) ->
         (match step (Heal.HReq s) with
          | Some (Heal.ROk (r, n, id, red)) ->
            let ni = int_of_n n in
            let fresh = match Hashtbl.find_opt last ni with None -> "first" | Some i -> if i = id then "same" else "new" in
            Hashtbl.replace last ni id;
            outs := Printf.sprintf "ok:%s:%d:%s:%s" (val_string r) ni fresh (if red then "r" else "-") :: !outs
          | Some (Heal.RErr _) -> outs := "err" :: !outs
          | None -> outs := "?" :: !outs)
       | _ -> outs := "NOT-SINGLE-KEY" :: !outs)
    | "qx" :: body ->
      let v = parse_val (Array.of_list body) (ref 0) in
      (match Cluster.req_of_plan (plan_of v) with
       | Some (Cluster.RFwd (_, [s])) ->
         (* executed (once) exactly when the plain request would have been served *)
         let served = (match snd (Heal.do_req RedisSem.sem c04_slot hosts !st s) with Heal.ROk _ -> true | Heal.RErr _ -> false) in
         ignore (step (Heal.HReqLost s));
         outs := (if served then "lost:1" else "err") :: !outs
       | _ -> outs := "NOT-SINGLE-KEY" :: !outs)
    | ["kill"; _] -> ignore (step (Heal.HKill (nat 1)))
    | ["down"; n] -> downs := int_of_string n :: !downs; ignore (step (Heal.HDown (nat 1)))
    | ["up"; n] -> downs := L.filter (fun x -> x <> int_of_string n) !downs; ignore (step (Heal.HUp (nat 1)))
    | ["promote"; n] ->
      (* the master goes down for good; its replica takes over its slots under its own address *)
      let o = int_of_string n in
      (match (try Hashtbl.find replica_of o with Not_found -> []) with
       | r :: rest when not (L.mem o !gone) && not (L.mem o !downs) ->
         Hashtbl.replace replica_of o rest;
         gone := o :: !gone;
         ignore (step (Heal.HDown (n_of_int o)));
         let sl = ref 0 in
         while !sl < 16384 do
           if layout.(!sl) = o then begin
             let lo = !sl in
             while !sl < 16384 && layout.(!sl) = o do layout.(!sl) <- r; incr sl done;
             ignore (step (Heal.HLay (n_of_int lo, n_of_int (!sl - 1), n_of_int r)))
           end else incr sl
         done
       | _ -> ())
    | ["lay"; lo; hi; n] ->
      for sl = int_of_string lo to int_of_string hi do layout.(sl) <- int_of_string n done;
      ignore (step (Heal.HLay (nat 1, nat 2, nat 3)))
    | ["mv"; n] ->
      (* the node restarts under a new address: the old address refuses, its slots belong to a fresh address *)
      let o = int_of_string n in
      if not (L.mem o !gone) then begin
        gone := o :: !gone;
        let fresh = !next_node in
        incr next_node;
        ignore (step (Heal.HDown (n_of_int o)));
        let sl = ref 0 in
        while !sl < 16384 do
          if layout.(!sl) = o then begin
            let lo = !sl in
            while !sl < 16384 && layout.(!sl) = o do layout.(!sl) <- fresh; incr sl done;
            ignore (step (Heal.HLay (n_of_int lo, n_of_int (!sl - 1), n_of_int fresh)))
          end else incr sl
        done
      end
    | ["w"] -> ignore (step Heal.HWait)
    | _ -> ())
    (Str.split (Str.regexp_string " ; ") tl);
  S.concat " ; " (L.rev !outs) ^ " || refresh-after-redirect=ok")

(* ---------------- C20: statistics ---------------- *)
let int_of_z (z : coq_Z) : int = match z with Z0 -> 0 | Zpos p -> int_of_pos p | Zneg p -> - (int_of_pos p)

let () = register "c20" (fun line ->
  let toks = L.filter (fun x -> x <> "") (S.split_on_char ' ' line) in
  match toks with
  | [] -> ""
  | "ABRUPT" :: _ -> "conserved || upstream_conserved=1 || gauges=ok"
  | l :: evs ->
    let lim = int_of_string (S.sub l 1 (S.length l - 1)) in
    let events = L.concat_map (fun t ->
      match t with
      | "a" | "r" -> [Stats.SvConnect]
      | "x" -> [Stats.SvFinish]
      | "S" -> [Stats.SvStop]
      | _ ->
        (match S.split_on_char ':' t with
         | ["q"; name; res] ->
           let c = if name = "-" then None else Some (coq_of_string name) in
           [Stats.SvReqStart c; Stats.SvReqDone (c, res = "s")]
         | _ -> failwith ("bad c20 event " ^ t))) evs in
    let s = Stats.srun (z_of_int lim) events in
    let i f = int_of_z f in
    let cmds = L.sort compare (L.map (fun (n, c) ->
      Printf.sprintf "%s=%d/%d/%d" (string_of_coq n) (i c.Stats.c_total) (i c.Stats.c_success) (i c.Stats.c_error)) s.Stats.cmds) in
    Printf.sprintf "cx_total=%d cx_destroy=%d cx_active=%d cx_restricted=%d rq_total=%d rq_success=%d rq_failure=%d ||%s || upstream_conserved=1 || gauges=ok"
      (i s.Stats.cx_total) (i s.Stats.cx_destroy) (i s.Stats.cx_active) (i s.Stats.cx_restricted) (i s.Stats.rq_total) (i s.Stats.rq_success) (i s.Stats.rq_failure)
      (if cmds = [] then " -" else S.concat "" (L.map (fun c -> " " ^ c) cmds)))

(* ---------------- C16: discovery subscriptions ---------------- *)
let () = register "c16" (fun line ->
  let st = ref Discovery.dinit in
  let outs = ref [] in
  L.iter (fun op ->
    let num () = n_of_int (int_of_string (S.sub op 1 (S.length op - 1))) in
    let os = match op with
      | "RUN" -> []
      | "up" -> [Discovery.DStreamUp]
      | "down" | "downc" -> [Discovery.DStreamDown]
      | "f" -> [Discovery.DFlush]
      | _ ->
        (match Stdlib.String.get op 0 with
         | 's' -> [Discovery.DSubscribe (num ())]
         | 'U' -> [Discovery.DStreamUp; Discovery.DSubscribe (num ())]
         | 'B' -> Discovery.DStreamUp :: L.init (int_of_string (S.sub op 1 (S.length op - 1))) (fun k -> Discovery.DSubscribe (n_of_int (100 + k)))
         | _ -> [Discovery.DUnsubscribe (num ())]) in
    L.iter (fun o -> st := Discovery.dstep false !st o) os;
    if op = "f" then
      outs := (match !st.Discovery.stream with
               | None -> "nostream"
               | Some sv -> "view=" ^ S.concat "," (L.map string_of_int (L.sort compare (L.map int_of_n sv)))) :: !outs)
    (L.filter (fun x -> x <> "") (S.split_on_char ' ' line));
  S.concat " " (L.rev !outs))

(* ---------------- C09: listener life ---------------- *)
let () = register "c09" (fun line ->
  let f = Array.of_list (L.filter (fun x -> x <> "") (S.split_on_char ' ' line)) in
  let sc = f.(1) in
  let n = if Array.length f > 2 && sc <> "stop-random" then int_of_string f.(2) else if Array.length f > 3 then int_of_string f.(3) else 0 in
  let open Lifecycle in
  let accepts = L.init n (fun _ -> LAccept) in
  let run ops = lrun true ops in
  let finish s = L.fold_left (lstep true) s (finish_schedule s) in
  let report prefix s =
    let s' = if s.stop_waits then finish s else s in
    prefix ^ Printf.sprintf "stop=%s port=%s clients=%s backends=closed goroutines=ok"
      (if stop_returns s' then "ok" else "HUNG") (if s'.bound then "OPEN" else "closed")
      (if int_of_nat s'.lconns = 0 then "closed" else "OPEN:" ^ string_of_int (int_of_nat s'.lconns)) in
  match sc with
  | "stop-at-once" | "stop-random" ->
    (* both orders of Stop and the Serve goroutine, and Stop at every later point, must agree *)
    let a = report "" (run [LStop; LServeBegin; LBindFail]) in
    let b = report "" (run ([LServeBegin; LStop])) in
    let c = report "" (run ([LServeBegin; LBindOk] @ accepts @ [LStop])) in
    if a = b && b = c then a else "MODEL-DISAGREES " ^ a ^ " / " ^ b ^ " / " ^ c
  | "register-after-stop" ->
    let s = Stats.srun Z0 [Stats.SvStop; Stats.SvConnect] in
    Printf.sprintf "registered=%d" (int_of_z s.Stats.cx_total)
  | "register-burst" ->
    let lim = int_of_string f.(2) and k = int_of_string f.(3) in
    let s = Stats.srun (z_of_int lim) (L.init k (fun _ -> Stats.SvConnect)) in
    Printf.sprintf "served=%d refused=%d" (int_of_z s.Stats.cx_total) (int_of_z s.Stats.cx_restricted)
  | "limit-burst" ->
    let lim = int_of_string f.(2) and k = int_of_string f.(3) in
    (* the launcher's probe connection came and went before *)
    let s = Stats.srun (z_of_int lim) ([Stats.SvConnect; Stats.SvFinish] @ L.init k (fun _ -> Stats.SvConnect)) in
    Printf.sprintf "served=%d refused=%d" (int_of_z s.Stats.cx_total - 1) (int_of_z s.Stats.cx_restricted)
  | "stop-while-binding" -> report "" (run [LServeBegin; LBindFail; LBindFail; LStop])
  | "drain-while-binding" ->
    (* whichever way the round in progress ends, the service must not begin to serve *)
    let a = run [LServeBegin; LBindFail; LDrain; LBindOk] and b = run [LServeBegin; LBindFail; LDrain; LBindFail] in
    let refused s = (lstep true s LAccept) = s && not s.bound in
    if refused a && refused b then report "drain=ok new=refused " (lstep true a LStop) else "MODEL: serves after drain"
  | "drain-during-bind" | "stop-during-bind" ->
    (* the flag is set after the loop's check and before the socket is published: the bind round that succeeds must give up *)
    let s = run [LServeBegin; (if sc = "stop-during-bind" then LStop else LDrain); LBindOk] in
    Printf.sprintf "serve-returned=%b port-open=%b" (s.phase = PReturned) s.bound
  | "stop-halfclosed-silent" -> report "" (run ([LServeBegin; LBindOk; LAccept; LStop]))
  | "stop-before-start" -> report "" (run [LStop])
  | "stop-hc-probing" -> "stop=ok goroutines=ok"
  | "stop-active" | "stop-backend-down" | "stop-silent-backend" | "stop-after-conn-loss" | "stop-during-connect" | "stop-stubborn-backend" | "stop-during-redirect" -> report "" (run ([LServeBegin; LBindOk] @ accepts @ [LStop]))
  | "accept-emfile" ->
    (* accept fails temporarily a few times; the connection that was waiting is then served *)
    let s = run [LServeBegin; LBindOk; LAcceptTemp; LAcceptTemp; LAcceptTemp; LAccept] in
    report (if int_of_nat s.lconns = 1 then "new=served " else "new=UNSERVED ") (lstep true s LStop)
  | "drain-after-accept" ->
    (* Accept has returned the connection: it is an accepted one when the drain arrives; Serve returns when it has ended *)
    let s = run [LServeBegin; LBindOk; LAccept; LDrain] in
    let kept = int_of_nat s.lconns = 1 in
    let refused = (lstep true s LAccept) = s in
    let s' = run [LServeBegin; LBindOk; LAccept; LDrain; LConnEnd; LServeExit] in
    Printf.sprintf "drain=ok established=%s new=%s serve-returned=%b" (if kept then "kept" else "BROKEN") (if refused then "refused" else "SERVED") (s'.phase = PReturned)
  | "drain-then-stop" ->
    let s = run ([LServeBegin; LBindOk] @ accepts @ [LDrain]) in
    let kept = int_of_nat s.lconns = n in
    let refused = (lstep true s LAccept) = s in
    report (Printf.sprintf "drain=ok established=%s new=%s " (if kept then "kept" else "BROKEN") (if refused then "refused" else "SERVED"))
      (lstep true s LStop)
  | _ -> "?")

(* ---------------- C05: TCP relay ---------------- *)
let fnv32 (l : coq_N list) : int =
  L.fold_left (fun h b -> ((h lxor (int_of_n b)) * 16777619) land 0xFFFFFFFF) 2166136261 l

let () = register "c05" (fun line ->
  Scanf.sscanf line "%d %d %d %s %d %d" (fun seed nc nb order _ _ ->
    if nc > 300000 || nb > 300000 then "LARGE" else
    let data n b2c = L.init n (fun i -> bytes_tab.((if b2c then i * 137 + seed * 29 + i / 256 + 7 else i * 131 + seed * 17 + i / 256) land 255)) in
    (* the proxy's own read sizes are unknown: the theorem says they do not matter; use a spread of them *)
    let rounds n = L.init (n / 3 + 4) (fun i -> Relay.RCopy (n_of_int (1 + (i * 7919 + seed) mod 20000))) in
    let dir n b2c =
      let d = data n b2c in
      let half = L.filteri (fun i _ -> i < n / 2) d and rest = L.filteri (fun i _ -> i >= n / 2) d in
      Relay.rrun Tables.tcp_buf_size ([Relay.RSend half; Relay.RCopy (n_of_int 5)] @ [Relay.RSend rest; Relay.RFinish] @ rounds n) in
    let show (d : Relay.dir) = Printf.sprintf "%d:%08x eof=%d" (L.length d.Relay.delivered) (fnv32 d.Relay.delivered) (if d.Relay.eof_delivered then 1 else 0) in
    ignore order;
    Printf.sprintf "c2b=%s b2c=%s upstream=1/1/0" (show (dir nc false)) (show (dir nb true))))

(* ---------------- C06 end to end: per-host connection counts ---------------- *)
let () = register "c06tcp" (fun line ->
  let (hd, tl) = match Str.bounded_split_delim (Str.regexp_string " # ") line 2 with
    | [a; b] -> (a, b) | _ -> failwith "bad c06tcp line" in
  let f = Array.of_list (L.filter (fun x -> x <> "") (S.split_on_char ' ' hd)) in
  let nb = int_of_string f.(1) in
  (* one counter state per host object: a connection is counted after its dial succeeded and until its relay ends *)
  let st = Array.make nb (Stats.sinit Z0) in
  let kept = ref [] in   (* (index, backend, open) in order of creation *)
  let nk = ref 0 in
  let halfc = ref [] in
  let hopened = ref [] in
  let counts () = S.concat "," (L.init nb (fun i -> string_of_int (int_of_z st.(i).Stats.cx_active))) in
  let outs = L.map (fun op ->
    let body = S.sub op 1 (S.length op - 1) in
    let res = match Stdlib.String.get op 0 with
      | 'o' | 'H' ->
        (match S.split_on_char ':' op with
         | [_; r] when S.length r = 2 && Stdlib.String.get r 0 = 'b' ->
           let b = Char.code (Stdlib.String.get r 1) - 48 in
           st.(b) <- Stats.sstep st.(b) Stats.SvConnect;
           if Stdlib.String.get op 0 = 'H' then hopened := !nk :: !hopened;
           kept := !kept @ [(!nk, b, ref true)]; incr nk; r
         | [_; r] -> r
         | _ -> "?")
      | 'O' ->
        (* open, then host k removed (its kept connections, this one included if it reached k before, are closed), then k added again *)
        (match S.split_on_char ':' op with
         | [ok; r] ->
           let k0 = int_of_string (S.sub ok 1 (S.length ok - 1)) in
           if S.length r = 2 && Stdlib.String.get r 0 = 'b' then begin
             let b = Char.code (Stdlib.String.get r 1) - 48 in
             st.(b) <- Stats.sstep st.(b) Stats.SvConnect;
             kept := !kept @ [(!nk, b, ref true)]; incr nk
           end;
           let n = ref 0 in
           L.iter (fun (_, b, o) -> if b = k0 && !o then begin o := false; incr n; st.(b) <- Stats.sstep st.(b) Stats.SvFinish end) !kept;
           st.(k0) <- Stats.sinit Z0;
           Printf.sprintf "%s closed=%d late=0" r !n
         | _ -> "?")
      | 'h' when L.mem (int_of_string body) !hopened ->
        (* the backend had finished already (H): with the client's half-close both directions are over *)
        let i = int_of_string body in
        L.iter (fun (k, b, o) -> if k = i && !o then begin o := false; st.(b) <- Stats.sstep st.(b) Stats.SvFinish end) !kept; ""
      | 'h' -> halfc := int_of_string body :: !halfc; ""
      | 'c' when L.mem (int_of_string body) !halfc -> ""
      | 'c' ->
        let i = int_of_string body in
        L.iter (fun (k, b, o) -> if k = i && !o then begin o := false; st.(b) <- Stats.sstep st.(b) Stats.SvFinish end) !kept; ""
      | 'r' ->
        let b0 = int_of_string body in
        let n = ref 0 in
        L.iter (fun (_, b, o) -> if b = b0 && !o then begin o := false; incr n; st.(b) <- Stats.sstep st.(b) Stats.SvFinish end) !kept;
        Printf.sprintf "closed=%d" !n
      | 'a' -> st.(int_of_string body) <- Stats.sinit Z0; ""
      | _ -> "" in
    S.trim (res ^ " " ^ counts ())) (L.filter (fun x -> x <> "") (S.split_on_char ' ' tl)) in
  L.iter (fun (_, b, o) -> if !o then begin o := false; st.(b) <- Stats.sstep st.(b) Stats.SvFinish end) !kept;
  S.concat " ; " (outs @ ["end " ^ counts () ^ " upstream=ok"]))
