(* modelrun: runs the extracted Coq models on case files written by the Go harness.
   usage: modelrun <mode> <cases-file> <out-file>
   Only I/O and conversions live here; every result is computed by extracted code. *)

open BinNums
module L = Stdlib.List
module S = Stdlib.String

(* ---- conversions between OCaml data and the extracted inductive numbers ---- *)
let rec pos_of_int (n : int) : positive =
  if n <= 1 then Coq_xH
  else if n land 1 = 0 then Coq_xO (pos_of_int (n lsr 1))
  else Coq_xI (pos_of_int (n lsr 1))
let n_of_int (n : int) : coq_N = if n <= 0 then N0 else Npos (pos_of_int n)
let rec int_of_pos (p : positive) : int =
  match p with Coq_xH -> 1 | Coq_xO q -> 2 * int_of_pos q | Coq_xI q -> 2 * int_of_pos q + 1
let int_of_n (n : coq_N) : int = match n with N0 -> 0 | Npos p -> int_of_pos p
let z_of_int (n : int) : coq_Z =
  if n = 0 then Z0 else if n > 0 then Zpos (pos_of_int n) else Zneg (pos_of_int (-n))
let rec nat_of_int (n : int) : Datatypes.nat = if n <= 0 then Datatypes.O else Datatypes.S (nat_of_int (n - 1))
let rec int_of_nat (n : Datatypes.nat) : int = match n with Datatypes.O -> 0 | Datatypes.S m -> 1 + int_of_nat m

(* arbitrary-size decimal <-> N / Z, computed with the extracted arithmetic *)
let n_of_dec (s : string) : coq_N =
  let ten = n_of_int 10 in
  let acc = ref N0 in
  S.iter (fun c -> acc := BinNat.N.add (BinNat.N.mul !acc ten) (n_of_int (Char.code c - 48))) s;
  !acc
let dec_of_n (n : coq_N) : string =
  if n = N0 then "0" else begin
    let ten = n_of_int 10 in
    let b = Buffer.create 20 in
    let rec go n acc = if n = N0 then acc else
      let (q, r) = BinNat.N.div_eucl n ten in go q (Char.chr (48 + int_of_n r) :: acc) in
    L.iter (Buffer.add_char b) (go n []); Buffer.contents b end
let z_of_dec (s : string) : coq_Z =
  if S.length s > 0 && s.[0] = '-' then
    (match n_of_dec (S.sub s 1 (S.length s - 1)) with N0 -> Z0 | Npos p -> Zneg p)
  else (match n_of_dec s with N0 -> Z0 | Npos p -> Zpos p)
let dec_of_z (z : coq_Z) : string =
  match z with Z0 -> "0" | Zpos p -> dec_of_n (Npos p) | Zneg p -> "-" ^ dec_of_n (Npos p)

let bytes_tab = Array.init 256 n_of_int
let hexval c = match c with
  | '0'..'9' -> Char.code c - 48 | 'a'..'f' -> Char.code c - 87 | 'A'..'F' -> Char.code c - 55
  | _ -> failwith "bad hex"
let bytes_of_hex (s : string) : coq_N list =
  let n = S.length s / 2 in
  let rec go i acc = if i < 0 then acc else
    go (i - 1) (bytes_tab.(hexval s.[2*i] * 16 + hexval s.[2*i+1]) :: acc) in
  go (n - 1) []
let hex_of_bytes (l : coq_N list) : string =
  let b = Buffer.create 64 in
  L.iter (fun x -> Buffer.add_string b (Printf.sprintf "%02x" (int_of_n x))) l;
  Buffer.contents b
let string_of_coq (l : char list) : string = S.init (L.length l) (L.nth l)
let coq_of_string (s : string) : char list = L.init (S.length s) (S.get s)

let split_ws s = L.filter (fun x -> x <> "") (S.split_on_char ' ' s)

(* ---- modes ---- *)
let modes : (string * (string -> string)) list ref = ref []
let register name f = modes := (name, f) :: !modes

let () = register "c12" (fun line ->
  let key = bytes_of_hex line in
  let slot = Slot.slot_of Tables.crc16tab Tables.slot_num key in
  let crc = Slot.crc16_tab Tables.crc16tab key in
  let tag = Slot.hashtag key in
  Printf.sprintf "%d %d %s" (int_of_n slot) (int_of_n crc) (hex_of_bytes tag))

let () = register "c12spec" (fun line ->
  let key = bytes_of_hex line in
  Printf.sprintf "%d %d %s" (int_of_n (Slot.slot_spec key)) (int_of_n (Slot.crc16_spec key)) (hex_of_bytes (Slot.hashtag key)))
