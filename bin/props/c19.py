# C19 — hot keys: counters exact for tracked keys, bounded in size
import json, os, re
import vlib
from props.common import differential, add_corr

PROP = "C19"


def counter_oracle(case, impl):
    """capacity bound, exact counts since admission, eviction of a minimum — evaluated on the implementation's own dumps"""
    f = case.split(" ")
    cap, ops = int(f[0]), f[1:]
    counts = {}
    outs = impl.split(" ")
    for j, op in enumerate(ops):
        if j >= len(outs):
            return "missing output"
        o = outs[j]
        if o == "PANIC":
            return "panic at operation %d (%s)" % (j, op)
        if o.startswith("BADLINKS"):
            return "the forward and backward walks of the frequency list disagree after operation %d" % j
        if op == "L":
            got = dict(kv.split("=") for kv in o[6:-1].split(",") if kv)
            if {k: int(v) for k, v in got.items()} != counts:
                return "Latch returned %s, accesses since admission are %s" % (got, counts)
            counts = {}
            continue
        if op == "F":
            counts = {}
        else:
            k = op[1:]
            if cap == 0:
                pass
            elif k in counts:
                counts[k] += 1
            else:
                if len(counts) >= cap:
                    # the implementation chose a victim: it must have had a minimum count
                    now = {}
                    for node in o[3:-1].split("|"):
                        if node:
                            fr, ks = node.split(":")
                            for x in ks.split(","):
                                now[x] = int(fr)
                    gone = [x for x in counts if x not in now]
                    if len(gone) != 1:
                        return "a full counter did not evict exactly one key at operation %d" % j
                    if counts[gone[0]] != min(counts.values()):
                        return "evicted %s (count %d) while the minimum count is %d at operation %d" % (gone[0], counts[gone[0]], min(counts.values()), j)
                    del counts[gone[0]]
                counts[k] = 1
        now = {}
        for node in o[3:-1].split("|"):
            if node:
                fr, ks = node.split(":")
                for x in ks.split(","):
                    if x in now:
                        return "key %s tracked twice" % x
                    now[x] = int(fr)
        if len(now) > cap:
            return "tracks %d keys with capacity %d" % (len(now), cap)
        if now != counts:
            return "tracked counts %s, accesses since admission %s (operation %d)" % (now, counts, j)
    return None


def run(rep, tier, seed, replay):
    rep.cov["rule"] = ("counter: sequences of 1-40 operations (accesses over 2-11 keys with a hot subset, latch, free) at capacities 0,1,2,3,4,5,8,255; after every operation the real "
                       "linked structure is walked forwards and backwards (prev/next, itemTail, item->node, map) and compared with the model's node list; the oracle (bound, exact counts since "
                       "admission, minimum evicted) is evaluated on the implementation's dumps. collector: 1-8 rounds of collect/evictStale with a scripted minute clock (incl. advancing it "
                       "between and during rounds), 1-3 backend counters, capacities 1-6; every report is checked for size, duplicates, order and membership. "
                       "non-trivial = at least one access; distinct = distinct case line")
    rep.assumptions += ["the logarithmic counters are random: the collector's report is checked against the property itself, the model side proves Insert/evictStale keep the order for ANY values",
                        "concurrent readers of HotKeys() while collect() updates counters (a Go data race) are not exercised"]
    pr = vlib.prove(rep, PROP)
    vlib.prepare_runners()
    quick = tier == "quick"
    found = False
    rc = [json.load(open(replay))["case"]["line"]] if replay else None
    res = differential(rep, PROP, "c19", seed, 3000 if quick else 200000, tier, replay_cases=rc)
    cases, impl, model = res["cases"], res["impl"], res["models"]["c19"]
    mm = vlib.diff_lines(impl, model)
    add_corr(rep, "Counter operation sequences: the linked structure after every operation, implementation vs model", res, mm, len(set(cases)))
    rep.cov["samples"] += [{"case": cases[i][:200], "impl": impl[i][:300]} for i in (1, len(cases) - 1) if i < len(cases)]
    bad = [(i, counter_oracle(cases[i], impl[i])) for i in range(len(cases))]
    bad = [(i, w) for i, w in bad if w]
    if bad:
        i, what = min(bad, key=lambda x: len(cases[x[0]]))
        found = True
        rep.violation({"kind": "ops", "oracle": what, "case": {"line": cases[i], "format": "capacity then operations: i<key> access, L latch, F free"},
                       "impl": impl[i][:3000], "model": model[i][:3000], "failing_cases": len(bad)})
    elif mm:
        i = min(mm, key=lambda j: len(cases[j]))
        found = True
        rep.violation({"kind": "broken-tie", "correspondence": "c19: linked structure vs model", "case": {"line": cases[i]}, "impl": impl[i][:3000], "model": model[i][:3000]}, found_input=False)
    if not replay:
        res = differential(rep, PROP, "c19col", seed, 1500 if quick else 100000, tier)
        cases, impl = res["cases"], res["impl"]
        bad = [i for i in range(len(cases)) if any(v != "ok" for v in impl[i].split(" "))]
        add_corr(rep, "Collector rounds with a scripted clock: every report checked for size, duplicates, non-increasing heat, membership", res, bad, len(set(cases)))
        rep.cov["samples"] += [{"mode": "c19col", "case": cases[i][:300], "impl": impl[i]} for i in (0, len(cases) - 1) if i < len(cases)]
        if bad and not found:
            i = min(bad, key=lambda j: len(cases[j]))
            found = True
            rep.violation({"kind": "history", "oracle": "the HOTKEY report lists at most capacity keys, none twice, in non-increasing heat, only accessed keys",
                           "case": {"line": cases[i], "format": "capacity then rounds: collect@minute:key*hits,... or evict@minute"}, "impl": impl[i], "failing_cases": len(bad)})
        # end to end: requests through the real request path and filter chain; the backend connection's counter then holds
        # exactly the keys accessed (1..400 bytes long, some sharing prefixes of hundreds of bytes) with exactly their counts
        res = differential(rep, PROP, "c19e2e", seed, 150 if quick else 5000, tier, model_modes=[])
        cases, impl = res["cases"], res["impl"]
        bad = [i for i in range(len(cases)) if impl[i] != "ok"]
        add_corr(rep, "Requests through handleRequest and the filter chain: the connection's access counter lists exactly the accessed keys with their counts", res, bad, len(set(cases)))
        if bad and not found:
            i = bad[0]
            found = True
            rep.violation({"kind": "history", "mode": "c19e2e", "oracle": impl[i], "case": {"line": cases[i], "format": "seed nkeys (harness c19e2e -in <file>)"}, "impl": impl[i], "failing_cases": len(bad)})
    if not pr["ok"] and not found:
        rep.violation({"kind": "broken-tie", "theorem": pr.get("broken"), "detail": pr.get("tail"), "searched": "oracles hold on every dump and report"}, found_input=False)
