# C09 — listeners: stop and drain always complete and release what they hold
import json
import vlib
from props.common import differential, add_corr


def run(rep, tier, seed, replay):
    PROP = "C09"
    rep.cov["rule"] = ("both processors (Redis, TCP with echo backends) are started and stopped through proc.New/Start/StopListen/Stop at scripted points: Stop right after Start, while the "
                       "bind is retried (the port held by another socket), with 1 and 4 connections open (requests in flight), with the backends down, with backends that accept and never "
                       "answer, Drain followed by traffic on established connections and a new connect, then Stop; plus random cases: Stop 0-30 ms after Start while 0-4 connections are "
                       "being opened. Observed: Stop/StopListen return within 4 s, the port refuses afterwards, every client connection sees end-of-stream, no backend connection is left, "
                       "the process's goroutine count is back to its value before the service. Compared with the model's predictions (every interleaving of Stop with the Serve goroutine "
                       "must agree). non-trivial = a case in which Stop overlaps bind or open connections; distinct = distinct scenario line")
    rep.assumptions += ["backend connections closed and goroutine count are observed on the implementation and expected constant (the listener model does not contain them)",
                        "Stop called twice on a Redis processor closes a closed channel (not reachable from the controller, which stops each processor once): not exercised",
                        "the connection limit clause is checked in C20's harness and proved in C20_limit_respected / C20_under_limit_served"]
    pr = vlib.prove(rep, PROP)
    vlib.prepare_runners()
    rc = [json.load(open(replay))["case"]["line"]] if replay else None
    res = differential(rep, PROP, "c09", seed, 40 if tier == "quick" else 1500, tier, replay_cases=rc)
    cases, impl, model = res["cases"], res["impl"], res["models"]["c09"]
    mm = vlib.diff_lines(impl, model)
    add_corr(rep, "Lifecycle scenarios on both processors: what is observed after Stop/Drain vs the model", res, mm, len(set(cases)))
    rep.cov["samples"] += [{"case": cases[i], "impl": impl[i]} for i in (0, len(cases) - 1) if i < len(cases)]
    found = False
    if mm:
        i = mm[0]
        found = True
        rep.violation({"kind": "scenario", "oracle": "observed '%s', expected '%s'" % (impl[i], model[i]),
                       "case": {"line": cases[i], "format": "<redis|tcp> <scenario> [params] (harness c09 -in <file>)"}, "impl": impl[i], "model": model[i], "failing_cases": len(mm)})
    if not pr["ok"] and not found:
        rep.violation({"kind": "broken-tie", "theorem": pr.get("broken"), "detail": pr.get("tail"), "searched": "every scenario ended as the model predicts"}, found_input=False)
