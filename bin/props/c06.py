# C06 — connections go only to current healthy hosts, per the balancing policy
import json, os
import vlib
from props.common import differential, add_corr

PROP = "C06"


def run(rep, tier, seed, replay):
    rep.cov["rule"] = ("policies: round robin / random / least connection through the re-exported constructor with scripted random draws over candidate lists of 0-6 hosts with 0-3 active "
                       "connections each; round robin under 64 concurrent callers for n in {1,2,3,5,7,16} (each host must get exactly k of n*k picks); host set: the C15 operation sequences "
                       "(the candidate list and the removal latch of the stored object after Remove through another object). non-trivial = non-empty candidate list; distinct = distinct case line")
    rep.assumptions += ["the end-to-end TCP part (which backend receives each connection, closure on removal) is covered by the tcp relay harness when present",
                        "atomic increments hand out distinct consecutive values (Go's sync/atomic)"]
    pr = vlib.prove(rep, PROP)
    vlib.prepare_runners()
    quick = tier == "quick"
    found = False
    res = differential(rep, PROP, "c06lb", seed, 3000 if quick else 200000, tier)
    cases, impl, model = res["cases"], res["impl"], res["models"]["c06lb"]
    mm = vlib.diff_lines(impl, model)
    add_corr(rep, "balancer picks with scripted random draws (and concurrent round robin): implementation vs model", res, mm, len(set(cases)))
    rep.cov["samples"] += [{"case": cases[i], "impl": impl[i]} for i in (0, 1, 2, len(cases) - 1) if i < len(cases)]
    if mm:
        i = min(mm, key=lambda j: len(cases[j]))
        found = True
        rep.violation({"kind": "input", "oracle": "round robin: index = counter mod n, each of n hosts exactly k of n*k consecutive picks; random: draw mod n; least connection: the first sample only if strictly less busy",
                       "case": {"line": cases[i], "format": "policy connection-counts random-draws"}, "impl": impl[i], "expected": model[i], "disagreeing_cases": len(mm)})
    res = differential(rep, PROP, "c15", seed + 5, 1500 if quick else 100000, tier)
    cases, impl, model = res["cases"], res["impl"], res["models"]["c15"]
    mm = vlib.diff_lines(impl, model)
    add_corr(rep, "host.Set sequences (candidate list, removal latch of the stored object): implementation vs model", res, mm, len(set(cases)))
    if mm and not found:
        i = min(mm, key=lambda j: len(cases[j]))
        found = True
        rep.violation({"kind": "ops", "oracle": "candidates are the healthy members of the preferred tier; removing a host closes the stored object's removal latch",
                       "case": {"line": cases[i]}, "impl": impl[i], "expected": model[i], "disagreeing_cases": len(mm)})
    if not pr["ok"] and not found:
        rep.violation({"kind": "broken-tie", "theorem": pr.get("broken"), "detail": pr.get("tail"), "searched": "no disagreement"}, found_input=False)
