# C06 — connections go only to current healthy hosts, per the balancing policy
import json, os
import vlib
from props.common import differential, add_corr

PROP = "C06"


def run(rep, tier, seed, replay):
    rep.cov["rule"] = ("policies: round robin / random / least connection through the re-exported constructor with scripted random draws over candidate lists of 0-6 hosts with 0-3 active "
                       "connections each; round robin under 64 concurrent callers for n in {1,2,3,5,7,16} (each host must get exactly k of n*k picks); host set: the C15 operation sequences "
                       "(the candidate list and the removal latch of the stored object after Remove through another object). non-trivial = non-empty candidate list; distinct = distinct case line")
    rep.cov["rule"] += ("; end to end: the TCP processor (round robin / least connection / random) in front of 2-3 scripted backends that can refuse and come back, connections opened and "
                        "kept, closed, hosts removed and added, a host removed while the processor is still dialling a backend whose connects hang: after every step each host's ConnCount() (what least-connection reads) is compared with the model's count of relayed "
                        "connections, removal must close the kept connections of that host, no connection may reach a removed host, round robin must cycle")
    rep.assumptions += ["in the end-to-end run the random draws of least-connection/random are not scripted: only counts, membership and removal are compared there",
                        "atomic increments hand out distinct consecutive values (Go's sync/atomic)"]
    pr = vlib.prove(rep, PROP)
    vlib.prepare_runners()
    quick = tier == "quick"
    found = False
    res = differential(rep, PROP, "c06lb", seed, 3000 if quick else 200000, tier)
    cases, impl, model = res["cases"], res["impl"], res["models"]["c06lb"]
    mm = vlib.diff_lines(impl, model)
    add_corr(rep, "balancer picks with scripted random draws (and concurrent round robin): implementation vs model", res, mm, len(set(cases)))
    rep.cov["samples"] += [{"case": cases[i], "impl": impl[i]} for i in (0, 1, 2, len(cases) - 1) if i < len(cases)]
    if mm:
        i = min(mm, key=lambda j: len(cases[j]))
        found = True
        rep.violation({"kind": "input", "oracle": "round robin: index = counter mod n, each of n hosts exactly k of n*k consecutive picks; random: draw mod n; least connection: the first sample only if strictly less busy",
                       "case": {"line": cases[i], "format": "policy connection-counts random-draws"}, "impl": impl[i], "expected": model[i], "disagreeing_cases": len(mm)})
    res = differential(rep, PROP, "c15", seed + 5, 1500 if quick else 100000, tier)
    cases, impl, model = res["cases"], res["impl"], res["models"]["c15"]
    mm = vlib.diff_lines(impl, model)
    add_corr(rep, "host.Set sequences (candidate list, removal latch of the stored object): implementation vs model", res, mm, len(set(cases)))
    if mm and not found:
        i = min(mm, key=lambda j: len(cases[j]))
        found = True
        rep.violation({"kind": "ops", "oracle": "candidates are the healthy members of the preferred tier; removing a host closes the stored object's removal latch",
                       "case": {"line": cases[i]}, "impl": impl[i], "expected": model[i], "disagreeing_cases": len(mm)})
    # end to end: the TCP processor in front of scripted backends
    v = tcp_end_to_end(rep, PROP, seed, tier)
    if v and not found:
        found = True
        rep.violation(v)
    from props.common import concurrent_hostset
    v = concurrent_hostset(rep, PROP, seed + 13, tier)
    if v and not found:
        found = True
        rep.violation(v)
    if not pr["ok"] and not found:
        rep.violation({"kind": "broken-tie", "theorem": pr.get("broken"), "detail": pr.get("tail"), "searched": "no disagreement"}, found_input=False)


def tcp_end_to_end(rep, PROP, seed, tier):
    """the TCP processor in front of scripted backends: backend reached by every connection, per-host counts after every step,
    connections closed on removal vs the model; membership and round-robin fairness of the backends reached.  Returns a violation dict or None."""
    quick = tier == "quick"
    res = differential(rep, PROP, "c06tcp", seed + 9, 40 if quick else 3000, tier)
    cases, impl, model = res["cases"], res["impl"], res["models"]["c06tcp"]
    mm = vlib.diff_lines(impl, model)
    add_corr(rep, "TCP processor end to end: per-host connection counts after every step, connections closed on host removal vs the model", res, mm, len(set(cases)))
    rep.cov["samples"] += [{"case": cases[i][:200], "impl": impl[i][:200]} for i in (0, len(cases) - 1) if i < len(cases)]
    bad = []
    for i, c in enumerate(cases):
        hd, ops = c.split(" # ")
        policy, nb = hd.split()[0], int(hd.split()[1])
        removed, down, run_ = set(), set(), []
        for op in ops.split():
            if op[0] == "O":
                # opened while host k is being removed: what matters (reached k after its removal) shows as a connection to k
                # that the removal did not close, i.e. in the comparison with the model
                run_ = []
                continue
            if op[0] in "oH":
                r = op.split(":")[1]
                if r.startswith("b"):
                    b = int(r[1:])
                    if b in removed:
                        bad.append((i, "a connection reached backend %d after it was removed from the service" % b))
                    run_.append(b)
                    if policy == "rr" and not down and not removed and len(run_) >= nb and sorted(run_[-nb:]) != list(range(nb)):
                        bad.append((i, "round robin: %d consecutive connections reached backends %s" % (nb, run_[-nb:])))
                else:
                    run_ = []
            elif op[0] == "U":
                pass   # a configuration update with the same policy and hosts: the round robin goes on
            else:
                run_ = []
                x = int(op[1:]) if len(op) > 1 else 0
                if op[0] == "r":
                    removed.add(x)
                elif op[0] == "a":
                    removed.discard(x)
                elif op[0] == "d":
                    down.add(x)
                elif op[0] == "u":
                    down.discard(x)
    rep.cov["correspondence"]["membership and round-robin fairness of the backends reached"] = {"cases": len(cases), "disagreements": len(bad)}
    if mm or bad:
        if bad:
            i, what = min(bad, key=lambda x: len(cases[x[0]]))
        else:
            i = min(mm, key=lambda j: len(cases[j]))
            xs, ys = impl[i].split(" ; "), model[i].split(" ; ")
            k = [j for j in range(max(len(xs), len(ys))) if (xs[j] if j < len(xs) else None) != (ys[j] if j < len(ys) else None)][0]
            what = "after step %d: observed '%s', expected '%s' (backend reached / connections closed, then each host's connection count)" % (k, xs[k] if k < len(xs) else "", ys[k] if k < len(ys) else "")
        return {"kind": "history", "oracle": what, "case": {"line": cases[i], "format": "policy backends # o[:outcome] open, c<i> close, d<b>/u<b> backend refuses/accepts, r<b>/a<b> remove/add host"},
                "impl": impl[i], "expected": model[i], "disagreeing_cases": len(mm) + len(bad)}
    return None
