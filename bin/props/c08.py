# C08 — running services converge to the configured services and endpoints
import json, os, re
import vlib
from props.common import differential, add_corr

PROP = "C08"


def eps_of(s):
    out = []
    for t in s.split(","):
        if t:
            out.append((t.rstrip("b"), t.endswith("b")))
    return out


def spec(case):
    """the property, computed from the history alone: name -> (config id, {addr: backup}) for every service with a
    valid configuration and an endpoint list; plus the set of services that were handed an invalid configuration
    since they were last added (the known finding's signature)"""
    ops = case.split(" ")
    ops = [o for o in ops if o[0] == "S"] + [o for o in ops if o[0] != "S"]
    sv = {}   # name -> [cfg (id, valid) or None, eps (ordered dict addr->backup) or None]
    tainted = set()
    for o in ops:
        b = o[1:]
        if o[0] == "S":
            n, c, e = b.split(":")
            d = {}
            for a, bk in eps_of(e):
                d[a] = bk
            sv[n] = [(c[:-1], c[-1] == "v"), d]
        elif o[0] == "D":
            a, r = b.split("/")
            for n in a.split(","):
                if n and n not in sv:
                    sv[n] = [None, None]
                    tainted.discard(n)
            for n in r.split(","):
                if n and n in sv:
                    del sv[n]
        elif o[0] == "C":
            n, c = b.split(":")
            if n in sv:
                sv[n][0] = (c[:-1], c[-1] == "v")
                if c[-1] != "v":
                    tainted.add(n)
        elif o[0] == "E":
            n, ar = b.split(":")
            a, r = ar.split("/")
            a, r = eps_of(a), eps_of(r)
            if n in sv and (a or r):
                d = dict(sv[n][1] or {})
                for x, _ in r:
                    d.pop(x, None)
                for x, bk in a:
                    if x not in d:
                        d[x] = bk
                sv[n][1] = d
    want = {}
    for n, (c, d) in sv.items():
        if c is not None and c[1] and d is not None:
            want[n] = "%s=%s[%s]" % (n, c[0], ",".join(sorted(x + ("b" if bk else "") for x, bk in d.items())))
    return want, tainted


def parse_out(line):
    got = {}
    for t in line.split(" "):
        if t:
            n = t.split("=")[0]
            if n in got:
                return None
            got[n] = t
    return got


def run(rep, tier, seed, replay):
    rep.cov["rule"] = ("histories of 1-25 discovery updates over 3 dynamic and up to 2 static services (dependency add/remove, configuration updates, endpoint updates with 0-3 additions and "
                       "0-2 removals over 5 addresses, main/backup, incl. the same address in both lists, removals before any addition, updates for removed services; thorough adds invalid "
                       "configurations) are driven through the real config.Config handlers and a real controller.Controller reading the real 32-slot channel, started after 0-11 updates "
                       "(the store runs ahead; it is started early when the channel fills) with a recording processor registered through proc.RegisterBuilder; the processors that exist once "
                       "the channel is drained, their configuration and their host sets are compared with the model and with the property computed from the history alone (python). "
                       "non-trivial = at least one processor expected; distinct = distinct history")
    rep.assumptions += ["proc.New and Start succeed (a port that cannot be bound leaves a service without a processor: a runtime fact outside the model)",
                        "the discovery client (gRPC streams) is not modelled: histories enter at the three update handlers it calls",
                        "the controller goroutine's interleaving with the store is exercised by starting it late and by the Go scheduler, not enumerated; the theorem C08_schedules covers every interleaving of the FIFO model"]
    pr = vlib.prove(rep, PROP)
    vlib.prepare_runners()
    quick = tier == "quick"
    rc = [json.load(open(replay))["case"]["line"]] if replay else None
    res = differential(rep, PROP, "c08", seed, 400 if quick else 20000, tier, replay_cases=rc, model_modes=["c08", "c08spec"])
    cases, impl, model, mspec = res["cases"], res["impl"], res["models"]["c08"], res["models"]["c08spec"]
    mm = vlib.diff_lines(impl, model)
    nontriv = len({c for c in cases if spec(c)[0]})
    add_corr(rep, "Discovery histories through the real store, channel and controller vs the model's converge", res, mm, nontriv)
    rep.cov["samples"] += [{"case": cases[i][:300], "impl": impl[i][:300]} for i in (0, len(cases) - 1) if i < len(cases)]
    found = False
    bad, known = [], []
    for i, c in enumerate(cases):
        want, tainted = spec(c)
        got = parse_out(impl[i])
        if got is None:
            bad.append((i, "two processors for one service"))
            continue
        diff = sorted(n for n in set(want) | set(got) if want.get(n) != got.get(n))
        if not diff:
            continue
        if all(n in tainted for n in diff):
            known.append((i, diff))
        else:
            n = [x for x in diff if x not in tainted][0]
            bad.append((i, "service %s: expected %s, running %s" % (n, want.get(n, "no processor"), got.get(n, "no processor"))))
    rep.cov["correspondence"]["The property computed from the history alone vs the implementation's final processors"] = {
        "cases": len(cases), "disagreements": len(bad), "known_finding_cases": len(known)}
    # the python oracle and the model-side spec (store model) must agree as well, or one of them misreads the history
    for i, c in enumerate(cases):
        want, _ = spec(c)
        if " ".join(sorted(want.values())) != mspec[i]:
            if not found:
                found = True
                rep.violation({"kind": "broken-tie", "correspondence": "c08spec: store model vs the history-level specification", "case": {"line": c},
                               "model": mspec[i], "spec": " ".join(sorted(want.values()))}, found_input=False)
    if known:
        for e in rep.known:
            if e.get("status") == "known" and e["id"] == "C08-invalid-config-then-corrected":
                rep.known_finding(e)
    if bad:
        i, what = min(bad, key=lambda x: len(cases[x[0]]))
        found = True
        rep.violation({"kind": "history", "oracle": what, "case": {"line": cases[i], "format": "S<n>:<cfg><v|i>:<eps> static; D<added>/<removed>; C<n>:<cfg><v|i>; E<n>:<added>/<removed>; addresses with suffix b are backups"},
                       "impl": impl[i], "model": model[i], "failing_cases": len(bad)})
    elif mm and not found:
        i = min(mm, key=lambda j: len(cases[j]))
        found = True
        rep.violation({"kind": "broken-tie", "correspondence": "c08: final processors vs model", "case": {"line": cases[i]}, "impl": impl[i], "model": model[i]}, found_input=False)
    if not pr["ok"] and not found:
        rep.violation({"kind": "broken-tie", "theorem": pr.get("broken"), "detail": pr.get("tail"), "searched": "implementation agrees with the model and the history-level specification on every history"}, found_input=False)
