# C18 — SCAN through the proxy visits every node once and terminates
import json, os
import vlib
from props.common import differential, add_corr

PROP = "C18"


def run(rep, tier, seed, replay):
    rep.cov["rule"] = ("iteration: a client loop from cursor 0 through the real handleScan/Convert/reply hook against 1-6 scripted nodes with cursor chains of length 0-4 whose cursors "
                       "are small, at/above 2^47, just below 2^48 or random 48-bit values, 0-3 keys per batch, with and without MATCH/COUNT (pass-through checked); "
                       "single calls: client cursors (boundaries around 2^47/2^48/2^63/2^64, negative, non-numeric, node index around the host count) x scripted node replies "
                       "(arrays with boundary cursors, errors, non-arrays, non-numeric cursor). non-trivial = at least one node / a cursor argument; distinct = distinct case line")
    rep.assumptions += ["node cursors are below 2^48 and a node's own cursor sequence returns to 0 (hypothesis of C18_iterate)",
                        "the healthy host list is unchanged during an iteration"]
    pr = vlib.prove(rep, PROP)
    vlib.prepare_runners()
    quick = tier == "quick"
    found = False
    res = differential(rep, PROP, "c18iter", seed, 400 if quick else 20000, tier)
    cases, impl, model = res["cases"], res["impl"], res["models"]["c18iter"]
    mm = vlib.diff_lines(impl, model)
    add_corr(rep, "client SCAN iteration over scripted nodes: keys, (node, cursor) hits and number of calls, implementation vs model", res, mm, len(set(cases)))
    rep.cov["samples"] += [{"mode": "c18iter", "case": cases[i][:200], "impl": impl[i][:200]} for i in (0, len(cases) - 1) if i < len(cases)]
    if mm:
        i = min(mm, key=lambda j: len(cases[j]))
        found = True
        rep.violation({"kind": "history", "mode": "c18iter",
                       "oracle": "from cursor 0 the iteration must end with cursor 0 having returned every node's keys, visiting each node once along its own cursor chain, passing MATCH/COUNT through",
                       "case": {"line": cases[i]}, "impl": impl[i][:3000], "expected": model[i][:3000], "disagreeing_cases": len(mm)})
    res = differential(rep, PROP, "c18step", seed, 4000 if quick else 200000, tier)
    cases, impl, model = res["cases"], res["impl"], res["models"]["c18step"]
    mm = vlib.diff_lines(impl, model)
    add_corr(rep, "single SCAN calls with scripted node replies: reply and forwarded sub-request, implementation vs model", res, mm, len(set(cases)))
    rep.cov["samples"] += [{"mode": "c18step", "case": cases[i][:200], "impl": impl[i][:200]} for i in (0, len(cases) - 1) if i < len(cases)]
    if mm and not found:
        i = min(mm, key=lambda j: len(cases[j]))
        found = True
        rep.violation({"kind": "input", "mode": "c18step", "oracle": "cursor past the last node -> terminating reply; otherwise the node named by the cursor's high 16 bits is asked with the low 48 bits and the reply cursor re-encodes (node, node cursor)",
                       "case": {"line": cases[i]}, "impl": impl[i][:3000], "expected": model[i][:3000], "disagreeing_cases": len(mm)})
    if not pr["ok"] and not found:
        rep.violation({"kind": "broken-tie", "theorem": pr.get("broken"), "detail": pr.get("tail"), "searched": "iterations and single calls agree with the model"}, found_input=False)
