# C04 — slot migration and failover are invisible to clients
import json
import vlib
from props.common import differential, add_corr, strict_routing


def run(rep, tier, seed, replay):
    PROP = "C04"
    rep.cov["rule"] = ("a sequential client (single- and multi-key commands over 7 keys, two of them sharing a hash tag) against a simulated cluster of 2-4 nodes through the real processor, "
                       "interleaved with migration steps on those keys' slots: begin (MIGRATING/IMPORTING), move one key, finish; steps also fire inside a request's redirect chain (at the moment "
                       "a node sends ASK, before the proxy's next hop); waits that let the routing table refresh or stay stale; failovers (a node crashes, a replica with its data takes over "
                       "under a new address, never the last configured host); in a third of the cases a second connection reads another key continuously. No periodic refresh: the table only "
                       "follows triggers. Compared with the model: every reply, the final data merged over all nodes, the number of executions per request (exactly one per key), no MOVED/ASK "
                       "at the client, no key lost or duplicated, a successful refresh after each failover. non-trivial = at least one migration step and one request; distinct = distinct line")
    rep.assumptions += ["C04_request excludes beginning a NEW migration of the request's own slot between two hops of that request (Redis's ASKING flag is not versioned: two complete "
                        "migrations of one slot inside one redirect hop would let a stale ASKING execute on the wrong node); the harness generates none",
                        "steps inside a redirect chain are exercised at ASK time for single-key requests only (for multi-key requests the firing child would depend on timing)",
                        "failover: the replica holds the same data (synchronous replication assumed); requests that meet the dead node before the refresh may answer a connection error",
                        "ASKING and the command it announces are enqueued together since fix 97232ec; the model's redirect chain is atomic per hop"]
    pr = vlib.prove(rep, PROP)
    vlib.prepare_runners()
    rc = [json.load(open(replay))["case"]["line"]] if replay else None
    res = differential(rep, PROP, "c04", seed, 80 if tier == "quick" else 1800, tier, replay_cases=rc)
    cases, impl, model = res["cases"], res["impl"], res["models"]["c04"]
    mm = vlib.diff_lines(impl, model)
    add_corr(rep, "Client programs with migrations and failovers: replies, final data, executions per request vs the model", res, mm,
             len({c for c in cases if (" mb " in c or " fo " in c) and " q " in c}))
    rep.cov["samples"] += [{"case": cases[i][:400], "impl": impl[i][:400]} for i in (0, len(cases) - 1) if i < len(cases)]
    found = False
    if mm:
        # classify: the property's own oracle first
        best = None
        for i in mm:
            pi, pm = impl[i].split(" || "), model[i].split(" || ")
            what = None
            if len(pi) < 4:
                what = "no result: " + impl[i][:200]
            elif pi[3] != "redirected-to-client=0 lost-or-duplicated-keys=0":
                what = pi[3]
            elif "NO-REFRESH-AFTER-FAILOVER" in pi[0]:
                what = "the routing table was not refreshed after a failover although configured hosts were reachable"
            elif "BG-" in pi[0]:
                what = "the background connection was disturbed: " + pi[0][pi[0].index("BG-"):][:200]
            elif pi[0] != pm[0]:
                xs, ys = pi[0].split(" ; "), pm[0].split(" ; ")
                j = [k for k in range(max(len(xs), len(ys))) if (xs[k] if k < len(xs) else None) != (ys[k] if k < len(ys) else None)][0]
                what = "reply %d is %s, a single server answers %s" % (j, (xs[j] if j < len(xs) else "<nothing>")[:150], (ys[j] if j < len(ys) else "<nothing>")[:150])
            elif pi[1] != pm[1]:
                what = "final data differs from the single server's: %s vs %s" % (pi[1][:200], pm[1][:200])
            elif pi[2] != pm[2]:
                what = "executions per request %s, expected exactly once per key: %s" % (pi[2], pm[2])
            if what and (best is None or len(cases[i]) < len(cases[best[0]])):
                best = (i, what)
        if best:
            i, what = best
            found = True
            rep.violation({"kind": "history", "oracle": what, "case": {"line": cases[i], "format": "nodes layout bg # items: q <request> [@ask steps] | mb slot to | mk hexkey | mf slot | fo node | w"},
                           "impl": impl[i][:4000], "model": model[i][:4000], "failing_cases": len(mm)})
    v = strict_routing(rep, PROP, seed + 3, 25 if tier == "quick" else 800, tier)
    if v and not found:
        found = True
        rep.violation(v)
    if not pr["ok"] and not found:
        rep.violation({"kind": "broken-tie", "theorem": pr.get("broken"), "detail": pr.get("tail"), "searched": "replies, data and execution counts agree with the model on every history"}, found_input=False)
