# C05 — TCP: bytes are relayed unmodified, in order, both ways, with half-close
import json
import vlib
from props.common import differential, add_corr


def run(rep, tier, seed, replay):
    PROP = "C05"
    rep.cov["rule"] = ("the real TCP processor between a scripted client and a scripted backend: streams of 0, 1, 2, 100, 4095, 16383, 16384, 16385, 40000, 100000 or random (<70000) bytes in "
                       "each direction, written byte by byte with pauses, in pieces of 1-50 or 1-5000 bytes, or at once; a paced stream (a byte every 50 ms for 3 s) through a service whose idle timeout is 2 s; 6 MiB towards a backend that has half-closed and reads slowly; a backend that has finished and starts to read 1.2 s late through a service whose idle timeout is 0.4 s (8 MiB pile up in the relay and must still arrive); four orders: the client half-closes first and the backend "
                       "answers only after it has seen end-of-stream, the reverse, both at once, and lockstep (a request/response exchange: each chunk - 1 byte, 16384 then 1 byte, ... - is sent only after the previous one has arrived at the other end, and must arrive within 1.5 s while the connection is open). Each side's received bytes (length + FNV-1a) and whether it saw a clean end-of-stream are "
                       "compared with the model relaying the same data under a spread of read sizes; the processor's upstream connection counters after the connection "
                       "(total/destroyed/active = 1/1/0, C20). non-trivial = more than one buffer in some direction or a byte-by-byte stream; distinct = distinct line")
    rep.assumptions += ["the proxy's own read sizes are not observable: C05_exact holds for every sequence of read sizes, the model run uses one",
                        "the idle timeout (10 min in the harness configuration) and connection resets are not exercised"]
    pr = vlib.prove(rep, PROP)
    vlib.prepare_runners()
    rc = [json.load(open(replay))["case"]["line"]] if replay else None
    res = differential(rep, PROP, "c05", seed, 60 if tier == "quick" else 3000, tier, replay_cases=rc)
    cases, impl, model = res["cases"], res["impl"], res["models"]["c05"]
    # streams too large for the inductive byte lists of the extracted model: the expectation (C05_exact: delivered = sent)
    # is computed here from the same data formula
    def fnv(bs):
        h = 2166136261
        for b in bs:
            h = ((h ^ b) * 16777619) & 0xFFFFFFFF
        return h
    for i, c in enumerate(cases):
        if model[i] == "LARGE":
            f = c.split()
            sd, nc, nb = int(f[0]), int(f[1]), int(f[2])
            dc = bytes((k * 131 + sd * 17 + k // 256) & 255 for k in range(nc))
            db = bytes((k * 137 + sd * 29 + k // 256 + 7) & 255 for k in range(nb))
            model[i] = "c2b=%d:%08x eof=1 b2c=%d:%08x eof=1 upstream=1/1/0" % (nc, fnv(dc), nb, fnv(db))
    mm = vlib.diff_lines(impl, model)
    add_corr(rep, "Relayed streams: bytes and end-of-stream on both sides, upstream counters vs the model", res, mm,
             len({c for c in cases if int(c.split()[1]) > 16384 or int(c.split()[2]) > 16384 or c.split()[4] == "1" or c.split()[5] == "1"}))
    rep.cov["samples"] += [{"case": cases[i], "impl": impl[i]} for i in (0, len(cases) - 1) if i < len(cases)]
    found = False
    if mm:
        i = min(mm, key=lambda j: int(cases[j].split()[1]) + int(cases[j].split()[2]))
        found = True
        rep.violation({"kind": "stream", "oracle": "received '%s', the relay must deliver '%s'" % (impl[i], model[i]),
                       "case": {"line": cases[i], "format": "seed bytes-client-to-backend bytes-backend-to-client order(c|b|x) client-chunk backend-chunk"},
                       "impl": impl[i], "model": model[i], "failing_cases": len(mm)})
    if not pr["ok"] and not found:
        rep.violation({"kind": "broken-tie", "theorem": pr.get("broken"), "detail": pr.get("tail"), "searched": "every stream arrived intact with its end-of-stream"}, found_input=False)
