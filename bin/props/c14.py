# C14 — only supported commands reach backends; writes only reach masters
import json, os
import vlib
from props.common import differential, add_corr, strict_routing

PROP = "C14"


def same(impl, model):
    """reply equal; the sub-requests that reached backends equal as multisets, each at one of the model's candidates"""
    if " | " not in impl or " | " not in model:
        return impl == model
    ri, si = impl.split(" | ", 1)
    rm, sm = model.split(" | ", 1)
    if ri != rm:
        return False
    a = sorted((t.split("=", 1)[1], t.split("=", 1)[0]) for t in si.split(" ") if t)
    b = sorted((t.split("=", 1)[1], t.split("=", 1)[0]) for t in sm.split(" ") if t)
    if len(a) != len(b):
        return False
    for (bi, ai), (bm, cm) in zip(a, b):
        if bi != bm or ai not in cm.split(","):
            return False
    return True


def run(rep, tier, seed, replay):
    rep.cov["rule"] = ("requests run through the real handleRequest/handlers/chooseHost against fake backends on 6 random cluster layouts (1-5 masters, 0-2 replicas each, contiguous slot "
                       "ranges, sometimes an unassigned slot) x 3 read strategies: every Redis command name (200+) in 6 letter-case variants incl. non-ASCII look-alikes and near misses with "
                       "0-3 arguments; multi-key commands; EVAL; random names; values that are not requests. Observed: the reply and every (backend address, body) that reached a backend. "
                       "non-trivial = request array non-empty; distinct = distinct case line")
    rep.assumptions += ["Redis' own command flags (write / read-only) are transcribed in coq/Model/RedisFlags.v",
                        "strings.ToLower/bytes.ToLower map only U+0130 and U+212A onto ASCII letters (checked by the harness on every run)",
                        "a replica-eligible request is checked for membership in the candidate set (the implementation picks by wall-clock nanoseconds)"]
    pr = vlib.prove(rep, PROP)
    vlib.prepare_runners()
    quick = tier == "quick"
    res = differential(rep, PROP, "c14", seed, 3000 if quick else 100000, tier, model_modes=["c14", "c14spec", "c14master"])
    cases, impl, model, spec = res["cases"], res["impl"], res["models"]["c14"], res["models"]["c14spec"]
    mm = [i for i in range(len(cases)) if not same(impl[i], model[i])]
    add_corr(rep, "handleRequest + chooseHost against fake backends: reply and (address, body) of everything that reached a backend, implementation vs model", res, mm, len(set(cases)))
    rep.cov["samples"] += [{"case": cases[i].split(" ", 3)[3][:200], "strategy": cases[i][0], "impl": impl[i][:300]} for i in (0, 700, len(cases) - 1) if i < len(cases)]
    found = False
    # the specification side: the same dispatch with Redis' own read-only flags; the implementation may be
    # more conservative (master only) but never send a request to a backend the specification excludes
    def within(i):
        if " | " not in impl[i] or " | " not in spec[i]:
            return impl[i] == spec[i]
        (ri, si), (rm, sm) = impl[i].split(" | ", 1), spec[i].split(" | ", 1)
        a = sorted((t.split("=", 1)[1], t.split("=", 1)[0]) for t in si.split(" ") if t)
        b = sorted((t.split("=", 1)[1], t.split("=", 1)[0]) for t in sm.split(" ") if t)
        c = sorted((t.split("=", 1)[1], t.split("=", 1)[0]) for t in res["models"]["c14master"][i].split(" | ", 1)[1].split(" ") if t)
        return ri == rm and len(a) == len(b) == len(c) and all(x[0] == y[0] and (x[1] in y[1].split(",") or x[1] in z[1].split(",")) for x, y, z in zip(a, b, c))
    ms = [i for i in range(len(cases)) if not within(i)]
    rep.cov["correspondence"]["impl_outside_specification"] = len(ms)
    if ms:
        i = min(ms, key=lambda j: len(cases[j]))
        found = True
        rep.violation({"kind": "input", "oracle": "by Redis' own command flags this request may only reach the backends listed; the implementation sent it elsewhere (or answered differently)",
                       "case": {"line": cases[i]}, "impl": impl[i], "allowed": spec[i], "failing_cases": len(ms), "broken_theorem": pr.get("broken")})
    elif mm:
        i = min(mm, key=lambda j: len(cases[j]))
        found = True
        rep.violation({"kind": "input", "oracle": "unsupported names (ASCII case-insensitive) must be answered locally with an error and reach no backend; PING/QUIT/SELECT/INFO/TIME/HOTKEY are local; "
                       "a non-read-only request goes to the master owning the key's slot; a read-only one to that master or its replicas as the strategy allows (model proved to satisfy this)",
                       "case": {"line": cases[i]}, "impl": impl[i], "expected": model[i], "disagreeing_cases": len(mm)})
    # the routing table over a history: a redirection that does not change a slot's owner (ASK) must not change where its
    # commands go - end to end through the real processor against the cluster simulator
    v = strict_routing(rep, PROP, seed + 3, 20 if quick else 1000, tier)
    if v and not found:
        found = True
        rep.violation(v)
    # replica assignments, unreachable masters, lost connections and load between / during refreshes (end to end): reads may go
    # to replicas of the owning master only, writes to the master
    import binascii
    def e2e_oracle(cases2, impl2, triggered):
        bad = []
        for i, c in enumerate(cases2):
            hd, ops = c.split(" # ")
            strategy, layout = int(hd.split()[0]), hd.split()[2]
            owner = {}
            ranges = []
            for r_ in layout.split(","):
                lohi, nd = r_.split("=")
                lo, hi = lohi.split("-")
                ranges.append((int(lo), int(hi), int(nd)))
            def owner_of(hexkey):
                sl = binascii.crc_hqx(bytes.fromhex(hexkey), 0) % 16384
                return [nd for lo, hi, nd in ranges if lo <= sl <= hi][0]
            outs = impl2[i].split()
            store, down, wrong_in_segment, k = {}, set(), 0, 0
            for o in ops.split():
                if o[0] in "amk" or (o[0] in "du" and not o[1:].isdigit()):
                    wrong_in_segment = 0
                    continue
                if o[0] == "d":
                    down.add(int(o[1:])); wrong_in_segment = 0; continue
                if o[0] == "u":
                    down.discard(int(o[1:])); wrong_in_segment = 0; continue
                if o[0] == "w":
                    continue
                if k >= len(outs):
                    bad.append((i, "fewer results than requests: %s" % impl2[i][:200])); break
                r = outs[k]; k += 1
                if o[0] == "L":
                    if r != "load:ok":
                        bad.append((i, "load of fresh keys over four connections: " + r)); break
                    continue
                reply, _, tag = r.partition("@")
                key = o[1:]
                owner_down = owner_of(key) in down
                if o[0] == "s":
                    want, tags = "S4f4b", ("M",)
                else:
                    want, tags = ("B76" if key in store else "Bn"), (("M",) if strategy == 0 else ("M", "R"))
                if owner_down and reply.startswith("E") and tag == "none":
                    continue                                   # the owner is unreachable: an error, nothing sent elsewhere
                if triggered and tag.startswith("X") and reply == want and wrong_in_segment == 0:
                    wrong_in_segment = 1                        # the one redirection that tells the proxy about the change
                    if o[0] == "s":
                        store[key] = True
                    continue
                if reply != want or tag not in tags:
                    bad.append((i, "%s %s: reply %s first sent to %s; a single server answers %s and the command may go to %s only (M = the master owning the slot, R = one of its replicas)%s"
                                % ("SET" if o[0] == "s" else "GET", key, reply, tag or "nobody", want, "/".join(tags),
                                   "; the refresh triggered by the first redirection should have corrected the table" if triggered and tag.startswith("X") else "")))
                    break
                if o[0] == "s":
                    store[key] = True
        return bad
    fmt_ = ("strategy(0 master,1 both,2 replica) masters layout # ar<m> add replica of m | mr<r>,<m> r now replicates m | d<m>/u<m> master stops/returns | k<n> connections of n reset | "
            "L load | w refresh | g<hexkey> | s<hexkey>")
    for mode, n_, what in (("c14e2e", 12 if quick else 600, "Replica assignments changing, masters unreachable, connections lost, load during refreshes (periodic refresh, end to end)"),
                           ("c14e2et", 8 if quick else 400, "Replica reassignment and lost connections with no periodic refresh (the table follows redirections only, end to end)")):
        res = differential(rep, PROP, mode, seed + 7, n_, tier, model_modes=[])
        cases2, impl2 = res["cases"], res["impl"]
        bad = e2e_oracle(cases2, impl2, mode == "c14e2et")
        add_corr(rep, what + ": first hop of every command and its reply vs the property's oracle", res, [b[0] for b in bad], len(set(cases2)))
        if bad and not found:
            found = True
            i, what_ = min(bad, key=lambda x: len(cases2[x[0]]))
            rep.violation({"kind": "history", "mode": mode, "oracle": what_, "case": {"line": cases2[i], "format": fmt_}, "impl": impl2[i], "failing_cases": len(bad)})
    if not pr["ok"] and not found:
        rep.violation({"kind": "broken-tie", "theorem": pr.get("broken"), "detail": pr.get("tail"),
                       "searched": "%d requests: implementation agrees with the model" % len(cases)}, found_input=False)
