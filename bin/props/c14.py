# C14 — only supported commands reach backends; writes only reach masters
import json, os
import vlib
from props.common import differential, add_corr, strict_routing, replica_routing

PROP = "C14"


def same(impl, model):
    """reply equal; the sub-requests that reached backends equal as multisets, each at one of the model's candidates"""
    if " | " not in impl or " | " not in model:
        return impl == model
    ri, si = impl.split(" | ", 1)
    rm, sm = model.split(" | ", 1)
    if ri != rm:
        return False
    a = sorted((t.split("=", 1)[1], t.split("=", 1)[0]) for t in si.split(" ") if t)
    b = sorted((t.split("=", 1)[1], t.split("=", 1)[0]) for t in sm.split(" ") if t)
    if len(a) != len(b):
        return False
    for (bi, ai), (bm, cm) in zip(a, b):
        if bi != bm or ai not in cm.split(","):
            return False
    return True


def run(rep, tier, seed, replay):
    rep.cov["rule"] = ("requests run through the real handleRequest/handlers/chooseHost against fake backends on 6 random cluster layouts (1-5 masters, 0-2 replicas each, contiguous slot "
                       "ranges, sometimes an unassigned slot) x 3 read strategies: every Redis command name (200+) in 6 letter-case variants incl. non-ASCII look-alikes and near misses with "
                       "0-3 arguments; multi-key commands; EVAL; random names; values that are not requests. Observed: the reply and every (backend address, body) that reached a backend. "
                       "non-trivial = request array non-empty; distinct = distinct case line")
    rep.assumptions += ["Redis' own command flags (write / read-only) are transcribed in coq/Model/RedisFlags.v",
                        "strings.ToLower/bytes.ToLower map only U+0130 and U+212A onto ASCII letters (checked by the harness on every run)",
                        "a replica-eligible request is checked for membership in the candidate set (the implementation picks by wall-clock nanoseconds)"]
    pr = vlib.prove(rep, PROP)
    vlib.prepare_runners()
    quick = tier == "quick"
    res = differential(rep, PROP, "c14", seed, 3000 if quick else 50000, tier, model_modes=["c14", "c14spec", "c14master"])
    cases, impl, model, spec = res["cases"], res["impl"], res["models"]["c14"], res["models"]["c14spec"]
    mm = [i for i in range(len(cases)) if not same(impl[i], model[i])]
    add_corr(rep, "handleRequest + chooseHost against fake backends: reply and (address, body) of everything that reached a backend, implementation vs model", res, mm, len(set(cases)))
    rep.cov["samples"] += [{"case": cases[i].split(" ", 3)[3][:200], "strategy": cases[i][0], "impl": impl[i][:300]} for i in (0, 700, len(cases) - 1) if i < len(cases)]
    found = False
    # the specification side: the same dispatch with Redis' own read-only flags; the implementation may be
    # more conservative (master only) but never send a request to a backend the specification excludes
    def within(i):
        if " | " not in impl[i] or " | " not in spec[i]:
            return impl[i] == spec[i]
        (ri, si), (rm, sm) = impl[i].split(" | ", 1), spec[i].split(" | ", 1)
        a = sorted((t.split("=", 1)[1], t.split("=", 1)[0]) for t in si.split(" ") if t)
        b = sorted((t.split("=", 1)[1], t.split("=", 1)[0]) for t in sm.split(" ") if t)
        c = sorted((t.split("=", 1)[1], t.split("=", 1)[0]) for t in res["models"]["c14master"][i].split(" | ", 1)[1].split(" ") if t)
        return ri == rm and len(a) == len(b) == len(c) and all(x[0] == y[0] and (x[1] in y[1].split(",") or x[1] in z[1].split(",")) for x, y, z in zip(a, b, c))
    ms = [i for i in range(len(cases)) if not within(i)]
    rep.cov["correspondence"]["impl_outside_specification"] = len(ms)
    if ms:
        i = min(ms, key=lambda j: len(cases[j]))
        found = True
        rep.violation({"kind": "input", "oracle": "by Redis' own command flags this request may only reach the backends listed; the implementation sent it elsewhere (or answered differently)",
                       "case": {"line": cases[i]}, "impl": impl[i], "allowed": spec[i], "failing_cases": len(ms), "broken_theorem": pr.get("broken")})
    elif mm:
        i = min(mm, key=lambda j: len(cases[j]))
        found = True
        rep.violation({"kind": "input", "oracle": "unsupported names (ASCII case-insensitive) must be answered locally with an error and reach no backend; PING/QUIT/SELECT/INFO/TIME/HOTKEY are local; "
                       "a non-read-only request goes to the master owning the key's slot; a read-only one to that master or its replicas as the strategy allows (model proved to satisfy this)",
                       "case": {"line": cases[i]}, "impl": impl[i], "expected": model[i], "disagreeing_cases": len(mm)})
    # the routing table over a history: a redirection that does not change a slot's owner (ASK) must not change where its
    # commands go - end to end through the real processor against the cluster simulator
    v = strict_routing(rep, PROP, seed + 3, 20 if quick else 1000, tier)
    if v and not found:
        found = True
        rep.violation(v)
    # replica assignments, unreachable masters, lost connections and load between / during refreshes (end to end): reads may go
    # to replicas of the owning master only, writes to the master
    v = replica_routing(rep, PROP, seed + 7, tier)
    if v and not found:
        found = True
        rep.violation(v)
    if not pr["ok"] and not found:
        rep.violation({"kind": "broken-tie", "theorem": pr.get("broken"), "detail": pr.get("tail"),
                       "searched": "%d requests: implementation agrees with the model" % len(cases)}, found_input=False)
