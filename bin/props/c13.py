# C13 — transparent compression never changes what clients read back
import json, os
import vlib
from props.common import differential, add_corr

PROP = "C13"
HDR = "285024000d0a"
BANNED = {"append", "eval", "setbit", "getbit", "setrange", "getrange"}


def run(rep, tier, seed, replay):
    rep.cov["rule"] = ("operation sequences (2-12 ops) through the real handlers + compression filter + decompression hooks against a fake single store behind two backends: "
                       "enable/disable and threshold changes (0,1,8,16,64,100,1000), SET/SETNX/GETSET/SETEX/PSETEX/MSET/HSET/HMSET/HSETNX with values whose length sits around the threshold "
                       "and whose content is constant / periodic / random / 3-letter / header-like, a forced MOVED re-send on a third of the writes, the six disabled commands, "
                       "reads with GET/MGET/HGET/HMGET/HGETALL. Observed: every reply and the final bytes held by the store. non-trivial = at least one write; distinct = distinct case line")
    rep.assumptions += ["snappy is abstract in the theorems (any comp/decomp with decomp(comp x) = Some x); the model runner is fed snappy's actual output for every value of the case",
                        "one MSET's children target distinct keys (they run concurrently on different backends)"]
    pr = vlib.prove(rep, PROP)
    vlib.prepare_runners()
    quick = tier == "quick"
    rc = None
    if replay:
        rc = [json.load(open(replay))["case"]["line"]]
    res = differential(rep, PROP, "c13", seed, 1500 if quick else 30000, tier, replay_cases=rc, model_modes=["c13", "c13plain"])
    cases, impl, model, plain = res["cases"], res["impl"], res["models"]["c13"], res["models"]["c13plain"]
    mm = vlib.diff_lines(impl, model)
    add_corr(rep, "replies and final store bytes: implementation vs model (fed the real snappy output)", res, mm, len(set(cases)))
    rep.cov["samples"] += [{"case": cases[i].split(" | ")[0][:300], "impl": impl[i][:300]} for i in (0, len(cases) - 1) if i < len(cases)]
    # the property's own oracle: on every case without header-like values, replies equal those of a store with no compression
    viol = []
    checked = 0
    for i, c in enumerate(cases):
        ops = c.split(" | ")[0].split(" ")
        if any(a.startswith(HDR[:6]) for o in ops for a in o.split(",")[2:]):
            continue
        checked += 1
        ri, rp = impl[i].split(" | ")[0].split(" "), plain[i].split(" ")
        enabled = False
        for j, o in enumerate(ops):
            f = o.split(",")
            if f[0] == "cfg":
                enabled = f[1] == "1"
                continue
            name = bytes.fromhex(f[2]).decode("latin1").lower()
            if enabled and name in BANNED:
                if not ri[j].startswith("E"):
                    viol.append((i, j, "disabled command %s was not rejected while compression is enabled" % name))
                continue
            if j < len(ri) and j < len(rp) and ri[j] != rp[j]:
                viol.append((i, j, "reply differs from the reply of a store without compression"))
    rep.cov["correspondence"]["readback_oracle_cases"] = checked
    # what reached the backend: the original bytes, or header ++ snappy(original) and strictly shorter
    for i, c in enumerate(cases):
        parts = c.split(" | ")
        table = dict(e[1:].split("=") for e in (parts[1].split(" ") if len(parts) > 1 else []) if e.startswith("c"))
        allowed = set(table) | {HDR + z for v, z in table.items() if len(HDR + z) < len(v)}
        dump = impl[i].split(" | ")[1] if " | " in impl[i] else ""
        for kv in dump.split(";"):
            if "=" not in kv:
                continue
            val = kv.split("=", 1)[1]
            vals = [val[1:]] if val.startswith("S") else [fv.split(">")[1] for fv in val[1:].split(",") if ">" in fv]
            for x in vals:
                if x not in allowed:
                    viol.append((i, -1, "the backend holds bytes that are neither a written value nor header ++ compress(value) shorter than the value: %s..." % x[:60]))
    found = False
    if viol:
        i, j, what = min(viol, key=lambda x: len(cases[x[0]]))
        found = True
        rep.violation({"kind": "history", "oracle": what + " (operation %d)" % j, "case": {"line": cases[i].split(" | ")[0] + " | " + cases[i].split(" | ")[1][:0]},
                       "impl": impl[i][:4000], "without_compression": plain[i][:4000], "failing_cases": len({v[0] for v in viol})})
    elif mm:
        i = min(mm, key=lambda j: len(cases[j]))
        found = True
        rep.violation({"kind": "broken-tie", "correspondence": "c13: implementation vs model", "case": {"line": cases[i].split(" | ")[0]}, "impl": impl[i][:4000], "model": model[i][:4000]},
                      found_input=False)
    res2 = differential(rep, PROP, "c13conc", seed, 6 if quick else 200, tier)
    bad = [i for i, l in enumerate(res2["impl"]) if l != "ok"]
    add_corr(rep, "concurrent writers on several backend connections: read-back equals what was written", res2, bad, len(res2["cases"]))
    if bad and not found:
        found = True
        rep.violation({"kind": "schedule", "oracle": "values written concurrently over several backend connections must read back byte-identical",
                       "case": {"line": res2["cases"][bad[0]], "format": "seed workers writes-per-worker threshold"}, "impl": res2["impl"][bad[0]]})
    if not pr["ok"] and not found:
        rep.violation({"kind": "broken-tie", "theorem": pr.get("broken"), "detail": pr.get("tail"), "searched": "%d sequences: read-back oracle holds" % checked}, found_input=False)
