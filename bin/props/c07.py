# C07 — the proxy heals after connection loss and topology change
import json
import vlib
from props.common import differential, add_corr, replica_routing


def run(rep, tier, seed, replay):
    PROP = "C07"
    rep.cov["rule"] = ("a sequential client (GET/SET/INCR over 30 keys) against 2-4 simulated nodes through the real processor while: the established backend connections of a node are reset, "
                       "a node stops (connects refused) and later listens again on the same address, slot ranges change owner (data moves with them); one configured host always stays "
                       "reachable; no periodic refresh (the routing table only follows triggers). Per request compared with the model: served or error, the reply, the node that executed, "
                       "whether it arrived over the same connection as the previous request to that node or a new one, whether it was redirected first; and that a refresh completed after "
                       "every redirection. Starts with the two historical witnesses. non-trivial = at least one fault and one later request; distinct = distinct line")
    rep.assumptions += ["faults happen between requests and are followed by 40 ms so that a lost connection's goroutine has removed it (the window in which 'backend exited' is answered is the "
                        "HExited case of C07_error_has_cause; its length is a scheduling fact)",
                        "the refresh asks a random configured host; 'bounded number of rounds' is: one round once a reachable host is picked (retries are triggered by failures)",
                        "connect timeouts (a silent, not refusing, backend) are not exercised here"]
    pr = vlib.prove(rep, PROP)
    vlib.prepare_runners()
    rc = [json.load(open(replay))["case"]["line"]] if replay else None
    res = differential(rep, PROP, "c07", seed, 150 if tier == "quick" else 2500, tier, replay_cases=rc)
    cases, impl, model = res["cases"], res["impl"], res["models"]["c07"]
    mm = vlib.diff_lines(impl, model)
    add_corr(rep, "Fault histories: per request served/error, reply, executing node, same/new connection, redirected vs the model", res, mm,
             len({c for c in cases if any(w in c for w in ("kill", "down", "lay")) and " q " in c}))
    rep.cov["samples"] += [{"case": cases[i][:300], "impl": impl[i][:300]} for i in (0, len(cases) - 1) if i < len(cases)]
    found = False
    if mm:
        i = min(mm, key=lambda j: len(cases[j]))
        xs, ys = impl[i].split(" || ")[0].split(" ; "), model[i].split(" || ")[0].split(" ; ")
        d = [k for k in range(max(len(xs), len(ys))) if (xs[k] if k < len(xs) else None) != (ys[k] if k < len(ys) else None)]
        if d:
            k = d[0]
            what = "request %d: observed %s, expected %s" % (k, xs[k] if k < len(xs) else "<nothing>", ys[k] if k < len(ys) else "<nothing>")
        else:
            what = "no refresh completed after a redirection although a configured host was reachable"
        found = True
        rep.violation({"kind": "history", "oracle": what, "case": {"line": cases[i], "format": "nodes layout # q <request> | kill n | down n | up n | lay lo hi n | w"},
                       "impl": impl[i], "model": model[i], "failing_cases": len(mm)})
    # replicas: a read strategy that uses them must heal after a replica's connection is lost, and the first redirection after a
    # replica reassignment must bring the table up to date (end to end, with and without a periodic refresh)
    v = replica_routing(rep, PROP, seed + 7, tier)
    if v and not found:
        found = True
        rep.violation(v)
    if not pr["ok"] and not found:
        rep.violation({"kind": "broken-tie", "theorem": pr.get("broken"), "detail": pr.get("tail"), "searched": "every fault history behaved as the model"}, found_input=False)
