# C15 — host set and health checking keep a consistent view of usable hosts
import json, os
import vlib
from props.common import differential, add_corr

PROP = "C15"


def spec_ok(case, impl):
    """the property's own oracle on the public observations after each op: usable = members not marked unhealthy,
    preferred tier, address order, no duplicates; objects: id%4 = address, id%8<4 = main"""
    for snap in impl.split(" "):
        parts = dict((p[0], [int(x) for x in p[1:].split(",") if x]) for p in snap.split("/"))
        members, unhealthy, usable = parts["A"], set(parts["U"]), parts["H"]
        mains = sorted([i for i in members if i not in unhealthy and i % 8 < 4], key=lambda i: i % 4)
        backs = sorted([i for i in members if i not in unhealthy and i % 8 >= 4], key=lambda i: i % 4)
        want = mains if mains else backs
        if usable != want:
            return "usable list %s, expected %s (members %s, unhealthy %s)" % (usable, want, members, sorted(unhealthy))
    return None


def run(rep, tier, seed, replay):
    rep.cov["rule"] = ("host set: sequences of 1-14 operations (Add/Remove with 1-3 objects, ReplaceAll with 0-4, MarkHostHealthy/Unhealthy) over 16 host objects sharing 4 addresses "
                       "(two main and two backup objects per address), after every operation Healthy(), All(), the removal latch and the health flag of every object are observed; "
                       "health monitor: every result sequence of length <= 10 for rise=fall=2 (exhaustive) and random sequences up to 40 checks with thresholds 1..5, through the real "
                       "monitor with a scripted checker. non-trivial = at least one operation; distinct = distinct case line")
    rep.assumptions += ["operations are applied one at a time (the lock-protected blocks and the flag CAS are the atomic steps); the concurrent interleaving of the CAS with the locked "
                        "block of another call is not explored",
                        "host objects do not change their Addr/Type fields after creation"]
    pr = vlib.prove(rep, PROP)
    vlib.prepare_runners()
    quick = tier == "quick"
    found = False
    rc = [json.load(open(replay))["case"]["line"]] if replay else None
    res = differential(rep, PROP, "c15", seed, 3000 if quick else 200000, tier, replay_cases=rc)
    cases, impl, model = res["cases"], res["impl"], res["models"]["c15"]
    mm = vlib.diff_lines(impl, model)
    add_corr(rep, "host.Set operation sequences: Healthy()/All()/removal latches/health flags after every operation, implementation vs model", res, mm, len(set(cases)))
    rep.cov["samples"] += [{"case": cases[i], "impl": impl[i][:300]} for i in (0, 1, len(cases) - 1) if i < len(cases)]
    bad = [(i, spec_ok(cases[i], impl[i])) for i in range(len(cases))]
    bad = [(i, w) for i, w in bad if w]
    if bad:
        i, what = min(bad, key=lambda x: len(cases[x[0]]))
        found = True
        rep.violation({"kind": "ops", "oracle": what, "case": {"line": cases[i], "objects": "object id i has address 1+i%4 and is main iff i%8<4; a=Add r=Remove p=ReplaceAll h=MarkHealthy u=MarkUnhealthy"},
                       "impl": impl[i], "model": model[i], "failing_cases": len(bad)})
    elif mm:
        i = min(mm, key=lambda j: len(cases[j]))
        found = True
        rep.violation({"kind": "broken-tie", "correspondence": "c15: implementation vs model", "case": {"line": cases[i]}, "impl": impl[i], "model": model[i]}, found_input=False)
    if not replay:
        res = differential(rep, PROP, "c15hc", seed, 2000 if quick else 100000, tier)
        cases, impl, model = res["cases"], res["impl"], res["models"]["c15hc"]
        mm = vlib.diff_lines(impl, model)
        add_corr(rep, "health monitor with scripted check results: health flag after every check, implementation vs model", res, mm, len(set(cases)))
        rep.cov["samples"] += [{"mode": "c15hc", "case": cases[i], "impl": impl[i]} for i in (3, len(cases) - 1) if i < len(cases)]
        if mm and not found:
            i = min(mm, key=lambda j: len(cases[j]))
            found = True
            rise, fall, results = cases[i].split(" ")
            rep.violation({"kind": "history", "oracle": "the health flag may flip only after more than the configured number of consecutive contrary results; any opposite result restarts the count",
                           "case": {"rise": rise, "fall": fall, "results": results}, "impl": impl[i], "expected": model[i], "disagreeing_cases": len(mm)})
    # the set as the TCP processor uses it (the list Healthy() hands out is shared: nobody may edit it): backends reached and
    # round-robin fairness end to end, with backends refusing and accepting again
    from props.c06 import tcp_end_to_end
    v = tcp_end_to_end(rep, PROP, seed, tier)
    if v and not found:
        found = True
        rep.violation(v)
    from props.common import concurrent_hostset
    v = concurrent_hostset(rep, PROP, seed + 13, tier)
    if v and not found:
        found = True
        rep.violation(v)
    if not pr["ok"] and not found:
        rep.violation({"kind": "broken-tie", "theorem": pr.get("broken"), "detail": pr.get("tail"), "searched": "oracle holds on every observed snapshot"}, found_input=False)
