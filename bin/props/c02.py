# C02 — every request is answered exactly once, even when backends fail
import json, os, re
import vlib
from props.common import add_corr, differential


def run(rep, tier, seed, replay):
    PROP = "C02"
    rep.cov["rule"] = ("stress: 2-7 client connections pipeline 1-8 requests at a time (keyed commands and requests the proxy answers itself, each carrying a sequence number) through the real "
                       "processor against 3 simulated nodes while, every 5-30 ms, one of: a node's connections are reset, a node stops and restarts, the host list is replaced (every backend "
                       "connection is stopped), a host is removed and added again, reset+replace together; 10-39 such faults per case, then the processor is stopped. Checked: no request on "
                       "an open connection waits more than 6 s, replies that carry a sequence number come back in order, Stop returns, the process does not crash. Second: the sequential "
                       "fault histories of C07's harness (every request answered). non-trivial = a case with at least one fault during traffic; distinct = distinct seed")
    rep.assumptions += ["the tie between Model/Backend.v and the code is by outcome, not by step: the model's schedules are interleavings of goroutines that a harness cannot force without "
                        "instrumenting the unguarded code; the two refuted schedules were the ones observed as hangs on the code as it was (10 of 12 stress cases)",
                        "liveness needs a fair scheduler and a backend that either answers or loses the connection (a silent, connected backend is bounded by TCP user timeout, not modelled)",
                        "redirections hand a request to another connection's Send: covered by the same steps on that connection"]
    pr = vlib.prove(rep, PROP)
    vlib.prepare_runners()
    quick = tier == "quick"
    work = os.path.join(vlib.WORK, "c02-c02")
    found = False
    extra = []
    if replay:
        rc = os.path.join(vlib.WORK, "c02-replay.txt")
        open(rc, "w").write(json.load(open(replay))["case"]["line"] + "\n")
        extra = ["-in", rc]
    try:
        vlib.run_harness("c02", work, seed, 10 if quick else 400, tier, extra=extra, timeout=900 if quick else 7200)
    except vlib.Broken as b:
        found = True
        rep.violation({"kind": "crash", "oracle": "the process hosting the processor exited abnormally (a request completed twice closes a closed channel) or the run stalled",
                       "case": {"line": "harness c02 -seed %d" % seed}, "detail": str(b)[-3000:]})
    if not found:
        cases, impl = vlib.lines(os.path.join(work, "cases.txt")), vlib.lines(os.path.join(work, "impl.txt"))
        hist = json.load(open(os.path.join(work, "hist.json")))
        res = {"cases": cases, "hist": hist}
        bad = []
        for i, o in enumerate(impl):
            m = re.match(r"sent=(\d+) answered=(\d+) hung=(\d+) wrong-reply=(\d+)(.*)", o)
            if not m:
                bad.append((i, "no result: " + o))
            elif int(m.group(3)) > 0:
                bad.append((i, "%s request(s) on an open connection got no reply within 6 s" % m.group(3)))
            elif int(m.group(4)) > 0:
                bad.append((i, "%s replies out of order" % m.group(4)))
            elif "stop-hung" in m.group(5):
                bad.append((i, "Stop did not return within 3 s"))
        add_corr(rep, "Stress with faults: every request answered, in order, Stop returns", res, [b[0] for b in bad], len(cases))
        rep.cov["samples"] += [{"case": cases[i], "impl": impl[i]} for i in (0, len(cases) - 1) if i < len(cases)]
        if bad:
            i, what = bad[0]
            found = True
            rep.violation({"kind": "stress", "oracle": what, "case": {"line": cases[i], "format": "seed connections faults (harness c02 -in <file>)"}, "impl": impl[i], "failing_cases": len(bad)})
    # a node that answers very late (3.3 s): the request gets exactly one reply, the node's (C01's framing run, this one case)
    # ... and a pipeline whose last request is answered by the filter chain (compression enabled, APPEND): no request is left waiting
    res = differential(rep, PROP, "c01frame", seed, 0, tier, replay_cases=["0 tok%d_late late # -" % seed, "0 tok%d_filtered filtered # -" % seed], model_modes=[])
    late_bad = [i for i in range(len(res["cases"])) if res["impl"][i] != "replies=1"]
    add_corr(rep, "A request answered by its node after 3.3 s gets exactly that one reply; a pipeline ending in a request the filter chain answers leaves nothing waiting", res, late_bad, 2)
    if late_bad and not found:
        found = True
        rep.violation({"kind": "input", "oracle": ("one reply, the node's own, for a request whose node answers after 3.3 s" if " late " in res["cases"][late_bad[0]] else
                                                  "GET k / APPEND k x pipelined with compression enabled: both replies within two seconds") + "; observed: " + res["impl"][late_bad[0]],
                       "case": {"line": res["cases"][late_bad[0]], "format": "harness c01frame -in <file>"}, "impl": res["impl"][late_bad[0]], "failing_cases": 1})
    if not pr["ok"] and not found:
        rep.violation({"kind": "broken-tie", "theorem": pr.get("broken"), "detail": pr.get("tail"), "searched": "no hang, no crash, no reordering under stress"}, found_input=False)
