# C11 — no byte sequence from a client or a backend can crash or wedge the proxy
import json, os
import vlib
from props.common import differential, add_corr

PROP = "C11"


def run(rep, tier, seed, replay):
    rep.cov["rule"] = ("decoder: the C10 stream generator (valid, inline, mutated, malformed corpus incl. nesting 31/32/33/5000 levels, huge/negative lengths, alphabet noise) under 13 buffer "
                       "sizes and chunkings, run under recover(); backend replies: every MOVED/ASK/CLUSTERDOWN spelling incl. Unicode case-fold variants x 11 tails (missing words, extra "
                       "spaces, bad addresses) + random error texts and non-error values, observed as reply / re-send / no reply / panic through the real handleResp; CLUSTER NODES: valid "
                       "layouts with token-level mutations (dropped/garbled fields, unknown master ids, slot ranges out of range or huge, duplicated lines) under recover(); SCAN replies via C18. "
                       "non-trivial = non-empty input; distinct = distinct case line")
    rep.assumptions += ["Go stack size, heap and goroutine scheduling are runtime facts: the theorems bound the model's recursion depth and expansion counts",
                        "strings.Fields is modelled for ASCII white space; a replica whose master is itself a replica depends on Go map order and is not generated",
                        "addresses named in redirections other than the two fake backends are dialled for real (refused at once in the sandbox)"]
    pr = vlib.prove(rep, PROP)
    vlib.prepare_runners()
    quick = tier == "quick"
    found = False

    def crashed(l):
        return (l.startswith("PANIC") or l.startswith("NOREPLY") or l.startswith("TIMEOUT") or l.startswith("HANG") or l.endswith("load:PANIC")
                or " PANIC " in " " + l.split(" | ")[0] + " ")   # sequences of replies (compression path): a panic anywhere

    # recursion depth: inputs built to nest / chain as deeply as possible, decoded in a child process whose
    # goroutine stacks are capped at 48 MB; a fatal stack overflow kills the child
    probes = []
    for which in ("nested-arrays", "empty-lines", "blank-lines", "nested-in-bulk-arrays"):
        d = os.path.join(vlib.WORK, "c11-deep-" + which)
        os.makedirs(d, exist_ok=True)
        rc, out = vlib.sh([os.path.join(vlib.BIN, "harness"), "c11deep", "-in", which, "-out", d], timeout=300)
        line = open(os.path.join(d, "impl.txt")).read().strip() if rc == 0 and os.path.exists(os.path.join(d, "impl.txt")) else ""
        probes.append({"probe": which, "exit": rc, "result": line})
        if rc != 0 and not found:
            found = True
            rep.violation({"kind": "input", "mode": "c11deep", "oracle": "stack use must be bounded by the protocol's limits, not by the input: the decoding process died",
                           "case": {"probe": which, "meaning": {"nested-arrays": "'*1\\r\\n' x 3,000,000", "empty-lines": "'\\r\\n' x 3,000,000", "blank-lines": "'   \\r\\n' x 1,500,000",
                                                               "nested-in-bulk-arrays": "'*2\\r\\n$1\\r\\na\\r\\n' x 1,500,000"}[which]},
                           "exit_status": rc, "output_tail": out[-1500:]})
    rep.cov["correspondence"]["depth_probes"] = probes
    rep.cov["evaluations"] = rep.cov.get("evaluations", 0) + len(probes)
    for mode, n, what in (("c10dec", 5000 if quick else 100000, "decode-all on arbitrary byte streams under recover()"),
                          ("c11resp", 1500 if quick else 50000, "request outcome for arbitrary backend replies (real handleResp / handleRedirection / handleClusterDown)"),
                          ("c11nodes", 2500 if quick else 50000, "parseClusterNodes on mutated CLUSTER NODES texts under recover()"),
                          ("c14", 2000 if quick else 30000, "client requests (every command name, EVAL key counts, malformed arrays) through the real handleRequest under recover()"),
                          ("c13", 400 if quick else 20000, "write/read sequences through the compression filter and its decompression hooks (values that are, or are cut-off, compression headers) under recover()"),
                          ("c18step", 1500 if quick else 30000, "SCAN requests with mistyped options (a name without its value, non-numbers) and arbitrary node replies through the real handlers under recover()")):
        res = differential(rep, PROP, mode, seed + 11, n, tier)
        cases, impl, model = res["cases"], res["impl"], res["models"][mode]
        mm = [i for i in vlib.diff_lines(impl, model) if not (model[i] == "AMBIG" and "PANIC" not in impl[i])]
        if mode in ("c14", "c18step", "c13"):
            mm = []   # routing is C14's business (replica choice is not determined); here only: no panic, a reply for every request
        add_corr(rep, what + ": implementation vs model", res, mm, len(set(cases)))
        rep.cov["samples"] += [{"mode": mode, "case": cases[i][:160], "impl": impl[i][:160]} for i in (0, len(cases) - 1) if i < len(cases)]
        bad = [i for i in range(len(cases)) if crashed(impl[i])]
        if bad:
            i = min(bad, key=lambda j: len(cases[j]))
            found = True
            rep.violation({"kind": "input", "mode": mode, "oracle": "the input must neither panic the process, nor keep it busy for ever, nor leave the request without a reply",
                           "case": {"line": cases[i][:20000]}, "impl": impl[i][:2000], "model": model[i][:2000], "failing_cases": len(bad)})
        elif mm and not found:
            i = min(mm, key=lambda j: len(cases[j]))
            found = True
            rep.violation({"kind": "broken-tie", "mode": mode, "correspondence": mode + ": implementation vs model", "case": {"line": cases[i][:20000]},
                           "impl": impl[i][:2000], "model": model[i][:2000], "disagreeing_cases": len(mm)}, found_input=False)
    if not pr["ok"] and not found:
        rep.violation({"kind": "broken-tie", "theorem": pr.get("broken"), "detail": pr.get("tail"), "searched": "no panic / lost request on any generated input"}, found_input=False)
