# C17 — hot-restart hand-over: frames and dispatcher
import json, os
import vlib
from props.common import differential, add_corr

PROP = "C17"


def frame_oracle(case, impl):
    """the property's own oracle on one frame case; returns a description when the implementation violates it"""
    f = case.split(" ")
    if f[0] == "r":
        bs = bytes.fromhex(f[1]) if len(f) > 1 else b""
        if impl == "PANIC":
            return "readMessage panicked on a %d-byte input (declared length %d)" % (len(bs), (bs[1] << 8 | bs[2]) if len(bs) >= 3 else -1)
        got = bs[:4096]
        wellformed = len(got) >= 3 and (got[1] << 8 | got[2]) <= len(got) - 3
        if impl.startswith("ok "):
            p = impl.split(" ")
            t, d = int(p[1]), bytes.fromhex(p[2]) if len(p) > 2 else b""
            frame = bytes([t, len(d) >> 8 & 255, len(d) & 255]) + d
            if not bs.startswith(frame):
                return "accepted a message (type %d, %d bytes) that is not a prefix of the %d bytes received: malformed input read as a different message" % (t, len(d), len(bs))
            if not wellformed:
                return "accepted input that is not a well-formed frame"
        elif wellformed:
            return "rejected a well-formed frame (%s)" % impl
        return None
    t = int(f[1]); data = bytes.fromhex(f[2]) if len(f) > 2 else b""
    if len(data) < 65533:
        want = (bytes([t & 255, len(data) >> 8, len(data) & 255]) + data).hex()
        if impl != want:
            return "sendMessage emitted different bytes than type,len(be16),payload"
    return None


def run(rep, tier, seed, replay):
    rep.cov["rule"] = ("frames: raw inputs for every (declared, carried) length pair on a grid around 0, 255/256, the 4096-byte read size and 65535, all pairs below 12x14 exhaustively, "
                       "all 256 type bytes, 1- and 2-byte inputs, random pairs; sendMessage for all types and payload lengths around 4093 and 65533. "
                       "dispatcher: the public Restarter with a scripted Instance; children are sequences of frames written in lock step (documented hand-over, every type 0..12 and 255, "
                       "a first child dropped after k = 0..4 requests followed by a complete one, random sequences incl. malformed frames and unknown types, 1..3 children). "
                       "non-trivial = at least one frame; distinct = distinct case line")
    rep.assumptions += ["the control channel is a unix stream socket read with one ReadMsgUnix of hr_read_size bytes; request/reply are in lock step (one frame per read), as the real child does",
                        "kill(SIGTERM) is replaced by a recorder in the harness"]
    pr = vlib.prove(rep, PROP)
    vlib.prepare_runners()
    quick = tier == "quick"
    rcase = json.load(open(replay)) if replay else None
    rc = lambda mode: None if not rcase else ([rcase["case"]["line"]] if rcase.get("mode") == mode else [])
    found = False

    res = differential(rep, PROP, "c17frame", seed, 1500 if quick else 60000, tier, replay_cases=rc("c17frame"))
    cases, impl, model = res["cases"], res["impl"], res["models"]["c17frame"]
    mm = vlib.diff_lines(impl, model)
    add_corr(rep, "readMessage / sendMessage on raw frames: implementation vs model", res, mm, len(set(cases)))
    rep.cov["samples"] += [{"mode": "c17frame", "case": cases[i][:120], "impl": impl[i][:120]} for i in (0, 40, len(cases) - 1) if i < len(cases)]
    # the oracle is evaluated on every case, not only on disagreements
    bad = [(i, frame_oracle(cases[i], impl[i])) for i in range(len(cases))]
    bad = [(i, w) for i, w in bad if w]
    if bad:
        i, what = min(bad, key=lambda x: len(cases[x[0]]))
        found = True
        rep.violation({"kind": "input", "mode": "c17frame", "oracle": what, "case": {"line": cases[i][:9000]}, "impl": impl[i][:9000],
                       "model": model[i][:9000], "failing_cases": len(bad)})
    elif mm:
        i = min(mm, key=lambda j: len(cases[j]))
        found = True
        rep.violation({"kind": "broken-tie", "mode": "c17frame", "correspondence": "c17frame: implementation vs model", "case": {"line": cases[i][:9000]},
                       "impl": impl[i][:9000], "model": model[i][:9000]}, found_input=False)

    res = differential(rep, PROP, "c17disp", seed, 60 if quick else 3000, tier, replay_cases=rc("c17disp"))
    cases, impl, model = res["cases"], res["impl"], res["models"]["c17disp"]
    mm = vlib.diff_lines(impl, model)
    add_corr(rep, "Restarter with scripted Instance and raw children: replies per child and calls, implementation vs model over the regenerated dispatch tables", res, mm, len(set(cases)))
    rep.cov["samples"] += [{"mode": "c17disp", "case": cases[i][:200], "impl": impl[i][:200]} for i in (0, len(cases) - 1) if i < len(cases)]
    if mm:
        i = min(mm, key=lambda j: len(cases[j]))
        found = True
        rep.violation({"kind": "history", "mode": "c17disp",
                       "oracle": "each request performs its step once, in order, acknowledged by the matching reply; unknown -> unknown reply; malformed -> nothing; a dropped child does not block the next",
                       "case": {"line": cases[i]}, "impl": impl[i], "expected": model[i], "disagreeing_cases": len(mm)})

    # the drain step itself: the listening socket is closed, the connections Accept has returned are kept
    drain_lines = ["tcp drain-after-accept", "tcp drain-then-stop 2", "redis drain-then-stop 2", "tcp drain-during-bind",
                   "tcp drain-while-binding", "redis drain-while-binding"]
    if not rcase or rcase.get("mode") == "c09":
        res = differential(rep, PROP, "c09", seed, 0, tier, replay_cases=(rc("c09") if rcase else drain_lines) * (1 if quick or rcase else 5))
        cases, impl, model = res["cases"], res["impl"], res["models"]["c09"]
        mm = vlib.diff_lines(impl, model)
        add_corr(rep, "the drain step on real listeners (Drain before, during and after the bind, and between Accept's return and the loop's next step): implementation vs the listener model", res, mm, len(set(cases)))
        if mm:
            found = True
            i = mm[0]
            rep.violation({"kind": "history", "mode": "c09", "oracle": "drain step: observed '%s', expected '%s'" % (impl[i][:200], model[i][:200]),
                           "case": {"line": cases[i], "format": "<redis|tcp> <scenario> [params] (harness c09 -in <file>)"}, "impl": impl[i], "model": model[i], "failing_cases": len(mm)})
    if not pr["ok"] and not found:
        rep.violation({"kind": "broken-tie", "theorem": pr.get("broken"), "detail": pr.get("tail"),
                       "searched": "frame oracle on every generated input and dispatcher histories: no failing input"}, found_input=False)
