# C20 — connection and request statistics are conserved
import json
import vlib
from props.common import differential, add_corr


def conservation(line):
    """the property itself, evaluated on the implementation's counters (independent of the model)"""
    parts = line.split(" || ")
    if parts[0].startswith("conserved") or parts[0].startswith("NOT-CONSERVED"):
        return None if line == "conserved || upstream_conserved=1 || gauges=ok" else "after a connection reset with replies pending: " + line[:300]
    f = dict(x.split("=") for x in parts[0].split(" "))
    f = {k: int(v) for k, v in f.items()}
    if f["cx_active"] != 0:
        return "active-connection gauge is %d at quiescence" % f["cx_active"]
    if f["cx_total"] != f["cx_destroy"]:
        return "total connections %d, destroyed %d at quiescence" % (f["cx_total"], f["cx_destroy"])
    if f["rq_total"] != f["rq_success"] + f["rq_failure"]:
        return "requests total %d, success %d + failure %d" % (f["rq_total"], f["rq_success"], f["rq_failure"])
    for c in parts[1].split(" "):
        if c and c != "-":
            n, v = c.split("=")
            t, s, e = (int(x) for x in v.split("/"))
            if t != s + e:
                return "command %s: total %d, success %d + error %d" % (n, t, s, e)
    if parts[2] != "upstream_conserved=1":
        return "upstream requests total differs from success + failure"
    if len(parts) > 3 and parts[3] != "gauges=ok":
        return "a gauge is below zero or differs from total - destroyed: " + parts[3]
    return None


def run(rep, tier, seed, replay):
    PROP = "C20"
    rep.cov["rule"] = ("histories of 3-32 steps against the real Redis processor (connection limit 0, 2 or 3): connections opened (served or refused at once), closed by the client, requests "
                       "that succeed, fail at the backend (wrong type, backend down), are rejected by the proxy (unsupported, malformed, wrong arity), backend connections reset, a backend "
                       "stopped and restarted; half of the histories end with Stop while connections are open. After quiescence the public stats package is read: the conservation equations "
                       "are evaluated on the implementation's numbers, and downstream and per-command counters are compared with the model run on the observed event history. "
                       "non-trivial = at least one request and one connection end; distinct = distinct event history")
    rep.assumptions += ["the event history is the one observed by the client (a request is 'failed' when its reply is an error)",
                        "upstream request counters include the proxy's own CLUSTER NODES requests: only their conservation is checked; the TCP processor's upstream connection counters are covered by C05's harness",
                        "requests are not in flight when Stop is called (sequential client)"]
    pr = vlib.prove(rep, PROP)
    vlib.prepare_runners()
    res = differential(rep, PROP, "c20", seed, 150 if tier == "quick" else 3000, tier)
    cases, impl, model = res["cases"], res["impl"], res["models"]["c20"]
    mm = vlib.diff_lines(impl, model)
    add_corr(rep, "Counters after observed histories: implementation vs model", res, mm, len({c for c in cases if " q:" in c and " x" in c}))
    rep.cov["samples"] += [{"case": cases[i][:300], "impl": impl[i][:300]} for i in (0, len(cases) - 1) if i < len(cases)]
    found = False
    bad = [(i, conservation(impl[i])) for i in range(len(cases))]
    bad = [(i, w) for i, w in bad if w]
    rep.cov["correspondence"]["conservation equations on the implementation's counters"] = {"cases": len(cases), "disagreements": len(bad)}
    fmt = "L<limit> then a=connection served r=refused at once x=a served connection ended q:<command or ->:<s|f>=request answered S=Stop"
    if bad:
        i, what = min(bad, key=lambda x: len(cases[x[0]]))
        found = True
        rep.violation({"kind": "history", "oracle": what, "case": {"line": cases[i], "format": fmt}, "impl": impl[i], "model": model[i], "failing_cases": len(bad)})
    elif mm:
        i = min(mm, key=lambda j: len(cases[j]))
        found = True
        rep.violation({"kind": "history", "oracle": "counters differ from the model's for the observed history (e.g. a connection under the limit refused, or one over it served)",
                       "case": {"line": cases[i], "format": fmt}, "impl": impl[i], "model": model[i], "failing_cases": len(mm)})
    # the TCP processor's upstream connection counters (total = destroyed, active = 0 at quiescence), with refused dials
    res2 = differential(rep, PROP, "c06tcp", seed + 3, 40 if tier == "quick" else 2000, tier)
    c2, i2, m2 = res2["cases"], res2["impl"], res2["models"]["c06tcp"]
    bad2 = [i for i in range(len(c2)) if "upstream=ok" not in i2[i]]
    add_corr(rep, "TCP processor: upstream connection counters conserved after histories with refused dials and host removal", res2, bad2, len(set(c2)))
    if bad2 and not found:
        i = min(bad2, key=lambda j: len(c2[j]))
        found = True
        rep.violation({"kind": "history", "oracle": "TCP processor upstream counters at quiescence: " + i2[i].split("upstream=")[-1],
                       "case": {"line": c2[i], "format": "policy backends # o open, c<i> close, d<b>/u<b> backend refuses/accepts, r<b>/a<b> remove/add host (harness c06tcp -in <file>)"},
                       "impl": i2[i], "model": m2[i], "failing_cases": len(bad2)})
    if not pr["ok"] and not found:
        rep.violation({"kind": "broken-tie", "theorem": pr.get("broken"), "detail": pr.get("tail"), "searched": "conservation holds on every history"}, found_input=False)
