# C16 — discovery subscriptions track dependencies and survive stream failures
import json
import vlib
from props.common import differential, add_corr


def run(rep, tier, seed, replay):
    PROP = "C16"
    rep.cov["rule"] = ("histories of 5-45 operations on the real subscription client (verif-tagged handle, scripted stream factory): subscribe/unsubscribe of 12 names, bursts of 10-34 "
                       "subscribes over 40 names (more than the old 16-entry queue) with and without a stream, stream creation failing, streams failing while requests are queued, "
                       "re-establishment; the retry loop is Run's own body without its 1 s pause. After every pause the scripted server's view of the current stream (from the requests it "
                       "received, in order) is compared with the model's; a call that does not return within 1 s is reported; a request naming a service in both lists is reported. "
                       "Starts with the two historical witnesses. non-trivial = at least one stream failure or burst; distinct = distinct history")
    rep.assumptions += ["the server adds the subscribed names and then removes the unsubscribed ones of a request (with the repaired client no request names a service in both lists)",
                        "the sender loop may send more, smaller requests than the model's one flush per pause: views are compared at pauses, not request counts",
                        "the gRPC transport is not exercised: a scripted factory stands for StreamSvcConfigs/StreamSvcEndpoints in the history runs, a scripted api.DiscoveryServiceClient stub in the end-to-end runs (which go through Run's real retry pause)"]
    pr = vlib.prove(rep, PROP)
    vlib.prepare_runners()
    rc = [json.load(open(replay))["case"]["line"]] if replay else None
    res = differential(rep, PROP, "c16", seed, 300 if tier == "quick" else 20000, tier, replay_cases=rc)
    cases, impl, model = res["cases"], res["impl"], res["models"]["c16"]
    mm = vlib.diff_lines(impl, model)
    add_corr(rep, "Subscription histories: the server's view at every pause vs the model", res, mm, len({c for c in cases if "down" in c or c.count(" s") > 16}))
    rep.cov["samples"] += [{"case": cases[i][:300], "impl": impl[i][:300]} for i in (0, len(cases) - 1) if i < len(cases)]
    found = False
    if mm:
        i = min(mm, key=lambda j: len(cases[j]))
        if "BLOCKED" in impl[i]:
            what = "a Subscribe/Unsubscribe call did not return within a second (blocked holding the lock)"
        elif "in-both-lists" in impl[i]:
            what = "a request named one service in both its lists"
        else:
            what = "the server's view %s differs from the dependency set %s" % (impl[i][:200], model[i][:200])
        found = True
        rep.violation({"kind": "history", "oracle": what, "case": {"line": cases[i], "format": "s<n> subscribe, u<n> unsubscribe, up, down, f = pause"}, "impl": impl[i], "model": model[i], "failing_cases": len(mm)})
    # end to end: dependency responses through the real wrapped hook, both subscription clients and their streams over a scripted stub
    res = differential(rep, PROP, "c16e2e", seed + 3, 40 if tier == "quick" else 2000, tier, model_modes=[])
    cases2, impl2 = res["cases"], res["impl"]
    bad = []
    for i, c in enumerate(cases2):
        want = set()
        for up in c.split(" ; "):
            up = up.strip()
            if not up or up.startswith("!"):
                continue
            xs = up.split(",")
            want |= {x[1:] for x in xs if x.startswith("+")}
            want -= {x[1:] for x in xs if x.startswith("-")}
        exp = "cfg=%s ep=%s" % (",".join(sorted(want)), ",".join(sorted(want)))
        if impl2[i] != exp:
            bad.append((i, "both servers must have been told to watch exactly the dependencies '%s'; observed '%s'" % (exp, impl2[i][:300])))
    add_corr(rep, "Dependency responses through the real discovery client (wrapped hook, config and endpoint subscription clients, stream failures): the servers' views vs the dependency set",
             res, [b[0] for b in bad], len(set(cases2)))
    if bad and not found:
        found = True
        i, what = min(bad, key=lambda x: len(cases2[x[0]]))
        rep.violation({"kind": "history", "mode": "c16e2e", "oracle": what, "case": {"line": cases2[i], "format": "dependency responses separated by ' ; ': +name added, -name removed; !cfg / !ep = that stream fails"},
                       "impl": impl2[i], "failing_cases": len(bad)})
    if not pr["ok"] and not found:
        rep.violation({"kind": "broken-tie", "theorem": pr.get("broken"), "detail": pr.get("tail"), "searched": "views agree with the model on every history"}, found_input=False)
