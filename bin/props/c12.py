# C12 — key-to-slot mapping equals the Redis Cluster specification
import os
import vlib
from props.common import differential, add_corr

PROP = "C12"


def describe(case, impl, model):
    f = lambda l: dict(zip(("slot", "crc16_of_whole_key", "hashtag_hex"), l.split(" "))) if l else None
    return {"key_hex": case, "impl": f(impl), "expected": f(model)}


def run(rep, tier, seed, replay):
    rep.cov["rule"] = ("keys: every byte string of length <= 2 (exhaustive), every string over {'{','}','a','b'} of length 3..7 "
                       "(all brace placements), structured random keys with braces, raw random bytes up to 70 KB; "
                       "a case is non-trivial when the key is non-empty; distinct = distinct key")
    rep.assumptions += ["keys are byte strings (every element < 256)",
                        "the exported wrapper VerifSlot observes upstream.chooseHost on a table whose slot i is owned by instance 'i'"]
    pr = vlib.prove(rep, PROP)
    vlib.prepare_runners()
    n = 20000 if tier == "quick" else 300000
    rc = None
    if replay:
        import json
        rc = [json.load(open(replay))["case"]["key_hex"]]
    res = differential(rep, PROP, "c12", seed, n, tier, replay_cases=rc, model_modes=["c12", "c12spec"])
    cases, impl = res["cases"], res["impl"]
    model, spec = res["models"]["c12"], res["models"]["c12spec"]
    mm = vlib.diff_lines(impl, model)
    ms = vlib.diff_lines(impl, spec)
    add_corr(rep, "slot/crc16/hashtag: implementation vs extracted model (Gen table) and vs bitwise specification", res, mm,
             len({c for c in cases if c}))
    rep.cov["correspondence"]["impl_vs_spec_disagreements"] = len(ms)
    rep.cov["samples"] = [describe(cases[i], impl[i], model[i]) for i in (0, 300, 70000, len(cases) - 1) if i < len(cases)]
    rep.cov["exhaustive"] = False
    if ms:
        # the implementation disagrees with the bit-by-bit specification on a concrete key
        i = min(ms, key=lambda j: (len(cases[j]), cases[j]))
        rep.violation({"kind": "input", "oracle": "slot(key) = CRC16/XMODEM(hashtag(key)) mod 16384 (bitwise specification, independent of the table)",
                       "case": describe(cases[i], impl[i], spec[i]), "disagreeing_cases": len(ms),
                       "broken_theorem": pr.get("broken")})
        return
    if mm:
        i = min(mm, key=lambda j: (len(cases[j]), cases[j]))
        rep.violation({"kind": "broken-tie", "correspondence": "c12: implementation vs extracted model", "case": describe(cases[i], impl[i], model[i]),
                       "note": "implementation agrees with the bitwise specification; the model built on the regenerated table does not"},
                      found_input=False)
        return
    if not pr["ok"]:
        rep.violation({"kind": "broken-tie", "theorem": pr.get("broken"), "detail": pr.get("tail"),
                       "searched": "%d keys compared against the bitwise specification: no disagreement" % len(cases)}, found_input=False)


def search(rep, tier, seed, ctx):
    """a tie is broken before any comparison was made (e.g. the translator met code outside its fragment): look for a key on which
    the implementation disagrees with the bit-by-bit specification"""
    try:
        vlib.prepare_runners()
        res = differential(rep, PROP, "c12", seed, 20000 if tier == "quick" else 300000, tier, model_modes=["c12spec"])
    except vlib.Broken:
        return False
    cases, impl, spec = res["cases"], res["impl"], res["models"]["c12spec"]
    ms = vlib.diff_lines(impl, spec)
    add_corr(rep, "slot/crc16/hashtag: implementation vs bitwise specification (search after a broken tie)", res, ms, len({c for c in cases if c}))
    if not ms:
        return False
    i = min(ms, key=lambda j: (len(cases[j]), cases[j]))
    rep.violation({"kind": "input", "oracle": "slot(key) = CRC16/XMODEM(hashtag(key)) mod 16384 (bitwise specification, independent of the table)",
                   "case": describe(cases[i], impl[i], spec[i]), "disagreeing_cases": len(ms), "broken_tie": ctx.get("broken")})
    return True
