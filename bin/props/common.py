# helpers shared by the per-property check modules
import json, os
import vlib


def differential(rep, prop, mode, seed, n, tier, replay_cases=None, model_modes=None, timeout=3000):
    """run harness mode + model mode(s) on the same cases; returns dict with lists"""
    work = os.path.join(vlib.WORK, prop.lower() + "-" + mode)
    extra = []
    if replay_cases is not None:
        os.makedirs(vlib.WORK, exist_ok=True)
        rc = os.path.join(vlib.WORK, prop.lower() + "-" + mode + "-replay.txt")
        open(rc, "w").write("".join(c + "\n" for c in replay_cases))
        extra = ["-in", rc]
    vlib.run_harness(mode, work, seed, n, tier, extra=extra, timeout=timeout)
    cases = vlib.lines(os.path.join(work, "cases.txt"))
    impl = vlib.lines(os.path.join(work, "impl.txt"))
    res = {"work": work, "cases": cases, "impl": impl, "models": {}}
    for mm in ([mode] if model_modes is None else model_modes):
        out = os.path.join(work, "model-%s.txt" % mm)
        vlib.run_model(mm, os.path.join(work, "cases.txt"), out, timeout=timeout)
        res["models"][mm] = vlib.lines(out)
    hist = os.path.join(work, "hist.json")
    res["hist"] = json.load(open(hist)) if os.path.exists(hist) else {}
    return res


def add_corr(rep, name, res, mismatches, nontrivial):
    c = rep.cov.setdefault("correspondence", {})
    c[name] = {"cases": len(res["cases"]), "kinds": res["hist"], "disagreements": len(mismatches)}
    rep.cov["evaluations"] = rep.cov.get("evaluations", 0) + len(res["cases"])
    rep.cov["distinct_nontrivial"] = rep.cov.get("distinct_nontrivial", 0) + nontrivial
    rep.cov["traces_validated_against_impl"] = rep.cov.get("traces_validated_against_impl", 0) + len(res["cases"])


def strict_routing(rep, prop, seed, n, tier):
    """histories in which no slot changes its owner (migrations begin, keys move, ASK redirections happen): every command's
    first hop must be the owner of its slot; replies/data/executions as the model says.  Returns a violation dict or None."""
    res = differential(rep, prop, "c04strict", seed, n, tier, model_modes=["c04"])
    cases, impl, model = res["cases"], res["impl"], res["models"]["c04"]
    mm = vlib.diff_lines(impl, model)
    add_corr(rep, "Histories without a change of owner (migrating slots, ASK redirections): the first hop of every command is the slot's owner; replies, data, executions vs the model",
             res, mm, len({c for c in cases if " mb " in c and " q " in c}))
    if not mm:
        return None
    i = min(mm, key=lambda j: len(cases[j]))
    tail = impl[i].split(" || ")[-1]
    return {"kind": "history", "oracle": "observed '%s' (or other fields differ), expected '%s'" % (tail[:200], model[i].split(" || ")[-1][:200]),
            "case": {"line": cases[i], "format": "nodes layout 2 # items: q <request> [@ask steps] | mb slot to | mk hexkey"},
            "impl": impl[i][:4000], "model": model[i][:4000], "failing_cases": len(mm)}
