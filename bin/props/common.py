# helpers shared by the per-property check modules
import json, os
import vlib


def differential(rep, prop, mode, seed, n, tier, replay_cases=None, model_modes=None, timeout=3000):
    """run harness mode + model mode(s) on the same cases; returns dict with lists"""
    work = os.path.join(vlib.WORK, prop.lower() + "-" + mode)
    extra = []
    if replay_cases is not None:
        os.makedirs(vlib.WORK, exist_ok=True)
        rc = os.path.join(vlib.WORK, prop.lower() + "-" + mode + "-replay.txt")
        open(rc, "w").write("".join(c + "\n" for c in replay_cases))
        extra = ["-in", rc]
    vlib.run_harness(mode, work, seed, n, tier, extra=extra, timeout=timeout)
    cases = vlib.lines(os.path.join(work, "cases.txt"))
    impl = vlib.lines(os.path.join(work, "impl.txt"))
    res = {"work": work, "cases": cases, "impl": impl, "models": {}}
    for mm in ([mode] if model_modes is None else model_modes):
        out = os.path.join(work, "model-%s.txt" % mm)
        vlib.run_model(mm, os.path.join(work, "cases.txt"), out, timeout=timeout)
        res["models"][mm] = vlib.lines(out)
    hist = os.path.join(work, "hist.json")
    res["hist"] = json.load(open(hist)) if os.path.exists(hist) else {}
    return res


def add_corr(rep, name, res, mismatches, nontrivial):
    c = rep.cov.setdefault("correspondence", {})
    c[name] = {"cases": len(res["cases"]), "kinds": res["hist"], "disagreements": len(mismatches)}
    rep.cov["evaluations"] = rep.cov.get("evaluations", 0) + len(res["cases"])
    rep.cov["distinct_nontrivial"] = rep.cov.get("distinct_nontrivial", 0) + nontrivial
    rep.cov["traces_validated_against_impl"] = rep.cov.get("traces_validated_against_impl", 0) + len(res["cases"])


def strict_routing(rep, prop, seed, n, tier):
    """histories in which no slot changes its owner (migrations begin, keys move, ASK redirections happen): every command's
    first hop must be the owner of its slot; replies/data/executions as the model says.  Returns a violation dict or None."""
    res = differential(rep, prop, "c04strict", seed, n, tier, model_modes=["c04"])
    cases, impl, model = res["cases"], res["impl"], res["models"]["c04"]
    mm = vlib.diff_lines(impl, model)
    add_corr(rep, "Histories without a change of owner (migrating slots, ASK redirections): the first hop of every command is the slot's owner; replies, data, executions vs the model",
             res, mm, len({c for c in cases if " mb " in c and " q " in c}))
    if not mm:
        return None
    i = min(mm, key=lambda j: len(cases[j]))
    tail = impl[i].split(" || ")[-1]
    return {"kind": "history", "oracle": "observed '%s' (or other fields differ), expected '%s'" % (tail[:200], model[i].split(" || ")[-1][:200]),
            "case": {"line": cases[i], "format": "nodes layout 2 # items: q <request> [@ask steps] | mb slot to | mk hexkey"},
            "impl": impl[i][:4000], "model": model[i][:4000], "failing_cases": len(mm)}


def replica_routing(rep, prop, seed, tier):
    """end to end over histories of replica assignments, unreachable masters, lost connections and load, with a periodic refresh
    (c14e2e) and with redirection-triggered refreshes only (c14e2et): the first hop of every command is the master owning the slot
    (writes, and reads under the master strategy) or one of its replicas; replies are the single server's.  Returns a violation dict or None."""
    import binascii
    quick = tier == "quick"
    PROP = prop
    found = False
    result = None
    def e2e_oracle(cases2, impl2, triggered):
        bad = []
        for i, c in enumerate(cases2):
            hd, ops = c.split(" # ")
            strategy, layout = int(hd.split()[0]), hd.split()[2]
            owner = {}
            ranges = []
            for r_ in layout.split(","):
                lohi, nd = r_.split("=")
                lo, hi = lohi.split("-")
                ranges.append((int(lo), int(hi), int(nd)))
            def owner_of(hexkey):
                sl = binascii.crc_hqx(bytes.fromhex(hexkey), 0) % 16384
                return [nd for lo, hi, nd in ranges if lo <= sl <= hi][0]
            outs = impl2[i].split()
            store, down, wrong_in_segment, k = {}, set(), 0, 0
            for o in ops.split():
                if o[0] in "amk" or (o[0] in "du" and not o[1:].isdigit()):
                    wrong_in_segment = 0
                    continue
                if o[0] == "d":
                    down.add(int(o[1:])); wrong_in_segment = 0; continue
                if o[0] == "u":
                    down.discard(int(o[1:])); wrong_in_segment = 0; continue
                if o[0] == "w":
                    continue
                if k >= len(outs):
                    bad.append((i, "fewer results than requests: %s" % impl2[i][:200])); break
                r = outs[k]; k += 1
                if o[0] == "L":
                    if r != "load:ok":
                        bad.append((i, "load of fresh keys over four connections: " + r)); break
                    continue
                reply, _, tag = r.partition("@")
                key = o[1:]
                owner_down = owner_of(key) in down
                if o[0] == "s":
                    want, tags = "S4f4b", ("M",)
                else:
                    want, tags = ("B76" if key in store else "Bn"), (("M",) if strategy == 0 else ("M", "R"))
                if owner_down and reply.startswith("E") and tag == "none":
                    continue                                   # the owner is unreachable: an error, nothing sent elsewhere
                if triggered and tag.startswith("X") and reply == want and wrong_in_segment == 0:
                    wrong_in_segment = 1                        # the one redirection that tells the proxy about the change
                    if o[0] == "s":
                        store[key] = True
                    continue
                if reply != want or tag not in tags:
                    bad.append((i, "%s %s: reply %s first sent to %s; a single server answers %s and the command may go to %s only (M = the master owning the slot, R = one of its replicas)%s"
                                % ("SET" if o[0] == "s" else "GET", key, reply, tag or "nobody", want, "/".join(tags),
                                   "; the refresh triggered by the first redirection should have corrected the table" if triggered and tag.startswith("X") else "")))
                    break
                if o[0] == "s":
                    store[key] = True
        return bad
    fmt_ = ("strategy(0 master,1 both,2 replica) masters layout # ar<m> add replica of m | mr<r>,<m> r now replicates m | d<m>/u<m> master stops/returns | k<n> connections of n reset | "
            "L load | w refresh | g<hexkey> | s<hexkey>")
    for mode, n_, what in (("c14e2e", 12 if quick else 250, "Replica assignments changing, masters unreachable, connections lost, load during refreshes (periodic refresh, end to end)"),
                           ("c14e2et", 14 if quick else 150, "Replica reassignment and lost connections with no periodic refresh (the table follows redirections only, end to end)")):
        res = differential(rep, PROP, mode, seed + 7, n_, tier, model_modes=[])
        cases2, impl2 = res["cases"], res["impl"]
        bad = e2e_oracle(cases2, impl2, mode == "c14e2et")
        add_corr(rep, what + ": first hop of every command and its reply vs the property's oracle", res, [b[0] for b in bad], len(set(cases2)))
        if bad and result is None:
            i, what_ = min(bad, key=lambda x: len(cases2[x[0]]))
            result = {"kind": "history", "mode": mode, "oracle": what_, "case": {"line": cases2[i], "format": fmt_}, "impl": impl2[i], "failing_cases": len(bad)}
    return result


def concurrent_hostset(rep, prop, seed, tier):
    """host.Set updated by several goroutines at once with commuting updates (each its own share of up to 3000 hosts) while a reader
    takes snapshots: afterwards the usable hosts are exactly the healthy members of the preferred tier.  Returns a violation dict or None."""
    res = differential(rep, prop, "c15conc", seed, 30 if tier == "quick" else 1500, tier, model_modes=[])
    cases, impl = res["cases"], res["impl"]
    bad = [i for i in range(len(cases)) if impl[i] != "ok"]
    add_corr(rep, "host.Set under concurrent commuting updates and a concurrent reader: final and intermediate snapshots vs the property's oracle", res, bad, len(set(cases)))
    if not bad:
        return None
    i = bad[0]
    return {"kind": "schedule", "oracle": impl[i], "case": {"line": cases[i], "format": "seed mains backups workers (harness c15conc -in <file>)"}, "impl": impl[i], "failing_cases": len(bad)}
