# C03 — on a stable cluster the proxy behaves like a single Redis server (also the engine of C01)
import json, os, re
import vlib
from props.common import differential, add_corr, replica_routing


def split3(line):
    p = line.split(" || ")
    return (p + ["", "", ""])[:3]


def first_diff(a, b, sep):
    xs, ys = a.split(sep), b.split(sep)
    for j in range(max(len(xs), len(ys))):
        x = xs[j] if j < len(xs) else "<nothing>"
        y = ys[j] if j < len(ys) else "<nothing>"
        if x != y:
            return j, x, y
    return None


def check_program(rep, prop, mode, tier, seed, replay, n_quick, n_thorough, what):
    """runs harness mode (c03 or c01) + model modes c03/c03spec; returns (found, cases)"""
    rc = [json.load(open(replay))["case"]["line"]] if replay else None
    res = differential(rep, prop, mode, seed, n_quick if tier == "quick" else n_thorough, tier, replay_cases=rc, model_modes=["c03", "c03spec"])
    cases, impl, model, spec = res["cases"], res["impl"], res["models"]["c03"], res["models"]["c03spec"]
    mm = vlib.diff_lines(impl, model)
    add_corr(rep, what, res, mm, len({c for c in cases if " # " in c and len(c.split(" ; ")) > 1}))
    rep.cov["samples"] += [{"case": cases[i][:300], "impl": impl[i][:300]} for i in (0, len(cases) - 1) if i < len(cases)]
    bad = []
    for i in range(len(cases)):
        r_impl, logs, red = split3(impl[i])
        if r_impl != spec[i]:
            d = first_diff(r_impl, spec[i], " ; ")
            bad.append((i, "reply %d is %s, the single server answers %s" % (d[0], d[1][:120], d[2][:120]) if d else "replies differ"))
        elif red != "moved=0 ask=0":
            bad.append((i, "the cluster had to redirect on a stable layout with a loaded routing table: " + red))
    rep.cov["correspondence"]["replies vs the single-server specification (ss_run)"] = {"cases": len(cases), "disagreements": len(bad)}
    fmt = "mode nodes layout(lo-hi=node) delays(ms) # conn:request ; ...   values as tokens S/E/I/B<hex>/A<n>"
    if bad:
        i, whatbad = min(bad, key=lambda x: len(cases[x[0]]))
        rep.violation({"kind": "program", "oracle": whatbad, "case": {"line": cases[i], "format": fmt}, "impl": impl[i][:4000], "spec": spec[i][:4000], "failing_cases": len(bad)})
        return True
    if mm:
        i = min(mm, key=lambda j: len(cases[j]))
        k = [a == b for a, b in zip(split3(impl[i]), split3(model[i]))].index(False)
        rep.violation({"kind": "broken-tie", "correspondence": "%s: %s differ between implementation and model" % (mode, ["replies", "per-node command logs", "redirect counters"][k]),
                       "case": {"line": cases[i], "format": fmt}, "impl": impl[i][:4000], "model": model[i][:4000]}, found_input=False)
        return True
    ms = [i for i in range(len(cases)) if split3(model[i])[0] != spec[i]]
    if ms:
        rep.violation({"kind": "broken-tie", "correspondence": "the transition system's output differs from ss_run (contradicts C03_single_server)", "case": {"line": cases[ms[0]]}}, found_input=False)
        return True
    return False


def run(rep, tier, seed, replay):
    PROP = "C03"
    rep.cov["rule"] = ("programs of 1-30 requests (strings, counters, lists, hashes, sets; MGET/MSET/DEL/EXISTS/TOUCH/UNLINK with 1-5 keys incl. repeated keys; mixed-case names; keys with hash tags, "
                       "CR/LF/NUL bytes, empty and 300-byte keys; values empty, CRLF, random bytes, 70 KiB (thorough: 3 MiB); unsupported and malformed requests) against a simulated cluster of "
                       "1-5 nodes over real TCP with a random slot layout of 1-3 ranges per node, through the real processor (proc.New, real listener, real upstream connections, table loaded from "
                       "CLUSTER NODES): sequential over 1-3 connections, pipelined with random fragmentation, and 2-4 concurrent pipelining connections on disjoint key spaces; nodes answer "
                       "after 0-5 ms. Compared: every reply (vs the model's transition system and vs ss_run), the commands each node executed in order, and the nodes' redirect counters (must be 0). "
                       "non-trivial = more than one request; distinct = distinct case line")
    rep.assumptions += ["the nodes' command semantics is the table of Model/RedisSem.v implemented twice (Coq, Go simulator); the theorems hold for every per-key semantics",
                        "one step of the model = handler sends one child / node answers one command / writer writes one reply; the pairing of a node's answers with the sent queue is part of the node step",
                        "concurrent connections are exercised on disjoint key spaces (their replies are then schedule-independent); shared keys only sequentially",
                        "commands that are not keyed (INFO, TIME, HOTKEY, SCAN) are outside this model (SCAN: C18)"]
    pr = vlib.prove(rep, PROP)
    vlib.prepare_runners()
    found = check_program(rep, PROP, "c03", tier, seed, replay, 250, 3000, "Programs through the real processor and a simulated cluster vs the model (replies, per-node logs, redirects)")
    # "delivered first to the slot's owner" while the routing table is being refreshed under load, with replicas around (end to end)
    v = replica_routing(rep, PROP, seed + 7, tier)
    if v and not found:
        found = True
        rep.violation(v)
    if not pr["ok"] and not found:
        rep.violation({"kind": "broken-tie", "theorem": pr.get("broken"), "detail": pr.get("tail"), "searched": "replies equal the single server's on every program"}, found_input=False)
