# C01 — replies come back in request order, exactly one per request
import vlib
from props.c03 import check_program
from props.common import differential, add_corr


def run(rep, tier, seed, replay):
    PROP = "C01"
    rep.cov["rule"] = ("pipelines of 1-30 requests written at once with random fragmentation (1-7 byte, 1-64 byte, 1-4096 byte pieces or one write) on one connection, and 2-4 connections "
                       "pipelining concurrently, against 1-5 simulated nodes that answer after 0-11 ms each (so nodes answer out of request order); requests include multi-key commands spread "
                       "over nodes, command names with CR LF and '+OK' inside, malformed and unsupported requests. Every connection must receive exactly its replies, in order (an extra byte "
                       "after the last reply or a missing reply is reported), equal to the single server's. non-trivial = more than one request; distinct = distinct case line")
    rep.assumptions += ["see C03: same transition system and simulator; delays are per node, not per command",
                        "the Go scheduler's interleavings are sampled; C01_in_order quantifies over every schedule of the model"]
    pr = vlib.prove(rep, PROP)
    vlib.prepare_runners()
    found = check_program(rep, PROP, "c01", tier, seed, replay, 200, 2500, "Pipelined and concurrent connections with slow nodes vs the model (replies in order, one each)")
    # framing only: one reply per request whatever the request contains (every command name, CR LF and reply look-alikes in every argument)
    res = differential(rep, PROP, "c01frame", seed + 5, 150 if tier == "quick" else 6000, tier, model_modes=[])
    cases, impl = res["cases"], res["impl"]
    bad = [i for i in range(len(cases)) if impl[i] != "replies=%d" % (int(cases[i].split()[0]) + 1)]
    add_corr(rep, "One reply per request for every command name with hostile arguments (replies counted up to a sentinel)", res, bad, len(set(cases)))
    if bad and not found:
        found = True
        i = min(bad, key=lambda j: len(cases[j]))
        special = {"cross": "a connection that keeps asking for its own key while another one is reset with forty requests in flight must read only its own replies",
                   "flush": "five requests over a backend connection whose writer is held up for 120 ms after each flush (every reply reaches the reader before its request is handed over) must each get exactly their own reply",
                   "late": "a node answering after 3.3 s: the one reply is the node's",
                   "filtered": "a pipeline GET k / APPEND k x with compression enabled (APPEND is answered by the filter chain, never written): both replies arrive, in order, within two seconds",
                   "big": "a pipeline alternating small replies and replies of 8192..70000 bytes from nodes that take 15 ms: every reply whole and in the position of its request"}
        kind = cases[i].split(" # ")[0].split()[2] if len(cases[i].split(" # ")[0].split()) > 2 else ""
        rep.violation({"kind": "input", "oracle": (special[kind] + "; observed: " + impl[i]) if kind in special else "%s requests and the sentinel must produce exactly %d replies; observed: %s" % (cases[i].split()[0], int(cases[i].split()[0]) + 1, impl[i]),
                       "case": {"line": cases[i], "format": "n token # requests (canonical tokens), then GET of a key holding the token"}, "impl": impl[i], "failing_cases": len(bad)})
    if not pr["ok"] and not found:
        rep.violation({"kind": "broken-tie", "theorem": pr.get("broken"), "detail": pr.get("tail"), "searched": "every pipeline received exactly its replies in order"}, found_input=False)
