# C01 — replies come back in request order, exactly one per request
import vlib
from props.c03 import check_program


def run(rep, tier, seed, replay):
    PROP = "C01"
    rep.cov["rule"] = ("pipelines of 1-30 requests written at once with random fragmentation (1-7 byte, 1-64 byte, 1-4096 byte pieces or one write) on one connection, and 2-4 connections "
                       "pipelining concurrently, against 1-5 simulated nodes that answer after 0-11 ms each (so nodes answer out of request order); requests include multi-key commands spread "
                       "over nodes, command names with CR LF and '+OK' inside, malformed and unsupported requests. Every connection must receive exactly its replies, in order (an extra byte "
                       "after the last reply or a missing reply is reported), equal to the single server's. non-trivial = more than one request; distinct = distinct case line")
    rep.assumptions += ["see C03: same transition system and simulator; delays are per node, not per command",
                        "the Go scheduler's interleavings are sampled; C01_in_order quantifies over every schedule of the model"]
    pr = vlib.prove(rep, PROP)
    vlib.prepare_runners()
    found = check_program(rep, PROP, "c01", tier, seed, replay, 200, 5000, "Pipelined and concurrent connections with slow nodes vs the model (replies in order, one each)")
    if not pr["ok"] and not found:
        rep.violation({"kind": "broken-tie", "theorem": pr.get("broken"), "detail": pr.get("tail"), "searched": "every pipeline received exactly its replies in order"}, found_input=False)
