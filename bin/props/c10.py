# C10 — RESP codec: decode/encode inverse and independent of chunking
import json, os
import vlib
from props.common import differential, add_corr

PROP = "C10"


def coarse(line):
    """decode output projected onto what C10 speaks about: the values, and clean end vs failure"""
    vals, _, err = line.rpartition("!")
    return vals + "!" + ("EOF" if err == "EOF" else "error")


def run(rep, tier, seed, replay):
    rep.cov["rule"] = ("decoder: streams = valid pipelines of generated values (all five types, null/empty, nesting <= 4, text lengths around 0/512/4096/8192/16K), "
                       "inline commands, token-level mutations of valid streams, a corpus of malformed frames, alphabet noise; each under a reader buffer size from "
                       "{1,2,3,5,16,21,22,23,32,33,64,4096,8192} and a read-size oracle (all-at-once, byte-by-byte, random small/large, two chunks split at every position). "
                       "encoder: generated values + int64 boundaries. integers: all 1-byte strings, all strings of length<=3 over a 17-letter alphabet, digit strings of length 0..22, "
                       "-300..33000 (itoa table path) . reader: random sequences of PeekByte/ReadByte/ReadSlice/ReadBytes/ReadFull on small buffers. "
                       "non-trivial = non-empty stream/value; distinct = distinct case line")
    rep.assumptions += ["io.Reader sources deliver between 1 and len(p) bytes per Read or an error (oracle of read sizes); errors other than io.EOF are one class",
                        "strconv.ParseInt/FormatInt behave as modelled (decimal, sign, syntax before range in scan order)",
                        "sliceAlloc/slab aliasing is not modelled: values are held until the end of each case by the harness instead"]
    pr = vlib.prove(rep, PROP)
    vlib.prepare_runners()
    quick = tier == "quick"
    rcase = json.load(open(replay)) if replay else None

    def rc(mode):
        if not rcase:
            return None
        return [rcase["case"]["line"]] if rcase.get("mode") == mode else []

    found = []

    # ---- decoder ----
    res = differential(rep, PROP, "c10dec", seed, 6000 if quick else 150000, tier, replay_cases=rc("c10dec"),
                       model_modes=["c10dec", "c10decflat", "c10canon"])
    cases, impl = res["cases"], res["impl"]
    mch, mfl, canon = res["models"]["c10dec"], res["models"]["c10decflat"], res["models"]["c10canon"]
    fine = vlib.diff_lines(impl, mch)
    mm = [i for i in range(len(cases)) if coarse(impl[i]) != coarse(mch[i]) or coarse(impl[i]) != coarse(mfl[i])]
    add_corr(rep, "decode-all on chunked readers: implementation vs chunked model vs flat model", res, mm, len(set(cases)))
    rep.cov["correspondence"]["decoder_error_class_differences"] = len(fine) - len([i for i in fine if i in set(mm)])
    rep.cov["samples"] += [{"mode": "c10dec", "case": cases[i][:300], "impl": impl[i][:300]} for i in (0, len(cases) // 2, len(cases) - 1) if i < len(cases)]
    if mm:
        # group by the stream: is the implementation itself chunk dependent?
        # the property quantifies over buffer sizes of 32 bytes and up: prefer such a case
        big = [j for j in mm if int(cases[j].split(" ")[0]) >= 32]
        i = min(big or mm, key=lambda j: len(cases[j]))
        B, e, sz, hx = cases[i].split(" ")
        whole = differential(rep, PROP, "c10dec", seed, 0, tier, replay_cases=["%s %s - %s" % (B, e, hx)], model_modes=["c10decflat"])
        chunk_dep = coarse(whole["impl"][0]) != coarse(impl[i])
        oracle = None
        if int(B) < 32:
            oracle = None
        elif chunk_dep:
            oracle = "chunk independence: the same bytes decode differently when split into reads of sizes %s than when delivered at once" % sz
        elif canon[i] == "canon":
            oracle = "round trip / concatenation: the stream is the canonical encoding of the values the (proved) model decodes, the implementation decodes something else"
        if oracle is None:
            # an inline command must decode to the same request as its array form (C10_inline): look for a case (buffer >= 32)
            # whose stream starts with an inline line and whose first decoded message differs from the array of its words
            for j in sorted(big, key=lambda j: len(cases[j]))[:400]:
                Bj, ej, szj, hxj = cases[j].split(" ")
                data = bytes.fromhex(hxj)
                if not data or data[:1] in (b"+", b"-", b":", b"$", b"*") or b"\r\n" not in data:
                    continue
                line = data[:data.index(b"\r\n")]
                words = [w for w in line.split(b" ") if w]
                if not words or b"\n" in line or len(line) + 2 > int(Bj) * 64:
                    continue
                want = "A%d %s" % (len(words), " ".join("B" + w.hex() for w in words))
                got = impl[j].split("|")[0].split("!")[0]
                if got != want and mch[j].split("|")[0].split("!")[0] == want:
                    i, B, e, sz, hx = j, Bj, ej, szj, hxj
                    oracle = "an inline command must decode to the same request as its array form: '%s' decoded to %s" % (line.decode("latin1")[:60], got[:120])
                    break
        if oracle:
            found.append(1)
            rep.violation({"kind": "input", "mode": "c10dec", "oracle": oracle,
                           "case": {"line": cases[i], "buffer_size": B, "read_sizes": sz, "stream_hex": hx},
                           "impl": impl[i], "impl_unchunked": whole["impl"][0], "model": mch[i], "disagreeing_cases": len(mm)})
        else:
            rep.violation({"kind": "broken-tie", "mode": "c10dec", "correspondence": "c10dec: implementation vs model on a non-canonical stream",
                           "case": {"line": cases[i]}, "impl": impl[i], "model": mch[i], "disagreeing_cases": len(mm)}, found_input=False)
            found.append(1)

    # ---- encoder ----
    res = differential(rep, PROP, "c10enc", seed, 3000 if quick else 60000, tier, replay_cases=rc("c10enc"))
    cases, impl, model = res["cases"], res["impl"], res["models"]["c10enc"]
    mm = vlib.diff_lines(impl, model)
    add_corr(rep, "encode (and decode of the result, whole and byte-by-byte): implementation vs model", res, mm, len(set(cases)))
    rep.cov["samples"] += [{"mode": "c10enc", "value": cases[i][:200], "impl": impl[i][:200]} for i in (0, len(cases) - 1) if i < len(cases)]
    if mm:
        i = min(mm, key=lambda j: len(cases[j]))
        found.append(1)
        rep.violation({"kind": "input", "mode": "c10enc", "oracle": "encode(v) must be the canonical RESP bytes of v and decode back to v under whole and byte-by-byte delivery",
                       "case": {"line": cases[i]}, "impl": impl[i][:2000], "model": model[i][:2000], "disagreeing_cases": len(mm)})

    # ---- integers ----
    res = differential(rep, PROP, "c10int", seed, 20000 if quick else 400000, tier, replay_cases=rc("c10int"))
    cases, impl, model = res["cases"], res["impl"], res["models"]["c10int"]
    mm = vlib.diff_lines(impl, model)
    add_corr(rep, "btoi64 / itoa: implementation vs model (= decimal specification, proved)", res, mm, len(set(cases)))
    rep.cov["samples"] += [{"mode": "c10int", "case": cases[i], "impl": impl[i]} for i in (5, len(cases) - 1) if i < len(cases)]
    if mm:
        i = min(mm, key=lambda j: len(cases[j]))
        found.append(1)
        rep.violation({"kind": "input", "mode": "c10int", "oracle": "btoi64 = strconv.ParseInt and itoa = strconv.FormatInt on every input",
                       "case": {"line": cases[i]}, "impl": impl[i], "model": model[i], "disagreeing_cases": len(mm)})

    # ---- reader operations ----
    res = differential(rep, PROP, "c10rd", seed, 20000 if quick else 400000, tier, replay_cases=rc("c10rd"), model_modes=["c10rd", "c10rdflat"])
    cases, impl = res["cases"], res["impl"]
    mm = sorted(set(vlib.diff_lines(impl, res["models"]["c10rd"])) | set(vlib.diff_lines(impl, res["models"]["c10rdflat"])))
    add_corr(rep, "Reader operation sequences: implementation vs chunked model vs flat model", res, mm, len(set(cases)))
    rep.cov["samples"] += [{"mode": "c10rd", "case": cases[i], "impl": impl[i]} for i in (0, len(cases) - 1) if i < len(cases)]
    if mm and not found:
        i = min(mm, key=lambda j: len(cases[j]))
        found.append(1)
        rep.violation({"kind": "broken-tie", "mode": "c10rd", "correspondence": "c10rd: bufio.go Reader operations vs the flat-stream specification",
                       "case": {"line": cases[i]}, "impl": impl[i], "model": res["models"]["c10rd"][i], "flat": res["models"]["c10rdflat"][i],
                       "disagreeing_cases": len(mm)}, found_input=False)

    if not pr["ok"] and not found:
        rep.violation({"kind": "broken-tie", "theorem": pr.get("broken"), "detail": pr.get("tail"),
                       "searched": "all four correspondences ran without disagreement"}, found_input=False)
