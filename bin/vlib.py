# Shared machinery of bin/check: build steps, correspondence runs, evidence, reporting.
import fcntl, hashlib, json, os, re, subprocess, sys, time, shutil

VERIF = os.path.dirname(os.path.dirname(os.path.abspath(__file__)))
REPO = os.environ.get("VERIF_REPO", "/repo")
WORK = os.path.join(VERIF, ".work")
BIN = os.path.join(WORK, "bin")
COQ = os.path.join(VERIF, "coq")
OUT = os.path.join(VERIF, "out")
REPLAY = os.path.join(OUT, "replay")

ENV = dict(os.environ)
ENV.update({"GOFLAGS": "-mod=mod", "GOPROXY": "off", "GOSUMDB": "off", "GOTOOLCHAIN": "local",
            "CGO_ENABLED": "0"})

KERNEL_TB = [
    "Coq 8.16.1 kernel incl. vm_compute conversion (no native_compute)",
    "gen/ table extractor (go/ast) printing coq/Gen/Tables.v from /repo on every run, and gen/trans.go (go/types) translating crc16, hashtag, parseCursor, genCursor into coq/Gen/Funcs.v (fragment and its semantics in the file's header: unsigned arithmetic wrapped to its width, int unbounded, run-time panics not modelled)",
    "extraction: ExtrOcamlBasic only (no Extract Constant; N/Z/nat/positive kept inductive), OCaml 4.13.1, run/driver.ml I/O glue",
    "Go harness (generators, canonical printers, comparators) and the verif-tagged export wrappers in /repo",
    "hand-written Gallina model in coq/Model (tied to the code by the correspondence run, not by translation)",
]


def sh(cmd, cwd=None, timeout=None, env=None, inp=None):
    """run, return (rc, combined output)"""
    try:
        p = subprocess.run(cmd, cwd=cwd, env=env or ENV, stdout=subprocess.PIPE, stderr=subprocess.STDOUT,
                           timeout=timeout, shell=isinstance(cmd, str), input=inp)
        return p.returncode, p.stdout.decode("utf-8", "replace")
    except subprocess.TimeoutExpired as e:
        return 124, (e.stdout or b"").decode("utf-8", "replace") + "\nTIMEOUT"


class Lock:
    def __init__(self, name="build"):
        os.makedirs(WORK, exist_ok=True)
        self.path = os.path.join(WORK, name + ".lock")

    def __enter__(self):
        self.f = open(self.path, "w")
        fcntl.flock(self.f, fcntl.LOCK_EX)

    def __exit__(self, *a):
        fcntl.flock(self.f, fcntl.LOCK_UN)
        self.f.close()


class Broken(Exception):
    """a tie (generator, model build, harness build) no longer works"""
    def __init__(self, what, detail):
        self.what, self.detail = what, detail


def ensure_tools():
    os.makedirs(BIN, exist_ok=True)
    gen = os.path.join(BIN, "gen")
    srcs = [os.path.join(VERIF, "gen", f) for f in os.listdir(os.path.join(VERIF, "gen"))]
    if not os.path.exists(gen) or any(os.path.getmtime(s) > os.path.getmtime(gen) for s in srcs):
        rc, out = sh(["go", "build", "-o", gen, "."], cwd=os.path.join(VERIF, "gen"), timeout=300)
        if rc != 0:
            raise Broken("gen-build", out)


def regenerate_tables():
    """G: regenerate coq/Gen/Tables.v from the current /repo working tree"""
    ensure_tools()
    rc, out = sh([os.path.join(BIN, "gen"), REPO, os.path.join(COQ, "Gen", "Tables.v")], timeout=120)
    if rc != 0:
        raise Broken("table-extractor", out)
    h = hashlib.sha256(open(os.path.join(COQ, "Gen", "Tables.v"), "rb").read())
    h.update(open(os.path.join(COQ, "Gen", "Funcs.v"), "rb").read())   # the translated functions (gen/trans.go)
    return h.hexdigest()


def coq_makefile():
    mk = os.path.join(COQ, "Makefile")
    cp = os.path.join(COQ, "_CoqProject")
    if not os.path.exists(mk) or os.path.getmtime(mk) < os.path.getmtime(cp):
        rc, out = sh("coq_makefile -f _CoqProject -o Makefile", cwd=COQ, timeout=60)
        if rc != 0:
            raise Broken("coq_makefile", out)


def make_target(target, timeout=1500):
    """full .vo build of one target and everything it depends on; returns (ok, output)"""
    coq_makefile()
    cmd = ["make", "-j16", target]
    rc, out = sh(cmd, cwd=COQ, timeout=timeout)
    return rc == 0, out, "cd coq && " + " ".join(cmd)


def failing_item(out):
    """name the lemma/theorem a coqc error points into"""
    m = re.search(r'File "\./([^"]+)", line (\d+)', out)
    if not m:
        return None, None
    path, line = m.group(1), int(m.group(2))
    name = None
    try:
        lines = open(os.path.join(COQ, path)).read().split("\n")
        for i in range(min(line, len(lines)) - 1, -1, -1):
            mm = re.match(r'\s*(Theorem|Lemma|Example|Corollary|Definition|Fixpoint)\s+([A-Za-z0-9_\']+)', lines[i])
            if mm:
                name = mm.group(2)
                break
    except OSError:
        pass
    return path, name


def theorems_of(prop):
    """(names of Theorem statements, number of Examples) in Properties/<prop>.v"""
    src = open(os.path.join(COQ, "Properties", prop + ".v")).read()
    src = re.sub(r'\(\*.*?\*\)', '', src, flags=re.S)
    return re.findall(r'^\s*Theorem\s+([A-Za-z0-9_\']+)', src, flags=re.M), len(re.findall(r'^\s*Example\s', src, flags=re.M))


def compile_property(prop):
    """recompile Properties/<prop>.v (cheap: only `exact`s) to capture Print Assumptions"""
    vo = os.path.join(COQ, "Properties", prop + ".vo")
    if os.path.exists(vo):
        os.remove(vo)
    ok, out, cmd = make_target("Properties/%s.vo" % prop)
    return ok, out, cmd


def parse_assumptions(out, names):
    """Print Assumptions output, in order of the theorems"""
    blocks = []
    cur = None
    for l in out.split("\n"):
        if l.startswith("Closed under the global context"):
            blocks.append([])
            cur = None
        elif l.startswith("Axioms:"):
            cur = []
            blocks.append(cur)
        elif cur is not None:
            if l.strip() == "" or l.startswith("COQC") or l.startswith("make"):
                cur = None
            else:
                cur.append(l.strip())
    res = {}
    for i, n in enumerate(names):
        res[n] = blocks[i] if i < len(blocks) else None
    return res


HYG = re.compile(r'\b(Admitted|admit|Axiom|Axioms|Parameter|Parameters|Conjecture|Admit Obligations)\b|Unset Guard|bypass_check|type-in-type|impredicative-set|Unset Universe Checking|Unset Positivity')


def hygiene():
    """no admits, axioms, parameters, disabled checks anywhere in coq/"""
    bad = []
    for d, _, fs in os.walk(COQ):
        for f in fs:
            if not f.endswith(".v"):
                continue
            p = os.path.join(d, f)
            src = open(p).read()
            nocom = re.sub(r'\(\*.*?\*\)', lambda m: "\n" * m.group(0).count("\n"), src, flags=re.S)
            depth = 0
            for i, l in enumerate(nocom.split("\n"), 1):
                if HYG.search(l):
                    bad.append("%s:%d: %s" % (os.path.relpath(p, COQ), i, l.strip()))
                if re.match(r'\s*Section\s', l):
                    depth += 1
                if re.match(r'\s*End\s', l) and depth > 0:
                    depth -= 1
                if depth == 0 and re.match(r'\s*(Variable|Variables|Hypothesis|Hypotheses|Context)\b', l):
                    bad.append("%s:%d: %s (outside a Section)" % (os.path.relpath(p, COQ), i, l.strip()))
    cp = open(os.path.join(COQ, "_CoqProject")).read()
    if re.search(r'type-in-type|impredicative-set|-vos|-vok', cp):
        bad.append("_CoqProject: forbidden flag")
    return bad


def build_modelrun():
    """extract the models (ExtrOcamlBasic) and build run/modelrun; needs only Model/*.vo"""
    ok, out, _ = make_target("Run/ExtractDeps.vo")
    if not ok:
        raise Broken("model-build", out)
    ex = os.path.join(WORK, "extract")
    deps = [os.path.join(COQ, "Run", "Extract.v"), os.path.join(COQ, "Run", "ExtractDeps.vo"),
            os.path.join(VERIF, "run", "driver.ml"), os.path.join(VERIF, "run", "main.ml")]
    exe = os.path.join(BIN, "modelrun")
    if os.path.exists(exe) and all(os.path.getmtime(d) <= os.path.getmtime(exe) for d in deps):
        return
    shutil.rmtree(ex, ignore_errors=True)
    os.makedirs(ex)
    rc, out = sh(["coqc", "-Q", COQ, "Sam", os.path.join(COQ, "Run", "Extract.v")], cwd=ex, timeout=600)
    if rc != 0:
        raise Broken("extraction", out)
    for f in ("driver.ml", "main.ml"):
        shutil.copy(os.path.join(VERIF, "run", f), ex)
    rc, out = sh("ocamlfind ocamlopt -package str -linkpkg -O2 -w -a $(ocamlfind ocamldep -sort *.ml *.mli) -o %s" % exe, cwd=ex, timeout=600)
    if rc != 0:
        raise Broken("modelrun-build", out)


def build_harness():
    """rebuild the Go harness against /repo's current working tree with -tags verif"""
    h = os.path.join(VERIF, "harness")
    try:
        shutil.copy(os.path.join(REPO, "go.sum"), os.path.join(h, "go.sum"))
    except OSError:
        pass
    rc, out = sh(["go", "build", "-tags", "verif", "-o", os.path.join(BIN, "harness"), "."], cwd=h, timeout=900)
    if rc != 0:
        raise Broken("harness-build", out)


# modes that start a processor and a simulated cluster per case keep a little per case (the repository's global statistics
# registry never forgets a processor's counters): a long run is split into several harness processes
CHUNK = 250
CHUNKED = {"c01", "c03", "c04", "c04strict", "c07", "c20", "c02", "c09", "c14e2e", "c14e2et", "c06tcp", "c05", "c01frame"}


def run_harness(mode, outdir, seed, n, tier, extra=(), timeout=900):
    shutil.rmtree(outdir, ignore_errors=True)
    os.makedirs(outdir)
    total_deadline = 240 if tier == "quick" else max(600, timeout - 600)
    if mode not in CHUNKED or n <= CHUNK or "-in" in extra:
        cmd = [os.path.join(BIN, "harness"), mode, "-seed", str(seed), "-n", str(n), "-out", outdir, "-tier", tier,
               "-deadline", str(total_deadline)] + list(extra)
        rc, out = sh(cmd, timeout=timeout)
        if rc != 0:
            raise Broken("harness-run:" + mode, out[-4000:])
        return out
    chunks = (n + CHUNK - 1) // CHUNK
    started = time.time()
    outs, hist = "", {}
    with open(os.path.join(outdir, "cases.txt"), "w") as fc, open(os.path.join(outdir, "impl.txt"), "w") as fi:
        for k in range(chunks):
            left = total_deadline - (time.time() - started)
            if left < 30:
                hist["stopped at the deadline"] = 1
                break
            sub = os.path.join(outdir, "chunk%d" % k)
            os.makedirs(sub)
            cmd = [os.path.join(BIN, "harness"), mode, "-seed", str(seed * 1000003 + k), "-n", str(min(CHUNK, n - k * CHUNK)), "-out", sub, "-tier", tier,
                   "-deadline", str(int(max(30, left / (chunks - k))))] + list(extra)
            rc, out = sh(cmd, timeout=max(120, int(left) + 300))
            if rc != 0:
                raise Broken("harness-run:" + mode, out[-4000:])
            outs += out
            fc.write(open(os.path.join(sub, "cases.txt")).read())
            fi.write(open(os.path.join(sub, "impl.txt")).read())
            hp = os.path.join(sub, "hist.json")
            if os.path.exists(hp):
                for kk, vv in json.load(open(hp)).items():
                    hist[kk] = hist.get(kk, 0) + vv
            shutil.rmtree(sub, ignore_errors=True)
    json.dump(hist, open(os.path.join(outdir, "hist.json"), "w"))
    return outs


def run_model(mode, cases, outfile, timeout=1800):
    rc, out = sh("ulimit -s unlimited; exec %s %s %s %s" % (os.path.join(BIN, "modelrun"), mode, cases, outfile), timeout=timeout)
    if rc != 0:
        raise Broken("modelrun:" + mode, out[-4000:])


def lines(path):
    with open(path) as f:
        return f.read().split("\n")[:-1]


def diff_lines(a, b):
    """indices where the two line lists differ"""
    n = max(len(a), len(b))
    return [i for i in range(n) if (a[i] if i < len(a) else None) != (b[i] if i < len(b) else None)]


def load_known(prop):
    p = os.path.join(VERIF, "known_findings.json")
    if not os.path.exists(p):
        return []
    return [e for e in json.load(open(p)) if e.get("property") == prop]


class Report:
    """collects what a check run did; prints KNOWN-FINDING / VIOLATION lines; writes evidence"""

    def __init__(self, prop, tier, seed):
        self.prop, self.tier, self.seed = prop, tier, seed
        self.t0 = time.time()
        self.violations = []      # (replay path, no_input?)
        self.known_seen = []
        self.cov = {"samples": [], "correspondence": {}, "trusted_base": list(KERNEL_TB)}
        self.assumptions = []
        self.nreplay = 0
        self.known = load_known(prop)

    def replay_path(self):
        os.makedirs(REPLAY, exist_ok=True)
        self.nreplay += 1
        return os.path.join(REPLAY, "%s-%d-%d.json" % (self.prop, self.seed, self.nreplay))

    def violation(self, replay, found_input=True):
        """replay: dict describing the failing input / broken tie"""
        replay = dict(replay)
        replay.setdefault("property", self.prop)
        replay.setdefault("seed", self.seed)
        p = self.replay_path()
        json.dump(replay, open(p, "w"), indent=1, default=str)
        self.violations.append(p)
        tail = "" if found_input else " no-failing-input-found"
        print("VIOLATION property=%s replay=%s%s" % (self.prop, p, tail), flush=True)

    def known_finding(self, entry, what=None):
        key = entry["id"]
        if key in [k for k in self.known_seen]:
            return
        self.known_seen.append(key)
        print("KNOWN-FINDING: property=%s %s" % (self.prop, what or entry.get("text", key)), flush=True)

    def finish(self, level="proof"):
        ev = {
            "property_id": self.prop, "tier": self.tier, "seed": self.seed, "level": level,
            "coverage": self.cov, "assumptions": self.assumptions,
            "wall_s": round(time.time() - self.t0, 2), "violations": len(self.violations),
            "known_findings_seen": self.known_seen,
        }
        os.makedirs(os.path.join(VERIF, "evidence"), exist_ok=True)
        json.dump(ev, open(os.path.join(VERIF, "evidence", self.prop + ".json"), "w"), indent=1, default=str)
        return 1 if self.violations else 0


def prove(rep, prop):
    """G + proofs for one property. Returns dict(ok, broken_theorem, out). Never raises on proof failure."""
    with Lock():
        sha = regenerate_tables()
        rep.cov["generated_tables_sha256"] = sha
        hy = hygiene()
        names, nex = theorems_of(prop)
        ok, out, cmd = make_target("Properties/%s.vo" % prop)
        res = {"ok": ok, "names": names, "out": out}
        if ok:
            ok2, out2, _ = compile_property(prop)
            ok = ok and ok2
            out = out2
            res["ok"] = ok
        rep.cov["checker_cmd"] = cmd + "   (full .vo build incl. every file Properties/%s.v depends on)" % prop
        rep.cov["obligations"] = len(names)
        rep.cov["examples"] = nex
        if ok:
            ass = parse_assumptions(out, names)
            rep.cov["discharged"] = len(names)
            rep.cov["print_assumptions"] = {k: ("Closed under the global context" if v == [] else v) for k, v in ass.items()}
            axioms = sorted({a for v in ass.values() if v for a in v})
            rep.cov["trusted_base"].append("axioms reported by Print Assumptions: " + (", ".join(axioms) if axioms else "none (every theorem closed under the global context)"))
            res["axioms"] = axioms
        else:
            path, name = failing_item(out)
            rep.cov["discharged"] = 0
            res["broken"] = "%s in coq/%s" % (name, path) if path else "build of Properties/%s.v" % prop
            res["tail"] = out[-3000:]
        if hy:
            res["ok"] = False
            res["broken"] = "hygiene: " + "; ".join(hy[:5])
            res["tail"] = "\n".join(hy)
            rep.cov["discharged"] = 0
        rep.cov["theorems"] = names
        return res


def prepare_runners():
    with Lock():
        build_modelrun()
        build_harness()
