#!/usr/bin/env python3
# regenerates /verif/MANIFEST.json from the table below
import json, os, subprocess
V = os.path.dirname(os.path.dirname(os.path.abspath(__file__)))
props = [json.loads(l) for l in open(os.path.join(V, "properties.jsonl"))]
NOTE = ("Trusted: Coq 8.16.1 kernel incl. vm_compute; the go/ast table extractor gen/; extraction with ExtrOcamlBasic only + OCaml driver; the Go harness and "
        "verif-tagged export wrappers; the hand-written Gallina model is tied to the code by the correspondence run, not by translation. ")
TECH = "Coq proof over a hand-written Gallina model + tables regenerated from Go source; differential correspondence of the extracted model with the Go code"
C = {}
C["C12"] = ("Coq theorems (all keys, all lengths): the table in util.go regenerated from source equals the XMODEM table; the table-driven fold equals bit-by-bit CRC16/XMODEM; "
            "hashtag equals the declarative first-{ / first-} rule; slot = crc mod 16384 < slotNum; the Go functions crc16 and hashtag themselves, translated into Gallina on every run "
            "(gen/trans.go -> Gen/Funcs.v), are proved equal to these models (C12_translated_code). Tie: table and the two functions regenerated on every run; crc16/hashtag/chooseHost run against the "
            "extracted model on every key of length <= 2, all brace placements up to length 7 and random keys.",
            "The translator covers a small Go fragment (header of gen/trans.go) and does not model run-time panics; chooseHost's use of the two functions is tied by the differential run; bytes < 256.", "DESIGN.md §4 C12")
C["C10"] = ("Coq theorems: (1) every operation of the buffered reader refines the flat-stream operation for every buffer size >= 1, every sequence of read sizes and every source error; "
            "(2) hence decoding ANY byte stream is independent of chunking; (3) decode(encode v ++ rest) = v, rest for every well-formed value (any nesting) and buffer >= 22; "
            "(4) concatenations decode to exactly their messages under every chunking; (5) inline = array form; (6) btoi64 = ParseInt spec, itoa = decimal text for all integers. "
            "Tie: limits/table bounds regenerated from source; decoder, encoder, integer helpers and Reader operation sequences of the Go code run against the extracted model "
            "(chunked and flat) with values held to the end of each case.",
            "Source model: each Read delivers 1..len(p) bytes or an error; strconv modelled; slab aliasing only observed by the harness.", "DESIGN.md §4 C10")
C["C17"] = ("Coq theorems: every frame with a payload that fits the read buffer round-trips; whatever readMessage accepts is exactly a frame sendMessage emits and a prefix of the bytes received "
            "(nothing malformed is read as a different message) and reading never leaves the buffer; the dispatcher, evaluated over the message numbering, dispatch switch and handler bodies "
            "regenerated from rpc.go/hotrestart.go, performs for every request type the documented step and acknowledgement, for every request sequence in order, skips malformed frames and "
            "serves the next child after a child disappears. Tie: tables regenerated on every run; readMessage/sendMessage on raw bytes over a unix socket pair for every (declared, carried) length "
            "pair on a grid; the public Restarter with a scripted Instance and raw children vs the model.",
            "Lock-step protocol (one frame per read) assumed, as the real child obeys; kill replaced by a recorder; unix stream socket semantics.", "DESIGN.md §4 C17")
C["C14"] = ("Coq theorems over the dispatch model instantiated with the handler table, read-only set and error texts regenerated from handler.go/redis.go: every name in the proxy's "
            "read-only set is read-only in Redis' own command table and no Redis write command is in it; a request whose name (ASCII case-insensitive) is not registered is answered with "
            "the unsupported error and nothing is forwarded; PING/QUIT/SELECT/INFO/TIME/HOTKEY are local; a non-read-only request has the owning master as its only candidate under every "
            "strategy; any candidate is the owner or one of its replicas. Tie: tables regenerated each run; the real handleRequest/handlers/chooseHost/CLUSTER NODES loading run against fake "
            "backends and compared (reply, every address+body that reached a backend) with the extracted model, and against the same model driven by Redis' flags (specification side).",
            "Redis' command flags are a trusted transcription; replica choice by wall-clock checked as set membership; Unicode case mapping facts of Go assumed.", "DESIGN.md §4 C14")
C["C18"] = ("Coq theorems: the composed cursor decodes back to (node index, node cursor) for every index < 2^16 and node cursor < 2^48; a cursor whose index is past the last node yields the "
            "terminating reply; for every list of fewer than 65535 nodes whose own cursor chains (any non-zero values below 2^48) return to 0, the client iteration from 0 ends at cursor 0 after "
            "exactly sum(chain)+1 calls, returns exactly the nodes' key batches and visits each node once along its chain; parseCursor/genCursor as translated from request.go on every run are the "
            "model's functions (C18_translated_code). Tie: the real handleScan/Convert/reply hook driven through the "
            "white-box environment: full client iterations over scripted nodes (cursors around 2^47/2^48) and single calls with boundary cursors and malformed node replies vs the extracted model.",
            "Host list unchanged during an iteration; node cursors below 2^48; more than 32767 nodes exceed int64 cursors (documented boundary).", "DESIGN.md §4 C18")
C["C13"] = ("Coq theorems for an abstract compressor (any comp/decomp with decomp(comp x)=Some x) over the magic number, value positions, disabled-command and skip lists regenerated from "
            "filter_compress.go: a value not starting with the header reads back identical at every threshold; what reaches the backend is the original or header++stream that decompresses to "
            "it and is strictly shorter; a re-sent (redirected) request is not compressed again; reading keeps working after compression is switched off; disabled commands are answered "
            "locally. Tie: tables regenerated each run; operation sequences (config changes, all nine write commands, forced MOVED, reads) through the real handlers/filter/hooks against a fake "
            "store, compared with the extracted model fed snappy's real output, with a no-compression model (the property's oracle), a stored-bytes oracle, and a concurrent-writers run.",
            "snappy itself is not modelled; values starting with the header are excluded as the property states.", "DESIGN.md §4 C13")
C["C11"] = ("Coq theorems: for every byte stream and every reader the decoder's recursion depth is bounded by the regenerated nesting limit (beyond maxArrayDepth-d+1 units of fuel more fuel "
            "changes nothing) and decoding is the same function of the bytes under every chunking (malformed streams included); whatever a backend replies, the request is completed or "
            "re-sent (never an out-of-range index, never dropped); CLUSTER NODES parsing never dereferences nil and expands at most 16384 slots per token; SCAN reply rewriting never indexes "
            "an empty array. Tie: limits regenerated; decoder, handleResp/handleRedirection, parseClusterNodes + the real doSlotsRefresh, and the SCAN hook run on malformed inputs under "
            "recover() against the extracted models; four depth probes (3M nested arrays / empty lines ...) decoded in a child process with a 48 MB stack cap.",
            "Go stack/heap/scheduler are runtime facts (the theorems bound the model's counters); inline commands and simple strings have no length limit in the code (line length is not bounded).",
            "DESIGN.md §4 C11")
C["C15"] = ("Coq theorems over a model of host.Set with object identities: after ANY sequence of Add/Remove/ReplaceAll/MarkHostHealthy/MarkHostUnhealthy (any objects, same address re-added as "
            "another object or type, stale objects) the cached usable list equals the members marked healthy in the preferred tier in address order, and lists members only (invariant by "
            "induction over operations); the health flag flips only at a check completing more than the configured number of consecutive contrary results. Tie: operation sequences on the real "
            "host.Set over 16 objects sharing 4 addresses observed after every operation (Healthy, All, latches, flags) and the real monitor with a scripted checker (all result sequences of "
            "length <= 10) vs the extracted model; the property's oracle is evaluated on every snapshot.",
            "Operations atomic at the granularity of the locked blocks; the CAS/lock interleaving of concurrent calls is not explored.", "DESIGN.md §4 C15")
C["C06"] = ("Coq theorems: any n consecutive round-robin counter values select each of n hosts exactly once (a permutation; hence k each for n*k); all three policies pick members of the candidate "
            "list; least-connection never prefers the strictly busier sample; the candidates are healthy members (C15 invariant); Remove through any object with the address closes the stored "
            "object's removal latch. Tie: the real balancers via a re-exported constructor with scripted draws, round robin under 64 concurrent callers, and host.Set sequences vs the model.",
            "The end-to-end TCP part (chosen backend per connection, closure on removal) is exercised by the relay harness; atomic increments assumed distinct/consecutive.", "DESIGN.md §4 C06")
C["C19"] = ("Coq theorems over the functional image of the counter's doubly linked frequency list: every reachable state (any accesses, latches, frees, capacity >= 1) has strictly "
            "ascending non-empty nodes, no key twice and at most capacity keys; one access makes the accessed key's count exact (+1 or 1 on admission), leaves all others unchanged, and when "
            "full evicts exactly one key of minimum count; the collector's Insert keeps the report ordered by non-increasing heat within capacity, and evictStale keeps it ordered for ANY "
            "subset of halved entries. Tie: operation sequences on the real Counter with the linked structure walked forwards and backwards after every operation vs the extracted model, "
            "the property oracle on every dump, and collector rounds with a scripted minute clock checked against the report properties.",
            "Logarithmic counters are random (report checked against the property, not predicted); the Value() data race with HOTKEY readers is not exercised.", "DESIGN.md §4 C19")
C["C08"] = ("Coq theorems over a model of the store's three update handlers, the events they emit and the controller's handling of them: for every history in which every delivered "
            "configuration validates (and static services are declared once, with distinct addresses), after the events are processed exactly the services with a configuration and an "
            "endpoint list have a processor, carrying the latest configuration and, address by address, the latest endpoint set (invariant by induction over operations); the settled state "
            "is the same for every interleaving of store updates and controller steps over the FIFO channel; updates for unknown services change and emit nothing; an update for one "
            "service leaves every other service's entry and processor untouched; the statement without the validity premise is refuted by a witness (known finding). Tie: histories through "
            "the real store, the real 32-slot channel and a real Controller (started late so the store runs ahead) with a recording processor, vs the extracted model and vs the property "
            "computed from the history alone.",
            "Processor creation is assumed to succeed; the discovery client (gRPC) is outside the model; Go-level interleavings are sampled, the schedule theorem covers the FIFO model.", "DESIGN.md §4 C08")
C["C03"] = ("Coq theorems over a transition system of the request path (connections reading in order, handlers sending one child at a time to the node owning the child's key, one FIFO "
            "connection per node, nodes answering, per-connection writers) for EVERY per-key command semantics, layout and schedule: with one connection the replies written so far are "
            "always the single server's replies to the first requests in order, and all of them at quiescence; with any number of connections the send order is a linearization (the "
            "single server replaying it gives the recorded replies, it contains each connection's children in program order, outputs are assembled from them); every command is queued on "
            "the node owning its slot. Invariant proof by induction over steps. Tie: generated handler table (plan_of) + programs through the real processor over TCP against a simulated "
            "cluster vs the extracted model (replies, per-node command order, redirect counters) and vs ss_run.",
            "Node semantics duplicated in Coq and the Go simulator; non-keyed commands outside; concurrency on shared keys not compared (no linearizability search).", "DESIGN.md §4 C03")
C["C01"] = ("Coq theorems over the same transition system: on every connection, at every point of every schedule, length(out) = requests answered <= requests read, out is the prefix of the "
            "single server's replies in order (one connection), and in general each reply is assembled from the replies to that request's own children; every reply the proxy writes itself "
            "(errors, fixed answers, the sum error) has no LF in its text for ANY request content, so it is one frame; decoding does not depend on fragmentation (C10). Tie: pipelines with "
            "random fragmentation and concurrent connections against nodes answering at different speeds, replies and absence of extra bytes compared with the model; framing-only run over every command name with CR LF / reply look-alikes in every argument (replies counted up to a sentinel), a node answering behind a short idle timeout and one answering after 3.3 s.",
            "Delays are per node; Go-level interleavings sampled.", "DESIGN.md §4 C01")
C["C04"] = ("Coq theorems over a model of a migrating cluster (per-node data, slot owners, migrating slots; nodes answer execute / ASK / MOVED by Redis Cluster's rules) and of the proxy's "
            "redirect handling, for EVERY per-key command semantics and slot function: any sequence of migration steps keeps 'each key lives on the owner or, while migrating, on owner or "
            "target but not both' and leaves the single-server view of the data unchanged; a request started at ANY node (arbitrarily stale table), with migration steps before every hop, "
            "ends within 3 hops with exactly one execution, the single server's reply (never MOVED/ASK) and the single server's data afterwards; whole programs follow by induction. "
            "Nodes with inconsistent views (Model/Gossip.v: a finalisation reaches the old owner before the new one, which keeps answering MOVED <old owner> for a while): whenever the chain "
            "ends, after any number of bounces, it ended with one execution and the single server's reply (unbounded fuel); it ends within 2*lag+3 hops, and exactly 2*lag+2 from the old owner. "
            "Tie: client programs with scripted migrations, steps fired inside redirect chains, finalisation windows with lagging owners, stale/fresh tables, failovers and background traffic through the real processor vs the model.",
            "Excludes a new migration of the request's own slot between two of its hops; failover assumes the replica has the data; errors allowed only until the refresh triggered by the "
            "unreachable node completes.", "DESIGN.md §4 C04")
C["C07"] = ("Coq theorems over a model of the backend-connection table (lookup, dial, a lost connection removing itself), the routing table and its triggered refresh, for every reachable "
            "state of any history of requests, connection resets, backends stopping/returning and layout changes: an error reply has a cause that holds at that moment (backend unreachable, "
            "or its lost connection not yet removed); finished connections leave the table; once the nodes involved are reachable the request is served by the owner with the single "
            "server's reply, over a connection with a never-used id and one more accept when the old one is gone; the first redirection's refresh makes the table equal the layout as soon "
            "as a configured host is reachable, and an up-to-date table never redirects. Tie: fault histories through the real processor against the simulator vs the extracted model.",
            "Faults between requests; the removal of a lost connection and the choice of the refresh host are scheduling/random facts (sampled).", "DESIGN.md §4 C07")
C["C20"] = ("Coq theorems over the counters as functions of the event history (connections arriving, handlers returning, requests dispatched/completed, Stop), for EVERY history and "
            "limit: total = destroyed + registered, the active gauge equals the number of registered connections (never negative), the registry never exceeds the limit and a connection "
            "under it is served, requests total = success + failure + in flight, each command's total = dispatched and success + error = completed; the quiescent equalities follow. "
            "Tie: histories with traffic, rejected requests, backend faults, limits and Stop against the real processor; the public stats are read after quiescence, checked against the "
            "equations and compared with the model run on the observed history.",
            "Upstream counters: conservation only (the refresh's own requests are not predicted); TCP processor counters via C05.", "DESIGN.md §4 C20")
C["C02"] = ("Coq theorems over a transition system of one backend connection (sender check-then-enqueue and re-check, writer and reader selects on the quit latch, connection loss, Stop, "
            "final drain as separate steps; a schedule is any interleaving): an invariant holds in every reachable state (no request lost, the writer never leaves with a request in its "
            "hands, after the drain nothing awaits an answer and anything queued has a sender that will look again), hence whenever every thread has run to completion every request is "
            "completed; no step completes a completed request again; the code as it was is refuted by two schedules (writer drops the request it holds; Send enqueues after the drain), both "
            "repaired by fix commits. Tie: stress with connection resets, node restarts, host-list replacement and Stop against the real processor (no reply missing after 6 s, order, "
            "Stop returns, no crash).",
            "Tie by outcome, not by step (goroutine interleavings cannot be forced without instrumenting unguarded code); liveness assumes fairness.", "DESIGN.md §4 C02")
C["C16"] = ("Coq theorems over a model of the subscription client (dependency set, ordered queue of unsent changes, the server's view of the current stream) for EVERY history of "
            "subscribe/unsubscribe calls, streams coming up and failing, and sender flushes: no call blocks; with a stream up, the server's view updated by the queued changes in order "
            "is the dependency set; one request built from the queue says exactly what the queued changes say; hence after one flush the subscriptions equal the dependency set. The code "
            "as it was is refuted twice (17th change with no stream blocks holding the lock so that the reconnect never happens; unsubscribe+subscribe in one batch lose their order), both "
            "repaired by fix commits. Tie: histories on the real client through a verif-tagged handle with a scripted stream factory vs the extracted model (bursts while the sender is busy included); end to end, dependency responses through the real discovery client (wrapped hook, both subscription clients, stream failures, Run's real retry pause) over a scripted api.DiscoveryServiceClient stub vs the dependency set.",
            "Server semantics of a request assumed (add then remove); the gRPC transport itself is not exercised.", "DESIGN.md §4 C16")
C["C09"] = ("Coq theorems over a model of the listener's life (Serve goroutine scheduled, bind rounds, accepts, handlers returning, Stop, Drain in ANY order): an invariant over every "
            "reachable state; Stop is never left waiting for a Serve that returned without signalling; while it waits, the handlers of the closed connections returning and Serve's next "
            "step let it return within (open connections + 2) steps; afterwards the socket is closed and no connection is left; Drain leaves established connections alone and no accept "
            "succeeds while draining; the code as it was is refuted (Stop during bind retry / before Serve runs waits for ever), repaired by fix commits together with two Redis-side "
            "hangs (silent backend). Tie: lifecycle scenarios and random stop points on both processors vs the extracted model's predictions: also connection loss under load before Stop, Stop during a slow backend connect, Stop during a health-check round on an unresponsive host, accept failing with EMFILE (the process really runs out of descriptors).",
            "Backends closed and goroutine count observed, not modelled; connection limit via C20.", "DESIGN.md §4 C09")
C["C05"] = ("Coq theorems over a model of one direction of the relay (source sends and half-closes, copy rounds whose reads return ANY number of bytes up to the buffer): at every moment "
            "delivered ++ unread = sent (nothing added, dropped, duplicated, reordered), end-of-stream is delivered only when everything has been, each round makes progress, the end "
            "follows once the source has finished; the two directions share no state. Tie: byte streams of many sizes, chunkings and half-close orders through the real TCP processor "
            "between a scripted client and backend vs the extracted model (length, checksum, end-of-stream, upstream counters).",
            "Read sizes of the proxy not observable (the theorem covers all); idle timeout and resets not exercised.", "DESIGN.md §4 C05")
checks = []
for pid in sorted(C):
    text, note, ref = C[pid]
    checks.append({"property_id": pid, "quick_cmd": "bin/check %s quick" % pid, "thorough_cmd": "bin/check %s thorough" % pid,
                   "evidence_file": "/verif/evidence/%s.json" % pid, "replay_cmd_template": "bin/check %s quick --replay {path}" % pid,
                   "engine": "coq-model+correspondence",
                   "level_claimed": {"category": "proof", "text": text, "design_ref": ref},
                   "level_note": NOTE + note, "technique": TECH})
hooks = subprocess.run(["git", "-C", "/repo", "log", "--format=%h %s"], stdout=subprocess.PIPE).stdout.decode().split("\n")
hook_commits = [l.split(" ")[0] for l in hooks if "verif hook" in l]
man = {"version": 1, "setup_cmd": "bin/setup",
       "hooks": {"guard": "verif (Go build tag)", "enable": "go build -tags verif (harness module with replace => /repo)",
                 "baseline_off_cmd": "cd /repo && GOFLAGS=-mod=mod GOPROXY=off GOSUMDB=off GOTOOLCHAIN=local go test -vet=off -count=1 -timeout 25m ./...",
                 "source_commits": hook_commits, "add_only": True},
       "engines": [{"name": "coq-model+correspondence", "path": "bin/check", "serves_properties": sorted(C),
                    "kind_free_text": "Coq 8.16 proofs over hand-written Gallina models (coq/), tables regenerated from Go source (gen/), models extracted to OCaml (run/) and run against the Go implementation (harness/)"}],
       "checks": checks, "notes": "see DESIGN.md",
       "not_applicable": [{"property_id": p["id"], "reason": "check not built yet in this session (work in progress; every property is planned, see DESIGN.md section 9)"}
                          for p in props if p["id"] not in C]}
json.dump(man, open(os.path.join(V, "MANIFEST.json"), "w"), indent=1)
print("checks:", sorted(C))
