(* Model of one backend connection of the Redis proxy (upstream.go: client.Send, loopWrite, loopRead, Start's
   shutdown and drainRequests, Stop) as a transition system over the places a request object can be in.
   A request object is referenced from exactly one place at a time (a sender's hands, one of the two channels, the
   writer's hands), so its place is a function of its id; `fixed` selects the repaired code (true) or the code as
   it was (false).  No proofs in this file. *)
From Coq Require Import List Arith Bool.
Import ListNotations.

Inductive loc :=
| LNew                (* not yet sent *)
| LChecked            (* Send has seen the quit latch open and is about to enqueue *)
| LPending            (* in pendingReqs *)
| LHeld               (* taken by the writer *)
| LProcessing         (* written, in processingReqs, awaiting the backend's answer *)
| LDone               (* completed (SetResponse called once) *)
| LLost.              (* dropped: nobody references it any more and it was never completed *)

Record bstate := {
  place : nat -> loc;
  recheck : nat -> bool;     (* the sender of this request has enqueued it and has not yet looked at the latch again *)
  quit : bool;
  conn_ok : bool;
  wrun : bool;               (* loopWrite still running *)
  rrun : bool;               (* loopRead still running *)
  drained : bool }.

Inductive bstep :=
| SCheck (i : nat) | SEnq (i : nat) | SRecheck (i : nat)
| WTake (i : nat) | WQuit | WHandOver (i : nat) | WHandOverQuit (i : nat) | WWriteFail (i : nat)
| RReply (i : nat) | RExit | RQuit
| EConnLost | EStopQuit      (* Stop: close(quit), then the connection is closed (EConnLost) *)
| DDrain.

Definition setp (f : nat -> loc) (i : nat) (l : loc) : nat -> loc := fun x => if Nat.eqb x i then l else f x.
Definition setb (f : nat -> bool) (i : nat) (b : bool) : nat -> bool := fun x => if Nat.eqb x i then b else f x.
Definition is_loc (a b : loc) : bool :=
  match a, b with
  | LNew, LNew | LChecked, LChecked | LPending, LPending | LHeld, LHeld | LProcessing, LProcessing | LDone, LDone | LLost, LLost => true
  | _, _ => false
  end.
(* drainRequests: everything in either channel is completed with "backend exited" *)
Definition drain (f : nat -> loc) : nat -> loc :=
  fun x => match f x with LPending | LProcessing => LDone | l => l end.

(* what a sender does when it finds the latch closed after enqueueing: only requests that were never written *)
Definition drain_pending (f : nat -> loc) : nat -> loc :=
  fun x => match f x with LPending => LDone | l => l end.

Definition upd (s : bstate) (p : nat -> loc) (rc : nat -> bool) (q c w r d : bool) : bstate :=
  {| place := p; recheck := rc; quit := q; conn_ok := c; wrun := w; rrun := r; drained := d |}.

(* ids: the requests that exist; at most one is held by the writer *)
Definition holds (ids : list nat) (s : bstate) : bool := existsb (fun i => is_loc (place s i) LHeld) ids.

Definition bnext0 (fixed : bool) (ids : list nat) (s : bstate) (x : bstep) : bstate :=
  match x with
  | SCheck i =>
    if is_loc (place s i) LNew
    then if quit s then upd s (setp (place s) i LDone) (recheck s) (quit s) (conn_ok s) (wrun s) (rrun s) (drained s)
         else upd s (setp (place s) i LChecked) (recheck s) (quit s) (conn_ok s) (wrun s) (rrun s) (drained s)
    else s
  | SEnq i =>
    if is_loc (place s i) LChecked
    then upd s (setp (place s) i LPending) (setb (recheck s) i fixed) (quit s) (conn_ok s) (wrun s) (rrun s) (drained s)
    else s
  | SRecheck i =>
    if recheck s i
    then if quit s then upd s (drain_pending (place s)) (setb (recheck s) i false) (quit s) (conn_ok s) (wrun s) (rrun s) (drained s)
         else upd s (place s) (setb (recheck s) i false) (quit s) (conn_ok s) (wrun s) (rrun s) (drained s)
    else s
  | WTake i =>
    if wrun s && negb (holds ids s) && is_loc (place s i) LPending
    then upd s (setp (place s) i LHeld) (recheck s) (quit s) (conn_ok s) (wrun s) (rrun s) (drained s)
    else s
  | WQuit =>
    if wrun s && negb (holds ids s) && quit s
    then upd s (place s) (recheck s) (quit s) false false (rrun s) (drained s)
    else s
  | WHandOver i =>       (* the write succeeded and the request goes to processingReqs *)
    if wrun s && is_loc (place s i) LHeld && conn_ok s
    then upd s (setp (place s) i LProcessing) (recheck s) (quit s) (conn_ok s) (wrun s) (rrun s) (drained s)
    else s
  | WHandOverQuit i =>   (* the write succeeded but the select takes the quit branch *)
    if wrun s && is_loc (place s i) LHeld && conn_ok s && quit s
    then upd s (setp (place s) i (if fixed then LDone else LLost)) (recheck s) (quit s) false false (rrun s) (drained s)
    else s
  | WWriteFail i =>
    if wrun s && is_loc (place s i) LHeld && negb (conn_ok s)
    then upd s (setp (place s) i LDone) (recheck s) (quit s) false false (rrun s) (drained s)
    else s
  | RReply i =>
    if rrun s && conn_ok s && is_loc (place s i) LProcessing
    then upd s (setp (place s) i LDone) (recheck s) (quit s) (conn_ok s) (wrun s) (rrun s) (drained s)
    else s
  | RExit =>
    if rrun s && negb (conn_ok s)
    then upd s (place s) (recheck s) true (conn_ok s) (wrun s) false (drained s)
    else s
  | RQuit =>             (* the repaired reader also watches the latch while it waits for the request to pair with *)
    if rrun s && quit s && fixed
    then upd s (place s) (recheck s) true (conn_ok s) (wrun s) false (drained s)
    else s
  | EConnLost => upd s (place s) (recheck s) (quit s) false (wrun s) (rrun s) (drained s)
  | EStopQuit => upd s (place s) (recheck s) true (conn_ok s) (wrun s) (rrun s) (drained s)
  | DDrain =>
    if negb (wrun s) && negb (rrun s) && negb (drained s)
    then upd s (drain (place s)) (recheck s) (quit s) (conn_ok s) (wrun s) (rrun s) true
    else s
  end.

Definition step_id (x : bstep) : option nat :=
  match x with
  | SCheck i | SEnq i | SRecheck i | WTake i | WHandOver i | WHandOverQuit i | WWriteFail i | RReply i => Some i
  | _ => None
  end.
(* only the requests that exist take steps *)
Definition bnext (fixed : bool) (ids : list nat) (s : bstate) (x : bstep) : bstate :=
  match step_id x with
  | Some i => if existsb (Nat.eqb i) ids then bnext0 fixed ids s x else s
  | None => bnext0 fixed ids s x
  end.

Definition binit : bstate :=
  {| place := fun _ => LNew; recheck := fun _ => false; quit := false; conn_ok := true; wrun := true; rrun := true; drained := false |}.

Definition brun (fixed : bool) (ids : list nat) (l : list bstep) : bstate := fold_left (bnext fixed ids) l binit.

(* every thread has run to completion *)
Definition finished (ids : list nat) (s : bstate) : bool :=
  negb (wrun s) && negb (rrun s) && drained s &&
  forallb (fun i => negb (is_loc (place s i) LChecked) && negb (recheck s i) && negb (is_loc (place s i) LNew)) ids.

Definition all_done (ids : list nat) (s : bstate) : bool := forallb (fun i => is_loc (place s i) LDone) ids.

(* what the threads still have to do once the connection has ended: the writer fails its write or sees the latch, the
   reader sees the closed connection, the shutdown drains, every sender finishes its call *)
Definition finishing_schedule (ids : list nat) : list bstep :=
  map WWriteFail ids ++ [WQuit; RExit; DDrain] ++ flat_map (fun i => [SCheck i; SEnq i; SRecheck i]) ids.
