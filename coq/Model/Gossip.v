(* Gossip lag on top of Model/Migrate.v: when a migration is finalised (CLUSTER SETSLOT <slot> NODE <target>), the old
   owner learns at once that the slot has passed to the target, the target itself only after a while.  Until then the
   two nodes hold inconsistent views: the old owner answers MOVED <target>, the target - still "importing, not owner"
   in its own view - answers MOVED <old owner> unless the command was preceded by ASKING.  The proxy
   (upstream.handleRedirection) follows every redirection, so a request bounces between the two until the target has
   learned; how long the target lags is a number of MOVED answers it still gives (lag count), which makes the model
   deterministic and lets the simulator reproduce it.  No proofs in this file. *)
From Coq Require Import List NArith Bool.
From Sam Require Import Model.Bytes Model.Resp Model.Cluster Model.Migrate.
Import ListNotations.
Open Scope N_scope.

Section Gossip.
  Variable V : Type.
  Variable sem : list resp -> option V -> option V * resp.
  Variable slot : bytes -> N.

  Record gstate := {
    gb : cstate V;                          (* the truth: data, owners, migrations in progress *)
    lag : N -> option (N * nat) }.          (* slot -> (old owner, MOVED answers the new owner still gives) *)

  Inductive gstep :=
  | GBase (m : mstep)                       (* a step of Model/Migrate.v; MFinish here reaches both nodes at once *)
  | GFinishLag (sl : N) (bounces : nat)     (* finish, but the target lags behind *)
  | GLearn (sl : N).                        (* the target learns (gossip arrives) *)

  Definition set_lag (g : gstate) (sl : N) (v : option (N * nat)) : N -> option (N * nat) :=
    fun x => if x =? sl then v else lag g x.

  Definition do_gstep (g : gstate) (s : gstep) : gstate :=
    match s with
    | GBase m =>
      {| gb := do_mstep V slot (gb g) m;
         (* a node that begins to migrate a slot away knows that it owns it *)
         lag := match m with MBegin sl _ => set_lag g sl None | _ => lag g end |}
    | GFinishLag sl b =>
      match mig V (gb g) sl with
      | Some _ => {| gb := do_mstep V slot (gb g) (MFinish sl); lag := set_lag g sl (Some (own V (gb g) sl, b)) |}
      | None => g
      end
    | GLearn sl => {| gb := gb g; lag := set_lag g sl None |}
    end.

  Definition do_gsteps (g : gstate) (l : list gstep) : gstate := fold_left do_gstep l g.

  (* the Migrate.v steps the truth goes through *)
  Definition base_of (s : gstep) : list mstep :=
    match s with GBase m => [m] | GFinishLag sl _ => [MFinish sl] | GLearn _ => [] end.

  (* what node n answers; a lagging new owner counts down *)
  Definition gnode (g : gstate) (n : N) (asking : bool) (k : bytes) : gstate * node_answer :=
    let sl := slot k in
    match lag g sl with
    | Some (so, c) =>
      if own V (gb g) sl =? n then
        if asking then (g, NExec)
        else match c with
             | O => ({| gb := gb g; lag := set_lag g sl None |}, NExec)
             | S c' => ({| gb := gb g; lag := set_lag g sl (Some (so, c')) |}, NMoved so)
             end
      else (g, node_decide V slot (gb g) n asking k)
    | None => (g, node_decide V slot (gb g) n asking k)
    end.

  Inductive gchain_result :=
  | GDone (g : gstate) (r : resp) (node : N) (hops : nat)
  | GLoop (g : gstate).

  Fixpoint gchain (fuel : nat) (g : gstate) (n : N) (asking : bool) (s : sub) (envs : list (list gstep)) (hops : nat) : gchain_result :=
    match fuel with
    | O => GLoop g
    | S f =>
      let g1 := do_gsteps g (hd [] envs) in
      let '(g2, a) := gnode g1 n asking (sk s) in
      match a with
      | NExec => let '(cs, r) := exec_at V sem (gb g2) n s in GDone {| gb := cs; lag := lag g2 |} r n (S hops)
      | NAsk t => gchain f g2 t true s (tl envs) (S hops)
      | NMoved o => gchain f g2 o false s (tl envs) (S hops)
      end
    end.

  Definition lag_count (g : gstate) (sl : N) : nat := match lag g sl with Some (_, c) => c | None => 0 end.

  (* a sequential client, as Migrate.run_seq: the fuel of each request is what its slot's lag needs *)
  Record greq := { gq_pre : list gstep; gq_sub : sub; gq_first : N; gq_envs : list (list gstep) }.

  Fixpoint grun_seq (g : gstate) (l : list greq) : gstate * list (option (resp * N * nat)) :=
    match l with
    | [] => (g, [])
    | q :: t =>
      let g0 := do_gsteps g (gq_pre q) in
      match gchain (2 * lag_count g0 (slot (sk (gq_sub q))) + 4) g0 (gq_first q) false (gq_sub q) (gq_envs q) 0 with
      | GDone g' r n h => let '(g2, rs) := grun_seq g' t in (g2, Some (r, n, h) :: rs)
      | GLoop g' => let '(g2, rs) := grun_seq g' t in (g2, None :: rs)
      end
    end.
End Gossip.
