(* Model of proc/redis/hotkey: the per-backend key counter (counter.go) as the functional image
   of its doubly linked frequency list, and the collector's report list (collector.go):
   sorted insertion with capacity, stale eviction.  Keys are N.  No proofs in this file. *)
From Coq Require Import List NArith Bool.
Import ListNotations.
Open Scope N_scope.

Definition key := N.
(* frequency nodes in list order (ascending frequency), each with its items in list order *)
Definition buckets := list (N * list key).

Fixpoint tracked (b : buckets) : list key :=
  match b with [] => [] | (_, ks) :: t => ks ++ tracked t end.

Definition mem_key (k : key) (l : list key) : bool := existsb (N.eqb k) l.

Fixpoint freq_of (b : buckets) (k : key) : option N :=
  match b with
  | [] => None
  | (f, ks) :: t => if mem_key k ks then Some f else freq_of t k
  end.

Definition remove_key (k : key) (l : list key) : list key := filter (fun x => negb (x =? k)) l.

(* increment(item): move k from its node (freq f) to the node f+1 right after it (created when the next
   node has another frequency), appended at the tail; the old node disappears when it becomes empty *)
Fixpoint increment (b : buckets) (k : key) : buckets :=
  match b with
  | [] => []
  | (f, ks) :: t =>
    if mem_key k ks then
      let ks' := remove_key k ks in
      let t' := match t with
                | (f2, ks2) :: t2 => if f2 =? f + 1 then (f2, ks2 ++ [k]) :: t2 else (f + 1, [k]) :: t
                | [] => [(f + 1, [k])]
                end in
      match ks' with [] => t' | _ => (f, ks') :: t' end
    else (f, ks) :: increment t k
  end.

(* evict(): pop the head item of the head node *)
Definition evict (b : buckets) : buckets :=
  match b with
  | [] => []                                  (* nil head: the code would panic; excluded by capacity >= 1 *)
  | (f, []) :: t => t
  | (f, _ :: []) :: t => t
  | (f, _ :: ks) :: t => (f, ks) :: t
  end.

Definition evicted (b : buckets) : option key :=
  match b with (_, k :: _) :: _ => Some k | _ => None end.

(* add(item) *)
Definition add_new (b : buckets) (k : key) : buckets :=
  match b with
  | (f, ks) :: t => if f =? 1 then (f, ks ++ [k]) :: t else (1, [k]) :: b
  | [] => [(1, [k])]
  end.

Definition incr (cap : N) (b : buckets) (k : key) : buckets :=
  if cap =? 0 then b
  else if mem_key k (tracked b) then increment b k
  else
    let b1 := if cap <=? N.of_nat (length (tracked b)) then evict b else b in
    add_new b1 k.

Inductive cop := CIncr (k : key) | CLatch | CFree.

Definition cstep (cap : N) (b : buckets) (o : cop) : buckets :=
  match o with CIncr k => incr cap b k | CLatch => [] | CFree => [] end.

(* ---------- specification: a plain map key -> count with bounded size ---------- *)
Definition smap := list (key * N).
Definition sdom (m : smap) : list key := map fst m.
Fixpoint sget (m : smap) (k : key) : option N :=
  match m with [] => None | (k', c) :: t => if k =? k' then Some c else sget t k end.

(* ---------- the collector's sorted report (sortedHotKeys.Insert, evictStale) ---------- *)
Record hk := { hk_name : key; hk_val : N; hk_lut : N }.

(* sort.Search: first index whose value is <= v (data is in descending order) *)
Fixpoint search_pos (data : list hk) (v : N) : nat :=
  match data with
  | [] => O
  | x :: t => if hk_val x <=? v then O else S (search_pos t v)
  end.

Definition insert_hk (cap : N) (data : list hk) (k : hk) : list hk :=
  let l := length data in
  let i := search_pos data (hk_val k) in
  if N.of_nat l <? cap
  then firstn i data ++ k :: skipn i data                           (* append, shift, place *)
  else if Nat.ltb i l then firstn i data ++ k :: removelast (skipn i data)   (* shift drops the last *)
  else data.

Fixpoint insert_desc (k : hk) (sorted : list hk) : list hk :=
  match sorted with
  | [] => [k]
  | x :: t => if hk_val x <=? hk_val k then k :: x :: t else x :: insert_desc k t
  end.
Definition sort_desc (l : list hk) : list hk := fold_right insert_desc [] l.   (* stable for the model's purposes *)

Definition halve (now : N) (k : hk) : hk :=
  if (hk_lut k <? now) && negb (hk_val k =? 0)
  then {| hk_name := hk_name k; hk_val := hk_val k / 2; hk_lut := now |} else k.

Definition evict_stale (now : N) (data : list hk) : list hk :=
  sort_desc (filter (fun k => negb (hk_val k =? 0)) (map (halve now) data)).

Fixpoint desc_sorted (l : list hk) : bool :=
  match l with
  | x :: ((y :: _) as t) => (hk_val y <=? hk_val x) && desc_sorted t
  | _ => true
  end.
