(* Model of the discovery subscription client (config/discovery.go svcDiscoveryClient): the set of services the
   proxy depends on, the ordered queue of changes not yet sent, and what the discovery server has been told on the
   current stream.  `bounded` selects the code as it was (two 16-entry channels filled while holding the lock, order
   between them lost) for the refutations.  Service names are N.  No proofs in this file. *)
From Coq Require Import List NArith Bool.
Import ListNotations.
Open Scope N_scope.

Definition nset := list N.
Definition smem (a : N) (s : nset) : bool := existsb (N.eqb a) s.
Definition sadd (a : N) (s : nset) : nset := if smem a s then s else s ++ [a].
Definition sdel (a : N) (s : nset) : nset := filter (fun x => negb (x =? a)) s.

Inductive change := CSub (a : N) | CUnsub (a : N).
Definition cname (c : change) : N := match c with CSub a | CUnsub a => a end.

Record dstate := {
  desired : nset;                 (* subscribed: the current dependency set *)
  pending : list change;          (* changes queued since the last send, oldest first *)
  stream : option nset;           (* None: no stream; Some s: the server's view of this stream's subscriptions *)
  requests : N;                   (* requests sent on the current stream *)
  stuck : bool }.                 (* a caller is blocked for ever holding the lock (code as it was) *)

Inductive dop :=
| DSubscribe (a : N) | DUnsubscribe (a : N)
| DStreamUp                       (* a stream is established: the whole set is sent, the queue is emptied *)
| DStreamDown                     (* creation, send or receive failed: the stream is gone; Run retries *)
| DFlush.                         (* the sender loop takes everything queued and sends one request *)

(* what the server does with one request: it adds the subscribed names, then removes the unsubscribed ones *)
Definition server_apply (subs unsubs : list N) (s : nset) : nset :=
  fold_left (fun acc a => sdel a acc) unsubs (fold_left (fun acc a => sadd a acc) subs s).

(* takePending: only the last change of a name counts *)
Definition later_has (a : N) (l : list change) : bool := existsb (fun c => cname c =? a) l.
Fixpoint coalesce (l : list change) : list N * list N :=
  match l with
  | [] => ([], [])
  | c :: t =>
    let '(s, u) := coalesce t in
    if later_has (cname c) t then (s, u)
    else match c with CSub a => (a :: s, u) | CUnsub a => (s, a :: u) end
  end.
(* the code as it was: two channels, order between them lost *)
Definition split_channels (l : list change) : list N * list N :=
  (flat_map (fun c => match c with CSub a => [a] | _ => [] end) l, flat_map (fun c => match c with CUnsub a => [a] | _ => [] end) l).

Definition count_subs (l : list change) : nat := length (filter (fun c => match c with CSub _ => true | _ => false end) l).
Definition count_unsubs (l : list change) : nat := length (filter (fun c => match c with CUnsub _ => true | _ => false end) l).

Definition enqueue (bounded : bool) (s : dstate) (d : nset) (c : change) : dstate :=
  let full := match c with CSub _ => Nat.leb 16 (count_subs (pending s)) | CUnsub _ => Nat.leb 16 (count_unsubs (pending s)) end in
  match stream s with
  | None =>
    if bounded && full
    then {| desired := d; pending := pending s; stream := None; requests := requests s; stuck := true |}
    else {| desired := d; pending := pending s ++ [c]; stream := None; requests := requests s; stuck := stuck s |}
  | Some _ => {| desired := d; pending := pending s ++ [c]; stream := stream s; requests := requests s; stuck := stuck s |}
  end.

Definition dstep (bounded : bool) (s : dstate) (o : dop) : dstate :=
  if stuck s then s else
  match o with
  | DSubscribe a => if smem a (desired s) then s else enqueue bounded s (sadd a (desired s)) (CSub a)
  | DUnsubscribe a => if smem a (desired s) then enqueue bounded s (sdel a (desired s)) (CUnsub a) else s
  | DStreamUp =>
    match stream s with
    | Some _ => s
    | None => {| desired := desired s; pending := []; stream := Some (desired s);
                 requests := (match desired s with [] => 0 | _ => 1 end); stuck := false |}
    end
  | DStreamDown => {| desired := desired s; pending := pending s; stream := None; requests := 0; stuck := stuck s |}
  | DFlush =>
    match stream s, pending s with
    | Some sv, _ :: _ =>
      let '(subs, unsubs) := if bounded then split_channels (pending s) else coalesce (pending s) in
      {| desired := desired s; pending := []; stream := Some (server_apply subs unsubs sv); requests := requests s + 1; stuck := stuck s |}
    | _, _ => s
    end
  end.

Definition dinit : dstate := {| desired := []; pending := []; stream := None; requests := 0; stuck := false |}.
Definition drun (bounded : bool) (l : list dop) : dstate := fold_left (dstep bounded) l dinit.

(* one response of the dependency stream, as the wrapped hook of discoveryClient.StreamDependencies turns it into calls:
   the added services are subscribed, then the removed ones unsubscribed *)
Definition dep_response (r : list N * list N) : list dop := map DSubscribe (fst r) ++ map DUnsubscribe (snd r).
Definition dep_history (rs : list (list N * list N)) : list dop := flat_map dep_response rs.
(* the dependency set after a response *)
Definition dep_apply (s : nset) (r : list N * list N) : nset := server_apply (fst r) (snd r) s.

(* set equality as far as membership goes *)
Definition same_set (a b : nset) : Prop := forall x, smem x a = smem x b.
