(* Model of the configuration store's three update handlers (config/config.go), the events they
   emit (config/event.go) and the controller's event handling (controller/controller.go).
   Service names, configuration ids and addresses are N; a configuration carries whether it
   validates; maps are functions.  No proofs in this file. *)
From Coq Require Import List NArith Bool.
Import ListNotations.
Open Scope N_scope.

Definition name := N.
Record cfg := { cid : N; cvalid : bool }.
Record ep := { eaddr : N; ebackup : bool }.

Definition cfg_eqb (a b : cfg) : bool := (cid a =? cid b) && Bool.eqb (cvalid a) (cvalid b).

(* isContainEndpoint: by address *)
Definition has_addr (a : N) (l : list ep) : bool := existsb (fun e => eaddr e =? a) l.
(* append(s[:i], s[i+1:]...) for the first entry with that address *)
Fixpoint remove_addr (a : N) (l : list ep) : list ep :=
  match l with
  | [] => []
  | e :: t => if eaddr e =? a then t else e :: remove_addr a t
  end.

Record sw := { s_cfg : option cfg; s_eps : option (list ep) }.
Definition store := name -> option sw.
Definition sset (s : store) (n : name) (v : option sw) : store := fun x => if x =? n then v else s x.

Inductive event :=
| EAdd (n : name) (c : option cfg) (eps : list ep)
| ERemove (n : name)
| EConfig (n : name) (c : cfg)
| EEndpoint (n : name) (added removed : list ep).

Inductive sop :=
| OStatic (n : name) (c : option cfg) (eps : option (list ep))     (* a static service of the bootstrap file *)
| ODep (added removed : list name)
| OCfg (n : name) (c : cfg)
| OEp (n : name) (added removed : list ep).

Fixpoint dep_add (s : store) (added : list name) : store :=
  match added with
  | [] => s
  | n :: t => dep_add (match s n with Some _ => s | None => sset s n (Some {| s_cfg := None; s_eps := None |}) end) t
  end.

Fixpoint dep_remove (s : store) (removed : list name) : store * list event :=
  match removed with
  | [] => (s, [])
  | n :: t => match s n with
              | Some _ => let '(s', ev) := dep_remove (sset s n None) t in (s', ERemove n :: ev)
              | None => dep_remove s t
              end
  end.

(* the removal loop: valid removals in order *)
Fixpoint ep_removals (cur : list ep) (removed : list ep) : list ep * list ep :=
  match removed with
  | [] => (cur, [])
  | e :: t => if has_addr (eaddr e) cur
              then let '(c', v) := ep_removals (remove_addr (eaddr e) cur) t in (c', e :: v)
              else ep_removals cur t
  end.

Fixpoint ep_additions (cur : list ep) (added : list ep) : list ep * list ep :=
  match added with
  | [] => (cur, [])
  | e :: t => if has_addr (eaddr e) cur
              then ep_additions cur t
              else let '(c', v) := ep_additions (cur ++ [e]) t in (c', e :: v)
  end.

Definition store_step (s : store) (o : sop) : store * list event :=
  match o with
  | OStatic n c eps =>
    (sset s n (Some {| s_cfg := c; s_eps := eps |}), [EAdd n c (match eps with Some l => l | None => [] end)])
  | ODep added removed => dep_remove (dep_add s added) removed
  | OCfg n c =>
    match s n with
    | None => (s, [])
    | Some w =>
      let s' := sset s n (Some {| s_cfg := Some c; s_eps := s_eps w |}) in
      match s_eps w with
      | None => (s', [])
      | Some eps => match s_cfg w with
                    | None => (s', [EAdd n (Some c) eps])
                    | Some _ => (s', [EConfig n c])
                    end
      end
    end
  | OEp n added removed =>
    match added, removed with
    | [], [] => (s, [])
    | _, _ =>
      match s n with
      | None => (s, [])
      | Some w =>
        let cur := match s_eps w with Some l => l | None => [] end in
        let '(c1, vrem) := ep_removals cur removed in
        let '(c2, vadd) := ep_additions c1 added in
        let s' := sset s n (Some {| s_cfg := s_cfg w; s_eps := Some c2 |}) in
        match s_cfg w with
        | None => (s', [])
        | Some c =>
          match s_eps w with
          | None => (s', [EAdd n (Some c) c2])
          | Some _ => (s', match vadd, vrem with [], [] => [] | _, _ => [EEndpoint n vadd vrem] end)
          end
        end
      end
    end
  end.

(* ---------- controller ---------- *)
Record pr := { p_cfg : cfg; p_hosts : list ep }.
Definition ctl := name -> option pr.
Definition cset (c : ctl) (n : name) (v : option pr) : ctl := fun x => if x =? n then v else c x.

(* host.Set.Add: the address now holds this host; Remove: by address *)
Definition host_add (hs : list ep) (e : ep) : list ep := remove_addr (eaddr e) hs ++ [e].
Definition host_remove (hs : list ep) (e : ep) : list ep := remove_addr (eaddr e) hs.

Definition ctl_handle (c : ctl) (e : event) : ctl :=
  match e with
  | EAdd n oc eps =>
    match c n with
    | Some _ => c
    | None => match oc with
              | Some cf => if cvalid cf then cset c n (Some {| p_cfg := cf; p_hosts := fold_left host_add eps [] |}) else c
              | None => c
              end
    end
  | ERemove n => cset c n None
  | EConfig n cf =>
    match c n with
    | Some p => if cvalid cf then cset c n (Some {| p_cfg := cf; p_hosts := p_hosts p |}) else c
    | None => c
    end
  | EEndpoint n added removed =>
    match c n with
    | Some p => cset c n (Some {| p_cfg := p_cfg p; p_hosts := fold_left host_add added (fold_left host_remove removed (p_hosts p)) |})
    | None => c
    end
  end.

Fixpoint run_ops (s : store) (ops : list sop) : store * list event :=
  match ops with
  | [] => (s, [])
  | o :: t => let '(s1, e1) := store_step s o in let '(s2, e2) := run_ops s1 t in (s2, e1 ++ e2)
  end.

Definition empty_store : store := fun _ => None.
Definition empty_ctl : ctl := fun _ => None.
Definition converge (ops : list sop) : store * ctl :=
  let '(s, evs) := run_ops empty_store ops in (s, fold_left ctl_handle evs empty_ctl).

(* what the controller should be running for a store state *)
Definition find_addr (a : N) (l : list ep) : option bool :=
  match find (fun e => eaddr e =? a) l with Some e => Some (ebackup e) | None => None end.

(* ---------- relative speed of the store and the controller's event loop ----------
   A schedule interleaves store updates (Some o) with the controller taking one event off the channel (None);
   the channel is a FIFO (its bound of 32 only blocks the store, it never reorders). *)
Fixpoint run_sched (s : store) (q : list event) (c : ctl) (sch : list (option sop)) : store * list event * ctl :=
  match sch with
  | [] => (s, q, c)
  | Some o :: t => let '(s', e) := store_step s o in run_sched s' (q ++ e) c t
  | None :: t => match q with
                 | [] => run_sched s q c t
                 | e :: q' => run_sched s q' (ctl_handle c e) t
                 end
  end.
Fixpoint ops_of (sch : list (option sop)) : list sop :=
  match sch with [] => [] | Some o :: t => o :: ops_of t | None :: t => ops_of t end.
(* "once pending events are processed" *)
Definition settle (r : store * list event * ctl) : store * ctl :=
  let '(s, q, c) := r in (s, fold_left ctl_handle q c).
