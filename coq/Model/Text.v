(* Text helpers shared by the redis models: conversion of generated name tables to bytes,
   Go's case mappings as far as they can produce ASCII letters, splitting. No proofs. *)
From Coq Require Import List NArith Bool String Ascii.
From Sam Require Import Model.Bytes.
Import ListNotations.
Open Scope N_scope.

Fixpoint bytes_of_string (s : string) : bytes :=
  match s with
  | EmptyString => []
  | String a r => N.of_nat (nat_of_ascii a) :: bytes_of_string r
  end.

Definition is_upper (b : N) : bool := (65 <=? b) && (b <=? 90).
Definition ascii_lower_byte (b : N) : N := if is_upper b then b + 32 else b.
Definition ascii_lower (l : bytes) : bytes := map ascii_lower_byte l.

(* strings.ToLower / bytes.ToLower on a byte string, observed through equality with ASCII
   names: ASCII bytes are lower-cased; the only non-ASCII runes Go maps onto ASCII letters are
   U+0130 (C4 B0) -> 'i' and U+212A (E2 84 AA) -> 'k'; every other byte >= 0x80 becomes 0xFF,
   which occurs in no table name. *)
Fixpoint go_lower (l : bytes) : bytes :=
  match l with
  | [] => []
  | 196 :: 176 :: t => 105 :: go_lower t
  | 226 :: 132 :: 170 :: t => 107 :: go_lower t
  | b :: t => (if b <? 128 then ascii_lower_byte b else 255) :: go_lower t
  end.

(* bytes.EqualFold(x, name) for an ASCII lower-case name: simple case folding, where besides the
   ASCII letters U+017F (C5 BF) folds to 's' and U+212A (E2 84 AA) folds to 'k' *)
Fixpoint fold_image (l : bytes) : bytes :=
  match l with
  | [] => []
  | 197 :: 191 :: t => 115 :: fold_image t
  | 226 :: 132 :: 170 :: t => 107 :: fold_image t
  | b :: t => (if b <? 128 then ascii_lower_byte b else 255) :: fold_image t
  end.
Definition equal_fold (x name : bytes) : bool := bytes_eqb (fold_image x) name.

Definition mem_bytes (x : bytes) (l : list bytes) : bool := existsb (bytes_eqb x) l.

(* strings.Split(s, sep) for a one-byte separator *)
Fixpoint split_on (sep : N) (l : bytes) (cur : bytes) : list bytes :=
  match l with
  | [] => [rev cur]
  | x :: t => if x =? sep then rev cur :: split_on sep t [] else split_on sep t (x :: cur)
  end.

(* strings.Fields restricted to ASCII white space *)
Definition is_space (b : N) : bool := (b =? 32) || ((9 <=? b) && (b <=? 13)).
Fixpoint fields (l : bytes) (cur : bytes) : list bytes :=
  match l with
  | [] => match cur with [] => [] | _ => [rev cur] end
  | x :: t => if is_space x
              then match cur with [] => fields t [] | _ => rev cur :: fields t [] end
              else fields t (x :: cur)
  end.
