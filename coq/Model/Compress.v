(* Model of proc/redis/filter_compress.go: the compression filter on requests, the
   decompression hook on replies, and a reference key/value backend for the commands the
   filter touches.  The compressor itself (snappy) is abstract: comp / decomp are parameters.
   No proofs in this file. *)
From Coq Require Import List NArith ZArith Bool String.
From Sam Require Import Model.Bytes Model.Resp Model.Text Model.Dispatch.
Import ListNotations.
Open Scope string_scope.
Open Scope list_scope.
Open Scope N_scope.

Section Compress.
  Variable comp : bytes -> bytes.
  Variable decomp : bytes -> option bytes.
  Variable magic : bytes.                    (* cpsMagicNumber *)
  Variable cmds : list string.               (* case labels of Compress's switch ... *)
  Variable offs : list N.                    (* ... and their offsets *)
  Variable banned : list string.
  Variable wk_skip : list string.

  Definition alg : N := 0.                   (* Compression_SNAPPY *)
  Definition header : bytes := magic ++ [alg; CR; LF].
  Definition hdr_len : N := lenN magic + 3.

  Fixpoint is_prefix (p l : bytes) : bool :=
    match p, l with
    | [], _ => true
    | x :: p', y :: l' => (x =? y) && is_prefix p' l'
    | _, [] => false
    end.

  (* compressFilter.compress: only if strictly shorter *)
  Definition compress_value (thr : N) (v : bytes) : bytes :=
    if lenN v <? thr then v
    else let c := header ++ comp v in
         if lenN v <=? lenN c then v else c.

  (* compressFilter.decompress: header check (magic, known algorithm, CRLF), then the compressor *)
  Definition decompress_value (v : bytes) : bytes :=
    if lenN v <? hdr_len then v
    else if is_prefix header v
         then match decomp (dropN hdr_len v) with Some d => d | None => v end
         else v.

  Fixpoint decompress_reply (r : resp) : resp :=
    match r with
    | Int _ | Err _ => r
    | Simple t => Simple (decompress_value t)
    | Bulk None => Bulk None
    | Bulk (Some t) => Bulk (Some (decompress_value t))
    | Arr None => Arr None
    | Arr (Some l) => Arr (Some (map decompress_reply l))
    end.

  Fixpoint offset_of (c : string) (cs : list string) (os : list N) : option N :=
    match cs, os with
    | x :: cs', o :: os' => if String.eqb c x then Some o else offset_of c cs' os'
    | _, _ => None
    end.

  (* for i := offset; i < len; i += 2 *)
  Fixpoint compress_from (thr : N) (args : list resp) (skip : N) (phase : bool) : list resp :=
    match args with
    | [] => []
    | a :: rest =>
      if 0 <? skip then a :: compress_from thr rest (skip - 1) phase
      else if phase
           then (match a with Bulk (Some t) => Bulk (Some (compress_value thr t)) | _ => a end)
                :: compress_from thr rest 0 false
           else a :: compress_from thr rest 0 true
    end.

  Definition compress_args (thr : N) (cmd : string) (args : list resp) : list resp :=
    match offset_of cmd cmds offs with
    | Some o => compress_from thr args o true
    | None => args
    end.

  Definition mem_s (x : string) (l : list string) : bool := existsb (String.eqb x) l.

  (* the state the filter keeps on a request, and the compression section of the config *)
  Record creq := { c_body : list resp; c_filtered : bool; c_hook : bool (* decompress hook registered *) }.
  Record ccfg := { present : bool; enable : bool; threshold : N }.

  Inductive fstatus := FContinue (r : creq) | FStop (err : bytes).

  (* compressFilter.Do; cmd is the lower-cased command name as a string of the tables, or None
     when the name is in none of them *)
  Definition filter_do (cfg : ccfg) (cmd : option string) (r : creq) : fstatus :=
    if negb (present cfg) then FContinue r
    else if c_filtered r then FContinue r
    else
      let hook := match cmd with Some c => negb (mem_s c wk_skip) | None => true end in
      let r1 := {| c_body := c_body r; c_filtered := true; c_hook := c_hook r || hook |} in
      if negb (enable cfg) then FContinue r1
      else match cmd with
           | Some c => if mem_s c banned
                       then FStop (bytes_of_string "ERR command '" ++ bytes_of_string c ++ bytes_of_string "' is disabled in compress mode")
                       else FContinue {| c_body := compress_args (threshold cfg) c (c_body r); c_filtered := true; c_hook := c_hook r1 |}
           | None => FContinue r1
           end.

  Definition reply_through (r : creq) (reply : resp) : resp :=
    if c_hook r then decompress_reply reply else reply.
End Compress.

(* ---------- a reference backend for the commands involved ---------- *)

Inductive kval := KStr (v : bytes) | KHash (fs : list (bytes * bytes)).
Definition kstore := list (bytes * kval).

Fixpoint kget (s : kstore) (k : bytes) : option kval :=
  match s with [] => None | (k', v) :: t => if bytes_eqb k k' then Some v else kget t k end.
Fixpoint kput (s : kstore) (k : bytes) (v : kval) : kstore :=
  match s with
  | [] => [(k, v)]
  | (k', v') :: t => if bytes_eqb k k' then (k, v) :: t else (k', v') :: kput t k v
  end.
Fixpoint hget (fs : list (bytes * bytes)) (f : bytes) : option bytes :=
  match fs with [] => None | (f', v) :: t => if bytes_eqb f f' then Some v else hget t f end.
Fixpoint hput (fs : list (bytes * bytes)) (f v : bytes) : list (bytes * bytes) :=
  match fs with
  | [] => [(f, v)]
  | (f', v') :: t => if bytes_eqb f f' then (f, v) :: t else (f', v') :: hput t f v
  end.

Definition b_ok : resp := Simple (bytes_of_string "OK").
Definition b_wrong : resp := Err (bytes_of_string "WRONGTYPE").
Definition b_args : resp := Err (bytes_of_string "ERR args").
Definition arg (l : list resp) (i : nat) : bytes := bulk_text (nth i l (Bulk None)).

Fixpoint hput_pairs (fs : list (bytes * bytes)) (l : list resp) : list (bytes * bytes) :=
  match l with
  | f :: v :: rest => hput_pairs (hput fs (bulk_text f) (bulk_text v)) rest
  | _ => fs
  end.

(* executes one (single-key) command as the harness's fake backend does *)
Definition backend_exec (s : kstore) (body : list resp) : resp * kstore :=
  let name := ascii_lower (arg body 0) in
  let is n := bytes_eqb name (bytes_of_string n) in
  let k := arg body 1 in
  let n := List.length body in
  if is "set" then (if Nat.ltb n 3 then (b_args, s) else (b_ok, kput s k (KStr (arg body 2))))
  else if is "setex" || is "psetex" then (if Nat.ltb n 4 then (b_args, s) else (b_ok, kput s k (KStr (arg body 3))))
  else if is "setnx" then
    (if Nat.ltb n 3 then (b_args, s) else
     match kget s k with Some _ => (Int 0, s) | None => (Int 1, kput s k (KStr (arg body 2))) end)
  else if is "getset" then
    (if Nat.ltb n 3 then (b_args, s) else
     match kget s k with
     | Some (KStr old) => (Bulk (Some old), kput s k (KStr (arg body 2)))
     | Some (KHash _) => (b_wrong, s)
     | None => (Bulk None, kput s k (KStr (arg body 2)))
     end)
  else if is "get" then
    match kget s k with Some (KStr v) => (Bulk (Some v), s) | Some (KHash _) => (b_wrong, s) | None => (Bulk None, s) end
  else if is "hset" || is "hmset" then
    (if Nat.ltb n 4 then (b_args, s) else
     match kget s k with
     | Some (KStr _) => (b_wrong, s)
     | Some (KHash fs) => ((if is "hset" then Int 0 else b_ok), kput s k (KHash (hput_pairs fs (skipn 2 body))))
     | None => ((if is "hset" then Int 1 else b_ok), kput s k (KHash (hput_pairs [] (skipn 2 body))))
     end)
  else if is "hsetnx" then
    (if Nat.ltb n 4 then (b_args, s) else
     match kget s k with
     | Some (KStr _) => (b_wrong, s)
     | Some (KHash fs) => match hget fs (arg body 2) with
                          | Some _ => (Int 0, s)
                          | None => (Int 1, kput s k (KHash (hput fs (arg body 2) (arg body 3))))
                          end
     | None => (Int 1, kput s k (KHash [(arg body 2, arg body 3)]))
     end)
  else if is "hget" then
    match kget s k with
    | Some (KHash fs) => (match hget fs (arg body 2) with Some v => Bulk (Some v) | None => Bulk None end, s)
    | Some (KStr _) => (b_wrong, s)
    | None => (Bulk None, s)
    end
  else if is "hmget" then
    match kget s k with
    | Some (KStr _) => (b_wrong, s)
    | Some (KHash fs) => (Arr (Some (map (fun f => match hget fs (bulk_text f) with Some v => Bulk (Some v) | None => Bulk None end) (skipn 2 body))), s)
    | None => (Arr (Some (map (fun _ => Bulk None) (skipn 2 body))), s)
    end
  else if is "hgetall" then
    match kget s k with
    | Some (KStr _) => (b_wrong, s)
    | Some (KHash fs) => (Arr (Some (flat_map (fun fv => [Bulk (Some (fst fv)); Bulk (Some (snd fv))]) fs)), s)
    | None => (Arr (Some []), s)
    end
  else if is "hscan" then
    (* cursor 0, everything in one page: a nested array *)
    match kget s k with
    | Some (KStr _) => (b_wrong, s)
    | Some (KHash fs) => (Arr (Some [Bulk (Some [48]); Arr (Some (flat_map (fun fv => [Bulk (Some (fst fv)); Bulk (Some (snd fv))]) fs))]), s)
    | None => (Arr (Some [Bulk (Some [48]); Arr (Some [])]), s)
    end
  else (Err (bytes_of_string "ERR unknown"), s).
