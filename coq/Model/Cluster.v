(* Model of the Redis proxy's request path on a stable cluster (session.go, handler.go, request.go, upstream.go):
   downstream connections read requests in order, a handler sends the children of a request one by one to the node
   owning each child's key (one FIFO connection per node), nodes execute in arrival order and answer, the
   connection's writer emits the reply of the oldest unanswered request once all its children are answered.
   A node is a key-value store on which a command acts through an arbitrary per-key semantics `sem`
   (new value, reply) := sem body (old value).  The single server is the same semantics on one store.
   lin/gdb are history variables: the global order in which children were sent, with the reply the single server
   gives to each when it executes them in that order.  No proofs in this file. *)
From Coq Require Import List NArith Bool.
From Sam Require Import Model.Bytes Model.Resp Model.Dispatch.
Import ListNotations.
Open Scope N_scope.

Section Cluster.
  Variable V : Type.
  Variable sem : list resp -> option V -> option V * resp.
  Variable owner : bytes -> N.
  Variable assemble_with : assemble -> list resp -> resp.     (* Dispatch.assemble_reply, tables applied *)

  Definition db := bytes -> option V.
  Definition upd (d : db) (k : bytes) (v : option V) : db := fun x => if bytes_eqb x k then v else d x.

  Record sub := { sk : bytes; sb : list resp }.
  Definition exec_sub (d : db) (s : sub) : db * resp :=
    let '(v, r) := sem (sb s) (d (sk s)) in (upd d (sk s) v, r).

  Inductive request := RLocal (r : resp) | RFwd (a : assemble) (subs : list sub).
  Definition subs_of (r : request) : list sub := match r with RLocal _ => [] | RFwd _ l => l end.

  (* ---------- the single server ---------- *)
  Fixpoint ss_subs (d : db) (l : list sub) : db * list resp :=
    match l with
    | [] => (d, [])
    | s :: t => let '(d1, r) := exec_sub d s in let '(d2, rs) := ss_subs d1 t in (d2, r :: rs)
    end.
  Definition ss_req (d : db) (r : request) : db * resp :=
    match r with
    | RLocal x => (d, x)
    | RFwd a l => let '(d', rs) := ss_subs d l in (d', assemble_with a rs)
    end.
  Fixpoint ss_run (d : db) (l : list request) : db * list resp :=
    match l with
    | [] => (d, [])
    | r :: t => let '(d1, x) := ss_req d r in let '(d2, xs) := ss_run d1 t in (d2, x :: xs)
    end.

  (* ---------- the proxy and the cluster ---------- *)
  Record entry := { e_c : N; e_r : nat; e_i : nat; e_s : sub; e_x : resp (* history: the single server's reply *) }.
  Record conn := { todo : list request; sending : list sub; reqs : list request; nwritten : nat; out : list resp }.
  Record state := {
    nodes : N -> db;
    nq : N -> list entry;                         (* what is queued on / in flight to each node, oldest first *)
    conns : N -> conn;
    slots : N -> nat -> nat -> option resp;       (* connection, request index, child index *)
    lin : list entry;
    gdb : db }.

  Definition fset {A} (f : N -> A) (n : N) (v : A) : N -> A := fun x => if x =? n then v else f x.

  Inductive step := SRead (c : N) | SSend (c : N) | SExec (n : N) | SWrite (c : N).

  Definition nchildren (r : request) : nat := length (subs_of r).
  Definition last_req (l : list request) : request := last l (RLocal (Bulk None)).

  Definition slot_vals (sl : nat -> option resp) (n : nat) : list (option resp) := map sl (seq 0 n).
  Definition all_some (l : list (option resp)) : bool := forallb (fun o => match o with Some _ => true | None => false end) l.
  Definition vals (l : list (option resp)) : list resp := map (fun o => match o with Some r => r | None => Bulk None end) l.

  Definition do_step (st : state) (x : step) : state :=
    match x with
    | SRead c =>
      let cn := conns st c in
      match sending cn, todo cn with
      | [], r :: t =>
        {| nodes := nodes st; nq := nq st; slots := slots st; lin := lin st; gdb := gdb st;
           conns := fset (conns st) c {| todo := t; sending := subs_of r; reqs := reqs cn ++ [r]; nwritten := nwritten cn; out := out cn |} |}
      | _, _ => st
      end
    | SSend c =>
      let cn := conns st c in
      match sending cn with
      | s :: rest =>
        let '(g', r) := exec_sub (gdb st) s in
        let e := {| e_c := c; e_r := length (reqs cn) - 1; e_i := nchildren (last_req (reqs cn)) - length (s :: rest); e_s := s; e_x := r |} in
        let n := owner (sk s) in
        {| nodes := nodes st; nq := fset (nq st) n (nq st n ++ [e]); slots := slots st; lin := lin st ++ [e]; gdb := g';
           conns := fset (conns st) c {| todo := todo cn; sending := rest; reqs := reqs cn; nwritten := nwritten cn; out := out cn |} |}
      | [] => st
      end
    | SExec n =>
      match nq st n with
      | e :: t =>
        let '(d', r) := exec_sub (nodes st n) (e_s e) in
        {| nodes := fset (nodes st) n d'; nq := fset (nq st) n t; conns := conns st; lin := lin st; gdb := gdb st;
           slots := fun c j i => if (c =? e_c e) && Nat.eqb j (e_r e) && Nat.eqb i (e_i e) then Some r else slots st c j i |}
      | [] => st
      end
    | SWrite c =>
      let cn := conns st c in
      match nth_error (reqs cn) (nwritten cn) with
      | Some r =>
        let sv := slot_vals (slots st c (nwritten cn)) (nchildren r) in
        if all_some sv then
          let reply := match r with RLocal x => x | RFwd a _ => assemble_with a (vals sv) end in
          {| nodes := nodes st; nq := nq st; slots := slots st; lin := lin st; gdb := gdb st;
             conns := fset (conns st) c {| todo := todo cn; sending := sending cn; reqs := reqs cn; nwritten := S (nwritten cn); out := out cn ++ [reply] |} |}
        else st
      | None => st
      end
    end.

  Definition abs_db (nd : N -> db) : db := fun k => nd (owner k) k.

  Definition init (nd : N -> db) (progs : N -> list request) : state :=
    {| nodes := nd; nq := fun _ => []; slots := fun _ _ _ => None; lin := []; gdb := abs_db nd;
       conns := fun c => {| todo := progs c; sending := []; reqs := []; nwritten := 0; out := [] |} |}.

  Definition run (st : state) (sch : list step) : state := fold_left do_step sch st.

  (* the schedule a sequential client produces: one request at a time *)
  Definition quiescent (st : state) (c : N) : Prop :=
    todo (conns st c) = [] /\ sending (conns st c) = [] /\ nwritten (conns st c) = length (reqs (conns st c)).
End Cluster.

(* ---------- from the handler table's plan (Model/Dispatch.v) to a request of this model ---------- *)
Definition sub_of_pair (p : bytes * list resp) : sub := {| sk := fst p; sb := snd p |}.
Definition req_of_plan (p : plan) : option request :=
  match p with
  | PLocalErr t => Some (RLocal (Err t))
  | PLocalSimple t => Some (RLocal (Simple t))
  | PForward a subs => Some (RFwd a (map sub_of_pair subs))
  | _ => None          (* INFO, TIME, HOTKEY and SCAN are not keyed commands *)
  end.
(* the routing table: slot -> node, keys hashed by their tag *)
Definition owner_of (crc_table : list N) (layout : N -> N) (k : bytes) : N := layout (Slot.slot_of crc_table 16384 k).
