(* Model of client.handleResp, upstream.handleRedirection and upstream.handleClusterDown
   (upstream.go): what happens to a request when the backend's reply arrives. No proofs. *)
From Coq Require Import List NArith Bool String.
From Sam Require Import Model.Bytes Model.Resp Model.Text.
Import ListNotations.
Open Scope N_scope.

Inductive outcome :=
| OComplete (reply : resp)                       (* req.SetResponse(reply) *)
| OCompleteRefresh (reply : resp)                (* CLUSTERDOWN: trigger a slots refresh, then SetResponse *)
| OResend (addr : bytes) (asking : bool)         (* [ASKING to addr;] the request to addr; trigger a slots refresh *)
| OPanic                                         (* index out of range *)
| ONothing.                                      (* the request is neither completed nor re-sent *)

Definition s_moved := bytes_of_string "moved".
Definition s_ask := bytes_of_string "ask".
Definition s_clusterdown := bytes_of_string "clusterdown".

(* upstream.handleRedirection *)
Definition handle_redirection (v : resp) (text : bytes) : outcome :=
  let words := split_on 32 text [] in
  if lenN words <? 3 then OComplete v
  else
    match nth_error words 2 with
    | None => OPanic
    | Some addr =>
      let w0 := go_lower (hd [] words) in
      if bytes_eqb w0 s_moved then OResend addr false
      else if bytes_eqb w0 s_ask then OResend addr true
      else OComplete v
    end.

(* client.handleResp *)
Definition handle_resp (v : resp) : outcome :=
  match v with
  | Err text =>
    let prefix := match find_byte 32 text with Some i => takeN i text | None => [] end in
    if equal_fold prefix s_moved || equal_fold prefix s_ask then handle_redirection v text
    else if equal_fold prefix s_clusterdown then OCompleteRefresh v
    else OComplete v
  | _ => OComplete v
  end.
