(* Model of the connection and request statistics of a service (proc/listener.go addConn/removeConn/Stop,
   proc/redis/redis.go handleRequest): counters as functions of the event history.
   Events are what an observer outside the process sees; gauges are Z so that a wrap below zero would show.
   No proofs in this file. *)
From Coq Require Import List NArith ZArith Bool String.
Import ListNotations.
Open Scope Z_scope.

Inductive sevent :=
| SvConnect                          (* a downstream connection reaches the listener *)
| SvFinish                           (* the handler of one registered connection returns (peer closed, error, stop) *)
| SvReqStart (cmd : option string)   (* a request is dispatched; cmd = its handler's name when the proxy has one *)
| SvReqDone (cmd : option string) (ok : bool)   (* its completion hook runs: reply is an error or not *)
| SvStop.                            (* Stop: no new connection is registered; open ones are closed (their handlers return) *)

Record cmdstat := { c_total : Z; c_success : Z; c_error : Z }.

Record sstate := {
  limit : Z;                          (* 0 = unlimited *)
  stopped : bool;
  open_conns : Z;                     (* size of the registry *)
  cx_total : Z; cx_destroy : Z; cx_active : Z; cx_restricted : Z;
  rq_total : Z; rq_success : Z; rq_failure : Z; inflight : Z;
  cmds : list (string * cmdstat) }.

Fixpoint upd_cmd (name : string) (f : cmdstat -> cmdstat) (l : list (string * cmdstat)) : list (string * cmdstat) :=
  match l with
  | [] => [(name, f {| c_total := 0; c_success := 0; c_error := 0 |})]
  | (n, c) :: t => if String.eqb n name then (n, f c) :: t else (n, c) :: upd_cmd name f t
  end.

Definition sstep (s : sstate) (e : sevent) : sstate :=
  match e with
  | SvConnect =>
    if stopped s then s
    else if negb (limit s =? 0) && (limit s <=? open_conns s)
    then {| limit := limit s; stopped := stopped s; open_conns := open_conns s; cx_total := cx_total s; cx_destroy := cx_destroy s; cx_active := cx_active s;
            cx_restricted := cx_restricted s + 1; rq_total := rq_total s; rq_success := rq_success s; rq_failure := rq_failure s; inflight := inflight s; cmds := cmds s |}
    else {| limit := limit s; stopped := stopped s; open_conns := open_conns s + 1; cx_total := cx_total s + 1; cx_destroy := cx_destroy s; cx_active := cx_active s + 1;
            cx_restricted := cx_restricted s; rq_total := rq_total s; rq_success := rq_success s; rq_failure := rq_failure s; inflight := inflight s; cmds := cmds s |}
  | SvFinish =>
    if 0 <? open_conns s
    then {| limit := limit s; stopped := stopped s; open_conns := open_conns s - 1; cx_total := cx_total s; cx_destroy := cx_destroy s + 1; cx_active := cx_active s - 1;
            cx_restricted := cx_restricted s; rq_total := rq_total s; rq_success := rq_success s; rq_failure := rq_failure s; inflight := inflight s; cmds := cmds s |}
    else s
  | SvReqStart cmd =>
    {| limit := limit s; stopped := stopped s; open_conns := open_conns s; cx_total := cx_total s; cx_destroy := cx_destroy s; cx_active := cx_active s;
       cx_restricted := cx_restricted s; rq_total := rq_total s + 1; rq_success := rq_success s; rq_failure := rq_failure s; inflight := inflight s + 1;
       cmds := match cmd with Some n => upd_cmd n (fun c => {| c_total := c_total c + 1; c_success := c_success c; c_error := c_error c |}) (cmds s) | None => cmds s end |}
  | SvReqDone cmd ok =>
    {| limit := limit s; stopped := stopped s; open_conns := open_conns s; cx_total := cx_total s; cx_destroy := cx_destroy s; cx_active := cx_active s;
       cx_restricted := cx_restricted s; rq_total := rq_total s;
       rq_success := if ok then rq_success s + 1 else rq_success s; rq_failure := if ok then rq_failure s else rq_failure s + 1; inflight := inflight s - 1;
       cmds := match cmd with
               | Some n => upd_cmd n (fun c => if ok then {| c_total := c_total c; c_success := c_success c + 1; c_error := c_error c |}
                                               else {| c_total := c_total c; c_success := c_success c; c_error := c_error c + 1 |}) (cmds s)
               | None => cmds s end |}
  | SvStop =>
    {| limit := limit s; stopped := true; open_conns := open_conns s; cx_total := cx_total s; cx_destroy := cx_destroy s; cx_active := cx_active s;
       cx_restricted := cx_restricted s; rq_total := rq_total s; rq_success := rq_success s; rq_failure := rq_failure s; inflight := inflight s; cmds := cmds s |}
  end.

Definition sinit (lim : Z) : sstate :=
  {| limit := lim; stopped := false; open_conns := 0; cx_total := 0; cx_destroy := 0; cx_active := 0; cx_restricted := 0;
     rq_total := 0; rq_success := 0; rq_failure := 0; inflight := 0; cmds := [] |}.

Definition srun (lim : Z) (l : list sevent) : sstate := fold_left sstep l (sinit lim).

Fixpoint get_cmd (name : string) (l : list (string * cmdstat)) : cmdstat :=
  match l with
  | [] => {| c_total := 0; c_success := 0; c_error := 0 |}
  | (n, c) :: t => if String.eqb n name then c else get_cmd name t
  end.

Definition starts (name : string) (l : list sevent) : Z :=
  Z.of_nat (List.length (filter (fun e => match e with SvReqStart (Some n) => String.eqb n name | _ => false end) l)).
Definition dones (name : string) (l : list sevent) : Z :=
  Z.of_nat (List.length (filter (fun e => match e with SvReqDone (Some n) _ => String.eqb n name | _ => false end) l)).
