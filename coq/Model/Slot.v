(* Model of proc/redis/util.go: crc16, hashtag; and of the slot computation in
   upstream.chooseHost.  Bytes are N.  No proofs in this file. *)
From Coq Require Import List NArith Bool.
Import ListNotations.
Open Scope N_scope.

(* --- implementation side: the table-driven fold, table as a parameter ------------- *)

(* crc = ((crc << 8) & 0xff00) ^ tab[((crc>>8)&0xff) ^ uint16(b)]   (crc is uint16) *)
Definition crc_step (T : list N) (crc b : N) : N :=
  N.lxor (N.land (N.shiftl crc 8) 0xff00)
         (nth (N.to_nat (N.lxor (N.land (N.shiftr crc 8) 0xff) b)) T 0).

Definition crc16_tab (T : list N) (key : list N) : N := fold_left (crc_step T) key 0.

Definition lbrace : N := 123.
Definition rbrace : N := 125.

(* index of the first occurrence of c, or the length when absent (the Go for-loops) *)
Fixpoint index_of (c : N) (l : list N) : nat :=
  match l with
  | [] => O
  | x :: t => if N.eqb x c then O else S (index_of c t)
  end.

Definition hashtag (b : list N) : list N :=
  let n := length b in
  let i := index_of lbrace b in
  if Nat.eqb i n then b
  else
    let rest := skipn (S i) b in
    let j := (S i + index_of rbrace rest)%nat in
    if Nat.eqb j n || Nat.eqb j (S i) then b
    else firstn (j - S i) rest.

(* hash & (slotNum-1) *)
Definition slot_of (T : list N) (slot_num : N) (key : list N) : N :=
  N.land (crc16_tab T (hashtag key)) (slot_num - 1).

(* --- specification side: CRC16/XMODEM bit by bit ---------------------------------- *)
(* poly 0x1021, init 0, MSB first, no reflection, no final xor *)

Definition bit_step (crc : N) : N :=
  if N.testbit crc 15
  then N.land (N.lxor (N.shiftl crc 1) 0x1021) 0xffff
  else N.land (N.shiftl crc 1) 0xffff.

Definition loop8 (crc : N) : N :=
  bit_step (bit_step (bit_step (bit_step (bit_step (bit_step (bit_step (bit_step crc))))))).

Definition spec_step (crc b : N) : N := loop8 (N.lxor crc (N.shiftl b 8)).

Definition crc16_spec (key : list N) : N := fold_left spec_step key 0.

Definition xmodem_table : list N := map (fun i => loop8 (N.shiftl i 8)) (map N.of_nat (seq 0 256)).

Definition bytes_ok (l : list N) : Prop := Forall (fun b => b < 256) l.

(* executable form of the specification, independent of the generated table *)
Definition slot_spec (key : list N) : N := crc16_spec (hashtag key) mod 16384.
