(* Model of the TCP processor's relay (proc/tcp/proc.go pipeConn / io.CopyBuffer with a 16 KiB buffer): one copy loop
   per direction; each round reads some bytes (at least one, at most the buffer) and writes all of them; at the
   source's end-of-stream the loop shuts down the destination's write side.  No proofs in this file. *)
From Coq Require Import List NArith Bool.
From Sam Require Import Model.Bytes.
Import ListNotations.
Open Scope N_scope.

Record dir := {
  unread : bytes;          (* sent by the source, not yet read by the proxy *)
  src_closed : bool;       (* the source has finished sending (its FIN follows the unread bytes) *)
  delivered : bytes;       (* written to the destination, in order *)
  eof_delivered : bool }.  (* the destination has been told end-of-stream (CloseWrite) *)

Inductive rop :=
| RSend (data : bytes)     (* the source writes more *)
| RFinish                  (* the source half-closes *)
| RCopy (k : N).           (* one round of the copy loop: the read returns up to k bytes (k >= 1), or end-of-stream *)

Definition rstep (bufsize : N) (d : dir) (o : rop) : dir :=
  match o with
  | RSend data => if src_closed d then d else {| unread := unread d ++ data; src_closed := false; delivered := delivered d; eof_delivered := eof_delivered d |}
  | RFinish => {| unread := unread d; src_closed := true; delivered := delivered d; eof_delivered := eof_delivered d |}
  | RCopy k =>
    if eof_delivered d then d else
    match unread d with
    | [] => if src_closed d then {| unread := []; src_closed := true; delivered := delivered d; eof_delivered := true |} else d   (* the read blocks *)
    | _ => let n := N.min (N.max 1 k) bufsize in
           {| unread := dropN n (unread d); src_closed := src_closed d; delivered := delivered d ++ takeN n (unread d); eof_delivered := false |}
    end
  end.

Definition rinit : dir := {| unread := []; src_closed := false; delivered := []; eof_delivered := false |}.
Definition rrun (bufsize : N) (l : list rop) : dir := fold_left (rstep bufsize) l rinit.

(* everything the source has sent so far, in order *)
Fixpoint sent_of (l : list rop) (closed : bool) : bytes :=
  match l with
  | [] => []
  | RSend data :: t => if closed then sent_of t closed else data ++ sent_of t closed
  | RFinish :: t => sent_of t true
  | RCopy _ :: t => sent_of t closed
  end.

(* the two directions of a connection share nothing *)
Definition both (bufsize : N) (c2b b2c : list rop) : dir * dir := (rrun bufsize c2b, rrun bufsize b2c).
