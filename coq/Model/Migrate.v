(* Model of a Redis cluster whose slots are being migrated, and of the proxy's redirect handling
   (upstream.handleRedirection: MOVED -> resend to the named node; ASK -> ASKING then resend), one request at a time,
   with migration steps happening between requests and between the hops of one request.
   A node answers as Redis Cluster does:  owner of the slot: executes, except that for a slot it is migrating away
   and a key it no longer has it answers ASK <target>;  not the owner: executes only when it is importing the slot
   and the command was preceded by ASKING, otherwise MOVED <owner>.  No proofs in this file. *)
From Coq Require Import List NArith Bool.
From Sam Require Import Model.Bytes Model.Resp Model.Cluster.
Import ListNotations.
Open Scope N_scope.

Section Migrate.
  Variable V : Type.
  Variable sem : list resp -> option V -> option V * resp.
  Variable slot : bytes -> N.

  Record cstate := {
    ndb : N -> db V;
    own : N -> N;                 (* slot -> owning node *)
    mig : N -> option N }.        (* slot -> target node while the slot is migrating from its owner *)

  Inductive mstep :=
  | MBegin (sl t : N)             (* owner: MIGRATING to t, t: IMPORTING *)
  | MMoveKey (k : bytes)          (* MIGRATE one key of a migrating slot to the target *)
  | MFinish (sl : N).             (* remaining keys move, ownership passes to the target, both flags cleared *)

  Definition oeqb (a : option N) (b : N) : bool := match a with Some x => x =? b | None => false end.

  Definition do_mstep (cs : cstate) (m : mstep) : cstate :=
    match m with
    | MBegin sl t =>
      match mig cs sl with
      | None => if t =? own cs sl then cs
                else {| ndb := ndb cs; own := own cs; mig := fun x => if x =? sl then Some t else mig cs x |}
      | Some _ => cs
      end
    | MMoveKey k =>
      let sl := slot k in
      match mig cs sl, ndb cs (own cs sl) k with
      | Some t, Some v =>
        {| ndb := fun n => if n =? t then upd V (ndb cs t) k (Some v)
                           else if n =? own cs sl then upd V (ndb cs (own cs sl)) k None else ndb cs n;
           own := own cs; mig := mig cs |}
      | _, _ => cs
      end
    | MFinish sl =>
      match mig cs sl with
      | Some t =>
        let s := own cs sl in
        {| ndb := fun n k => if slot k =? sl
                             then (if n =? t then (match ndb cs s k with Some v => Some v | None => ndb cs t k end)
                                   else if n =? s then None else ndb cs n k)
                             else ndb cs n k;
           own := fun x => if x =? sl then t else own cs x;
           mig := fun x => if x =? sl then None else mig cs x |}
      | None => cs
      end
    end.

  Definition do_msteps (cs : cstate) (l : list mstep) : cstate := fold_left do_mstep l cs.

  (* the data as a single server would hold it *)
  Definition abs (cs : cstate) : db V := fun k =>
    let sl := slot k in
    match mig cs sl with
    | None => ndb cs (own cs sl) k
    | Some t => match ndb cs (own cs sl) k with Some v => Some v | None => ndb cs t k end
    end.

  Inductive node_answer := NExec | NAsk (t : N) | NMoved (o : N).

  Definition node_decide (cs : cstate) (n : N) (asking : bool) (k : bytes) : node_answer :=
    let sl := slot k in
    if own cs sl =? n then
      match mig cs sl, ndb cs n k with
      | Some t, None => NAsk t
      | _, _ => NExec
      end
    else if asking && oeqb (mig cs sl) n then NExec
    else NMoved (own cs sl).

  Definition exec_at (cs : cstate) (n : N) (s : sub) : cstate * resp :=
    let '(d, r) := exec_sub V sem (ndb cs n) s in
    ({| ndb := fun x => if x =? n then d else ndb cs x; own := own cs; mig := mig cs |}, r).

  (* one request: hops until a node executes; envs gives the migration steps that happen before each hop *)
  Inductive chain_result :=
  | CDone (cs : cstate) (r : resp) (node : N) (hops : nat)
  | CLoop (cs : cstate).                       (* out of fuel *)

  Fixpoint chain (fuel : nat) (cs : cstate) (n : N) (asking : bool) (s : sub) (envs : list (list mstep)) (hops : nat) : chain_result :=
    match fuel with
    | O => CLoop cs
    | S f =>
      let cs1 := do_msteps cs (hd [] envs) in
      match node_decide cs1 n asking (sk s) with
      | NExec => let '(cs2, r) := exec_at cs1 n s in CDone cs2 r n (S hops)
      | NAsk t => chain f cs1 t true s (tl envs) (S hops)
      | NMoved o => chain f cs1 o false s (tl envs) (S hops)
      end
    end.

  (* a sequential client: each request starts at the node the proxy's table names for the key (any table: it may be
     arbitrarily stale); q_pre: any migration steps before the request; q_envs: steps before each hop *)
  Record creq := { q_pre : list mstep; q_sub : sub; q_first : N; q_envs : list (list mstep) }.

  Fixpoint run_seq (fuel : nat) (cs : cstate) (l : list creq) : cstate * list (option (resp * N * nat)) :=
    match l with
    | [] => (cs, [])
    | q :: t =>
      match chain fuel (do_msteps cs (q_pre q)) (q_first q) false (q_sub q) (q_envs q) 0 with
      | CDone cs' r n h => let '(cs2, rs) := run_seq fuel cs' t in (cs2, Some (r, n, h) :: rs)
      | CLoop cs' => let '(cs2, rs) := run_seq fuel cs' t in (cs2, None :: rs)
      end
    end.
End Migrate.
