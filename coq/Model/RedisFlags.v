(* Reference data transcribed from Redis' own command table (redis 5.0 src/server.c, flags "r" =
   read-only, "w" = write). Trusted transcription; used only as the right-hand side of C14. *)
From Coq Require Import List String.
Import ListNotations.
Open Scope string_scope.

(* commands flagged read-only ("r") by Redis *)
Definition redis_read_only : list string := [
  "get"; "strlen"; "exists"; "getbit"; "bitfield_ro"; "getrange"; "substr"; "mget"; "llen"; "lindex"; "lrange";
  "scard"; "sismember"; "smismember"; "srandmember"; "sinter"; "sunion"; "sdiff"; "smembers"; "sscan";
  "zrange"; "zrangebyscore"; "zrevrangebyscore"; "zrangebylex"; "zrevrangebylex"; "zcount"; "zlexcount";
  "zrevrange"; "zcard"; "zscore"; "zrank"; "zrevrank"; "zscan";
  "hget"; "hmget"; "hlen"; "hstrlen"; "hkeys"; "hvals"; "hgetall"; "hexists"; "hscan";
  "randomkey"; "keys"; "scan"; "dbsize"; "type"; "ttl"; "touch"; "pttl"; "dump"; "object"; "memory";
  "bitcount"; "bitpos"; "geohash"; "geopos"; "geodist"; "georadius_ro"; "georadiusbymember_ro";
  "pfcount"; "xrange"; "xrevrange"; "xlen"; "xread"; "xpending"; "xinfo"; "lolwut"; "time"; "ping"; "echo" ].

(* commands of the supported set that Redis flags as write ("w") *)
Definition redis_write : list string := [
  "set"; "setnx"; "setex"; "psetex"; "append"; "del"; "unlink"; "setbit"; "setrange"; "incr"; "decr"; "incrby"; "decrby";
  "incrbyfloat"; "getset"; "mset"; "msetnx"; "rpush"; "lpush"; "rpushx"; "lpushx"; "linsert"; "rpop"; "lpop"; "lset"; "ltrim";
  "lrem"; "rpoplpush"; "sadd"; "srem"; "smove"; "spop"; "sinterstore"; "sunionstore"; "sdiffstore";
  "zadd"; "zincrby"; "zrem"; "zremrangebyscore"; "zremrangebyrank"; "zremrangebylex"; "zunionstore"; "zinterstore";
  "hset"; "hsetnx"; "hmset"; "hincrby"; "hincrbyfloat"; "hdel"; "expire"; "expireat"; "pexpire"; "pexpireat"; "persist";
  "restore"; "sort"; "geoadd"; "georadius"; "georadiusbymember"; "pfadd"; "pfmerge"; "eval"; "evalsha" ].

(* commands answered by the proxy itself *)
Definition proxy_local : list string := [ "ping"; "quit"; "select"; "info"; "time"; "hotkey" ].
