(* A client iterating SCAN through the proxy over scripted backend nodes (built on the cursor
   functions of Model/Dispatch.v).  No proofs in this file. *)
From Coq Require Import List NArith ZArith Bool.
From Sam Require Import Model.Bytes Model.Resp Model.Dispatch.
Import ListNotations.
Open Scope N_scope.

(* a node: for each cursor it may be given, the next cursor and the batch of keys it returns *)
Definition node := list (N * (N * list bytes)).

Fixpoint node_next (nd : node) (c : N) : N * list bytes :=
  match nd with
  | [] => (0, [])
  | (c', r) :: t => if c =? c' then r else node_next t c
  end.

(* one SCAN call of the client with cursor c (the uint64 it got back last time):
   next client cursor, keys returned, and which (node, node cursor) was asked *)
Definition client_step (nodes : list node) (c : N) : N * list bytes * option (N * N) :=
  let '(idx, ncur) := parse_cursor c in
  if lenN nodes <=? idx then (0, [], None)
  else
    let '(nn, keys) := node_next (nthN nodes idx []) ncur in
    let idx' := if nn =? 0 then (idx + 1) mod 65536 else idx in
    (gen_cursor idx' nn, keys, Some (idx, ncur)).

(* feed each returned cursor back until 0 comes back *)
Fixpoint iterate (fuel : nat) (nodes : list node) (c : N) : option (list bytes * list (N * N)) :=
  match fuel with
  | O => None
  | S f =>
    let '(c', keys, hit) := client_step nodes c in
    let hits := match hit with Some h => [h] | None => [] end in
    if c' =? 0 then Some (keys, hits)
    else match iterate f nodes c' with
         | Some (ks, hs) => Some (keys ++ ks, hits ++ hs)
         | None => None
         end
  end.

(* a node whose cursor chain, walked from cursor c, is cs (all non-zero) then 0, returning the batches ks *)
Fixpoint chain_from (nd : node) (c : N) (cs : list N) (ks : list (list bytes)) : Prop :=
  match cs, ks with
  | [], [k] => node_next nd c = (0, k)
  | c1 :: cs', k :: ks' => node_next nd c = (c1, k) /\ c1 <> 0 /\ c1 < two48 /\ chain_from nd c1 cs' ks'
  | _, _ => False
  end.
