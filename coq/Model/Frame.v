(* Model of cmd/samaritan/hotrestart: control-channel frames (rpc.go sendMessage/readMessage)
   and the request dispatcher (hotrestart.go handleChild), the dispatcher being driven by the
   tables regenerated from the source (message numbering, dispatch switch, handler scripts).
   No proofs in this file. *)
From Coq Require Import List NArith Bool String.
From Sam Require Import Model.Bytes.
Import ListNotations.
Open Scope N_scope.

(* ---------- frames ---------- *)

Inductive ferrk := InvalidHeader | Incomplete.
Inductive fres := FOk (t : N) (d : bytes) | FErr (e : ferrk) | FPanic.

(* newMessage + sendMessage: Len = uint16(len(data)); b = make([]byte, 3+Len) in uint16 arithmetic *)
Definition send_frame (t : N) (data : bytes) : option bytes :=
  let len := lenN data mod 65536 in
  let size := (3 + len) mod 65536 in
  if size <? 3 then None   (* b[0..2] out of range: panic *)
  else Some ([t mod 256; len / 256; len mod 256] ++ takeN (size - 3) data).

Fixpoint zeros (n : nat) : bytes := match n with O => [] | S k => 0 :: zeros k end.

(* readMessage on the bytes one ReadMsgUnix call returns (at most RS of them) *)
Definition read_frame (RS : N) (bs : bytes) : fres :=
  let got := takeN RS bs in
  let n := lenN got in
  if n <? 3 then FErr InvalidHeader
  else
    let t := nthN got 0 0 in
    let len := nthN got 1 0 * 256 + nthN got 2 0 in
    if (n - 3) <? len then FErr Incomplete
    else if RS <? 3 + len then FPanic       (* b[3:3+len] beyond the buffer *)
    else FOk t (takeN len (dropN 3 got)).

(* ---------- dispatcher ---------- *)

Inductive hr_event :=
| EvCall (name : string)          (* a method of the Instance, or "kill" *)
| EvReply (t : N) (d : bytes).    (* a frame sent back to the child *)

Section Dispatch.
  Variable types : list string.              (* messageType iota block, first = 1 *)
  Variable cases handlers : list string.     (* switch msg.Type: case types -> handler *)
  Variable default_handler : string.
  Variable hnames : list string.             (* handler functions ... *)
  Variable hscripts : list (list string).    (* ... and their actions in source order *)
  Variable ctors ctypes : list string.       (* message constructors -> message type *)

  Fixpoint index_str (x : string) (l : list string) (i : N) : option N :=
    match l with
    | [] => None
    | y :: t => if String.eqb x y then Some i else index_str x t (N.succ i)
    end.

  Definition type_name (t : N) : option string :=
    if t =? 0 then None else nth_error types (N.to_nat (t - 1)).
  Definition type_num (name : string) : option N :=
    match index_str name types 0 with Some i => Some (i + 1) | None => None end.

  Fixpoint assoc (x : string) (ks vs : list string) : option string :=
    match ks, vs with
    | k :: ks', v :: vs' => if String.eqb x k then Some v else assoc x ks' vs'
    | _, _ => None
    end.

  Definition handler_of (t : N) : string :=
    match type_name t with
    | Some nm => match assoc nm cases handlers with Some h => h | None => default_handler end
    | None => default_handler
    end.

  Fixpoint script_of (h : string) (ns : list string) (ss : list (list string)) : list string :=
    match ns, ss with
    | n :: ns', s :: ss' => if String.eqb h n then s else script_of h ns' ss'
    | _, _ => []
    end.

  (* payload of a message built by constructor c: the unknown reply has none, the others "{}" *)
  Definition ctor_payload (c : string) : bytes :=
    if String.eqb c "newUnknownResponse" then [] else [123; 125].

  Definition prefix_is (p s : string) : bool := String.prefix p s.
  Definition after (k : nat) (s : string) : string := String.substring k (String.length s - k) s.

  (* run a handler script: ctor sets the pending reply, send emits it, call:X calls X *)
  Fixpoint run_script (sc : list string) (pending : option (N * bytes)) : list hr_event :=
    match sc with
    | [] => []
    | a :: rest =>
      if prefix_is "call:" a then EvCall (after 5 a) :: run_script rest pending
      else if prefix_is "ctor:" a then
        let c := after 5 a in
        match assoc c ctors ctypes with
        | Some tn => match type_num tn with
                     | Some t => run_script rest (Some (t, ctor_payload c))
                     | None => EvCall ("?unknown type " ++ tn) :: run_script rest pending
                     end
        | None => EvCall ("?unknown ctor " ++ c) :: run_script rest pending
        end
      else if String.eqb a "send" then
        match pending with
        | Some (t, d) => EvReply t d :: run_script rest pending
        | None => EvCall "?send without message" :: run_script rest pending
        end
      else EvCall ("?" ++ a) :: run_script rest pending
    end.

  Definition events_of_type (t : N) : list hr_event :=
    run_script (script_of (handler_of t) hnames hscripts) None.

  (* one child connection: what each read returns *)
  Inductive hr_read := RdBytes (bs : bytes) | RdEOF | RdErr.

  Variable RS : N.

  Fixpoint handle_child (reads : list hr_read) : list hr_event :=
    match reads with
    | [] => []
    | RdEOF :: _ => []
    | RdErr :: rest => handle_child rest
    | RdBytes bs :: rest =>
      match read_frame RS bs with
      | FOk t _ => events_of_type t ++ handle_child rest
      | _ => handle_child rest          (* logged, no reply, keep reading *)
      end
    end.

  (* the accept loop serves one child at a time *)
  Fixpoint serve (children : list (list hr_read)) : list hr_event :=
    match children with
    | [] => []
    | c :: rest => handle_child c ++ serve rest
    end.
End Dispatch.

(* the documented protocol *)
Definition spec_events (t : N) : list hr_event :=
  let ok := [123; 125] in
  if t =? 1 then [EvCall "ShutdownAdmin"; EvReply 2 ok]
  else if t =? 3 then [EvCall "ShutdownLocalConf"; EvReply 4 ok]
  else if t =? 5 then [EvCall "DrainListeners"; EvReply 6 ok]
  else if t =? 7 then [EvReply 8 ok; EvCall "kill"]
  else [EvReply 9 []].
