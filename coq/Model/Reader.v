(* Model of proc/redis/bufio.go (Reader) in two forms:
   - the chunked reader: a window of buffered bytes (buf[r:w]), the sticky error, the
     source as remaining bytes plus an oracle of read sizes (how many bytes each
     rd.Read call delivers), and the error the source reports at its end;
   - the flat reader: the same operations as functions of the remaining byte stream.
   Proofs/ReaderProofs.v shows the former refines the latter for every buffer size and
   every oracle.  No proofs in this file. *)
From Coq Require Import List NArith Bool.
From Sam Require Import Model.Bytes.
Import ListNotations.
Open Scope N_scope.

Inductive rerr :=
| EOF | UnexpectedEOF | NoProgress | BufferFull | SrcErr
| BadCRLF | BadRespType | BadArrayLen | BadArrayLenTooLong | BadArrayDepth
| BadBulkLen | BadBulkLenTooLong | BadMultiBulkLen | BadMultiBulkContent
| IntSyntax | IntRange
| OutOfFuel | Impossible.

Definition rerr_eqb (a b : rerr) : bool :=
  match a, b with
  | EOF, EOF | UnexpectedEOF, UnexpectedEOF | NoProgress, NoProgress | BufferFull, BufferFull
  | SrcErr, SrcErr | BadCRLF, BadCRLF | BadRespType, BadRespType | BadArrayLen, BadArrayLen
  | BadArrayLenTooLong, BadArrayLenTooLong | BadArrayDepth, BadArrayDepth | BadBulkLen, BadBulkLen
  | BadBulkLenTooLong, BadBulkLenTooLong | BadMultiBulkLen, BadMultiBulkLen
  | BadMultiBulkContent, BadMultiBulkContent | IntSyntax, IntSyntax | IntRange, IntRange
  | OutOfFuel, OutOfFuel | Impossible, Impossible => true
  | _, _ => false
  end.

Inductive res (A : Type) := Ok (a : A) | Fail (e : rerr).
Arguments Ok {A} a.
Arguments Fail {A} e.

(* result of ReadSlice: a line (delimiter included), the full buffer (ErrBufferFull), or an error *)
Inductive sres := Line (l : bytes) | Full (frag : bytes) | SErr (e : rerr).

(* the reader interface the decoder is written against *)
Record ops (S : Type) := {
  o_peek : S -> res N * S;
  o_rbyte : S -> res N * S;
  o_rslice : S -> sres * S;
  o_rbytes : S -> res bytes * S;
  o_rfull : N -> S -> res bytes * S }.
Arguments o_peek {S}. Arguments o_rbyte {S}. Arguments o_rslice {S}.
Arguments o_rbytes {S}. Arguments o_rfull {S}.

(* what io.ReadFull turns the source's end error into after a partial read *)
Definition partial_err (e : rerr) : rerr := match e with EOF => UnexpectedEOF | _ => e end.

(* ------------------------------------------------------------------------------- *)
(* chunked reader *)

Record crd := {
  win : bytes;          (* b.buf[b.r:b.w] *)
  cerr : option rerr;   (* b.err (sticky) *)
  src : bytes;          (* bytes the source has not delivered yet *)
  sizes : list N;       (* oracle: the i-th rd.Read delivers at most sizes[i] (at least 1) bytes *)
  send : rerr           (* what rd.Read returns once src is exhausted (io.EOF or an I/O error) *)
}.

Definition set_win (s : crd) (w : bytes) : crd :=
  {| win := w; cerr := cerr s; src := src s; sizes := sizes s; send := send s |}.
Definition set_err (s : crd) (e : rerr) : crd :=
  {| win := win s; cerr := Some e; src := src s; sizes := sizes s; send := send s |}.

(* rd.Read(p) with len(p) = cap > 0 on a non-empty source: number of bytes delivered *)
Definition deliver (cap : N) (s : crd) : N :=
  let want := match sizes s with [] => cap | z :: _ => N.max 1 z end in
  N.min want cap.

Section Chunked.
  Variable B : N.       (* len(b.buf) *)
  Variable F : nat.     (* loop fuel, at least the number of bytes still to come + 1 *)

  (* fill(): compaction is invisible here; the free space is always B - buffered *)
  Definition fill (s : crd) : crd :=
    match cerr s with
    | Some _ => s
    | None =>
      let cap := B - lenN (win s) in
      if cap =? 0 then set_err s NoProgress
      else match src s with
           | [] => set_err s (send s)
           | _ => let n := deliver cap s in
                  {| win := win s ++ takeN n (src s); cerr := None; src := dropN n (src s);
                     sizes := tl (sizes s); send := send s |}
           end
    end.

  Definition c_peek (s : crd) : res N * crd :=
    match cerr s with
    | Some e => (Fail e, s)
    | None =>
      let s1 := match win s with [] => fill s | _ => s end in
      match cerr s1 with
      | Some e => (Fail e, s1)
      | None => match win s1 with x :: _ => (Ok x, s1) | [] => (Fail Impossible, s1) end
      end
    end.

  Definition c_rbyte (s : crd) : res N * crd :=
    match cerr s with
    | Some e => (Fail e, s)
    | None =>
      let s1 := match win s with [] => fill s | _ => s end in
      match cerr s1 with
      | Some e => (Fail e, s1)
      | None => match win s1 with x :: t => (Ok x, set_win s1 t) | [] => (Fail Impossible, s1) end
      end
    end.

  Fixpoint c_rslice_loop (fuel : nat) (s : crd) : sres * crd :=
    match fuel with
    | O => (SErr OutOfFuel, s)
    | S f =>
      match find_byte LF (win s) with
      | Some i => (Line (takeN (i + 1) (win s)), set_win s (dropN (i + 1) (win s)))
      | None =>
        if lenN (win s) =? B then (Full (win s), set_win s [])
        else let s1 := fill s in
             match cerr s1 with
             | Some e => (SErr e, s1)
             | None => c_rslice_loop f s1
             end
      end
    end.

  Definition c_rslice (s : crd) : sres * crd :=
    match cerr s with
    | Some e => (SErr e, s)
    | None => c_rslice_loop F s
    end.

  (* ReadBytes: fragments of full buffers are copied and concatenated *)
  Fixpoint c_rbytes_loop (fuel : nat) (s : crd) (acc : bytes) : res bytes * crd :=
    match fuel with
    | O => (Fail OutOfFuel, s)
    | S f =>
      match c_rslice s with
      | (Line l, s1) => (Ok (acc ++ l), s1)
      | (Full frag, s1) => c_rbytes_loop f s1 (acc ++ frag)
      | (SErr e, s1) => (Fail e, s1)
      end
    end.

  Definition c_rbytes (s : crd) : res bytes * crd := c_rbytes_loop F s [].

  (* io.ReadFull(b, buf) with len(buf) = need: repeated b.Read(buf[got:]) *)
  Fixpoint c_rfull_loop (fuel : nat) (need : N) (s : crd) (acc : bytes) : res bytes * crd :=
    if need =? 0 then (Ok acc, s) else
    match fuel with
    | O => (Fail OutOfFuel, s)
    | S f =>
      let fail e := (Fail (match acc with [] => e | _ => partial_err e end), s) in
      match cerr s with
      | Some e => fail e
      | None =>
        match win s with
        | [] =>
          if B <=? need then
            (* large read on an empty buffer: straight from the source *)
            match src s with
            | [] => let s1 := set_err s (send s) in
                    (Fail (match acc with [] => send s | _ => partial_err (send s) end), s1)
            | _ => let got := takeN (deliver need s) (src s) in
                   c_rfull_loop f (need - lenN got)
                     {| win := []; cerr := None; src := dropN (lenN got) (src s); sizes := tl (sizes s); send := send s |}
                     (acc ++ got)
            end
          else
            let s1 := fill s in
            match cerr s1 with
            | Some e => (Fail (match acc with [] => e | _ => partial_err e end), s1)
            | None => let k := N.min need (lenN (win s1)) in
                      c_rfull_loop f (need - k) (set_win s1 (dropN k (win s1))) (acc ++ takeN k (win s1))
            end
        | _ => let k := N.min need (lenN (win s)) in
               c_rfull_loop f (need - k) (set_win s (dropN k (win s))) (acc ++ takeN k (win s))
        end
      end
    end.

  Definition c_rfull (n : N) (s : crd) : res bytes * crd :=
    match cerr s with
    | Some e => (Fail e, s)
    | None => if n =? 0 then (Ok [], s) else c_rfull_loop F n s []
    end.

  Definition chunked_ops : ops crd :=
    {| o_peek := c_peek; o_rbyte := c_rbyte; o_rslice := c_rslice; o_rbytes := c_rbytes; o_rfull := c_rfull |}.
End Chunked.

(* ------------------------------------------------------------------------------- *)
(* flat reader: every operation as a function of the remaining stream *)

Record frd := { stream : bytes; ferr : option rerr; fend : rerr }.

Definition f_fail (s : frd) : frd := {| stream := []; ferr := Some (fend s); fend := fend s |}.
Definition f_set (s : frd) (l : bytes) : frd := {| stream := l; ferr := None; fend := fend s |}.

Section Flat.
  Variable B : N.

  Definition f_peek (s : frd) : res N * frd :=
    match ferr s with
    | Some e => (Fail e, s)
    | None => match stream s with x :: _ => (Ok x, s) | [] => (Fail (fend s), f_fail s) end
    end.

  Definition f_rbyte (s : frd) : res N * frd :=
    match ferr s with
    | Some e => (Fail e, s)
    | None => match stream s with x :: t => (Ok x, f_set s t) | [] => (Fail (fend s), f_fail s) end
    end.

  Definition f_rslice (s : frd) : sres * frd :=
    match ferr s with
    | Some e => (SErr e, s)
    | None =>
      match find_byte LF (takeN B (stream s)) with
      | Some i => (Line (takeN (i + 1) (stream s)), f_set s (dropN (i + 1) (stream s)))
      | None => if has_len B (stream s) then (Full (takeN B (stream s)), f_set s (dropN B (stream s)))
                else (SErr (fend s), f_fail s)
      end
    end.

  Definition f_rbytes (s : frd) : res bytes * frd :=
    match ferr s with
    | Some e => (Fail e, s)
    | None =>
      match find_byte LF (stream s) with
      | Some i => (Ok (takeN (i + 1) (stream s)), f_set s (dropN (i + 1) (stream s)))
      | None => (Fail (fend s), f_fail s)
      end
    end.

  Definition f_rfull (n : N) (s : frd) : res bytes * frd :=
    match ferr s with
    | Some e => (Fail e, s)
    | None =>
      if n =? 0 then (Ok [], s)
      else if has_len n (stream s) then (Ok (takeN n (stream s)), f_set s (dropN n (stream s)))
      else match stream s with
           | [] => (Fail (fend s), f_fail s)
           | _ => (Fail (partial_err (fend s)), f_fail s)
           end
    end.

  Definition flat_ops : ops frd :=
    {| o_peek := f_peek; o_rbyte := f_rbyte; o_rslice := f_rslice; o_rbytes := f_rbytes; o_rfull := f_rfull |}.
End Flat.
