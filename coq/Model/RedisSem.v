(* A concrete per-key command semantics (a small Redis) used to run Model/Cluster.v against the implementation:
   strings, counters, lists, hashes and sets, with Redis's replies.  The simulated cluster nodes of the harness
   implement the same table; the proxy itself never interprets these commands.  No proofs in this file. *)
From Coq Require Import List NArith ZArith Bool String.
From Sam Require Import Model.Bytes Model.Resp Model.Text Model.Dispatch.
Import ListNotations.
Open Scope string_scope.
Open Scope list_scope.
Open Scope N_scope.

Inductive rval :=
| VStr (b : bytes)
| VList (l : list bytes)
| VHash (l : list (bytes * bytes))
| VSet (l : list bytes).

Definition bs (s : string) : bytes := bytes_of_string s.
Definition wrongtype : resp := Err (bs "WRONGTYPE Operation against a key holding the wrong kind of value").
Definition err_args (name : bytes) : resp := Err (bs "ERR wrong number of arguments for '" ++ name ++ bs "' command").
Definition err_int : resp := Err (bs "ERR value is not an integer or out of range").
Definition err_overflow : resp := Err (bs "ERR increment or decrement would overflow").
Definition ok : resp := Simple (bs "OK").
Definition nil : resp := Bulk None.
Definition int_of_len {A} (l : list A) : resp := Int (Z.of_N (lenN l)).

Definition mem_b (x : bytes) (l : list bytes) : bool := existsb (bytes_eqb x) l.
Fixpoint assoc_b (x : bytes) (l : list (bytes * bytes)) : option bytes :=
  match l with [] => None | (k, v) :: t => if bytes_eqb x k then Some v else assoc_b x t end.
Fixpoint set_assoc (x v : bytes) (l : list (bytes * bytes)) : list (bytes * bytes) :=
  match l with [] => [(x, v)] | (k, w) :: t => if bytes_eqb x k then (k, v) :: t else (k, w) :: set_assoc x v t end.
Definition del_assoc (x : bytes) (l : list (bytes * bytes)) : list (bytes * bytes) :=
  filter (fun kv => negb (bytes_eqb x (fst kv))) l.

Definition nonempty_list (l : list bytes) : option rval := match l with [] => None | _ => Some (VList l) end.
Definition nonempty_hash (l : list (bytes * bytes)) : option rval := match l with [] => None | _ => Some (VHash l) end.
Definition nonempty_set (l : list bytes) : option rval := match l with [] => None | _ => Some (VSet l) end.

Definition incr_by (old : option rval) (d : Z) : option rval * resp :=
  match old with
  | Some (VStr b) =>
    match parse_int64 b with
    | inl z => if in_int64 (z + d) then (Some (VStr (dec_of_Z (z + d))), Int (z + d)) else (old, err_overflow)
    | inr _ => (old, err_int)
    end
  | None => (Some (VStr (dec_of_Z d)), Int d)
  | Some _ => (old, wrongtype)
  end.

(* LRANGE with Redis's index rules *)
Definition lrange (l : list bytes) (a b : Z) : list bytes :=
  let n := Z.of_N (lenN l) in
  let a := if (a <? 0)%Z then Z.max 0 (n + a) else a in
  let b := if (b <? 0)%Z then (n + b)%Z else b in
  let b := Z.min b (n - 1) in
  if (b <? a)%Z then [] else takeN (Z.to_N (b - a + 1)) (dropN (Z.to_N a) l).

Definition sem (body : list resp) (old : option rval) : option rval * resp :=
  match body with
  | [] => (old, Err (bs "ERR empty"))
  | nm :: key :: rest =>
    let name := ascii_lower (bulk_text nm) in
    let args := map bulk_text rest in
    let is s := bytes_eqb name (bs s) in
    if is "get" then
      match args, old with
      | [], None => (old, nil) | [], Some (VStr b) => (old, Bulk (Some b)) | [], Some _ => (old, wrongtype)
      | _, _ => (old, err_args name) end
    else if is "set" then
      match args with [v] => (Some (VStr v), ok) | _ => (old, Err (bs "ERR syntax error")) end
    else if is "getset" then
      match args, old with
      | [v], None => (Some (VStr v), nil) | [v], Some (VStr b) => (Some (VStr v), Bulk (Some b)) | [v], Some _ => (old, wrongtype)
      | _, _ => (old, err_args name) end
    else if is "setnx" then
      match args, old with
      | [v], None => (Some (VStr v), Int 1) | [v], Some _ => (old, Int 0)
      | _, _ => (old, err_args name) end
    else if is "append" then
      match args, old with
      | [v], None => (Some (VStr v), int_of_len v) | [v], Some (VStr b) => (Some (VStr (b ++ v)), int_of_len (b ++ v)) | [v], Some _ => (old, wrongtype)
      | _, _ => (old, err_args name) end
    else if is "strlen" then
      match args, old with
      | [], None => (old, Int 0) | [], Some (VStr b) => (old, int_of_len b) | [], Some _ => (old, wrongtype)
      | _, _ => (old, err_args name) end
    else if is "incr" then match args with [] => incr_by old 1 | _ => (old, err_args name) end
    else if is "decr" then match args with [] => incr_by old (-1) | _ => (old, err_args name) end
    else if is "incrby" then
      match args with
      | [d] => match parse_int64 d with inl z => incr_by old z | inr _ => (old, err_int) end
      | _ => (old, err_args name) end
    else if is "del" || is "unlink" then
      match args, old with [], None => (None, Int 0) | [], Some _ => (None, Int 1) | _, _ => (old, err_args name) end
    else if is "exists" || is "touch" then
      match args, old with [], None => (old, Int 0) | [], Some _ => (old, Int 1) | _, _ => (old, err_args name) end
    else if is "lpush" || is "rpush" then
      match args, old with
      | [], _ => (old, err_args name)
      | vs, None => let l := if is "lpush" then rev vs else vs in (Some (VList l), int_of_len l)
      | vs, Some (VList l0) => let l := if is "lpush" then rev vs ++ l0 else l0 ++ vs in (Some (VList l), int_of_len l)
      | _, Some _ => (old, wrongtype) end
    else if is "lpop" then
      match args, old with
      | [], None => (old, nil) | [], Some (VList (x :: t)) => (nonempty_list t, Bulk (Some x)) | [], Some (VList []) => (None, nil)
      | [], Some _ => (old, wrongtype) | _, _ => (old, err_args name) end
    else if is "rpop" then
      match args, old with
      | [], None => (old, nil)
      | [], Some (VList l) => match rev l with x :: t => (nonempty_list (rev t), Bulk (Some x)) | [] => (None, nil) end
      | [], Some _ => (old, wrongtype) | _, _ => (old, err_args name) end
    else if is "llen" then
      match args, old with
      | [], None => (old, Int 0) | [], Some (VList l) => (old, int_of_len l) | [], Some _ => (old, wrongtype)
      | _, _ => (old, err_args name) end
    else if is "lrange" then
      match args with
      | [a; b] =>
        match parse_int64 a, parse_int64 b with
        | inl za, inl zb =>
          match old with
          | None => (old, Arr (Some []))
          | Some (VList l) => (old, Arr (Some (map (fun x => Bulk (Some x)) (lrange l za zb))))
          | Some _ => (old, wrongtype)
          end
        | _, _ => (old, err_int)
        end
      | _ => (old, err_args name) end
    else if is "hset" then
      match args, old with
      | [f; v], None => (Some (VHash [(f, v)]), Int 1)
      | [f; v], Some (VHash h) => (Some (VHash (set_assoc f v h)), Int (match assoc_b f h with Some _ => 0 | None => 1 end))
      | [f; v], Some _ => (old, wrongtype)
      | _, _ => (old, err_args name) end
    else if is "hget" then
      match args, old with
      | [f], None => (old, nil)
      | [f], Some (VHash h) => (old, match assoc_b f h with Some v => Bulk (Some v) | None => nil end)
      | [f], Some _ => (old, wrongtype)
      | _, _ => (old, err_args name) end
    else if is "hdel" then
      match args, old with
      | [f], None => (old, Int 0)
      | [f], Some (VHash h) => (nonempty_hash (del_assoc f h), Int (match assoc_b f h with Some _ => 1 | None => 0 end))
      | [f], Some _ => (old, wrongtype)
      | _, _ => (old, err_args name) end
    else if is "hlen" then
      match args, old with
      | [], None => (old, Int 0) | [], Some (VHash h) => (old, int_of_len h) | [], Some _ => (old, wrongtype)
      | _, _ => (old, err_args name) end
    else if is "sadd" then
      match args, old with
      | [m], None => (Some (VSet [m]), Int 1)
      | [m], Some (VSet s) => if mem_b m s then (old, Int 0) else (Some (VSet (s ++ [m])), Int 1)
      | [m], Some _ => (old, wrongtype)
      | _, _ => (old, err_args name) end
    else if is "srem" then
      match args, old with
      | [m], None => (old, Int 0)
      | [m], Some (VSet s) => if mem_b m s then (nonempty_set (filter (fun x => negb (bytes_eqb m x)) s), Int 1) else (old, Int 0)
      | [m], Some _ => (old, wrongtype)
      | _, _ => (old, err_args name) end
    else if is "sismember" then
      match args, old with
      | [m], None => (old, Int 0)
      | [m], Some (VSet s) => (old, Int (if mem_b m s then 1 else 0))
      | [m], Some _ => (old, wrongtype)
      | _, _ => (old, err_args name) end
    else if is "scard" then
      match args, old with
      | [], None => (old, Int 0) | [], Some (VSet s) => (old, int_of_len s) | [], Some _ => (old, wrongtype)
      | _, _ => (old, err_args name) end
    else (old, Err (bs "ERR unknown command '" ++ bulk_text nm ++ bs "'"))
  | [nm] => (old, err_args (ascii_lower (bulk_text nm)))
  end.
