(* Model of request dispatch in proc/redis: redisProc.handleRequest (validation, handler lookup),
   the handlers of handler.go, request splitting/assembly of request.go, SCAN cursor handling,
   upstream.chooseHost, and CLUSTER NODES parsing of slot.go.  The handler table, the read-only
   set and the command lists are parameters (instantiated with the regenerated tables). No proofs. *)
From Coq Require Import List NArith ZArith Bool String.
From Sam Require Import Model.Bytes Model.Resp Model.Text Model.Slot.
Import ListNotations.
Open Scope N_scope.

(* ---------- CLUSTER NODES (slot.go) ---------- *)

Record instance := { i_id : bytes; i_addr : bytes; i_master : bytes; i_replicas : list bytes (* addrs *); i_slots : list Z }.

Inductive cn_result :=
| CnOk (insts : list instance)      (* masters, replicas attached *)
| CnErr                             (* errInvalidClusterNodes *)
| CnPanic                           (* nil master dereference (not reachable: see C11) *)
| CnAmbig.                          (* a replica of another replica: error or success depending on Go's map order *)

Definition atoi (b : bytes) : option Z := match parse_int64 b with inl z => Some z | inr _ => None end.

Definition is_bracketed (seg : bytes) : bool :=
  match seg with
  | 91 :: _ => match rev seg with 93 :: _ => true | _ => false end
  | _ => false
  end.

Fixpoint z_seq (start : Z) (n : nat) : list Z :=
  match n with O => [] | S k => start :: z_seq (start + 1)%Z k end.

(* parseClusterNodesSlot: None = errInvalidClusterNodes. A range must lie within 0 .. slot_count-1
   (it is expanded element by element) *)
Fixpoint parse_slots (slot_count : Z) (segs : list bytes) : option (list Z) :=
  match segs with
  | [] => Some []
  | seg :: rest =>
    if is_bracketed seg then parse_slots slot_count rest
    else
      let here :=
        match split_on 45 seg [] with
        | [a; b] => match atoi a, atoi b with
                    | Some s, Some e => if (s <? 0)%Z || (slot_count <=? e)%Z then None
                                        else Some (z_seq s (Z.to_nat (e - s + 1)))
                    | _, _ => None
                    end
        | [a] => match atoi a with Some s => Some [s] | None => None end
        | _ => None
        end in
      match here, parse_slots slot_count rest with
      | Some l, Some r => Some (l ++ r)
      | _, _ => None
      end
  end.

Inductive line_result := LSkip | LBad | LInst (i : instance).

Definition parse_line (slot_count : Z) (line : bytes) : line_result :=
  let fs := fields line [] in
  match fs with
  | [] => LSkip
  | _ =>
    if lenN fs <? 8 then LBad
    else
      let id := nth 0 fs [] in
      let addr := hd [] (split_on 64 (nth 1 fs []) []) in
      if negb (lenN (split_on 58 addr []) =? 2) then LBad
      else
        let m := nth 3 fs [] in
        if bytes_eqb m [45] then
          (* a master may own no slot at all *)
          match parse_slots slot_count (skipn 8 fs) with
          | None => LBad
          | Some sl => LInst {| i_id := id; i_addr := addr; i_master := []; i_replicas := []; i_slots := sl |}
          end
        else LInst {| i_id := id; i_addr := addr; i_master := m; i_replicas := []; i_slots := [] |}
  end.

(* insts[id] = inst : a later line with the same id replaces the earlier one *)
Fixpoint put_inst (i : instance) (l : list instance) : list instance :=
  match l with
  | [] => [i]
  | x :: t => if bytes_eqb (i_id x) (i_id i) then i :: t else x :: put_inst i t
  end.

Fixpoint parse_lines (slot_count : Z) (ls : list bytes) (acc : list instance) : cn_result :=
  match ls with
  | [] => CnOk acc
  | l :: rest => match parse_line slot_count l with
                 | LSkip => parse_lines slot_count rest acc
                 | LBad => CnErr
                 | LInst i => parse_lines slot_count rest (put_inst i acc)
                 end
  end.

Definition find_inst (id : bytes) (l : list instance) : option instance :=
  find (fun x => bytes_eqb (i_id x) id) l.

Definition is_replica (i : instance) : bool := negb (match i_master i with [] => true | _ => false end).

(* attach replicas: a replica naming an id that is not in the map is an error; a replica naming itself
   attaches to itself and disappears; a replica naming another replica is order dependent in the Go map
   walk (nil after deletion, or not) *)
Definition restructure (l : list instance) : cn_result :=
  let reps := filter is_replica l in
  let masters := filter (fun i => negb (is_replica i)) l in
  if negb (forallb (fun r => match find_inst (i_master r) l with Some _ => true | None => false end) reps)
  then (* some named master is not in the map at all: errInvalidClusterNodes whatever the order...
          unless another replica's chain makes the walk fail or succeed first: still an error or ambiguous *)
       if forallb (fun r => match find_inst (i_master r) l with
                            | Some m => negb (is_replica m) || bytes_eqb (i_id m) (i_id r)
                            | None => true
                            end) reps
       then CnErr else CnAmbig
  else if forallb (fun r => match find_inst (i_master r) l with
                            | Some m => negb (is_replica m) || bytes_eqb (i_id m) (i_id r)
                            | None => false
                            end) reps
  then CnOk (map (fun m => {| i_id := i_id m; i_addr := i_addr m; i_master := [];
                               i_replicas := map i_addr (filter (fun r => bytes_eqb (i_master r) (i_id m)) reps);
                               i_slots := i_slots m |}) masters)
  else CnAmbig.

Definition parse_cluster_nodes_n (slot_count : Z) (data : bytes) : cn_result :=
  match parse_lines slot_count (split_on 10 data []) [] with
  | CnOk l => restructure l
  | r => r
  end.
Definition parse_cluster_nodes := parse_cluster_nodes_n 16384.

(* doSlotsRefresh's table update: slot -> owner, out-of-range slots skipped; when several masters
   claim a slot the Go map walk picks an arbitrary one: the model keeps all claimants *)
Definition owners (insts : list instance) (slot : N) : list instance :=
  filter (fun i => existsb (fun s => (s =? Z.of_N slot)%Z) (i_slots i)) insts.

(* ---------- chooseHost (upstream.go) ---------- *)

Inductive strategy := SMaster | SReplica | SBoth.

(* candidates for a request whose routing key hashes to a slot owned by inst *)
Definition candidates (st : strategy) (read_only : bool) (inst : instance) : list bytes :=
  if negb read_only then [i_addr inst]
  else
    let c := match st with
             | SMaster => [i_addr inst]
             | SBoth => i_addr inst :: i_replicas inst
             | SReplica => i_replicas inst
             end in
    match c with [] => [i_addr inst] | _ => c end.

(* ---------- requests ---------- *)

Definition bulk_text (v : resp) : bytes := match v with Bulk (Some t) => t | _ => [] end.
Definition is_bulk (v : resp) : bool := match v with Bulk _ => true | _ => false end.

(* rawRequest.IsValid *)
Definition valid_request (v : resp) : option (list resp) :=
  match v with
  | Arr (Some (x :: l)) => if forallb is_bulk (x :: l) then Some (x :: l) else None
  | _ => None
  end.

Inductive assemble := ASingle | AMget | AMset | ASum.

Inductive plan :=
| PLocalErr (text : bytes)
| PLocalSimple (text : bytes)
| PLocalInfo | PLocalTime | PLocalHotKey
| PForward (a : assemble) (subs : list (bytes * list resp))     (* routing key, sub-request body *)
| PScan (r : list resp).

Section Tables.
  Variable hnames hfuncs : list string.
  Variable read_only : list string.
  Variable invalid_request invalid_cursor : string.

  Definition str := bytes_of_string.

  (* p.cmdHdlrs[cmd] = hdlr : the last registration wins *)
  Fixpoint lookup_handler (name : bytes) (ns fs : list string) (found : option string) : option string :=
    match ns, fs with
    | n :: ns', f :: fs' => lookup_handler name ns' fs' (if bytes_eqb name (str n) then Some f else found)
    | _, _ => found
    end.

  (* findHandler: ASCII-only case folding (asciiLower) *)
  Definition find_handler (cmd : bytes) : option string := lookup_handler (ascii_lower cmd) hnames hfuncs None.

  Definition is_read_only (name : bytes) : bool := mem_bytes (go_lower name) (map str read_only).

  (* oneLine: CR and LF become spaces *)
  Definition one_line (l : bytes) : bytes := map (fun b => if (b =? 13) || (b =? 10) then 32 else b) l.
  Definition unsupported_text (cmd : bytes) : bytes :=
    str "ERR unsupported command '" ++ one_line cmd ++ [39].

  Fixpoint mset_children (l : list resp) : list (bytes * list resp) :=
    match l with
    | k :: v :: rest => (bulk_text k, [Bulk (Some (str "set")); k; v]) :: mset_children rest
    | _ => []
    end.

  Definition plan_of (v : resp) : plan :=
    match valid_request v with
    | None => PLocalErr (str invalid_request)
    | Some args =>
      let cmd := bulk_text (hd (Bulk None) args) in
      let n := lenN args in
      match find_handler cmd with
      | None => PLocalErr (unsupported_text cmd)
      | Some f =>
        if String.eqb f "handleSimpleCommand" then
          if n <? 2 then PLocalErr (str invalid_request)
          else PForward ASingle [(bulk_text (nth 1 args (Bulk None)), args)]
        else if String.eqb f "handleSumResultCommand" then
          if n <? 2 then PLocalErr (str invalid_request)
          else PForward ASum (map (fun k => (bulk_text k, [hd (Bulk None) args; k])) (tl args))
        else if String.eqb f "handleMSet" then
          if (n =? 1) || negb (n mod 2 =? 1) then PLocalErr (str invalid_request)
          else PForward AMset (mset_children (tl args))
        else if String.eqb f "handleMGet" then
          if n <? 2 then PLocalErr (str invalid_request)
          else PForward AMget (map (fun k => (bulk_text k, [Bulk (Some (str "get")); k])) (tl args))
        else if String.eqb f "handleEval" then
          if n <? 4 then PLocalErr (str invalid_request)
          else PForward ASingle [(bulk_text (nth 3 args (Bulk None)), args)]
        else if String.eqb f "handleScan" then PScan args
        else if String.eqb f "handlePing" then PLocalSimple (str "PONG")
        else if String.eqb f "handleQuit" then PLocalSimple (str "OK")
        else if String.eqb f "handleSelect" then PLocalSimple (str "OK")
        else if String.eqb f "handleInfo" then PLocalInfo
        else if String.eqb f "handleTime" then PLocalTime
        else if String.eqb f "handleHotKey" then PLocalHotKey
        else PLocalErr (str "?unknown handler")
      end
    end.

  (* assembling the children's replies (request.go) *)
  Definition sum_reply (rs : list resp) : resp :=
    let errs := filter (fun r => match r with Int _ => false | _ => true end) rs in
    match errs with
    | [] => Int (fold_left (fun a r => match r with Int z => (a + z)%Z | _ => a end) rs 0%Z)
    | _ => Err (str "finished with " ++ dec_of_Z (Z.of_N (lenN errs)) ++ str " error(s)")
    end.

  Definition assemble_reply (a : assemble) (rs : list resp) : resp :=
    match a with
    | ASingle => hd (Bulk None) rs
    | AMget => Arr (Some rs)
    | AMset => Simple (str "OK")
    | ASum => sum_reply rs
    end.

  (* ---------- SCAN (request.go, handler.go) ---------- *)

  Definition two48 : N := 281474976710656.
  Definition two64 : N := 18446744073709551616.
  Definition parse_cursor (c : N) : N * N := ((c / two48) mod 65536, c mod two48).
  Definition gen_cursor (idx ncur : N) : N := N.lor ((idx * two48) mod two64) ncur.
  Definition to_uint64 (z : Z) : N := Z.to_N (z mod Z.of_N two64).

  Definition dec_of_N_z (n : N) : bytes := dec_of_Z (Z.of_N n).

  Inductive scan_plan :=
  | ScErr (text : bytes)
  | ScTerm                                  (* cursor 0, empty array *)
  | ScNode (idx : N) (body : list resp).    (* forward to hosts[idx] with the node cursor *)

  Definition scan_plan_of (args : list resp) (nhosts : N) : scan_plan :=
    if lenN args <? 2 then ScErr (str invalid_request)
    else match btoi64 (bulk_text (nth 1 args (Bulk None))) with
         | inr _ => ScErr (str invalid_cursor)
         | inl c =>
           let '(idx, ncur) := parse_cursor (to_uint64 c) in
           if (nhosts mod 65536) <=? idx then ScTerm
           else ScNode idx (hd (Bulk None) args :: Bulk (Some (dec_of_N_z ncur)) :: tl (tl args))
         end.

  (* the hook that rewrites the node's reply; None = panic (never: empty arrays are left alone) *)
  Definition set_text (v : resp) (t : bytes) : resp :=
    match v with
    | Simple _ => Simple t | Err _ => Err t | Bulk _ => Bulk (Some t)
    | Int z => Int z        (* Text of an integer value is not encoded *)
    | Arr a => Arr a
    end.
  Definition text_of (v : resp) : bytes :=
    match v with Simple t | Err t => t | Bulk (Some t) => t | _ => [] end.

  Definition scan_reply (idx : N) (reply : resp) : option resp :=
    match reply with
    | Arr None => Some reply
    | Arr (Some []) => Some reply
    | Arr (Some (x :: rest)) =>
      match btoi64 (text_of x) with
      | inr _ => Some reply
      | inl nc =>
        let idx' := if (nc =? 0)%Z then (idx + 1) mod 65536 else idx in
        Some (Arr (Some (set_text x (dec_of_N_z (gen_cursor idx' (to_uint64 nc))) :: rest)))
      end
    | _ => Some reply
    end.
End Tables.
