(* Model of the decoder in proc/redis/codec.go, written once against the reader interface
   (Reader.ops) and instantiated on the chunked and on the flat reader.  No proofs here. *)
From Coq Require Import List NArith ZArith Bool.
From Sam Require Import Model.Bytes Model.Resp Model.Reader.
Import ListNotations.
Open Scope N_scope.

Definition perr_to_rerr (e : perr) : rerr := match e with SyntaxErr => IntSyntax | RangeErr => IntRange end.

(* n := len(b)-2; if n < 0 || b[n] != CR -> ErrBadCRLFEnd; b[:n] *)
Definition strip_crlf (b : bytes) : res bytes :=
  let l := lenN b in
  if l <? 2 then Fail BadCRLF
  else let n := l - 2 in
       if nthN b n 0 =? CR then Ok (takeN n b) else Fail BadCRLF.

(* decodeInline's splitting: maximal runs of non-space bytes *)
Fixpoint split_words (b : bytes) (cur : bytes) : list bytes :=
  match b with
  | [] => match cur with [] => [] | _ => [rev cur] end
  | x :: t => if x =? SP
              then match cur with [] => split_words t [] | _ => rev cur :: split_words t [] end
              else split_words t (x :: cur)
  end.

Definition is_type_byte (b : N) : bool :=
  (b =? T_INT) || (b =? T_SIMPLE) || (b =? T_ERR) || (b =? T_BULK) || (b =? T_ARR).

Section Decode.
  Variable St : Type.
  Variable Ops : ops St.
  Variable max_array : Z.
  Variable max_bulk : Z.
  Variable max_depth : N.     (* maxArrayDepth *)

  Definition decode_int (s : St) : res Z * St :=
    match o_rslice Ops s with
    | (Line b, s1) =>
      match strip_crlf b with
      | Ok d => match btoi64 d with
                | inl z => (Ok z, s1)
                | inr e => (Fail (perr_to_rerr e), s1)
                end
      | Fail e => (Fail e, s1)
      end
    | (Full _, s1) => (Fail BufferFull, s1)
    | (SErr e, s1) => (Fail e, s1)
    end.

  Definition decode_text (s : St) : res bytes * St :=
    match o_rbytes Ops s with
    | (Ok b, s1) => (strip_crlf b, s1)
    | (Fail e, s1) => (Fail e, s1)
    end.

  Definition decode_bulk (s : St) : res (option bytes) * St :=
    match decode_int s with
    | (Fail e, s1) => (Fail e, s1)
    | (Ok n, s1) =>
      if (n <? -1)%Z then (Fail BadBulkLen, s1)
      else if (n >? max_bulk)%Z then (Fail BadBulkLenTooLong, s1)
      else if (n =? -1)%Z then (Ok None, s1)
      else
        let k := Z.to_N n in
        match o_rfull Ops (k + 2) s1 with
        | (Fail e, s2) => (Fail e, s2)
        | (Ok b, s2) =>
          if (nthN b k 0 =? CR) && (nthN b (k + 1) 0 =? LF) then (Ok (Some (takeN k b)), s2)
          else (Fail BadCRLF, s2)
        end
    end.

  Definition decode_inline (s : St) : res resp * St :=
    match decode_text s with
    | (Fail e, s1) => (Fail e, s1)
    | (Ok b, s1) =>
      match split_words b [] with
      | [] => (Fail BadMultiBulkLen, s1)
      | ws => (Ok (Arr (Some (map (fun w => Bulk (Some w)) ws))), s1)
      end
    end.

  (* the loop of decodeArray: k elements with the given element decoder *)
  Fixpoint elems (dec : St -> res resp * St) (k : nat) (s : St) : res (list resp) * St :=
    match k with
    | 0%nat => (Ok [], s)
    | S k' =>
      match dec s with
      | (Fail e, s1) => (Fail e, s1)
      | (Ok v, s1) =>
        match elems dec k' s1 with
        | (Fail e, s2) => (Fail e, s2)
        | (Ok vs, s2) => (Ok (v :: vs), s2)
        end
      end
    end.

  (* fuel bounds the nesting depth only; d is decoder.depth, the number of arrays currently open *)
  Fixpoint decode (fuel : nat) (d : N) (s : St) : res resp * St :=
    match fuel with
    | 0%nat => (Fail OutOfFuel, s)
    | S f =>
      match o_peek Ops s with
      | (Fail e, s1) => (Fail e, s1)
      | (Ok b, s1) =>
        if is_type_byte b then
          let s2 := snd (o_rbyte Ops s1) in
          if b =? T_INT then
            match decode_int s2 with (Ok z, s3) => (Ok (Int z), s3) | (Fail e, s3) => (Fail e, s3) end
          else if b =? T_SIMPLE then
            match decode_text s2 with (Ok t, s3) => (Ok (Simple t), s3) | (Fail e, s3) => (Fail e, s3) end
          else if b =? T_ERR then
            match decode_text s2 with (Ok t, s3) => (Ok (Err t), s3) | (Fail e, s3) => (Fail e, s3) end
          else if b =? T_BULK then
            match decode_bulk s2 with (Ok t, s3) => (Ok (Bulk t), s3) | (Fail e, s3) => (Fail e, s3) end
          else
            match decode_int s2 with
            | (Fail e, s3) => (Fail e, s3)
            | (Ok n, s3) =>
              if (n <? -1)%Z then (Fail BadArrayLen, s3)
              else if (n >? max_array)%Z then (Fail BadArrayLenTooLong, s3)
              else if (n =? -1)%Z then (Ok (Arr None), s3)
              else if max_depth <=? d then (Fail BadArrayDepth, s3)
              else match elems (decode f (d + 1)) (Z.to_nat n) s3 with
                   | (Ok vs, s4) => (Ok (Arr (Some vs)), s4)
                   | (Fail e, s4) => (Fail e, s4)
                   end
            end
        else decode_inline s1
      end
    end.

  (* decoder.Decode called until the first error (which is sticky) *)
  Fixpoint decode_all (msgs : nat) (depth : nat) (s : St) : list resp * rerr * St :=
    match msgs with
    | 0%nat => ([], OutOfFuel, s)
    | S m =>
      match decode depth 0 s with
      | (Fail e, s1) => ([], e, s1)
      | (Ok v, s1) => let '(vs, e, s2) := decode_all m depth s1 in (v :: vs, e, s2)
      end
    end.
End Decode.

(* entry points used by the correspondence runner *)
Definition depth_fuel (max_depth : N) : nat := Datatypes.S (Datatypes.S (N.to_nat max_depth)).

Definition decode_all_chunked (max_array max_bulk : Z) (max_depth : N) (B : N) (szs : list N) (endv : rerr) (data : bytes)
  : list resp * rerr :=
  let F := Datatypes.S (N.to_nat (lenN data)) in
  let s0 := {| win := []; cerr := None; src := data; sizes := szs; send := endv |} in
  let '(vs, e, _) := decode_all crd (chunked_ops B F) max_array max_bulk max_depth F (depth_fuel max_depth) s0 in (vs, e).

Definition decode_all_flat (max_array max_bulk : Z) (max_depth : N) (B : N) (endv : rerr) (data : bytes)
  : list resp * rerr :=
  let F := Datatypes.S (N.to_nat (lenN data)) in
  let s0 := {| stream := data; ferr := None; fend := endv |} in
  let '(vs, e, _) := decode_all frd (flat_ops B) max_array max_bulk max_depth F (depth_fuel max_depth) s0 in (vs, e).
