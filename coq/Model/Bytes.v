(* Byte strings as lists of N, with N-indexed take/drop (declared lengths come from the
   data and may be huge, so they are never converted to unary nat). *)
From Coq Require Import List NArith Bool.
Import ListNotations.
Open Scope N_scope.

Definition byte := N.
Definition bytes := list N.

Definition CR : N := 13.
Definition LF : N := 10.
Definition SP : N := 32.

Fixpoint lenN {A} (l : list A) : N :=
  match l with [] => 0 | _ :: t => N.succ (lenN t) end.

(* first n elements (all of l when it is shorter) *)
Fixpoint takeN {A} (n : N) (l : list A) : list A :=
  match l with
  | [] => []
  | x :: t => if N.eqb n 0 then [] else x :: takeN (N.pred n) t
  end.

Fixpoint dropN {A} (n : N) (l : list A) : list A :=
  match l with
  | [] => []
  | x :: t => if N.eqb n 0 then l else dropN (N.pred n) t
  end.

(* does l have at least n elements? (without computing its length past n) *)
Fixpoint has_len {A} (n : N) (l : list A) : bool :=
  match l with
  | [] => N.eqb n 0
  | _ :: t => if N.eqb n 0 then true else has_len (N.pred n) t
  end.

(* position of the first c in l *)
Fixpoint find_byte (c : N) (l : bytes) : option N :=
  match l with
  | [] => None
  | x :: t => if N.eqb x c then Some 0
              else match find_byte c t with Some i => Some (N.succ i) | None => None end
  end.

Fixpoint nthN {A} (l : list A) (n : N) (d : A) : A :=
  match l with
  | [] => d
  | x :: t => if N.eqb n 0 then x else nthN t (N.pred n) d
  end.

Fixpoint bytes_eqb (a b : bytes) : bool :=
  match a, b with
  | [], [] => true
  | x :: a', y :: b' => N.eqb x y && bytes_eqb a' b'
  | _, _ => false
  end.
