(* RESP values, the encoder of codec.go, itoa and btoi64.  No proofs here. *)
From Coq Require Import List NArith ZArith Bool.
From Sam Require Import Model.Bytes.
Import ListNotations.
Open Scope N_scope.

Inductive resp : Type :=
| Simple (t : bytes)
| Err (t : bytes)
| Int (z : Z)
| Bulk (t : option bytes)          (* None = null bulk string ($-1) *)
| Arr (a : option (list resp)).    (* None = null array (star -1) *)

Definition T_SIMPLE : N := 43.  (* '+' *)
Definition T_ERR    : N := 45.  (* '-' *)
Definition T_INT    : N := 58.  (* ':' *)
Definition T_BULK   : N := 36.  (* '$' *)
Definition T_ARR    : N := 42.  (* '*' *)

(* ---------- decimal text (strconv.FormatInt / strconv.Itoa, base 10) ---------- *)

Fixpoint digits_fuel (fuel : nat) (n : N) (acc : bytes) : bytes :=
  match fuel with
  | O => acc
  | S f => let acc' := (48 + n mod 10) :: acc in
           if n <? 10 then acc' else digits_fuel f (n / 10) acc'
  end.

(* 2^64 has 20 digits; fuel 40 covers every N below 10^40 *)
Definition dec_of_N (n : N) : bytes := digits_fuel 40 n [].

Definition dec_of_Z (z : Z) : bytes :=
  match z with
  | Z0 => [48]
  | Zpos p => dec_of_N (Npos p)
  | Zneg p => 45 :: dec_of_N (Npos p)
  end.

Definition int64_min : Z := (-9223372036854775808)%Z.
Definition int64_max : Z := 9223372036854775807%Z.
Definition in_int64 (z : Z) : bool := (int64_min <=? z)%Z && (z <=? int64_max)%Z.

(* ---------- itoa (codec.go:289-320): table of pre-rendered small integers ---------- *)
(* init(): itoaOffset[i] = len(buffer so far); buffer += strconv.Itoa(i+minItoa) *)

Definition z_range (lo : Z) (count : nat) : list Z :=
  map (fun k => (lo + Z.of_nat k)%Z) (seq 0 count).

Fixpoint build_itoa (vals : list Z) (off : N) : list N * bytes :=
  match vals with
  | [] => ([], [])
  | v :: t => let s := dec_of_Z v in
              let '(offs, buf) := build_itoa t (off + lenN s) in
              (off :: offs, s ++ buf)
  end.

Record itoa_tab := { it_min : Z; it_max : Z; it_off : list N; it_buf : bytes }.

Definition mk_itoa_tab (mn mx : Z) : itoa_tab :=
  let '(offs, buf) := build_itoa (z_range mn (Z.to_nat (mx - mn + 1))) 0 in
  {| it_min := mn; it_max := mx; it_off := offs; it_buf := buf |}.

Definition itoa (T : itoa_tab) (i : Z) : bytes :=
  if (it_min T <=? i)%Z && (i <=? it_max T)%Z then
    let k := Z.to_N (i - it_min T) in
    let beg := nthN (it_off T) k 0 in
    if (i =? it_max T)%Z then dropN beg (it_buf T)
    else let e := nthN (it_off T) (k + 1) 0 in takeN (e - beg) (dropN beg (it_buf T))
  else dec_of_Z i.

(* ---------- strconv.ParseInt(s, 10, 64) ---------- *)

Inductive perr := SyntaxErr | RangeErr.

Definition is_digit (b : N) : bool := (48 <=? b) && (b <=? 57).

(* strconv.ParseUint's loop: a non-digit is a syntax error, exceeding 2^64-1 a range error,
   whichever comes first in scan order *)
Definition uint64_max : N := 18446744073709551615.

Fixpoint parse_digits (l : bytes) (acc : N) : N + perr :=
  match l with
  | [] => inl acc
  | d :: t => if is_digit d
              then let acc' := acc * 10 + (d - 48) in
                   if uint64_max <? acc' then inr RangeErr else parse_digits t acc'
              else inr SyntaxErr
  end.

Definition parse_int64 (b : bytes) : Z + perr :=
  let '(neg, ds) := match b with
                    | [] => (false, b)
                    | c :: t => if c =? 45 then (true, t) else if c =? 43 then (false, t) else (false, b)
                    end in
  match ds with
  | [] => inr SyntaxErr
  | _ => match parse_digits ds 0 with
         | inr e => inr e
         | inl n => let z := if neg then (- Z.of_N n)%Z else Z.of_N n in
                    if in_int64 z then inl z else inr RangeErr
         end
  end.

(* ---------- btoi64 (codec.go:159-184): fast path for fewer than 10 bytes ---------- *)

(* the digit loop: consumes leading digits, returns (value, rest) *)
Fixpoint fast_digits (l : bytes) (n : Z) : Z * bytes :=
  match l with
  | d :: t => if is_digit d then fast_digits t (Z.of_N (d - 48) + n * 10)%Z else (n, l)
  | [] => (n, [])
  end.

Definition btoi64 (b : bytes) : Z + perr :=
  let slow := parse_int64 b in
  match b with
  | [] => slow
  | c :: t =>
    if lenN b <? 10 then
      let '(neg, ds) := if c =? 45 then (true, t) else if c =? 43 then (false, t) else (false, b) in
      match ds with
      | [] => slow                      (* len(b) == i : only a sign *)
      | _ => let '(n, rest) := fast_digits ds 0%Z in
             match rest with
             | [] => inl (if neg then (- n)%Z else n)
             | _ => slow
             end
      end
    else slow
  end.

(* ---------- encoder ---------- *)

Section Encode.
  Variable T : itoa_tab.

  Definition enc_int_line (z : Z) : bytes := itoa T z ++ [CR; LF].

  Fixpoint encode (v : resp) : bytes :=
    match v with
    | Simple t => T_SIMPLE :: t ++ [CR; LF]
    | Err t => T_ERR :: t ++ [CR; LF]
    | Int z => T_INT :: enc_int_line z
    | Bulk None => T_BULK :: enc_int_line (-1)
    | Bulk (Some t) => T_BULK :: enc_int_line (Z.of_N (lenN t)) ++ t ++ [CR; LF]
    | Arr None => T_ARR :: enc_int_line (-1)
    | Arr (Some l) => T_ARR :: enc_int_line (Z.of_N (lenN l)) ++
                      (fix enc_list (l : list resp) : bytes :=
                         match l with [] => [] | x :: t => encode x ++ enc_list t end) l
    end.

  Fixpoint encode_list (l : list resp) : bytes :=
    match l with [] => [] | x :: t => encode x ++ encode_list t end.
End Encode.
