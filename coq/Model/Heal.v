(* Model of the proxy's backend-connection table and routing-table refresh (upstream.go: getClient, createClient,
   removeClient, handleRedirection, triggerSlotsRefresh/doSlotsRefresh) under faults, for a sequential client:
   connections get lost, backends go down and come back on the same address, the slot layout changes.
   One connection per backend address; a lost connection stays in the table until its goroutine removes it (HWait);
   a request for an address without a connection dials.  No proofs in this file. *)
From Coq Require Import List NArith Bool.
From Sam Require Import Model.Bytes Model.Resp Model.Cluster.
Import ListNotations.
Open Scope N_scope.

Section Heal.
  Variable V : Type.
  Variable sem : list resp -> option V -> option V * resp.
  Variable slot : bytes -> N.
  Variable hosts : list N.              (* the configured hosts: the refresh asks one of them *)

  Record hstate := {
    reach : N -> bool;                  (* backend reachable *)
    hconn : N -> option (N * bool);     (* address -> (connection id, still alive) *)
    nextid : N;
    accepts : N -> N;                   (* connections each backend has accepted *)
    tbl : N -> N;                       (* the proxy's routing table: slot -> node *)
    hown : N -> N;                      (* the cluster's layout *)
    hdb : db V;                         (* the data (a stable cluster is a single store, C03) *)
    refreshes : N }.

  Inductive hop_out := HServed (n : N) (id : N) | HExited (n : N) | HRefused (n : N).

  Inductive hop :=
  | HReq (s : sub)
  | HKill (n : N)                       (* the established connection to n is reset *)
  | HDown (n : N)                       (* n stops: connections lost, connects refused *)
  | HUp (n : N)                         (* n listens again on the same address *)
  | HLay (lo hi n : N)                  (* slots lo..hi now belong to n (data moves with them) *)
  | HWait                               (* time passes: finished connections remove themselves, a pending refresh runs *)
  | HReqLost (s : sub).                 (* a request whose reply is lost: the node executes it, the connection dies before the answer *)

  Definition set_conn (s : hstate) (n : N) (c : option (N * bool)) (nid : N) (acc : N -> N) : hstate :=
    {| reach := reach s; hconn := fun x => if x =? n then c else hconn s x; nextid := nid; accepts := acc;
       tbl := tbl s; hown := hown s; hdb := hdb s; refreshes := refreshes s |}.

  (* upstream.getClient + client.Send for address n *)
  Definition attempt (s : hstate) (n : N) : hstate * hop_out :=
    match hconn s n with
    | Some (id, true) => (s, HServed n id)
    | Some (_, false) => (s, HExited n)
    | None =>
      if reach s n
      then (set_conn s n (Some (nextid s, true)) (nextid s + 1) (fun x => if x =? n then accepts s n + 1 else accepts s x), HServed n (nextid s))
      else (s, HRefused n)
    end.

  (* doSlotsRefresh succeeds when the host it asks is reachable; failures retry, so it ends once any configured host is *)
  Definition can_refresh (s : hstate) : bool := existsb (reach s) hosts.
  Definition refresh (s : hstate) : hstate :=
    if can_refresh s
    then {| reach := reach s; hconn := hconn s; nextid := nextid s; accepts := accepts s; tbl := hown s; hown := hown s; hdb := hdb s;
            refreshes := refreshes s + 1 |}
    else s.

  Inductive req_out :=
  | ROk (r : resp) (n : N) (id : N) (redirected : bool)
  | RErr (o : hop_out).

  Definition exec_db (s : hstate) (sb : sub) : hstate * resp :=
    let '(d, r) := exec_sub V sem (hdb s) sb in
    ({| reach := reach s; hconn := hconn s; nextid := nextid s; accepts := accepts s; tbl := tbl s; hown := hown s; hdb := d;
        refreshes := refreshes s |}, r).

  Definition do_req (s : hstate) (sb : sub) : hstate * req_out :=
    let sl := slot (sk sb) in
    let n := tbl s sl in
    match attempt s n with
    | (s1, HServed _ id) =>
      if hown s1 sl =? n then let '(s2, r) := exec_db s1 sb in (s2, ROk r n id false)
      else (* MOVED owner: resend, trigger a refresh *)
        let o := hown s1 sl in
        match attempt s1 o with
        | (s2, HServed _ id2) => let '(s3, r) := exec_db s2 sb in (refresh s3, ROk r o id2 true)
        | (s2, out) => (refresh s2, RErr out)
        end
    | (s1, HRefused x) => (refresh s1, RErr (HRefused x))      (* an unreachable node triggers a refresh *)
    | (s1, out) => (s1, RErr out)
    end.

  Definition kill_conn (s : hstate) (n : N) : hstate :=
    match hconn s n with
    | Some (id, _) => set_conn s n (Some (id, false)) (nextid s) (accepts s)
    | None => s
    end.

  Definition do_hop (s : hstate) (o : hop) : hstate * option req_out :=
    match o with
    | HReq sb => let '(s', r) := do_req s sb in (s', Some r)
    | HKill n => (kill_conn s n, None)
    | HDown n =>
      let s1 := kill_conn s n in
      ({| reach := fun x => if x =? n then false else reach s1 x; hconn := hconn s1; nextid := nextid s1; accepts := accepts s1;
          tbl := tbl s1; hown := hown s1; hdb := hdb s1; refreshes := refreshes s1 |}, None)
    | HUp n =>
      ({| reach := fun x => if x =? n then true else reach s x; hconn := hconn s; nextid := nextid s; accepts := accepts s;
          tbl := tbl s; hown := hown s; hdb := hdb s; refreshes := refreshes s |}, None)
    | HLay lo hi n =>
      ({| reach := reach s; hconn := hconn s; nextid := nextid s; accepts := accepts s; tbl := tbl s;
          hown := fun x => if (lo <=? x) && (x <=? hi) then n else hown s x; hdb := hdb s; refreshes := refreshes s |}, None)
    | HWait =>
      ({| reach := reach s; hconn := fun x => match hconn s x with Some (_, false) => None | c => c end; nextid := nextid s;
          accepts := accepts s; tbl := tbl s; hown := hown s; hdb := hdb s; refreshes := refreshes s |}, None)
    | HReqLost sb =>
      (* the proxy has nothing to answer with but an error, and does not send the command again (it may have taken
         effect - here it has): the connection it was sent on is lost *)
      match do_req s sb with
      | (s', ROk _ n _ _) => (kill_conn s' n, Some (RErr (HExited n)))
      | (s', RErr o) => (s', Some (RErr o))
      end
    end.

  Fixpoint run_hops (s : hstate) (l : list hop) : hstate * list (option req_out) :=
    match l with
    | [] => (s, [])
    | o :: t => let '(s1, r) := do_hop s o in let '(s2, rs) := run_hops s1 t in (s2, r :: rs)
    end.

  Definition hinit (layout : N -> N) : hstate :=
    {| reach := fun _ => true; hconn := fun _ => None; nextid := 0; accepts := fun _ => 0; tbl := layout; hown := layout;
       hdb := fun _ => None; refreshes := 0 |}.
End Heal.
