(* Model of a listener's life (proc/listener.go Serve / serve / Drain / Stop): the Serve goroutine, the bind retry
   loop, the socket, the registered connections, and Stop waiting for `done`.  `fixed` selects the repaired code.
   No proofs in this file. *)
From Coq Require Import List Arith Bool.
Import ListNotations.

Inductive sphase := PNotStarted | PBinding | PServing | PReturned.

Record lstate := {
  phase : sphase;
  begun : bool;            (* Serve has got past its first look at the stopped flag *)
  lstopped : bool;
  ldraining : bool;
  bound : bool;            (* the listening socket is open *)
  lconns : nat;            (* registered connections whose handlers have not returned *)
  done_closed : bool;
  stop_waits : bool }.     (* Stop is blocked on <-done *)

Inductive lop :=
| LServeBegin              (* the goroutine running Serve is scheduled *)
| LBindFail                (* one round of the bind loop: the port is taken *)
| LBindOk                  (* one round of the bind loop: bound *)
| LAccept | LConnEnd
| LServeExit               (* accept has failed on the closed socket, all handlers have returned: Serve returns *)
| LStop | LDrain
| LAcceptTemp.             (* accept fails with a temporary error (EMFILE, ...): the loop waits a little and tries again *)

Definition is_phase (a b : sphase) : bool :=
  match a, b with PNotStarted, PNotStarted | PBinding, PBinding | PServing, PServing | PReturned, PReturned => true | _, _ => false end.

Definition mk (p : sphase) (bg st dr bd : bool) (c : nat) (dn sw : bool) : lstate :=
  {| phase := p; begun := bg; lstopped := st; ldraining := dr; bound := bd; lconns := c; done_closed := dn; stop_waits := sw |}.

Definition lstep (fixed : bool) (s : lstate) (o : lop) : lstate :=
  match o with
  | LServeBegin =>
    if is_phase (phase s) PNotStarted
    then if fixed && lstopped s then mk PReturned (begun s) (lstopped s) (ldraining s) (bound s) (lconns s) (done_closed s) (stop_waits s)
         else mk PBinding true (lstopped s) (ldraining s) (bound s) (lconns s) (done_closed s) (stop_waits s)
    else s
  | LBindFail =>
    if is_phase (phase s) PBinding
    then if lstopped s || ldraining s
         then mk PReturned (begun s) (lstopped s) (ldraining s) (bound s) (lconns s) (done_closed s || fixed) (stop_waits s)
         else s                                   (* sleeps 500 ms and tries again *)
    else s
  | LBindOk =>
    if is_phase (phase s) PBinding
    then if lstopped s || ldraining s
         then mk PReturned (begun s) (lstopped s) (ldraining s) false (lconns s) (done_closed s || fixed) (stop_waits s)
         else mk PServing (begun s) (lstopped s) (ldraining s) true (lconns s) (done_closed s) (stop_waits s)
    else s
  | LAccept =>
    if is_phase (phase s) PServing && bound s && negb (lstopped s)
    then mk (phase s) (begun s) (lstopped s) (ldraining s) (bound s) (S (lconns s)) (done_closed s) (stop_waits s)
    else s
  | LConnEnd =>
    match lconns s with
    | S n => mk (phase s) (begun s) (lstopped s) (ldraining s) (bound s) n (done_closed s) (stop_waits s)
    | O => s
    end
  | LServeExit =>
    if is_phase (phase s) PServing && negb (bound s) && Nat.eqb (lconns s) 0
    then mk PReturned (begun s) (lstopped s) (ldraining s) false 0 true (stop_waits s)
    else s
  | LStop =>
    (* the repaired Stop waits only for a Serve that has begun; the registered connections are closed, so their
       handlers return (LConnEnd) *)
    mk (phase s) (begun s) true (ldraining s) false (lconns s) (done_closed s) (if fixed then begun s else true)
  | LDrain => mk (phase s) (begun s) (lstopped s) true false (lconns s) (done_closed s) (stop_waits s)
  | LAcceptTemp => s
  end.

Definition linit : lstate := mk PNotStarted false false false false 0 false false.
Definition lrun (fixed : bool) (l : list lop) : lstate := fold_left (lstep fixed) l linit.

(* Stop has returned, or can return now *)
Definition stop_returns (s : lstate) : bool := negb (stop_waits s) || done_closed s.
(* nothing of Serve is left to run *)
Definition serve_over (s : lstate) : bool := is_phase (phase s) PReturned || is_phase (phase s) PNotStarted.

(* what remains to happen once Stop has closed everything: the handlers return, Serve takes its next step *)
Definition finish_schedule (s : lstate) : list lop := repeat LConnEnd (lconns s) ++ [LServeExit; LBindFail].
