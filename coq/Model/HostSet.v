(* Model of host.Set (host/host.go), the health-check hysteresis (proc/internal/hc/monitor.go)
   and the balancing policies (proc/internal/lb/lb.go).  Host objects have identities: every
   object id has a fixed address and type (desc) and mutable flags; two objects with the same
   address are different objects.  Maps addr -> object are functions; U is the (sorted) universe
   of addresses used to enumerate them.  No proofs in this file. *)
From Coq Require Import List NArith Bool.
Import ListNotations.
Open Scope N_scope.

Definition addr := N.
Definition oid := N.
Inductive htype := Main | Backup.
Definition htype_eqb (a b : htype) : bool := match a, b with Main, Main | Backup, Backup => true | _, _ => false end.

Definition amap := addr -> option oid.
Definition upd (m : amap) (a : addr) (v : option oid) : amap := fun x => if x =? a then v else m x.
Definition bupd (m : oid -> bool) (i : oid) (v : bool) : oid -> bool := fun x => if x =? i then v else m x.
Definition is_obj (m : amap) (a : addr) (i : oid) : bool := match m a with Some j => j =? i | None => false end.

Section HostSet.
  Variable desc : oid -> addr * htype.     (* immutable part of each host object *)
  Variable U : list addr.                  (* address universe, ascending *)

  Definition o_addr (i : oid) : addr := fst (desc i).
  Definition o_type (i : oid) : htype := snd (desc i).

  Record hset := {
    all : amap; hmain : amap; hbackup : amap;
    healthy : oid -> bool;      (* Stats.isHealthy *)
    removed : oid -> bool;      (* removeCh closed *)
    cache : list oid            (* healthyCache *)
  }.

  Definition empty : hset :=
    {| all := fun _ => None; hmain := fun _ => None; hbackup := fun _ => None;
       healthy := fun _ => true; removed := fun _ => false; cache := [] |}.

  (* healthy(): main if non-empty else backup; buildHealthyCache sorts by address *)
  Definition members (m : amap) : list oid :=
    flat_map (fun a => match m a with Some i => [i] | None => [] end) U.
  Definition build_cache (s : hset) : hset :=
    let c := match members (hmain s) with [] => members (hbackup s) | l => l end in
    {| all := all s; hmain := hmain s; hbackup := hbackup s; healthy := healthy s; removed := removed s; cache := c |}.

  Definition set_maps (s : hset) (a' hm hb : amap) (rm : oid -> bool) : hset :=
    {| all := a'; hmain := hm; hbackup := hb; healthy := healthy s; removed := rm; cache := cache s |}.

  (* dropFromHealthy: only where the map holds this very object *)
  Definition drop_healthy (hm hb : amap) (i : oid) : amap * amap :=
    (if is_obj hm (o_addr i) i then upd hm (o_addr i) None else hm,
     if is_obj hb (o_addr i) i then upd hb (o_addr i) None else hb).

  (* addToHealthy: by the object's type, overwriting *)
  Definition put_healthy (hm hb : amap) (i : oid) : amap * amap :=
    match o_type i with
    | Main => (upd hm (o_addr i) (Some i), hb)
    | Backup => (hm, upd hb (o_addr i) (Some i))
    end.

  Definition add_one (s : hset) (i : oid) : hset :=
    let a := o_addr i in
    let '(hm, hb, rm) :=
      match all s a with
      | Some old => if old =? i then (hmain s, hbackup s, removed s)
                    else let '(hm, hb) := drop_healthy (hmain s) (hbackup s) old in (hm, hb, bupd (removed s) old true)
      | None => (hmain s, hbackup s, removed s)
      end in
    let '(hm2, hb2) := if healthy s i then put_healthy hm hb i else (hm, hb) in
    set_maps s (upd (all s) a (Some i)) hm2 hb2 rm.

  (* add(hosts...): the healthy ones are put into the maps after all have been stored; since an object
     is put under its own address this equals doing it one by one *)
  Definition add (s : hset) (ids : list oid) : hset := build_cache (fold_left add_one ids s).

  Definition remove_one (s : hset) (i : oid) : hset :=
    let a := o_addr i in
    match all s a with
    | Some stored =>
      let '(hm, hb) := drop_healthy (hmain s) (hbackup s) stored in
      set_maps s (upd (all s) a None) hm hb (bupd (bupd (removed s) stored true) i true)
    | None => set_maps s (all s) (hmain s) (hbackup s) (bupd (removed s) i true)
    end.

  Definition remove (s : hset) (ids : list oid) : hset := build_cache (fold_left remove_one ids s).

  Definition replace_all (s : hset) (ids : list oid) : hset :=
    add (fold_left (fun s i => remove s [i]) (members (all s)) s) ids.

  Definition set_healthy_flag (s : hset) (i : oid) (v : bool) : hset :=
    {| all := all s; hmain := hmain s; hbackup := hbackup s; healthy := bupd (healthy s) i v; removed := removed s; cache := cache s |}.

  (* MarkHostHealthy: CAS false->true, then membership by identity, then addToHealthy *)
  Definition mark_healthy (s : hset) (i : oid) : hset * bool :=
    if healthy s i then (s, false)
    else
      let s1 := set_healthy_flag s i true in
      if is_obj (all s1) (o_addr i) i
      then let '(hm, hb) := put_healthy (hmain s1) (hbackup s1) i in
           (build_cache (set_maps s1 (all s1) hm hb (removed s1)), true)
      else (s1, false).

  (* MarkHostUnhealthy: CAS true->false, membership by identity, removeFromHealthy (by type and address) *)
  Definition mark_unhealthy (s : hset) (i : oid) : hset * bool :=
    if negb (healthy s i) then (s, false)
    else
      let s1 := set_healthy_flag s i false in
      if is_obj (all s1) (o_addr i) i
      then let '(hm, hb) := match o_type i with
                            | Main => (upd (hmain s1) (o_addr i) None, hbackup s1)
                            | Backup => (hmain s1, upd (hbackup s1) (o_addr i) None)
                            end in
           (build_cache (set_maps s1 (all s1) hm hb (removed s1)), true)
      else (s1, false).

  Inductive hop :=
  | HAdd (ids : list oid) | HRemove (ids : list oid) | HReplaceAll (ids : list oid)
  | HMarkHealthy (i : oid) | HMarkUnhealthy (i : oid).

  Definition hstep (s : hset) (o : hop) : hset :=
    match o with
    | HAdd ids => add s ids
    | HRemove ids => remove s ids
    | HReplaceAll ids => replace_all s ids
    | HMarkHealthy i => fst (mark_healthy s i)
    | HMarkUnhealthy i => fst (mark_unhealthy s i)
    end.

  (* the specification of the usable list: the members marked healthy in the preferred tier, by address *)
  Definition tier_members (s : hset) (t : htype) : list oid :=
    filter (fun i => healthy s i && htype_eqb (o_type i) t) (members (all s)).
  Definition usable_spec (s : hset) : list oid :=
    match tier_members s Main with [] => tier_members s Backup | l => l end.
End HostSet.

(* ---------- health-check hysteresis (monitor.go checkHostAndUpdateStatus + host.Stats) ---------- *)

Record hc_state := { flag : bool; succ : N; fail : N }.

(* one check result; returns the new state and whether the flag flipped. member = the object is the
   set's current object for its address (otherwise MarkHost* changes only the flag) *)
Definition hc_step (rise fall : N) (s : hc_state) (ok : bool) : hc_state :=
  if ok then
    let sc := succ s + 1 in               (* IncSuccessfulCount: failed = 0; ++successful *)
    if rise <? sc
    then {| flag := true; succ := 0; fail := 0 |}      (* setHealthy resets both counters, CAS *)
    else {| flag := flag s; succ := sc; fail := 0 |}
  else
    let fc := fail s + 1 in
    if fall <? fc
    then {| flag := false; succ := 0; fail := 0 |}
    else {| flag := flag s; succ := 0; fail := fc |}.

Definition hc_run (rise fall : N) (s : hc_state) (results : list bool) : hc_state := fold_left (hc_step rise fall) results s.

(* the thresholds can be reconfigured while the monitor runs (ResetHealthCheck): each check uses the ones in force *)
Definition hc_run_cfg (s : hc_state) (l : list (N * N * bool)) : hc_state :=
  fold_left (fun s x => hc_step (fst (fst x)) (snd (fst x)) s (snd x)) l s.

Fixpoint trailing (b : bool) (rev_hist : list bool) : N :=
  match rev_hist with
  | x :: t => if Bool.eqb x b then 1 + trailing b t else 0
  | [] => 0
  end.

(* ---------- balancing policies (lb.go) ---------- *)

Definition two64 : N := 18446744073709551616.

(* round robin: index.Inc() % len *)
Definition rr_pick (ctr : N) (n : N) : N * N := let c := (ctr + 1) mod two64 in (c, c mod n).
(* random: randInt() % len, randInt >= 0 *)
Definition rand_pick (r : N) (n : N) : N := r mod n.
(* least connection: two samples; the first only if strictly less busy *)
Definition least_pick (r1 r2 : N) (conns : list N) : N :=
  let n := N.of_nat (length conns) in
  let i1 := r1 mod n in let i2 := r2 mod n in
  if nth (N.to_nat i1) conns 0 <? nth (N.to_nat i2) conns 0 then i1 else i2.
