(* C17 — hot-restart hand-over is ordered, acknowledged and robust to bad frames.
   Only statements; every proof is `exact <lemma from Proofs/>`.  RS is the read size
   regenerated from rpc.go; the dispatcher (events, hc, srv) is evaluated over the message
   numbering, dispatch switch and handler bodies regenerated from rpc.go / hotrestart.go. *)
From Coq Require Import List NArith String.
From Sam Require Import Gen.Tables Model.Bytes Model.Frame Proofs.FrameProofs Model.Lifecycle Proofs.LifecycleProofs.
Import ListNotations.
Open Scope list_scope.
Open Scope N_scope.

(* every frame round-trips exactly: type, length, payload *)
Theorem C17_roundtrip : forall t data, t < 256 -> lenN data <= RS - 3 ->
  exists f, send_frame t data = Some f /\ read_frame RS f = FOk t data.
Proof. exact roundtrip. Qed.
Print Assumptions C17_roundtrip.

(* truncated / oversized / malformed input is never read as a different message: whatever is
   accepted is exactly a frame sendMessage produces, and is a prefix of the bytes received *)
Theorem C17_reject : forall bs t d, bytes_lt256 bs -> read_frame RS bs = FOk t d ->
  exists f tail, send_frame t d = Some f /\ bs = f ++ tail.
Proof. exact accept_faithful. Qed.
Print Assumptions C17_reject.

(* ... and reading never indexes outside the receive buffer *)
Theorem C17_no_panic : forall bs, read_frame RS bs <> FPanic.
Proof. exact no_panic. Qed.
Print Assumptions C17_no_panic.

(* the numbering of message types in rpc.go *)
Theorem C17_numbering :
  hr_message_types = ["shutdownAdminReq"; "shutdownAdminReply"; "shutdownLocalConfReq"; "shutdownLocalConfReply";
                      "drainListenersReq"; "drainListenersReply"; "terminateReq"; "terminateReply"; "unknownReply"]%string.
Proof. exact message_numbering. Qed.
Print Assumptions C17_numbering.

(* each request type triggers its step once and the matching acknowledgement; anything else the unknown reply *)
Theorem C17_dispatch : forall t, t < 256 -> events t = spec_events t.
Proof. exact dispatch_table. Qed.
Print Assumptions C17_dispatch.

(* any sequence of requests (any payloads that fit a frame), in lock step: the steps happen once per
   request, in the order requested, each acknowledged by the matching reply *)
Theorem C17_sequence : forall rs tail, Forall req_ok rs ->
  hc (reads_of rs ++ tail) = List.concat (map (fun r => spec_events (fst r)) rs) ++ hc tail.
Proof. exact hc_requests. Qed.
Print Assumptions C17_sequence.

(* a malformed frame triggers nothing and the following requests are still served *)
Theorem C17_bad_frame_skipped : forall bs tail, (forall t d, read_frame RS bs <> FOk t d) ->
  hc (RdBytes bs :: tail) = hc tail.
Proof. exact hc_bad. Qed.
Print Assumptions C17_bad_frame_skipped.

(* a child that disappears at any point does not prevent later children from being served *)
Theorem C17_child_gone : forall rss, Forall (Forall req_ok) rss ->
  srv (map (fun rs => reads_of rs ++ [RdEOF]) rss)
  = List.concat (map (fun rs => List.concat (map (fun r => spec_events (fst r)) rs)) rss).
Proof. exact srv_children. Qed.
Print Assumptions C17_child_gone.

(* the step "stop accepting new connections while keeping established ones" on a listener in any state: every connection
   Accept has returned is kept, the listening socket is closed, no further connection is accepted ... *)
Theorem C17_drain_step : forall s, let d := lstep true s LDrain in
  lconns d = lconns s /\ bound d = false /\ lstep true d LAccept = d /\ lstopped d = lstopped s /\ phase d = phase s.
Proof. exact drain_step. Qed.
Print Assumptions C17_drain_step.

(* ... and a serving listener's Serve returns once the kept connections have ended by themselves *)
Theorem C17_drain_then_serve_returns : forall s, phase s = PServing ->
  phase (lstep true (fold_left (lstep true) (repeat LConnEnd (lconns s)) (lstep true s LDrain)) LServeExit) = PReturned.
Proof. exact drain_then_serve_returns. Qed.
Print Assumptions C17_drain_then_serve_returns.

Example C17_drain_after_accept :
  let s := lrun true [LServeBegin; LBindOk; LAccept; LDrain] in lconns s = 1%nat /\ bound s = false /\ lstep true s LAccept = s.
Proof. vm_compute. repeat split. Qed.

(* non-vacuity: the documented hand-over of the child (admin, listeners, terminate) *)
Example C17_handover :
  hc (reads_of [(1, [123;125]); (5, [123;125]); (7, [123;125])] ++ [RdEOF])
  = [EvCall "ShutdownAdmin"; EvReply 2 [123;125]; EvCall "DrainListeners"; EvReply 6 [123;125];
     EvReply 8 [123;125]; EvCall "kill"].
Proof. vm_compute. reflexivity. Qed.
