(* C10 — RESP codec: decode and encode are inverse and independent of chunking.
   Only statements; every proof is `exact <lemma from Proofs/>`.
   T is the itoa table built from the regenerated minItoa/maxItoa; wfv/wfl say: no LF in
   simple/error texts, integers in int64, bulk and array lengths within the regenerated limits. *)
From Coq Require Import List NArith ZArith.
From Sam Require Import Gen.Tables Model.Bytes Model.Resp Model.Reader Model.Codec
  Proofs.IntProofs Proofs.CodecProofs Proofs.ReaderProofs Proofs.CodecProofs2 Proofs.C10Final.
Import ListNotations.
Open Scope N_scope.

Theorem C10_limits :
  max_array_len = 1048576%Z /\ max_bulk_len = 536870912%Z /\ 32 <= session_dec_buf /\ 32 <= client_dec_buf /\
  32 <= default_buffer_size /\ (min_itoa <= max_itoa)%Z /\ 8 <= max_array_depth <= 1024.
Proof. exact limits. Qed.
Print Assumptions C10_limits.

(* every operation of the buffered reader (any buffer size >= 1, any sequence of read sizes
   delivered by the source, any end-of-source error) returns what the same operation returns
   on the flat remaining stream, and leaves related states *)
Theorem C10_reader_refines : forall B F, 1 <= B -> (0 < F)%nat -> forall s f, R B F s f ->
  (fst (c_peek B s) = fst (f_peek f) /\ R B F (snd (c_peek B s)) (snd (f_peek f))) /\
  (fst (c_rbyte B s) = fst (f_rbyte f) /\ R B F (snd (c_rbyte B s)) (snd (f_rbyte f))) /\
  (fst (c_rslice B F s) = fst (f_rslice B f) /\ R B F (snd (c_rslice B F s)) (snd (f_rslice B f))) /\
  (fst (c_rbytes B F s) = fst (f_rbytes f) /\ R B F (snd (c_rbytes B F s)) (snd (f_rbytes f))) /\
  (forall n, fst (c_rfull B F n s) = fst (f_rfull n f) /\ R B F (snd (c_rfull B F n s)) (snd (f_rfull n f))).
Proof. exact reader_refines. Qed.
Print Assumptions C10_reader_refines.

(* decoding ANY byte stream (well-formed or not) gives the same messages and the same first
   error however the stream is split into reads *)
Theorem C10_chunking : forall B szs endv data, 1 <= B ->
  decode_all_chunked max_array_len max_bulk_len max_array_depth B szs endv data = decode_all_flat max_array_len max_bulk_len max_array_depth B endv data.
Proof. exact chunking. Qed.
Print Assumptions C10_chunking.

(* encode then decode is the identity and consumes exactly the encoded bytes, for every value nested no deeper
   than the decoder's limit (maxArrayDepth, regenerated; d = arrays already open) *)
Theorem C10_roundtrip : forall B v fuel d rest e, 22 <= B -> wfv v -> (depth v < fuel)%nat ->
  d + N.of_nat (depth v) <= max_array_depth ->
  decode frd (flat_ops B) max_array_len max_bulk_len max_array_depth fuel d (fs (encode T v ++ rest) e) = (Ok v, fs rest e).
Proof. exact roundtrip_gen. Qed.
Print Assumptions C10_roundtrip.

(* decoding canonical bytes then re-encoding yields the same bytes *)
Theorem C10_canonical : forall B v fuel d rest e v' rest', 22 <= B -> wfv v -> (depth v < fuel)%nat ->
  d + N.of_nat (depth v) <= max_array_depth ->
  decode frd (flat_ops B) max_array_len max_bulk_len max_array_depth fuel d (fs (encode T v ++ rest) e) = (Ok v', fs rest' e) ->
  encode T v' ++ rest' = encode T v ++ rest.
Proof. exact canonical_gen. Qed.
Print Assumptions C10_canonical.

(* a concatenation of messages decodes to exactly those messages, then EOF, under every chunking *)
Theorem C10_concat : forall B vs szs, 22 <= B -> wfl vs -> N.of_nat (depth_list vs) <= max_array_depth ->
  decode_all_chunked max_array_len max_bulk_len max_array_depth B szs EOF (encode_list T vs) = (vs, EOF).
Proof. exact concat_gen. Qed.
Print Assumptions C10_concat.

(* an inline command decodes to the same request as its array-of-bulk-strings form *)
Theorem C10_inline : forall B ws c w0 rest e fuel d,
  Forall word_ok ws -> join_sp ws = c :: w0 -> is_type_byte c = false -> (0 < fuel)%nat ->
  decode frd (flat_ops B) max_array_len max_bulk_len max_array_depth fuel d (fs (join_sp ws ++ [CR; LF] ++ rest) e)
  = (Ok (Arr (Some (map (fun w => Bulk (Some w)) ws))), fs rest e).
Proof. exact inline_gen. Qed.
Print Assumptions C10_inline.

(* integer fast paths agree with the standard conversions on all inputs *)
Theorem C10_btoi64 : forall b, btoi64 b = parse_int64 b.
Proof. exact btoi64_is_parse_int64. Qed.
Print Assumptions C10_btoi64.

Theorem C10_itoa : forall i, itoa T i = dec_of_Z i.
Proof. exact itoa_gen. Qed.
Print Assumptions C10_itoa.

Theorem C10_int_roundtrip : forall z, in_int64 z = true -> btoi64 (itoa T z) = inl z.
Proof. exact int_roundtrip. Qed.
Print Assumptions C10_int_roundtrip.

(* non-vacuity *)
Example C10_sample_wf : wfv sample.
Proof. exact sample_wf. Qed.
Example C10_sample_roundtrip :
  decode_all_chunked max_array_len max_bulk_len max_array_depth 32 [1;2;3;1;1;1;7] EOF (encode T sample ++ encode T sample) = ([sample; sample], EOF).
Proof. exact sample_roundtrip. Qed.
