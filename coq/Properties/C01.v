(* C01 — replies come back in request order, exactly one per request.
   Only statements; every proof is `exact <lemma from Proofs/>`.  Model/Cluster.v is the transition system of the
   session reader/writer, the handlers and the per-node FIFO connections; a schedule sch is any interleaving of its
   steps, so it covers every pipelining depth and every relative delay/order of the nodes' answers. *)
From Coq Require Import List NArith ZArith String.
From Sam Require Import Gen.Tables Model.Bytes Model.Resp Model.Reader Model.Codec Model.Text Model.Dispatch Model.Cluster
  Proofs.ClusterProofs Proofs.ClusterLive Proofs.DispatchProofs Proofs.C01Proofs Proofs.C10Final.
Import ListNotations.
Open Scope string_scope.
Open Scope list_scope.
Open Scope N_scope.

(* on every connection, at every point of every schedule: as many replies as requests answered, never more than
   requests read, and the requests read are a prefix of what the client sent *)
Theorem C01_one_reply_each : forall V sem owner asm nd0 progs sch c,
  let cn := conns V (run V sem owner asm (init V owner nd0 progs) sch) c in
  List.length (out cn) = nwritten cn /\ (nwritten cn <= List.length (reqs cn))%nat /\ reqs cn ++ todo cn = progs c.
Proof. exact one_reply_each. Qed.
Print Assumptions C01_one_reply_each.

(* liveness: from EVERY reachable state (any schedule prefix sch0) there is a continuation - the handler finishes sending, the
   nodes answer what is queued, the writer writes, the rest of the program is read - after which the connection has
   received a reply for every request it sent; no schedule prefix can wedge a connection *)
Theorem C01_always_can_finish : forall V sem owner asm nd progs c sch0,
  exists sch, quiescent V (run V sem owner asm (init V owner nd progs) (sch0 ++ sch)) c.
Proof. exact always_can_finish. Qed.
Print Assumptions C01_always_can_finish.

(* the k-th reply is the result of the k-th request (the single server's), whatever the nodes' answer order *)
Theorem C01_in_order : forall V sem owner asm nd0 progs c sch, (forall c', c' <> c -> progs c' = []) ->
  let st := run V sem owner asm (init V owner nd0 progs) sch in
  out (conns V st c) = firstn (nwritten (conns V st c)) (snd (ss_run V sem asm (abs_db V owner nd0) (progs c))).
Proof. exact single_connection. Qed.
Print Assumptions C01_in_order.

(* other connections: a connection's k-th reply is assembled from the replies to the children of its own k-th
   request and nothing else; the only influence of other traffic is through the shared data, in a serial order *)
Theorem C01_other_connections : forall V sem owner asm nd0 progs sch,
  let st := run V sem owner asm (init V owner nd0 progs) sch in
  ss_subs V sem (abs_db V owner nd0) (map e_s (lin V st)) = (gdb V st, map e_x (lin V st)) /\
  forall c,
    reqs (conns V st c) ++ todo (conns V st c) = progs c /\
    map e_s (cl V st c) ++ sending (conns V st c) = kids (reqs (conns V st c)) /\
    out (conns V st c) = map (req_reply asm (reqs (conns V st c)) (map e_x (cl V st c))) (seq 0 (nwritten (conns V st c))) /\
    (nwritten (conns V st c) <= List.length (reqs (conns V st c)))%nat.
Proof. exact linearizable. Qed.
Print Assumptions C01_other_connections.

(* request content: every reply handleRequest writes by itself is a single line, so its encoding is one frame *)
Theorem C01_local_reply_one_line : forall v,
  match plan v with
  | PLocalErr t | PLocalSimple t => ~ In LF t
  | _ => True
  end.
Proof. exact local_reply_one_line. Qed.
Print Assumptions C01_local_reply_one_line.

Theorem C01_sum_error_one_line : forall rs t, sum_reply rs = Err t -> ~ In LF t.
Proof. exact sum_error_one_line. Qed.
Print Assumptions C01_sum_error_one_line.

(* fragmentation of the request bytes: the requests decoded do not depend on how the bytes arrive *)
Theorem C01_fragmentation : forall B szs endv data, 1 <= B ->
  decode_all_chunked max_array_len max_bulk_len max_array_depth B szs endv data = decode_all_flat max_array_len max_bulk_len max_array_depth B endv data.
Proof. exact chunking. Qed.
Print Assumptions C01_fragmentation.

(* non-vacuity: the hostile command name of the historical defect *)
Example C01_crlf_name :
  plan (Arr (Some [Bulk (Some (bytes_of_string "foo" ++ [13; 10] ++ bytes_of_string "+OK")); Bulk (Some (bytes_of_string "k"))]))
  = PLocalErr (bytes_of_string "ERR unsupported command 'foo  +OK'").
Proof. vm_compute. reflexivity. Qed.
