(* C06 — connections go only to current healthy hosts, per the balancing policy.
   Only statements; every proof is `exact <lemma from Proofs/>`.  The candidate list is the usable
   list of C15 (cache); the policies pick an index into it. *)
From Coq Require Import List Arith NArith Bool Permutation.
From Coq Require Import ZArith.
From Sam Require Import Model.HostSet Proofs.HostSetProofs Model.Stats Proofs.StatsProofs.
Import ListNotations.
Open Scope N_scope.

(* round robin: any n consecutive counter values (whoever obtains them: each caller of the atomic
   increment gets a distinct value) select each of the n hosts exactly once; hence n*k consecutive
   selections give each host exactly k *)
Theorem C06_rr_fair : forall n, (0 < n)%nat -> forall c,
  Permutation (map (fun t => (t mod n)%nat) (seq (c + 1) n)) (seq 0 n).
Proof. exact mod_window_perm. Qed.
Print Assumptions C06_rr_fair.

(* all three policies only ever pick a member of the candidate list *)
Theorem C06_rr_member : forall c n, 0 < n -> snd (rr_pick c n) < n.
Proof. exact rr_member. Qed.
Print Assumptions C06_rr_member.
Theorem C06_random_member : forall r n, 0 < n -> rand_pick r n < n.
Proof. exact rand_member. Qed.
Print Assumptions C06_random_member.
Theorem C06_least_member : forall r1 r2 conns, conns <> [] -> least_pick r1 r2 conns < N.of_nat (length conns).
Proof. exact least_member. Qed.
Print Assumptions C06_least_member.

(* least-connection never prefers the strictly busier of its two samples *)
Theorem C06_least : forall r1 r2 conns, conns <> [] ->
  let n := N.of_nat (length conns) in
  let c i := nth (N.to_nat i) conns 0 in
  c (least_pick r1 r2 conns) <= c (r1 mod n) /\ c (least_pick r1 r2 conns) <= c (r2 mod n).
Proof. exact least_not_busier. Qed.
Print Assumptions C06_least.

(* the candidates are current members marked healthy (with C15_usable: of the preferred tier) *)
Theorem C06_healthy_only : forall desc U ops i, In i (cache (run desc U ops)) ->
  all (run desc U ops) (o_addr desc i) = Some i /\ healthy (run desc U ops) i = true.
Proof. exact usable_members. Qed.
Print Assumptions C06_healthy_only.

(* removing a host -- through any object carrying its address -- closes the removal latch of the stored
   object, which is what established connections to it wait on *)
Theorem C06_removed_closed : forall desc U s i st, all s (o_addr desc i) = Some st ->
  removed (remove desc U s [i]) st = true /\ all (remove desc U s [i]) (o_addr desc i) = None.
Proof. exact removed_after_remove. Qed.
Print Assumptions C06_removed_closed.

Theorem C06_replaced_closed : forall desc U s i old, all s (o_addr desc i) = Some old -> old <> i ->
  removed (add desc U s [i]) old = true.
Proof. exact removed_after_readd. Qed.
Print Assumptions C06_replaced_closed.

(* the per-host connection count that least-connection reads: a relay is counted once its dial has succeeded and
   until it ends, so after any history the count is the number of relays in progress - never negative, zero when
   none is left (Model/Stats.v with one counter state per host object: SvConnect = dial succeeded, SvFinish = relay over) *)
Theorem C06_conn_count : forall l, let s := Sam.Model.Stats.srun 0 l in
  (Sam.Model.Stats.cx_active s = Sam.Model.Stats.open_conns s /\ 0 <= Sam.Model.Stats.open_conns s)%Z.
Proof. exact host_count. Qed.
Print Assumptions C06_conn_count.
