(* C11 — no byte sequence from a client or a backend can crash or wedge the proxy.
   Only statements; every proof is `exact <lemma from Proofs/>`.  In the models a Go panic is an
   explicit outcome (OPanic, CnPanic, None); the decoder and parsers are total functions of the bytes. *)
From Coq Require Import List NArith ZArith.
From Sam Require Import Gen.Tables Model.Bytes Model.Resp Model.Reader Model.Codec Model.Dispatch Model.Redirect
  Proofs.ChunkProofs Proofs.C11Proofs.
Import ListNotations.
Open Scope N_scope.

(* the limits regenerated from the source, including the nesting limit *)
Theorem C11_limits : (max_array_len = 1048576)%Z /\ (max_bulk_len = 536870912)%Z /\ max_array_depth = 32 /\ slot_num = 16384.
Proof. exact c11_limits. Qed.
Print Assumptions C11_limits.

(* for EVERY byte stream (client or backend, any reader) the decoder's recursion depth is bounded by
   the nesting limit: beyond maxArrayDepth - d + 1 units of fuel, more fuel changes nothing *)
Theorem C11_depth : forall St (O : ops St) max_array max_bulk max_depth f1 f2 d s,
  (N.to_nat (max_depth + 1 - d) < f1)%nat -> (N.to_nat (max_depth + 1 - d) < f2)%nat ->
  decode St O max_array max_bulk max_depth f1 d s = decode St O max_array max_bulk max_depth f2 d s.
Proof. exact decode_fuel_indep. Qed.
Print Assumptions C11_depth.

(* every byte stream, however it is chunked, is decoded to the same values and first error (no input
   can wedge or diverge the reader loops): C10's chunk independence covers malformed streams too *)
Theorem C11_decode_total : forall B szs endv data, 1 <= B ->
  decode_all_chunked max_array_len max_bulk_len max_array_depth B szs endv data
  = decode_all_flat max_array_len max_bulk_len max_array_depth B endv data.
Proof. intros. apply chunking_independent. assumption. Qed.
Print Assumptions C11_decode_total.

(* whatever a backend answers (malformed MOVED / ASK / CLUSTERDOWN included), the request is completed
   or re-sent: never an out-of-range index, never left without a reply *)
Theorem C11_backend_reply : forall v, handle_resp v <> OPanic /\ handle_resp v <> ONothing.
Proof. exact handle_resp_total. Qed.
Print Assumptions C11_backend_reply.

(* whatever CLUSTER NODES text a backend returns: no nil dereference ... *)
Theorem C11_cluster_nodes : forall data, parse_cluster_nodes data <> CnPanic.
Proof. exact parse_cluster_nodes_no_panic. Qed.
Print Assumptions C11_cluster_nodes.

(* ... and the slot expansion is bounded by 16384 entries per token *)
Theorem C11_cluster_nodes_cost : forall sc segs, (0 < sc)%Z -> forall l, parse_slots sc segs = Some l ->
  (Z.of_nat (length l) <= sc * Z.of_nat (length segs))%Z.
Proof. exact parse_slots_cost. Qed.
Print Assumptions C11_cluster_nodes_cost.

(* whatever a backend answers to SCAN, rewriting the cursor never indexes an empty array *)
Theorem C11_scan_reply : forall idx reply, scan_reply idx reply <> None.
Proof. exact scan_reply_total. Qed.
Print Assumptions C11_scan_reply.
