(* C07 — the proxy heals after connection loss and topology change.
   Only statements; every proof is `exact <lemma from Proofs/>`.
   hstate: per backend address reachability and the connection table entry (id, alive), the routing table tbl and
   the cluster's layout hown, the data.  Theorems hold for every command semantics, slot function and host list. *)
From Coq Require Import List NArith.
From Sam Require Import Gen.Tables Model.Bytes Model.Resp Model.Cluster Model.Heal Proofs.HealProofs.
Import ListNotations.
Open Scope N_scope.

(* in every reachable state, an error reply has a cause that holds at that moment: the backend is unreachable, or
   its lost connection has not yet been removed from the table (it removes itself: next theorem) *)
Theorem C07_error_has_cause : forall V sem slot hosts s sb s' o, HI V s -> do_req V sem slot hosts s sb = (s', RErr o) ->
  match o with
  | HRefused n => reach V s n = false
  | HExited n => exists id, hconn V s n = Some (id, false)
  | HServed _ _ => False
  end.
Proof. exact error_has_cause. Qed.
Print Assumptions C07_error_has_cause.

Theorem C07_reachable_states : forall V sem slot hosts layout l, HI V (fst (run_hops V sem slot hosts (hinit V layout) l)).
Proof. exact reachable_inv. Qed.
Print Assumptions C07_reachable_states.

Theorem C07_finished_connections_leave : forall V sem slot hosts s, no_dead V (fst (do_hop V sem slot hosts s HWait)).
Proof. exact wait_no_dead. Qed.
Print Assumptions C07_finished_connections_leave.

(* as soon as the nodes involved are reachable (again) the request is served, by the slot's owner, with the single
   server's reply - whatever faults happened before *)
Theorem C07_heals : forall V sem slot hosts s sb, no_dead V s ->
  reach V s (tbl V s (slot (sk sb))) = true -> reach V s (hown V s (slot (sk sb))) = true ->
  exists s' r id red, do_req V sem slot hosts s sb = (s', ROk r (hown V s (slot (sk sb))) id red) /\
                      r = snd (exec_sub V sem (hdb V s) sb) /\ hdb V s' = fst (exec_sub V sem (hdb V s) sb).
Proof. exact heals. Qed.
Print Assumptions C07_heals.

(* ... over a NEW connection when the old one is gone: an id never used before, one more accept on the backend *)
Theorem C07_reconnects : forall V s n, HI V s -> hconn V s n = None -> reach V s n = true ->
  exists s', attempt V s n = (s', HServed n (nextid V s)) /\ accepts V s' n = accepts V s n + 1 /\
             forall x id a, hconn V s x = Some (id, a) -> id <> nextid V s.
Proof. exact reconnects. Qed.
Print Assumptions C07_reconnects.

(* a reply lost after execution (the node executed the command, the connection died before the answer): the client
   is told an error, never a result; the data is what exactly one execution leaves - the command is not sent again,
   its effect is not undone; the connection is marked lost, so the next request to that node dials a new one *)
Theorem C07_lost_reply : forall V sem slot hosts s sb, HI V s ->
  let '(s1, out) := do_hop V sem slot hosts s (HReqLost sb) in
  (exists o, out = Some (RErr o)) /\ hdb V s1 = hdb V (fst (do_req V sem slot hosts s sb)) /\
  (forall r n id red, snd (do_req V sem slot hosts s sb) = ROk r n id red ->
     hdb V s1 = fst (exec_sub V sem (hdb V s) sb) /\ exists id', hconn V s1 n = Some (id', false)).
Proof. exact lost_reply. Qed.
Print Assumptions C07_lost_reply.

(* a refresh request made while a round is in flight is kept (the trigger channel of upstream.go holds one entry) *)
Theorem C07_trigger_kept : 1 <= slots_refresh_ch_cap.
Proof. exact trigger_kept. Qed.
Print Assumptions C07_trigger_kept.

(* routing: the first redirection triggers a refresh; once some configured host is reachable the table equals the
   layout, and with an up-to-date table no request is redirected *)
Theorem C07_first_redirect_converges : forall V sem slot hosts s sb s' r n id,
  do_req V sem slot hosts s sb = (s', ROk r n id true) -> can_refresh V hosts s = true -> converged V s'.
Proof. exact redirect_then_converged. Qed.
Print Assumptions C07_first_redirect_converges.

Theorem C07_converged_no_redirect : forall V sem slot hosts s sb s' r n id red,
  converged V s -> do_req V sem slot hosts s sb = (s', ROk r n id red) -> red = false.
Proof. exact converged_no_redirect. Qed.
Print Assumptions C07_converged_no_redirect.
