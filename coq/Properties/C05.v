(* C05 — TCP: bytes are relayed unmodified, in order, both ways, with half-close.
   Only statements; every proof is `exact <lemma from Proofs/>`.
   rrun B l = one direction of a relayed connection after the history l of the source sending, half-closing, and copy
   rounds whose reads return any number of bytes (Model/Relay.v); B = the copy buffer's size. *)
From Coq Require Import List NArith.
From Sam Require Import Gen.Tables Model.Bytes Model.Relay Proofs.RelayProofs.
Import ListNotations.
Open Scope N_scope.

(* at every moment: delivered ++ not-yet-read = sent, so nothing is added, dropped, duplicated or reordered; and the
   destination sees end-of-stream only when it has received everything *)
Theorem C05_exact : forall B l, let d := rrun B l in
  delivered d ++ unread d = sent_of l false /\ (eof_delivered d = true -> delivered d = sent_of l false).
Proof. exact relay_exact. Qed.
Print Assumptions C05_exact.

Theorem C05_prefix : forall B l, exists rest, sent_of l false = delivered (rrun B l) ++ rest.
Proof. exact relay_prefix. Qed.
Print Assumptions C05_prefix.

(* progress under any chunking: a copy round moves at least one byte while something is unread, and delivers
   end-of-stream once the source has finished and nothing is unread *)
Theorem C05_progress : forall B d k, 1 <= B -> eof_delivered d = false -> unread d <> [] ->
  lenN (unread (rstep B d (RCopy k))) < lenN (unread d).
Proof. exact copy_progress. Qed.
Theorem C05_eof : forall B d k, eof_delivered d = false -> unread d = [] -> src_closed d = true -> eof_delivered (rstep B d (RCopy k)) = true.
Proof. exact copy_eof. Qed.
Print Assumptions C05_eof.
Print Assumptions C05_progress.

(* bytes never wait for more bytes: with nothing further sent, copy rounds alone - one per unread byte is always
   enough, whatever the read sizes - deliver everything unread, so a request/response exchange (the next chunk is
   sent only after the previous one has arrived) cannot stall *)
Theorem C05_no_waiting : forall B ks d, 1 <= B -> eof_delivered d = false -> lenN (unread d) <= N.of_nat (length ks) ->
  unread (copy_rounds B d ks) = [] /\ delivered (copy_rounds B d ks) = delivered d ++ unread d.
Proof. exact copy_drains. Qed.
Print Assumptions C05_no_waiting.

(* the copy buffer of the processor (regenerated from proc/tcp/proc.go) can hold at least one byte, so C05_progress applies *)
Theorem C05_buffer : 1 <= tcp_buf_size.
Proof. exact tcp_buf_ok. Qed.
Print Assumptions C05_buffer.

(* half-close: what happens in one direction (including its end) does not touch the other *)
Theorem C05_directions_independent : forall B c2b b2c extra, snd (both B (c2b ++ extra) b2c) = snd (both B c2b b2c).
Proof. exact directions_independent. Qed.
Print Assumptions C05_directions_independent.

Example C05_sample : delivered (rrun 4 [RSend [1;2;3;4;5;6;7]; RCopy 100; RFinish; RCopy 2; RCopy 9; RCopy 1]) = [1;2;3;4;5;6;7] /\
  eof_delivered (rrun 4 [RSend [1;2;3;4;5;6;7]; RCopy 100; RFinish; RCopy 2; RCopy 9; RCopy 1]) = true.
Proof. vm_compute. split; reflexivity. Qed.
