(* C19 — hot keys: counters are exact for tracked keys and bounded in size.
   Only statements; every proof is `exact <lemma from Proofs/>`.  buckets is the functional image of
   the counter's doubly linked frequency list (ascending nodes, items in list order). *)
From Coq Require Import List NArith.
From Sam Require Import Model.Counter Proofs.CounterProofs.
Import ListNotations.
Open Scope N_scope.

(* every state reachable by any sequence of accesses, latches and frees: frequencies strictly ascending,
   no empty node, no key twice, and never more keys than the capacity *)
Theorem C19_bound : forall cap ops, 1 <= cap -> W (crun cap ops) /\ sizeN (crun cap ops) <= cap.
Proof. exact reachable_ok. Qed.
Print Assumptions C19_bound.

(* one access: the accessed key's count is exact (previous + 1, or 1 when admitted); every other tracked key
   keeps its count, except that when the counter is full and the key is new exactly one key is evicted,
   and that key has the minimum count *)
Theorem C19_exact : forall cap b k, 1 <= cap -> W b -> sizeN b <= cap ->
  let b' := incr cap b k in
  W b' /\ sizeN b' <= cap /\
  freq_of b' k = Some (match freq_of b k with Some f => f + 1 | None => 1 end) /\
  ((forall k', k' <> k -> freq_of b' k' = freq_of b k') \/
   (exists v fv, freq_of b k = None /\ sizeN b = cap /\ freq_of b v = Some fv /\
                 (forall x f, freq_of b x = Some f -> fv <= f) /\
                 freq_of b' v = None /\ forall k', k' <> k -> k' <> v -> freq_of b' k' = freq_of b k')).
Proof. exact incr_correct. Qed.
Print Assumptions C19_exact.

(* the collector's report: inserting keeps it ordered by non-increasing heat, within capacity, and adds only the inserted key *)
Theorem C19_report_insert : forall cap data k, sorted_desc data -> N.of_nat (length data) <= cap ->
  sorted_desc (insert_hk cap data k) /\ N.of_nat (length (insert_hk cap data k)) <= cap /\
  (forall x, In x (insert_hk cap data k) -> x = k \/ In x data).
Proof. exact insert_ok. Qed.
Print Assumptions C19_report_insert.

(* ... and after evicting stale entries it is still ordered (whatever subset was halved), has no entry of heat 0,
   no new names and no more entries *)
Theorem C19_report_evict : forall now data,
  sorted_desc (evict_stale now data) /\
  (forall x, In x (evict_stale now data) -> hk_val x <> 0 /\ exists y, In y data /\ hk_name x = hk_name y /\ hk_val x <= hk_val y) /\
  (length (evict_stale now data) <= length data)%nat.
Proof. exact evict_stale_ok. Qed.
Print Assumptions C19_report_evict.

(* non-vacuity: capacity 2, accesses a b b a a c: b (count 2) is the minimum when c arrives *)
Example C19_abbaac : crun 2 [CIncr 1; CIncr 2; CIncr 2; CIncr 1; CIncr 1; CIncr 3] = [(1, [3]); (3, [1])].
Proof. vm_compute. reflexivity. Qed.
Example C19_minute_boundary :
  map hk_val (evict_stale 11 [{| hk_name := 1; hk_val := 12; hk_lut := 10 |}; {| hk_name := 2; hk_val := 7; hk_lut := 11 |}]) = [7; 6].
Proof. vm_compute. reflexivity. Qed.
