(* C12 — key-to-slot mapping equals the Redis Cluster specification.
   Only statements; every proof is `exact <lemma from Proofs/>`. *)
From Coq Require Import List NArith.
From Sam Require Import Gen.Tables Model.Slot Proofs.SlotProofs Lib.GoLib Gen.Funcs Proofs.GenFuncsProofs.
Import ListNotations.
Open Scope N_scope.

(* the table in util.go (regenerated from the source on every run) is the XMODEM table *)
Theorem C12_table : crc16tab = xmodem_table.
Proof. exact table_is_xmodem. Qed.
Print Assumptions C12_table.

(* the table-driven fold equals the bit-by-bit CRC16/XMODEM for every byte string:
   all 2^16 states x all 256 next bytes, any length *)
Theorem C12_crc : forall key, bytes_ok key -> crc16_tab crc16tab key = crc16_spec key.
Proof. exact crc_agrees. Qed.
Print Assumptions C12_crc.

(* hash tag: text between the first '{' and the first '}' after it, when non-empty ... *)
Theorem C12_tag_some : forall pre mid post,
  ~ In lbrace pre -> ~ In rbrace mid -> mid <> [] ->
  hashtag (pre ++ lbrace :: mid ++ rbrace :: post) = mid.
Proof. exact hashtag_some. Qed.
Print Assumptions C12_tag_some.

(* ... and the whole key in every other case (no '{', no '}' after it, or nothing between) *)
Theorem C12_tag_none : forall key,
  (forall pre mid post, key = pre ++ lbrace :: mid ++ rbrace :: post ->
     ~ In lbrace pre -> ~ In rbrace mid -> mid = []) ->
  hashtag key = key.
Proof. exact hashtag_none. Qed.
Print Assumptions C12_tag_none.

(* slot = CRC16/XMODEM(hash tag) mod 16384, and is a valid index *)
Theorem C12_slot : forall key, bytes_ok key ->
  slot_of crc16tab slot_num key = crc16_spec (hashtag key) mod 16384
  /\ slot_of crc16tab slot_num key < slot_num.
Proof. exact slot_spec. Qed.
Print Assumptions C12_slot.

Theorem C12_same_tag : forall k1 k2, bytes_ok k1 -> bytes_ok k2 -> hashtag k1 = hashtag k2 ->
  slot_of crc16tab slot_num k1 = slot_of crc16tab slot_num k2.
Proof. exact same_tag. Qed.
Print Assumptions C12_same_tag.

(* the Go functions themselves, translated from proc/redis/util.go on every run (Gen/Funcs.v, gen/trans.go): what the
   proxy computes - crc16(hashtag(key)) & (slotNum-1) - is the Redis Cluster slot of the key *)
Theorem C12_translated_code : forall key, bytes_ok key ->
  N.land (crc16_go (hashtag_go key)) (slot_num - 1) = crc16_spec (hashtag key) mod 16384 /\
  hashtag_go key = hashtag key.
Proof. exact slot_go_spec. Qed.
Print Assumptions C12_translated_code.

(* the Redis Cluster specification's own examples (non-vacuity) *)
Definition b (l : list N) := l.
Example ex_crc_123456789 : crc16_spec [49;50;51;52;53;54;55;56;57] = 0x31C3.
Proof. vm_compute. reflexivity. Qed.
Example ex_slot_foo : slot_of crc16tab slot_num [102;111;111] = 12182.
Proof. vm_compute. reflexivity. Qed.
(* "foo{}{bar}" -> whole key ; "foo{{bar}}zap" -> "{bar" ; "foo{bar}{zap}" -> "bar" *)
Example ex_tag_empty : hashtag [102;111;111;123;125;123;98;97;114;125] = [102;111;111;123;125;123;98;97;114;125].
Proof. vm_compute. reflexivity. Qed.
Example ex_tag_nested : hashtag [102;111;111;123;123;98;97;114;125;125;122;97;112] = [123;98;97;114].
Proof. vm_compute. reflexivity. Qed.
Example ex_tag_two : hashtag [102;111;111;123;98;97;114;125;123;122;97;112;125] = [98;97;114].
Proof. vm_compute. reflexivity. Qed.
