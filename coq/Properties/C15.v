(* C15 — host set and health checking keep a consistent view of usable hosts.
   Only statements; every proof is `exact <lemma from Proofs/>`.  Host objects have identities
   (desc gives each object's address and type); U is the address universe in ascending order. *)
From Coq Require Import List NArith Bool.
From Sam Require Import Model.HostSet Proofs.HostSetProofs.
Import ListNotations.
Open Scope N_scope.

(* after any sequence of additions, removals, replacements and health marks -- by any objects: the same
   address re-added as another object or with another type, stale objects marked, repeated operations --
   the usable list is exactly the members marked healthy in the preferred tier (main if any main member is
   healthy, otherwise backup), in address order *)
Theorem C15_usable : forall desc U ops, cache (run desc U ops) = usable_spec desc U (run desc U ops).
Proof. exact usable_correct. Qed.
Print Assumptions C15_usable.

(* a host that is not (or no longer) a member is never reported; every reported host is marked healthy *)
Theorem C15_members_only : forall desc U ops i, In i (cache (run desc U ops)) ->
  all (run desc U ops) (o_addr desc i) = Some i /\ healthy (run desc U ops) i = true.
Proof. exact usable_members. Qed.
Print Assumptions C15_members_only.

(* a host's health flips only at a check that completes more than the configured number of consecutive
   contrary results; any opposite result restarts the count (hc_inv: the counters never exceed the
   length of the current run of equal results) *)
Theorem C15_hysteresis : forall rise fall s h ok, hc_inv s h ->
  flag (hc_step rise fall s ok) <> flag s ->
  (ok = false /\ flag s = true /\ fall < trailing false (ok :: h)) \/
  (ok = true /\ flag s = false /\ rise < trailing true (ok :: h)).
Proof. exact flip_needs_run. Qed.
Print Assumptions C15_hysteresis.

Theorem C15_hysteresis_inv : forall rise fall results s h, hc_inv s h -> hc_inv (hc_run rise fall s results) (rev results ++ h).
Proof. exact hc_inv_run. Qed.
Print Assumptions C15_hysteresis_inv.

(* the same over a run whose thresholds are reconfigured on the way: hc_inv holds in every reachable state, so
   C15_hysteresis applies at every check with the thresholds in force at that check *)
Theorem C15_hysteresis_reconfigured : forall l s h, hc_inv s h -> hc_inv (hc_run_cfg s l) (rev (map snd l) ++ h).
Proof. exact hc_inv_run_cfg. Qed.
Print Assumptions C15_hysteresis_reconfigured.

(* non-vacuity: the three historical witnesses now behave *)
Definition d (i : oid) : addr * htype := (1 + i mod 4, if i mod 8 <? 4 then Main else Backup).
Example C15_readd_other_type : cache (run d [1;2;3;4] [HAdd [0]; HAdd [8]; HRemove [8]]) = [].
Proof. vm_compute. reflexivity. Qed.
Example C15_stale_mark : cache (run d [1;2;3;4] [HAdd [0]; HRemove [0]; HAdd [4]; HMarkUnhealthy 0]) = [4].
Proof. vm_compute. reflexivity. Qed.
Example C15_replace_unhealthy : cache (run d [1;2;3;4] [HAdd [0]; HMarkUnhealthy 0; HReplaceAll [0]]) = [].
Proof. vm_compute. reflexivity. Qed.
Example C15_flip : flag (hc_run 2 2 {| flag := true; succ := 0; fail := 0 |} [false; false; true; false; false; false]) = false.
Proof. vm_compute. reflexivity. Qed.
