(* C02 — every request is answered exactly once, even when backends fail.
   Only statements; every proof is `exact <lemma from Proofs/>`.
   Model/Backend.v: one backend connection as a transition system over the place of each request object (a sender's
   hands, pendingReqs, the writer's hands, processingReqs, completed, lost), with the sender's check-then-enqueue, the
   writer's and reader's selects on the quit latch, connection loss, Stop and the final drain as separate steps, so a
   schedule l is any interleaving of the sender, writer, reader, shutdown and drain.  brun true = the repaired code. *)
From Coq Require Import List Arith Bool.
From Sam Require Import Model.Backend Proofs.BackendProofs Proofs.BackendLive.
Import ListNotations.

(* for every schedule: when every thread has run to completion, every request that exists has been completed -
   none is left in a queue, in the writer's hands, or lost *)
Theorem C02_all_answered : forall ids l, finished ids (brun true ids l) = true -> all_done ids (brun true ids l) = true.
Proof. exact finished_all_done. Qed.
Print Assumptions C02_all_answered.

(* the invariant behind it, in every reachable state: no request is lost; the writer never leaves with a request in
   its hands; at most one request is in its hands; once drained nothing is awaiting an answer and anything still
   queued has a sender that will look at the latch again *)
Theorem C02_invariant : forall ids l, BI ids (brun true ids l).
Proof. exact brun_inv. Qed.
Print Assumptions C02_invariant.

(* no deadlock: from EVERY reachable state in which the connection has ended (the latch closed, the socket closed) the
   threads' own remaining steps - at most 4 per request plus 3 - lead to a finished state; so, with the theorem
   above, every request that exists gets its answer *)
Theorem C02_reaches_finished : forall ids s, BI ids s -> ended s ->
  finished ids (fold_left (bnext true ids) (finishing_schedule ids) s) = true.
Proof. exact reaches_finished. Qed.
Print Assumptions C02_reaches_finished.

Theorem C02_ended_then_all_answered : forall ids l, ended (brun true ids l) ->
  all_done ids (fold_left (bnext true ids) (finishing_schedule ids) (brun true ids l)) = true.
Proof. exact ended_then_all_answered. Qed.
Print Assumptions C02_ended_then_all_answered.

(* exactly once: no step completes a completed request again (a second completion closes a closed channel: a crash) *)
Theorem C02_never_twice : forall ids fixed s x i, place s i = LDone -> place (bnext fixed ids s x) i = LDone.
Proof. exact done_stable. Qed.
Print Assumptions C02_never_twice.

(* the code as it was violated the full statement: two schedules that leave a request unanswered for ever *)
Theorem C02_writer_drops_request_refuted :
  let s := brun false [0] [SCheck 0; SEnq 0; WTake 0; EStopQuit; WHandOverQuit 0; EConnLost; RExit; DDrain] in
  finished [0] s = true /\ place s 0 = LLost.
Proof. exact writer_drops_request_refuted. Qed.
Print Assumptions C02_writer_drops_request_refuted.
Theorem C02_send_after_drain_refuted :
  let s := brun false [0] [SCheck 0; EStopQuit; EConnLost; WQuit; RExit; DDrain; SEnq 0] in
  finished [0] s = true /\ place s 0 = LPending.
Proof. exact send_after_drain_refuted. Qed.
Print Assumptions C02_send_after_drain_refuted.

(* non-vacuity: the same schedules with the repaired code end with the request answered *)
Example C02_writer_answers : place (brun true [0] [SCheck 0; SEnq 0; WTake 0; EStopQuit; WHandOverQuit 0; EConnLost; RExit; DDrain]) 0 = LDone.
Proof. exact writer_completes_request. Qed.
Example C02_sender_rechecks : place (brun true [0] [SCheck 0; EStopQuit; EConnLost; WQuit; RExit; DDrain; SEnq 0; SRecheck 0]) 0 = LDone.
Proof. exact send_after_drain_rechecks. Qed.
