(* C08 — running services converge to the configured services and endpoints.
   Only statements; every proof is `exact <lemma from Proofs/>`.
   store = name -> option (config?, endpoints?) is the configuration store's service table, ctl = name -> option
   processor the controller's; converge runs a history of updates through the store's handlers and every emitted
   event through the controller.  find_addr reads a host set / endpoint list by address. *)
From Coq Require Import List NArith.
From Sam Require Import Model.ConfigStore Proofs.ConfigProofs.
Import ListNotations.
Open Scope N_scope.

(* for every history in which static services are declared once with distinct addresses and every delivered
   configuration validates: exactly the services with a configuration and an endpoint list have a processor, and
   it carries the latest configuration and, address by address, the latest endpoint set *)
Theorem C08_converges : forall ops n, ops_ok empty_store ops ->
  let '(s, c) := converge ops in
  match s n with
  | Some {| s_cfg := Some cf; s_eps := Some l |} =>
    exists p, c n = Some p /\ p_cfg p = cf /\ forall a, find_addr a (p_hosts p) = find_addr a l
  | _ => c n = None
  end.
Proof. exact converge_spec. Qed.
Print Assumptions C08_converges.

(* all relative speeds of the store and the controller's event loop: once the channel is drained the state is
   the one of the sequential run *)
Theorem C08_schedules : forall sch,
  fst (settle (run_sched empty_store [] empty_ctl sch)) = fst (converge (ops_of sch)) /\
  forall x, snd (settle (run_sched empty_store [] empty_ctl sch)) x = snd (converge (ops_of sch)) x.
Proof. exact schedule_independent. Qed.
Print Assumptions C08_schedules.

(* updates for unknown or removed services are ignored ... *)
Theorem C08_unknown_ignored : forall s n, s n = None ->
  (forall cf, store_step s (OCfg n cf) = (s, [])) /\ (forall a r, store_step s (OEp n a r) = (s, [])).
Proof. exact unknown_ignored. Qed.
Print Assumptions C08_unknown_ignored.

(* ... and an update for one service does not affect any other *)
Theorem C08_local : forall s c n x, x <> n ->
  (forall cf, fst (store_step s (OCfg n cf)) x = s x /\ fold_left ctl_handle (snd (store_step s (OCfg n cf))) c x = c x) /\
  (forall a r, fst (store_step s (OEp n a r)) x = s x /\ fold_left ctl_handle (snd (store_step s (OEp n a r))) c x = c x).
Proof. exact update_local. Qed.
Print Assumptions C08_local.

(* the full statement (without the validity premise) is false of the code: an invalid configuration later
   corrected leaves the service without a processor — known finding *)
Theorem C08_invalid_then_corrected_refuted :
  let '(s, c) := converge bad_then_good in
  s 1 = Some {| s_cfg := Some {| cid := 2; cvalid := true |}; s_eps := Some [{| eaddr := 7; ebackup := false |}] |} /\ c 1 = None.
Proof. exact invalid_then_corrected_refuted. Qed.
Print Assumptions C08_invalid_then_corrected_refuted.

(* non-vacuity *)
Example C08_sample : ops_ok empty_store sample_ops.
Proof. exact sample_ok. Qed.
