(* C20 — connection and request statistics are conserved.
   Only statements; every proof is `exact <lemma from Proofs/>`.
   srun lim l = the counters after the event history l (connections arriving, handlers returning, requests dispatched
   and completed, Stop) of a listener with connection limit lim (0 = none). *)
From Coq Require Import List ZArith String.
From Sam Require Import Model.Stats Proofs.StatsProofs.
Import ListNotations.
Open Scope Z_scope.

(* in EVERY reachable state: total = destroyed + registered, the gauge equals the number of registered connections
   (so it is never negative), the registry never exceeds the limit, requests total = success + failure + in flight *)
Theorem C20_conserved : forall lim l, 0 <= lim ->
  let s := srun lim l in
  cx_total s = cx_destroy s + open_conns s /\ cx_active s = open_conns s /\ 0 <= open_conns s /\
  (0 < limit s -> open_conns s <= limit s) /\ rq_total s = rq_success s + rq_failure s + inflight s.
Proof. exact conserved. Qed.
Print Assumptions C20_conserved.

Theorem C20_quiescent_connections : forall lim l, 0 <= lim -> open_conns (srun lim l) = 0 ->
  cx_total (srun lim l) = cx_destroy (srun lim l) /\ cx_active (srun lim l) = 0.
Proof. exact quiescent_connections. Qed.
Print Assumptions C20_quiescent_connections.

Theorem C20_quiescent_requests : forall lim l, 0 <= lim -> inflight (srun lim l) = 0 ->
  rq_total (srun lim l) = rq_success (srun lim l) + rq_failure (srun lim l).
Proof. exact quiescent_requests. Qed.
Print Assumptions C20_quiescent_requests.

Theorem C20_gauge_never_negative : forall lim l, 0 <= lim -> 0 <= cx_active (srun lim l).
Proof. exact gauge_never_negative. Qed.
Print Assumptions C20_gauge_never_negative.

(* each command: total = number dispatched, success + error = number completed; equal when none is in flight *)
Theorem C20_command_counters : forall name lim l,
  c_total (get_cmd name (cmds (srun lim l))) = starts name l /\
  c_success (get_cmd name (cmds (srun lim l))) + c_error (get_cmd name (cmds (srun lim l))) = dones name l.
Proof. exact command_counters. Qed.
Print Assumptions C20_command_counters.

(* the connection limit (C09): never exceeded, and a connection under it is always served *)
Theorem C20_limit_respected : forall lim l, 0 < lim -> open_conns (srun lim l) <= lim.
Proof. exact limit_respected. Qed.
Print Assumptions C20_limit_respected.

Theorem C20_under_limit_served : forall s, stopped s = false -> (limit s = 0 \/ open_conns s < limit s) ->
  cx_total (sstep s SvConnect) = cx_total s + 1 /\ open_conns (sstep s SvConnect) = open_conns s + 1 /\ cx_restricted (sstep s SvConnect) = cx_restricted s.
Proof. exact under_limit_served. Qed.
Print Assumptions C20_under_limit_served.

(* non-vacuity: the historical defect's history - stop with a connection open, then its handler returns *)
Example C20_stop_with_open_connection :
  let s := srun 0 [SvConnect; SvReqStart (Some "get"%string); SvReqDone (Some "get"%string) true; SvStop; SvFinish] in
  (cx_total s, cx_destroy s, cx_active s) = (1, 1, 0).
Proof. vm_compute. reflexivity. Qed.
