(* C16 — discovery subscriptions track dependencies and survive stream failures.
   Only statements; every proof is `exact <lemma from Proofs/>`.
   drun false l = the subscription client after the history l of Subscribe/Unsubscribe calls, streams coming up and
   failing, and the sender loop flushing its queue; stream = what the discovery server has been told on the current
   stream; desired = the dependency set.  drun true = the code as it was (two bounded channels). *)
From Coq Require Import List NArith.
From Sam Require Import Model.Discovery Proofs.DiscoveryProofs.
Import ListNotations.
Open Scope N_scope.

(* no call ever blocks, however many services change while no stream is up *)
Theorem C16_never_blocks : forall l, stuck (drun false l) = false.
Proof. exact never_stuck. Qed.
Print Assumptions C16_never_blocks.

(* in every reachable state with a stream up: the server's view, updated by the queued changes in order, is the
   dependency set *)
Theorem C16_invariant : forall l, DInv (drun false l).
Proof. exact drun_inv. Qed.
Print Assumptions C16_invariant.

(* one request built from the queue says exactly what the queued changes say, in their order *)
Theorem C16_flush_correct : forall l sv, same_set (server_apply (fst (coalesce l)) (snd (coalesce l)) sv) (apply_changes l sv).
Proof. exact flush_correct. Qed.
Print Assumptions C16_flush_correct.

(* so with a stream up and the queue flushed the subscriptions equal the dependency set, and one flush (one
   message) after any history is enough *)
Theorem C16_converged : forall l sv, stream (drun false l) = Some sv -> pending (drun false l) = [] -> same_set sv (desired (drun false l)).
Proof. exact converged. Qed.
Print Assumptions C16_converged.

Theorem C16_one_message : forall l sv, stream (drun false (l ++ [DFlush])) = Some sv -> same_set sv (desired (drun false (l ++ [DFlush]))).
Proof. exact one_flush_converges. Qed.
Print Assumptions C16_one_message.

(* end to end: whatever happened before, after any sequence of dependency responses (each: the added services are
   subscribed, then the removed ones unsubscribed - the wrapped hook of StreamDependencies) and one flush on a live
   stream, the server has been told to watch exactly the dependency set those responses leave *)
Theorem C16_dependency_responses : forall l0 rs sv,
  stream (drun false (l0 ++ dep_history rs ++ [DFlush])) = Some sv ->
  same_set sv (fold_left dep_apply rs (desired (drun false l0))).
Proof. exact dependency_responses. Qed.
Print Assumptions C16_dependency_responses.

(* the code as it was: the 17th change with no stream blocks holding the lock and the reconnect never happens;
   an unsubscribe and a subscribe of one service in one batch lose their order *)
Theorem C16_blocks_holding_the_lock_refuted :
  stuck (drun true (seventeen ++ [DStreamUp])) = true /\ stream (drun true (seventeen ++ [DStreamUp])) = None.
Proof. exact blocks_holding_the_lock_refuted. Qed.
Print Assumptions C16_blocks_holding_the_lock_refuted.
Theorem C16_order_lost_refuted :
  let s := drun true [DSubscribe 1; DStreamUp; DUnsubscribe 1; DSubscribe 1; DFlush] in
  desired s = [1] /\ stream s = Some [] /\ pending s = [].
Proof. exact order_lost_refuted. Qed.
Print Assumptions C16_order_lost_refuted.

Example C16_order_kept :
  let s := drun false [DSubscribe 1; DStreamUp; DUnsubscribe 1; DSubscribe 1; DFlush] in
  desired s = [1] /\ stream s = Some [1] /\ pending s = [].
Proof. exact order_kept. Qed.
