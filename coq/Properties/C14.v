(* C14 — only supported commands reach backends, and writes only reach masters.
   Only statements; every proof is `exact <lemma from Proofs/>`.  plan / finder / read_only are the
   dispatch model instantiated with the handler table, read-only set and error texts regenerated
   from handler.go / redis.go; redis_read_only / redis_write are Redis' own command flags. *)
From Coq Require Import List NArith Bool String.
From Sam Require Import Gen.Tables Model.Bytes Model.Resp Model.Text Model.Dispatch Model.RedisFlags Proofs.DispatchProofs.
Import ListNotations.
Open Scope list_scope.
Open Scope N_scope.

(* every name in the proxy's read-only set is a read-only command of Redis ... *)
Theorem C14_read_only_table : forallb (fun c => mem_str c redis_read_only) read_only_commands = true.
Proof. exact read_only_table_sound. Qed.
Print Assumptions C14_read_only_table.

(* ... no write command of Redis is in it (in particular SET, the child of MSET) ... *)
Theorem C14_writes_not_read_only : forallb (fun c => negb (read_only (str c))) redis_write = true.
Proof. exact write_names_not_read_only. Qed.
Print Assumptions C14_writes_not_read_only.

(* ... and every registered handler is for a Redis data command or one of the proxy's own *)
Theorem C14_handler_table :
  forallb (fun c => mem_str c redis_read_only || mem_str c redis_write || mem_str c proxy_local || String.eqb c "scan") handler_names = true.
Proof. exact handler_table_known. Qed.
Print Assumptions C14_handler_table.

(* a command whose name, in any letter case, is not in the supported set is answered with an error
   and nothing is forwarded (KEYS, MULTI/EXEC, SUBSCRIBE, CLUSTER, FLUSHALL, blocking pops, ... and any other name) *)
Theorem C14_unsupported : forall args cmd,
  valid_request (Arr (Some args)) = Some args -> cmd = bulk_text (hd (Bulk None) args) ->
  (forall n, In n handler_names -> bytes_eqb (ascii_lower cmd) (str n) = false) ->
  plan (Arr (Some args)) = PLocalErr (unsupported_text cmd).
Proof. exact unsupported_is_local. Qed.
Print Assumptions C14_unsupported.

(* PING, QUIT, SELECT, INFO, TIME and HOTKEY are answered by the proxy itself *)
Theorem C14_local : forall args cmd name,
  valid_request (Arr (Some args)) = Some args -> cmd = bulk_text (hd (Bulk None) args) ->
  In name proxy_local -> ascii_lower cmd = str name -> is_local_plan (plan (Arr (Some args))) = true.
Proof. exact local_commands. Qed.
Print Assumptions C14_local.

(* a request that can modify data goes to the master owning the key's slot under every read strategy *)
Theorem C14_master : forall st inst, candidates st false inst = [i_addr inst].
Proof. exact write_goes_to_master. Qed.
Print Assumptions C14_master.

(* only read-only requests may go to replicas, only to replicas of the owning master, and only when
   the strategy permits it *)
Theorem C14_replica : forall st ro inst a, In a (candidates st ro inst) -> a = i_addr inst \/ In a (i_replicas inst).
Proof. exact candidates_of_owner. Qed.
Print Assumptions C14_replica.

Theorem C14_master_strategy : forall ro inst, candidates SMaster ro inst = [i_addr inst].
Proof. exact master_strategy. Qed.
Print Assumptions C14_master_strategy.

(* non-vacuity: KEYS is rejected, kEyS too; GET is forwarded by its key *)
Example C14_keys_rejected :
  plan (Arr (Some [Bulk (Some (str "kEyS")); Bulk (Some (str "*"))])) = PLocalErr (str "ERR unsupported command 'kEyS'").
Proof. vm_compute. reflexivity. Qed.
Example C14_get_forwarded :
  plan (Arr (Some [Bulk (Some (str "GeT")); Bulk (Some (str "k"))]))
  = PForward ASingle [(str "k", [Bulk (Some (str "GeT")); Bulk (Some (str "k"))])].
Proof. vm_compute. reflexivity. Qed.
