(* C09 — listeners: stop and drain always complete and release what they hold.
   Only statements; every proof is `exact <lemma from Proofs/>`.
   lrun true l = the listener after the history l of the Serve goroutine being scheduled, bind rounds failing or
   succeeding, connections accepted and ending, Stop and Drain, in any order (Model/Lifecycle.v).  The connection
   limit is C20_limit_respected / C20_under_limit_served. *)
From Coq Require Import List Arith Bool.
From Sam Require Import Model.Lifecycle Proofs.LifecycleProofs.
Import ListNotations.

(* whenever Stop is called - before Serve runs, while the bind is retried, right after start, with connections open -
   it is never left waiting for a Serve that has returned without signalling *)
Theorem C09_stop_not_stranded : forall l, let s := lrun true l in
  stop_waits s = true -> phase s = PReturned -> done_closed s = true.
Proof. exact stop_not_stranded. Qed.
Print Assumptions C09_stop_not_stranded.

(* ... and while it waits, the closed connections' handlers returning and Serve taking its next step let it return:
   a bounded number of steps (one per open connection, plus two) *)
Theorem C09_stop_returns : forall l, let s := lrun true l in
  stop_waits s = true -> stop_returns (fold_left (lstep true) (finish_schedule s) s) = true.
Proof. exact stop_returns_after_finish. Qed.
Print Assumptions C09_stop_returns.

(* afterwards the listening socket is closed and no connection of the service is left *)
Theorem C09_after_stop : forall l, let s := lrun true l in done_closed s = true -> bound s = false /\ lconns s = 0.
Proof. exact after_stop. Qed.
Print Assumptions C09_after_stop.

(* draining: established connections untouched, no new one accepted *)
Theorem C09_drain_keeps_connections : forall s, lconns (lstep true s LDrain) = lconns s /\ bound (lstep true s LDrain) = false.
Proof. exact drain_keeps_connections. Qed.
Print Assumptions C09_drain_keeps_connections.
Theorem C09_no_accept_while_draining : forall l, let s := lrun true l in ldraining s = true -> lstep true s LAccept = s.
Proof. exact no_accept_while_draining. Qed.
Print Assumptions C09_no_accept_while_draining.

(* a temporary accept error (EMFILE, ENFILE, ...) is waited out: a run with such errors is the run without them, so
   connections under the limit are served and Stop returns however many of them occur *)
Theorem C09_temporary_accept_errors : forall fixed l s,
  fold_left (lstep fixed) l s = fold_left (lstep fixed) (filter not_temp l) s.
Proof. exact temp_errors_invisible. Qed.
Print Assumptions C09_temporary_accept_errors.

Theorem C09_invariant : forall l, LI (lrun true l).
Proof. exact lrun_inv. Qed.
Print Assumptions C09_invariant.

(* the code as it was: Stop while the bind is being retried, or before Serve is scheduled, waits for ever *)
Theorem C09_stop_while_binding_refuted :
  let s := lrun false [LServeBegin; LBindFail; LStop; LBindFail] in
  stop_waits s = true /\ phase s = PReturned /\ done_closed s = false.
Proof. exact stop_while_binding_refuted. Qed.
Print Assumptions C09_stop_while_binding_refuted.
Theorem C09_stop_before_serve_refuted :
  let s := lrun false [LStop; LServeBegin; LBindFail] in
  stop_waits s = true /\ phase s = PReturned /\ done_closed s = false.
Proof. exact stop_before_serve_refuted. Qed.
Print Assumptions C09_stop_before_serve_refuted.
Example C09_stop_while_binding_fixed : stop_returns (lrun true [LServeBegin; LBindFail; LStop; LBindFail]) = true.
Proof. exact stop_while_binding_fixed. Qed.
