(* C03 — on a stable cluster the proxy behaves like a single Redis server.
   Only statements; every proof is `exact <lemma from Proofs/>`.
   The theorems hold for EVERY per-key command semantics sem (new value, reply) := sem body (old value), every
   slot layout (owner), every way of combining child replies (asm) and every schedule sch of the transition system
   of Model/Cluster.v (connections reading, handlers sending children, nodes answering, writers writing). *)
From Coq Require Import List NArith String.
From Sam Require Import Gen.Tables Model.Bytes Model.Resp Model.Text Model.Dispatch Model.Cluster Model.RedisSem Proofs.ClusterProofs Proofs.ClusterLive Proofs.DispatchProofs.
Import ListNotations.
Open Scope string_scope.
Open Scope list_scope.
Open Scope N_scope.

(* one connection: at every moment of every schedule the replies written so far are the single server's replies to
   the first requests of the program, in order *)
Theorem C03_single_server : forall V sem owner asm nd0 progs c sch, (forall c', c' <> c -> progs c' = []) ->
  let st := run V sem owner asm (init V owner nd0 progs) sch in
  out (conns V st c) = firstn (nwritten (conns V st c)) (snd (ss_run V sem asm (abs_db V owner nd0) (progs c))).
Proof. exact single_connection. Qed.
Print Assumptions C03_single_server.

(* ... and once everything is answered they are all of them *)
Theorem C03_quiescent : forall V sem owner asm nd0 progs c sch, (forall c', c' <> c -> progs c' = []) ->
  quiescent V (run V sem owner asm (init V owner nd0 progs) sch) c ->
  out (conns V (run V sem owner asm (init V owner nd0 progs) sch) c) = snd (ss_run V sem asm (abs_db V owner nd0) (progs c)).
Proof. exact single_connection_quiescent. Qed.
Print Assumptions C03_quiescent.

(* and that point can always be reached: after ANY schedule prefix there is a continuation after which the connection
   holds exactly the single server's replies to its whole program *)
Theorem C03_every_request_answered : forall V sem owner asm nd progs c sch0, (forall c', c' <> c -> progs c' = []) ->
  exists sch, out (conns V (run V sem owner asm (init V owner nd progs) (sch0 ++ sch)) c) = snd (ss_run V sem asm (abs_db V owner nd) (progs c)).
Proof. exact every_request_answered. Qed.
Print Assumptions C03_every_request_answered.

(* any number of connections: the order lin in which children were sent is a linearization - the single server
   executing lin gives exactly the recorded replies, lin contains each connection's children in program order, and
   each connection's output is assembled from the replies to its own children *)
Theorem C03_linearizable : forall V sem owner asm nd0 progs sch,
  let st := run V sem owner asm (init V owner nd0 progs) sch in
  ss_subs V sem (abs_db V owner nd0) (map e_s (lin V st)) = (gdb V st, map e_x (lin V st)) /\
  forall c,
    reqs (conns V st c) ++ todo (conns V st c) = progs c /\
    map e_s (cl V st c) ++ sending (conns V st c) = kids (reqs (conns V st c)) /\
    out (conns V st c) = map (req_reply asm (reqs (conns V st c)) (map e_x (cl V st c))) (seq 0 (nwritten (conns V st c))) /\
    (nwritten (conns V st c) <= List.length (reqs (conns V st c)))%nat.
Proof. exact linearizable. Qed.
Print Assumptions C03_linearizable.

(* every command is delivered to the node that owns its key's slot: a node never has to redirect *)
Theorem C03_owner_first : forall V sem owner asm nd0 progs sch n e,
  In e (nq V (run V sem owner asm (init V owner nd0 progs) sch) n) -> owner (sk (e_s e)) = n.
Proof. exact routed_to_owner. Qed.
Print Assumptions C03_owner_first.

(* the multi-key commands are their per-key commands combined in argument order (regenerated handler table) *)
Definition b (s : String.string) : resp := Bulk (Some (bytes_of_string s)).
Example C03_mget : plan (Arr (Some [b "MGET"; b "a"; b "b"])) =
  PForward AMget [(bytes_of_string "a", [b "get"; b "a"]); (bytes_of_string "b", [b "get"; b "b"])].
Proof. vm_compute. reflexivity. Qed.
Example C03_mset : plan (Arr (Some [b "mset"; b "a"; b "1"; b "b"; b "2"])) =
  PForward AMset [(bytes_of_string "a", [b "set"; b "a"; b "1"]); (bytes_of_string "b", [b "set"; b "b"; b "2"])].
Proof. vm_compute. reflexivity. Qed.
Example C03_del : plan (Arr (Some [b "DEL"; b "a"; b "b"])) =
  PForward ASum [(bytes_of_string "a", [b "DEL"; b "a"]); (bytes_of_string "b", [b "DEL"; b "b"])].
Proof. vm_compute. reflexivity. Qed.

(* non-vacuity: two nodes, keys a -> node 0 and everything else -> node 1, a pipelined program whose nodes answer in the
   opposite order *)
Definition ex_owner (k : bytes) : N := if bytes_eqb k (bytes_of_string "a") then 0 else 1.
Definition ex_prog : list request :=
  [RFwd AMset [{| sk := bytes_of_string "a"; sb := [b "set"; b "a"; b "1"] |}; {| sk := bytes_of_string "z"; sb := [b "set"; b "z"; b "2"] |}];
   RFwd AMget [{| sk := bytes_of_string "z"; sb := [b "get"; b "z"] |}; {| sk := bytes_of_string "a"; sb := [b "get"; b "a"] |}]].
Example C03_run :
  out (conns rval (run rval sem ex_owner assemble_reply (init rval ex_owner (fun _ _ => None) (fun c => if c =? 0 then ex_prog else []))
        [SRead 0; SSend 0; SSend 0; SRead 0; SSend 0; SSend 0; SExec 1; SExec 1; SExec 0; SExec 0; SWrite 0; SWrite 0]) 0)
  = [Simple (bytes_of_string "OK"); Arr (Some [b "2"; b "1"])].
Proof. vm_compute. reflexivity. Qed.
