(* C13 — transparent compression never changes what clients read back.
   Only statements; every proof is `exact <lemma from Proofs/>`.  The compressor is abstract: the
   theorems hold for every comp/decomp with decomp (comp x) = Some x (snappy is not modelled; the
   harness checks that round trip on every value it generates).  magic, the value positions, the
   disabled commands and the skip list are regenerated from filter_compress.go. *)
From Coq Require Import List NArith Bool String.
From Sam Require Import Gen.Tables Model.Bytes Model.Resp Model.Compress Proofs.C13Final.
Import ListNotations.
Open Scope list_scope.
Open Scope N_scope.

(* a value that does not start with the header reads back byte-identical, at every threshold *)
Theorem C13_readback : forall comp decomp, (forall x, decomp (comp x) = Some x) ->
  forall thr v, is_prefix hdr v = false -> dv decomp (cv comp thr v) = v.
Proof. exact readback. Qed.
Print Assumptions C13_readback.

(* what reaches the backend is the original bytes, or the header followed by a stream that
   decompresses to exactly the original and is strictly shorter than the original *)
Theorem C13_stored : forall comp decomp, (forall x, decomp (comp x) = Some x) -> forall thr v,
  cv comp thr v = v \/
  (cv comp thr v = hdr ++ comp v /\ decomp (comp v) = Some v /\ lenN (hdr ++ comp v) < lenN v /\ thr <= lenN v).
Proof. exact stored. Qed.
Print Assumptions C13_stored.

(* a write that is redirected (re-sent through the filter) is not compressed again, whatever the
   configuration has become in between *)
Theorem C13_resend : forall comp cfg cfg' cmd r r1, present cfg = true ->
  fdo comp cfg cmd r = FContinue r1 -> c_filtered r = false -> fdo comp cfg' cmd r1 = FContinue r1.
Proof. exact resend. Qed.
Print Assumptions C13_resend.

(* after compression has been switched off, stored values still read back *)
Theorem C13_off_still_reads : forall decomp v, is_prefix hdr v = false -> dv decomp v = v.
Proof. exact readback_off. Qed.
Print Assumptions C13_off_still_reads.

Theorem C13_hook : forall comp cfg cmd r r1, present cfg = true -> c_filtered r = false ->
  (match cmd with Some c => mem_s c wk_skip_check_cmds = false | None => True end) ->
  fdo comp cfg cmd r = FContinue r1 -> c_hook r1 = true.
Proof. exact hook. Qed.
Print Assumptions C13_hook.

(* commands documented as disabled under compression are answered locally *)
Theorem C13_banned : forall comp cfg c r, present cfg = true -> enable cfg = true -> c_filtered r = false ->
  mem_s c banned_cmds_in_cps = true -> exists e, fdo comp cfg (Some c) r = FStop e.
Proof. exact banned. Qed.
Print Assumptions C13_banned.

Theorem C13_tables :
  cps_magic = "(P$"%string /\
  map (fun c => (c, offset_of c cps_commands cps_offsets))
      ["set"; "getset"; "setnx"; "setex"; "psetex"; "hset"; "hmset"; "hsetnx"]%string
  = [("set", Some 2); ("getset", Some 2); ("setnx", Some 2); ("setex", Some 3); ("psetex", Some 3);
     ("hset", Some 3); ("hmset", Some 3); ("hsetnx", Some 3)]%string /\
  forallb (fun c => negb (mem_s c wk_skip_check_cmds)) ["get"; "mget"; "getset"; "hget"; "hmget"; "hgetall"; "hvals"]%string = true /\
  forallb (fun c => mem_s c banned_cmds_in_cps) ["append"; "eval"; "setbit"; "getbit"; "setrange"; "getrange"]%string = true.
Proof. exact tables. Qed.
Print Assumptions C13_tables.

Example C13_toy :
  let v := repeat 48 40 in
  compress_value toy_comp magic 16 v = hdr ++ [48; 40] /\
  decompress_value toy_decomp magic (compress_value toy_comp magic 16 v) = v.
Proof. exact toy_example. Qed.
