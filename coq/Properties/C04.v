(* C04 — slot migration is invisible to clients.
   Only statements; every proof is `exact <lemma from Proofs/>`.
   cstate = per-node data + slot owners + migrating slots; MInv: every key lives on its slot's owner or, for a
   migrating slot, on the owner or the target but not both; abs = the data a single server would hold.
   The theorems hold for EVERY per-key command semantics sem and slot function. *)
From Coq Require Import List NArith.
From Sam Require Import Model.Bytes Model.Resp Model.Cluster Model.Migrate Proofs.MigrateProofs.
Import ListNotations.
Open Scope N_scope.

(* any sequence of migration steps (begin, move one key, finish - of any slots, in any order) keeps the invariant
   and does not change the data a single server would hold: nothing is lost or duplicated *)
Theorem C04_migration_preserves_data : forall V slot l cs, MInv V slot cs ->
  MInv V slot (do_msteps V slot cs l) /\ forall k, abs V slot (do_msteps V slot cs l) k = abs V slot cs k.
Proof. exact msteps_ok. Qed.
Print Assumptions C04_migration_preserves_data.

(* one request: whichever node the (arbitrarily stale) routing table names first, and whatever migration steps
   happen before each hop - except beginning a new migration of the request's own slot between its hops - the
   redirect chain ends within 3 hops with a node executing the command exactly once; the client gets the single
   server's reply (never MOVED/ASK), and the data afterwards is the single server's *)
Theorem C04_request : forall V sem slot cs n s envs, MInv V slot cs ->
  Forall (fun l => quiet (slot (sk s)) l = true) envs ->
  exists cs' r nd h, chain V sem slot 3 cs n false s envs 0 = CDone V cs' r nd h /\ MInv V slot cs' /\
    r = snd (exec_sub V sem (abs V slot cs) s) /\ (forall x, abs V slot cs' x = fst (exec_sub V sem (abs V slot cs) s) x) /\
    (h <= 3)%nat.
Proof. exact request_ok. Qed.
Print Assumptions C04_request.

(* a whole client program with arbitrary migration activity between requests (q_pre) and quiet activity between hops *)
Theorem C04_program : forall V sem slot l cs, MInv V slot cs -> Forall (quiet_req slot) l ->
  exists infos, snd (run_seq V sem slot 3 cs l) = map Some infos /\
    map (fun i => fst (fst i)) infos = snd (ss_subs V sem (abs V slot cs) (map q_sub l)) /\
    Forall (fun i => (snd i <= 3)%nat) infos /\
    MInv V slot (fst (run_seq V sem slot 3 cs l)) /\
    forall x, abs V slot (fst (run_seq V sem slot 3 cs l)) x = fst (ss_subs V sem (abs V slot cs) (map q_sub l)) x.
Proof. exact run_seq_ok. Qed.
Print Assumptions C04_program.

(* the stable cluster is an instance: every layout without migrating slots whose keys sit on their owners *)
Example C04_stable_inv : forall V slot (d : N -> db V) (o : N -> N),
  (forall n k v, d n k = Some v -> n = o (slot k)) -> MInv V slot {| ndb := d; own := o; mig := fun _ => None |}.
Proof. intros V slot d o H. constructor; cbn; [intros n k v Hv; left; exact (H n k v Hv) | discriminate | discriminate]. Qed.
