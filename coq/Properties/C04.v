(* C04 — slot migration is invisible to clients.
   Only statements; every proof is `exact <lemma from Proofs/>`.
   cstate = per-node data + slot owners + migrating slots; MInv: every key lives on its slot's owner or, for a
   migrating slot, on the owner or the target but not both; abs = the data a single server would hold.
   The theorems hold for EVERY per-key command semantics sem and slot function. *)
From Coq Require Import List NArith.
From Sam Require Import Model.Bytes Model.Resp Model.Cluster Model.Migrate Model.Gossip Proofs.MigrateProofs Proofs.GossipProofs.
Import ListNotations.
Open Scope N_scope.

(* any sequence of migration steps (begin, move one key, finish - of any slots, in any order) keeps the invariant
   and does not change the data a single server would hold: nothing is lost or duplicated *)
Theorem C04_migration_preserves_data : forall V slot l cs, MInv V slot cs ->
  MInv V slot (do_msteps V slot cs l) /\ forall k, abs V slot (do_msteps V slot cs l) k = abs V slot cs k.
Proof. exact msteps_ok. Qed.
Print Assumptions C04_migration_preserves_data.

(* one request: whichever node the (arbitrarily stale) routing table names first, and whatever migration steps
   happen before each hop - except beginning a new migration of the request's own slot between its hops - the
   redirect chain ends within 3 hops with a node executing the command exactly once; the client gets the single
   server's reply (never MOVED/ASK), and the data afterwards is the single server's *)
Theorem C04_request : forall V sem slot cs n s envs, MInv V slot cs ->
  Forall (fun l => quiet (slot (sk s)) l = true) envs ->
  exists cs' r nd h, chain V sem slot 3 cs n false s envs 0 = CDone V cs' r nd h /\ MInv V slot cs' /\
    r = snd (exec_sub V sem (abs V slot cs) s) /\ (forall x, abs V slot cs' x = fst (exec_sub V sem (abs V slot cs) s) x) /\
    (h <= 3)%nat.
Proof. exact request_ok. Qed.
Print Assumptions C04_request.

(* a whole client program with arbitrary migration activity between requests (q_pre) and quiet activity between hops *)
Theorem C04_program : forall V sem slot l cs, MInv V slot cs -> Forall (quiet_req slot) l ->
  exists infos, snd (run_seq V sem slot 3 cs l) = map Some infos /\
    map (fun i => fst (fst i)) infos = snd (ss_subs V sem (abs V slot cs) (map q_sub l)) /\
    Forall (fun i => (snd i <= 3)%nat) infos /\
    MInv V slot (fst (run_seq V sem slot 3 cs l)) /\
    forall x, abs V slot (fst (run_seq V sem slot 3 cs l)) x = fst (ss_subs V sem (abs V slot cs) (map q_sub l)) x.
Proof. exact run_seq_ok. Qed.
Print Assumptions C04_program.

(* the stable cluster is an instance: every layout without migrating slots whose keys sit on their owners *)
Example C04_stable_inv : forall V slot (d : N -> db V) (o : N -> N),
  (forall n k v, d n k = Some v -> n = o (slot k)) -> MInv V slot {| ndb := d; own := o; mig := fun _ => None |}.
Proof. intros V slot d o H. constructor; cbn; [intros n k v Hv; left; exact (H n k v Hv) | discriminate | discriminate]. Qed.

(* ---- nodes with inconsistent views (Model/Gossip.v): the finalisation window of a migration ----
   gstate = the truth (cstate) + per slot the old owner and the number of MOVED answers the new owner still gives
   before it learns that the slot is its own; GInv: MInv of the truth, and a lagging slot is not migrating. *)

(* whatever happens (migration steps, finalisations with any lag, learning), nothing is lost or duplicated *)
Theorem C04_gossip_preserves_data : forall V slot l g, GInv V slot g ->
  GInv V slot (do_gsteps V slot g l) /\ forall k, abs V slot (gb V (do_gsteps V slot g l)) k = abs V slot (gb V g) k.
Proof. exact gsteps_ok. Qed.
Print Assumptions C04_gossip_preserves_data.

(* safety with unbounded fuel: whenever the redirect chain of a request ends - after any number of bounces, with
   finalisation windows opening and closing between its hops - it ended with one execution, the client got the
   single server's reply (the chain has no other way to end: a MOVED/ASK is never what the client gets), and the
   data is the single server's *)
Theorem C04_gossip_safe : forall V sem slot fuel g n s envs g' r nd h, GInv V slot g ->
  Forall (fun l => gquiet (slot (sk s)) l = true) envs ->
  gchain V sem slot fuel g n false s envs 0 = GDone V g' r nd h ->
  GInv V slot g' /\ r = snd (exec_sub V sem (abs V slot (gb V g)) s) /\
  (forall x, abs V slot (gb V g') x = fst (exec_sub V sem (abs V slot (gb V g)) s) x).
Proof. exact gchain_safe0. Qed.
Print Assumptions C04_gossip_safe.

(* progress: if no new finalisation window of the request's own slot opens between its hops, the chain ends, within
   2*lag+3 hops (each MOVED the lagging node still gives costs one bounce) *)
Theorem C04_gossip_request : forall V sem slot g n s envs, GInv V slot g ->
  Forall (fun l => calm (slot (sk s)) l = true) envs ->
  exists g' r nd h, gchain V sem slot (2 * lag_count V g (slot (sk s)) + 4) g n false s envs 0 = GDone V g' r nd h /\
    GInv V slot g' /\ r = snd (exec_sub V sem (abs V slot (gb V g)) s) /\
  (forall x, abs V slot (gb V g') x = fst (exec_sub V sem (abs V slot (gb V g)) s) x) /\
  (h <= 2 * lag_count V g (slot (sk s)) + 3)%nat.
Proof. exact grequest_ok. Qed.
Print Assumptions C04_gossip_request.

(* the bound is exact: from the old owner, with c MOVED answers still to come, the request takes 2*c+2 hops and is
   executed by the new owner *)
Theorem C04_gossip_bounces : forall V sem slot c g so s hops, GInv V slot g -> lag V g (slot (sk s)) = Some (so, c) ->
  exists g' r, gchain V sem slot (2 * c + 2) g so false s [] hops =
               GDone V g' r (own V (gb V g) (slot (sk s))) (hops + 2 * c + 2).
Proof. exact bounce_exact. Qed.
Print Assumptions C04_gossip_bounces.

(* a whole client program across any number of finalisation windows *)
Theorem C04_gossip_program : forall V sem slot l g, GInv V slot g -> Forall (calm_req slot) l ->
  exists infos, snd (grun_seq V sem slot g l) = map Some infos /\
    map (fun i => fst (fst i)) infos = snd (ss_subs V sem (abs V slot (gb V g)) (map gq_sub l)) /\
    GInv V slot (fst (grun_seq V sem slot g l)) /\
    forall x, abs V slot (gb V (fst (grun_seq V sem slot g l))) x = fst (ss_subs V sem (abs V slot (gb V g)) (map gq_sub l)) x.
Proof. exact grun_seq_ok. Qed.
Print Assumptions C04_gossip_program.

(* the invariant is met by every consistent state without lag, and a window can be opened from it *)
Example C04_gossip_inv : forall V slot cs, MInv V slot cs -> GInv V slot {| gb := cs; lag := fun _ => None |}.
Proof. intros V slot cs I. constructor; cbn; [exact I | discriminate]. Qed.
