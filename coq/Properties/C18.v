(* C18 — SCAN through the proxy visits every node once and terminates.
   Only statements; every proof is `exact <lemma from Proofs/>`. *)
From Coq Require Import List NArith.
From Sam Require Import Model.Bytes Model.Dispatch Model.Scan Proofs.ScanProofs Lib.GoLib Gen.Funcs Proofs.GenCursorProofs.
Import ListNotations.
Open Scope N_scope.

(* the cursor given to the client encodes (node index, node cursor) losslessly for every node cursor below 2^48 *)
Theorem C18_cursor : forall idx n, idx < 65536 -> n < two48 -> parse_cursor (gen_cursor idx n) = (idx, n).
Proof. exact cursor_roundtrip. Qed.
Print Assumptions C18_cursor.

(* the Go functions themselves (parseCursor, genCursor of proc/redis/request.go, translated on every run into
   Gen/Funcs.v): they are the model's functions, and the round trip holds of them *)
Theorem C18_translated_code : forall c idx n, parseCursor_go c = parse_cursor c /\
  (idx < 2 ^ 64 -> genCursor_go idx n = gen_cursor idx n) /\
  (idx < 65536 -> n < two48 -> parseCursor_go (genCursor_go idx n) = (idx, n)).
Proof. exact cursor_go_all. Qed.
Print Assumptions C18_translated_code.

(* a cursor past the last node yields the terminating reply (cursor 0, no keys), whatever its value *)
Theorem C18_past_end : forall nodes c, lenN nodes <= fst (parse_cursor c) -> client_step nodes c = (0, [], None).
Proof. exact past_end. Qed.
Print Assumptions C18_past_end.

(* starting from cursor 0 and feeding each returned cursor back, over nodes whose own cursor chains
   (any non-zero values below 2^48) return to 0: the iteration reaches cursor 0 after exactly
   (sum of the chain lengths) + 1 calls, returns exactly the keys the nodes returned, batch by batch, and
   asks each node in turn along its own chain (one contiguous run per node) *)
Theorem C18_iterate : forall (nodes : list node) (ch : chains),
  Forall2 (fun nd c => chain_from nd 0 (fst c) (snd c)) nodes ch -> lenN nodes < 65535 ->
  forall extra, iterate (steps ch + 1 + extra) nodes 0 = Some (all_keys ch, all_hits 0 ch).
Proof. exact scan_iteration. Qed.
Print Assumptions C18_iterate.

(* non-vacuity: two nodes, the first with a cursor at 2^47 *)
Example C18_two_nodes :
  iterate 10 [ [(0, (140737488355328, [[107;49]])); (140737488355328, (0, [[107;50]]))]; [(0, (0, [[107;51]]))] ] 0
  = Some ([[107;49]; [107;50]; [107;51]], [(0, 0); (0, 140737488355328); (1, 0)]).
Proof. vm_compute. reflexivity. Qed.
