From Coq Require Import List Arith NArith Bool Lia.
From Sam Require Import Gen.Tables Lib.Sweep Model.Slot.
Import ListNotations.
Open Scope N_scope.

(* ---------- CRC ---------- *)

Lemma table_is_xmodem : crc16tab = xmodem_table.
Proof. vm_compute. reflexivity. Qed.

Lemma table_length : length crc16tab = 256%nat.
Proof. vm_compute. reflexivity. Qed.

(* the low byte only shifts through the 8 steps *)
Lemma loop8_split x : x < 65536 ->
  loop8 x = N.lxor (loop8 (N.land x 0xff00)) (N.shiftl (N.land x 0xff) 8).
Proof.
  intros Hx.
  pose (f := fun x => N.eqb (loop8 x) (N.lxor (loop8 (N.land x 0xff00)) (N.shiftl (N.land x 0xff) 8))).
  assert (H : all_below 65536 f = true) by (vm_compute; reflexivity).
  apply (sweep _ _ H) in Hx. unfold f in Hx. apply N.eqb_eq in Hx. exact Hx.
Qed.

Lemma loop8_bound x : x < 65536 -> loop8 x < 65536.
Proof.
  intros Hx.
  pose (f := fun x => N.ltb (loop8 x) 65536).
  assert (H : all_below 65536 f = true) by (vm_compute; reflexivity).
  apply (sweep _ _ H) in Hx. unfold f in Hx. apply N.ltb_lt in Hx. exact Hx.
Qed.

Lemma hi_of_crc c : c < 65536 -> N.land c 0xff00 = N.shiftl (N.shiftr c 8) 8.
Proof.
  intros Hc.
  pose (f := fun c => N.eqb (N.land c 0xff00) (N.shiftl (N.shiftr c 8) 8)).
  assert (H : all_below 65536 f = true) by (vm_compute; reflexivity).
  apply (sweep _ _ H) in Hc. unfold f in Hc. apply N.eqb_eq in Hc. exact Hc.
Qed.

Lemma shr8_small c : c < 65536 -> N.land (N.shiftr c 8) 0xff = N.shiftr c 8.
Proof.
  intros Hc.
  pose (f := fun c => N.eqb (N.land (N.shiftr c 8) 0xff) (N.shiftr c 8)).
  assert (H : all_below 65536 f = true) by (vm_compute; reflexivity).
  apply (sweep _ _ H) in Hc. unfold f in Hc. apply N.eqb_eq in Hc. exact Hc.
Qed.

Lemma shr8_bound c : c < 65536 -> N.shiftr c 8 < 256.
Proof.
  intros Hc.
  pose (f := fun c => N.ltb (N.shiftr c 8) 256).
  assert (H : all_below 65536 f = true) by (vm_compute; reflexivity).
  apply (sweep _ _ H) in Hc. unfold f in Hc. apply N.ltb_lt in Hc. exact Hc.
Qed.

Lemma shl8_hi b : b < 256 -> N.land (N.shiftl b 8) 0xff00 = N.shiftl b 8.
Proof.
  intros Hb.
  pose (f := fun b => N.eqb (N.land (N.shiftl b 8) 0xff00) (N.shiftl b 8)).
  assert (H : all_below 256 f = true) by (vm_compute; reflexivity).
  apply (sweep _ _ H) in Hb. unfold f in Hb. apply N.eqb_eq in Hb. exact Hb.
Qed.

Lemma shl8_lo b : b < 256 -> N.land (N.shiftl b 8) 0xff = 0.
Proof.
  intros Hb.
  pose (f := fun b => N.eqb (N.land (N.shiftl b 8) 0xff) 0).
  assert (H : all_below 256 f = true) by (vm_compute; reflexivity).
  apply (sweep _ _ H) in Hb. unfold f in Hb. apply N.eqb_eq in Hb. exact Hb.
Qed.

Lemma lo_shift c : c < 65536 -> N.shiftl (N.land c 0xff) 8 = N.land (N.shiftl c 8) 0xff00.
Proof.
  intros Hc.
  pose (f := fun c => N.eqb (N.shiftl (N.land c 0xff) 8) (N.land (N.shiftl c 8) 0xff00)).
  assert (H : all_below 65536 f = true) by (vm_compute; reflexivity).
  apply (sweep _ _ H) in Hc. unfold f in Hc. apply N.eqb_eq in Hc. exact Hc.
Qed.

Lemma xor_lt_pow2 n a b : a < 2 ^ n -> b < 2 ^ n -> N.lxor a b < 2 ^ n.
Proof.
  intros Ha Hb.
  destruct (N.eq_dec (N.lxor a b) 0) as [E|E].
  { rewrite E. apply N.neq_0_lt_0. apply N.pow_nonzero. lia. }
  apply N.log2_lt_pow2; [lia|].
  eapply N.le_lt_trans; [apply N.log2_lxor|].
  destruct (N.eq_dec a 0) as [Ea|Ea]; destruct (N.eq_dec b 0) as [Eb|Eb]; subst.
  - exfalso. apply E. reflexivity.
  - rewrite N.max_r by (apply N.le_0_l). apply N.log2_lt_pow2; lia.
  - rewrite N.max_l by (apply N.le_0_l). apply N.log2_lt_pow2; lia.
  - apply N.max_lub_lt; apply N.log2_lt_pow2; lia.
Qed.

Lemma xor_byte_bound a b : a < 256 -> b < 256 -> N.lxor a b < 256.
Proof. exact (xor_lt_pow2 8 a b). Qed.

Lemma xor_lt_65536 a b : a < 65536 -> b < 65536 -> N.lxor a b < 65536.
Proof. exact (xor_lt_pow2 16 a b). Qed.

Lemma land_lxor_distr a b c : N.land (N.lxor a b) c = N.lxor (N.land a c) (N.land b c).
Proof.
  apply N.bits_inj. intros n.
  rewrite N.land_spec, !N.lxor_spec, !N.land_spec.
  destruct (N.testbit a n), (N.testbit b n), (N.testbit c n); reflexivity.
Qed.

Lemma nth_xmodem i : i < 256 -> nth (N.to_nat i) crc16tab 0 = loop8 (N.shiftl i 8).
Proof.
  intros Hi.
  pose (f := fun i => N.eqb (nth (N.to_nat i) crc16tab 0) (loop8 (N.shiftl i 8))).
  assert (H : all_below 256 f = true) by (vm_compute; reflexivity).
  apply (sweep _ _ H) in Hi. unfold f in Hi. apply N.eqb_eq in Hi. exact Hi.
Qed.

Lemma step_agrees crc b : crc < 65536 -> b < 256 ->
  crc_step crc16tab crc b = spec_step crc b.
Proof.
  intros Hc Hb. unfold crc_step, spec_step.
  assert (Hx : N.lxor crc (N.shiftl b 8) < 65536).
  { apply xor_lt_65536; [exact Hc|]. rewrite N.shiftl_mul_pow2. change (2^8) with 256. lia. }
  rewrite (loop8_split _ Hx).
  rewrite !land_lxor_distr.
  rewrite (shl8_hi _ Hb), (shl8_lo _ Hb), N.lxor_0_r.
  rewrite (hi_of_crc _ Hc), <- N.shiftl_lxor.
  rewrite (shr8_small _ Hc).
  rewrite nth_xmodem by (apply xor_byte_bound; [apply shr8_bound; exact Hc | exact Hb]).
  rewrite (lo_shift _ Hc). apply N.lxor_comm.
Qed.

Lemma spec_step_bound crc b : crc < 65536 -> b < 256 -> spec_step crc b < 65536.
Proof.
  intros Hc Hb. unfold spec_step. apply loop8_bound.
  apply xor_lt_65536; [exact Hc|]. rewrite N.shiftl_mul_pow2. change (2^8) with 256. lia.
Qed.

Lemma fold_agrees key : bytes_ok key -> forall crc, crc < 65536 ->
  fold_left (crc_step crc16tab) key crc = fold_left spec_step key crc
  /\ fold_left spec_step key crc < 65536.
Proof.
  induction 1 as [|b key Hb _ IH]; intros crc Hc; cbn [fold_left].
  - split; [reflexivity | exact Hc].
  - rewrite (step_agrees _ _ Hc Hb). apply IH. apply spec_step_bound; assumption.
Qed.

Lemma crc_agrees key : bytes_ok key -> crc16_tab crc16tab key = crc16_spec key.
Proof. intros H. apply (fold_agrees key H 0). lia. Qed.

Lemma crc_spec_bound key : bytes_ok key -> crc16_spec key < 65536.
Proof. intros H. apply (fold_agrees key H 0). lia. Qed.

(* ---------- hash tag ---------- *)

Lemma index_of_app_notin c pre rest : ~ In c pre ->
  index_of c (pre ++ c :: rest) = length pre.
Proof.
  induction pre as [|x pre IH]; intros Hn; cbn.
  - rewrite N.eqb_refl. reflexivity.
  - destruct (N.eqb_spec x c) as [E|E].
    + exfalso. apply Hn. left. exact E.
    + f_equal. apply IH. intros Hin. apply Hn. right. exact Hin.
Qed.

Lemma index_of_le c l : (index_of c l <= length l)%nat.
Proof. induction l as [|x l IH]; cbn; [lia|]. destruct (N.eqb x c); cbn; lia. Qed.

Lemma index_of_absent c l : index_of c l = length l <-> ~ In c l.
Proof.
  induction l as [|x l IH]; cbn.
  - tauto.
  - destruct (N.eqb_spec x c) as [E|E].
    + split; [discriminate|]. intros H. exfalso. apply H. left. exact E.
    + split.
      * intros H [H1|H1]; [contradiction|]. apply IH; [lia|exact H1].
      * intros H. f_equal. apply IH. tauto.
Qed.

Lemma index_of_split c l : (index_of c l < length l)%nat ->
  exists pre post, l = pre ++ c :: post /\ ~ In c pre /\ length pre = index_of c l.
Proof.
  induction l as [|x l IH]; cbn; [lia|].
  destruct (N.eqb_spec x c) as [E|E]; intros H.
  - exists [], l. subst. repeat split; auto.
  - destruct IH as [pre [post [E1 [E2 E3]]]]; [lia|].
    exists (x :: pre), post. subst l. cbn. repeat split; auto.
    intros [H1|H1]; [contradiction | exact (E2 H1)].
Qed.

Lemma hashtag_some pre mid post :
  ~ In lbrace pre -> ~ In rbrace mid -> mid <> [] ->
  hashtag (pre ++ lbrace :: mid ++ rbrace :: post) = mid.
Proof.
  intros Hpre Hmid Hne. unfold hashtag.
  rewrite (index_of_app_notin _ _ _ Hpre).
  rewrite app_length. cbn [length].
  destruct (Nat.eqb_spec (length pre) (length pre + S (length (mid ++ rbrace :: post)))) as [E|_]; [lia|].
  replace (skipn (S (length pre)) (pre ++ lbrace :: mid ++ rbrace :: post)) with (mid ++ rbrace :: post).
  2:{ replace (pre ++ lbrace :: mid ++ rbrace :: post) with ((pre ++ [lbrace]) ++ mid ++ rbrace :: post)
        by (rewrite <- app_assoc; reflexivity).
      replace (S (length pre)) with (length (pre ++ [lbrace])) by (rewrite app_length; cbn; lia).
      rewrite skipn_app, skipn_all, Nat.sub_diag. reflexivity. }
  rewrite (index_of_app_notin _ _ _ Hmid).
  rewrite app_length. cbn [length].
  destruct mid as [|m mid]; [congruence|]. cbn [length].
  destruct (Nat.eqb_spec (S (length pre) + S (length mid)) (length pre + S (S (length mid) + S (length post)))) as [E|_]; [lia|].
  destruct (Nat.eqb_spec (S (length pre) + S (length mid)) (S (length pre))) as [E|_]; [lia|].
  cbn [orb].
  replace (S (length pre) + S (length mid) - S (length pre))%nat with (length (m :: mid)) by (cbn; lia).
  rewrite firstn_app, firstn_all, Nat.sub_diag. cbn [firstn]. apply app_nil_r.
Qed.

Lemma hashtag_none key :
  (forall pre mid post, key = pre ++ lbrace :: mid ++ rbrace :: post ->
     ~ In lbrace pre -> ~ In rbrace mid -> mid = []) ->
  hashtag key = key.
Proof.
  intros H. unfold hashtag.
  destruct (Nat.eqb_spec (index_of lbrace key) (length key)) as [E|E]; [reflexivity|].
  pose proof (index_of_le lbrace key) as Hle.
  destruct (index_of_split lbrace key) as [pre [rest [E1 [E2 E3]]]]; [lia|].
  rewrite <- E3.
  replace (skipn (S (length pre)) key) with rest.
  2:{ subst key. replace (pre ++ lbrace :: rest) with ((pre ++ [lbrace]) ++ rest)
        by (rewrite <- app_assoc; reflexivity).
      replace (S (length pre)) with (length (pre ++ [lbrace])) by (rewrite app_length; cbn; lia).
      rewrite skipn_app, skipn_all, Nat.sub_diag. reflexivity. }
  assert (Hlen : length key = (length pre + S (length rest))%nat)
    by (subst key; rewrite app_length; reflexivity).
  destruct (Nat.eqb_spec (S (length pre) + index_of rbrace rest) (length key)) as [Ej|Ej]; [reflexivity|].
  destruct (Nat.eqb_spec (S (length pre) + index_of rbrace rest) (S (length pre))) as [Ek|Ek]; [reflexivity|].
  exfalso.
  pose proof (index_of_le rbrace rest) as Hle2.
  destruct (index_of_split rbrace rest) as [mid [post [F1 [F2 F3]]]]; [lia|].
  assert (mid = []) as Hm.
  { apply (H pre mid post); [subst; reflexivity | exact E2 | exact F2]. }
  subst mid. cbn in F3. lia.
Qed.

(* ---------- slot ---------- *)

Lemma in_skipn {A} (x : A) n l : In x (skipn n l) -> In x l.
Proof. intros H. rewrite <- (firstn_skipn n l). apply in_or_app. right. exact H. Qed.
Lemma in_firstn {A} (x : A) n l : In x (firstn n l) -> In x l.
Proof. intros H. rewrite <- (firstn_skipn n l). apply in_or_app. left. exact H. Qed.

Lemma hashtag_bytes key : bytes_ok key -> bytes_ok (hashtag key).
Proof.
  intros H. unfold hashtag.
  destruct (Nat.eqb _ _); [exact H|].
  destruct (_ || _); [exact H|].
  unfold bytes_ok in *. rewrite Forall_forall in *. intros x Hx.
  apply H. eapply in_skipn. eapply in_firstn. exact Hx.
Qed.

Lemma slot_mask : slot_num - 1 = N.ones 14.
Proof. vm_compute. reflexivity. Qed.

Lemma slot_spec key : bytes_ok key ->
  slot_of crc16tab slot_num key = crc16_spec (hashtag key) mod 16384
  /\ slot_of crc16tab slot_num key < slot_num.
Proof.
  intros H. unfold slot_of.
  rewrite (crc_agrees _ (hashtag_bytes _ H)).
  rewrite slot_mask, N.land_ones. change (2 ^ 14) with 16384.
  split; [reflexivity|]. change slot_num with 16384. apply N.mod_lt. lia.
Qed.

Lemma same_tag k1 k2 : bytes_ok k1 -> bytes_ok k2 -> hashtag k1 = hashtag k2 ->
  slot_of crc16tab slot_num k1 = slot_of crc16tab slot_num k2.
Proof. intros _ _ E. unfold slot_of. rewrite E. reflexivity. Qed.
