(* Proofs about Model/Lifecycle.v *)
From Coq Require Import List Arith Bool Lia.
From Sam Require Import Model.Lifecycle.
Import ListNotations.

Lemma is_phase_eq a b : is_phase a b = true <-> a = b.
Proof. split; [destruct a, b; cbn; congruence | intros ->; destruct b; reflexivity]. Qed.

Record LI (s : lstate) : Prop := {
  l1 : phase s = PReturned -> begun s = true -> done_closed s = true;
  l2 : begun s = false -> phase s = PNotStarted \/ phase s = PReturned;
  l3 : phase s <> PServing -> lconns s = 0 /\ bound s = false;
  l4 : lstopped s = true -> bound s = false;
  l5 : ldraining s = true -> bound s = false;
  l6 : done_closed s = true -> phase s = PReturned;
  l7 : stop_waits s = true -> begun s = true /\ lstopped s = true;
  l8 : phase s = PNotStarted -> begun s = false }.

Lemma linit_inv : LI linit.
Proof. constructor; cbn; intros; try discriminate; auto. Qed.

Ltac fin_inv := constructor; cbn; intros; intuition (try discriminate; try congruence; try lia).

Lemma lstep_inv s o : LI s -> LI (lstep true s o).
Proof.
  intros I. pose proof (l1 _ I) as H1. pose proof (l2 _ I) as H2. pose proof (l3 _ I) as H3. pose proof (l4 _ I) as H4.
  pose proof (l5 _ I) as H5. pose proof (l6 _ I) as H6. pose proof (l7 _ I) as H7. pose proof (l8 _ I) as H8.
  destruct s as [ph bg st dr bd c dn sw]. cbn [phase begun lstopped ldraining bound lconns done_closed stop_waits] in *.
  destruct o; cbn [lstep phase begun lstopped ldraining bound lconns done_closed stop_waits mk].
  - (* serve begins *)
    destruct ph; cbn [is_phase]; try exact I. rewrite (H8 eq_refl) in *. destruct H3 as [-> ->]; [discriminate|].
    destruct st; cbn [andb]; [destruct sw | destruct dn]; fin_inv.
  - (* bind fails *)
    destruct ph; cbn [is_phase]; try exact I. destruct H3 as [-> ->]; [discriminate|].
    destruct (st || dr) eqn:E; [|exact I]. rewrite orb_true_r. fin_inv.
  - (* bound *)
    destruct ph; cbn [is_phase]; try exact I. destruct H3 as [-> ->]; [discriminate|].
    destruct (st || dr) eqn:E; [rewrite orb_true_r; fin_inv|].
    apply orb_false_iff in E. destruct E; subst. destruct bg; [|destruct (H2 eq_refl); discriminate]. destruct dn; [specialize (H6 eq_refl); discriminate|]. fin_inv.
  - (* accept *)
    destruct (is_phase ph PServing && bd && negb st) eqn:E; [|exact I].
    apply andb_true_iff in E. destruct E as [E E3]. apply andb_true_iff in E. destruct E as [E1 E2]. apply is_phase_eq in E1. subst ph bd.
    apply negb_true_iff in E3. subst st. fin_inv.
  - (* a handler returns *)
    destruct c as [|n]; [exact I|]. destruct ph; try (destruct H3 as [A B]; [discriminate | discriminate]). fin_inv.
  - (* serve exits *)
    destruct (is_phase ph PServing && negb bd && Nat.eqb c 0) eqn:E; [|exact I].
    apply andb_true_iff in E. destruct E as [E _]. apply andb_true_iff in E. destruct E as [E1 _]. apply is_phase_eq in E1. subst ph.
    destruct bg; [|destruct (H2 eq_refl); discriminate]. fin_inv.
  - (* stop *)
    destruct ph; fin_inv.
  - (* drain *)
    destruct ph; fin_inv.
  - (* a temporary accept error *)
    exact I.
Qed.

(* temporary accept errors change nothing: a run with them is the run without them, so whatever holds of the service
   (a connection under the limit is served, Stop returns, ...) holds with any number of them in between *)
Definition not_temp (o : lop) : bool := match o with LAcceptTemp => false | _ => true end.
Lemma temp_errors_invisible fixed l : forall s, fold_left (lstep fixed) l s = fold_left (lstep fixed) (filter not_temp l) s.
Proof.
  induction l as [|o t IH]; intros s; [reflexivity|]. destruct o; cbn [filter not_temp fold_left]; apply IH.
Qed.

Theorem lrun_inv l : LI (lrun true l).
Proof.
  unfold lrun. generalize linit_inv. generalize linit. induction l as [|o t IH]; intros s I; cbn [fold_left]; [exact I|].
  apply IH. apply lstep_inv. exact I.
Qed.

(* Stop never waits for a Serve that has returned without signalling *)
Theorem stop_not_stranded l : let s := lrun true l in stop_waits s = true -> phase s = PReturned -> done_closed s = true.
Proof. intros s W P. pose proof (lrun_inv l) as I. apply (l1 _ I P). exact (proj1 (l7 _ I W)). Qed.

(* ... and whenever it is waiting, letting the handlers return and Serve take its next step lets it return *)

Lemma conn_ends n : forall s, lconns s = n -> phase (fold_left (lstep true) (repeat LConnEnd n) s) = phase s /\
  lconns (fold_left (lstep true) (repeat LConnEnd n) s) = 0 /\ bound (fold_left (lstep true) (repeat LConnEnd n) s) = bound s /\
  lstopped (fold_left (lstep true) (repeat LConnEnd n) s) = lstopped s /\ ldraining (fold_left (lstep true) (repeat LConnEnd n) s) = ldraining s /\
  done_closed (fold_left (lstep true) (repeat LConnEnd n) s) = done_closed s /\ stop_waits (fold_left (lstep true) (repeat LConnEnd n) s) = stop_waits s.
Proof.
  induction n as [|n IH]; intros s H; cbn [repeat fold_left]; [repeat split; auto|].
  assert (E : lstep true s LConnEnd = mk (phase s) (begun s) (lstopped s) (ldraining s) (bound s) n (done_closed s) (stop_waits s)) by (cbn [lstep]; rewrite H; reflexivity).
  rewrite E. destruct (IH (mk (phase s) (begun s) (lstopped s) (ldraining s) (bound s) n (done_closed s) (stop_waits s)) eq_refl) as [A [B [C [D [F [G K]]]]]].
  cbn in *. repeat split; assumption.
Qed.

Theorem stop_returns_after_finish l : let s := lrun true l in
  stop_waits s = true -> stop_returns (fold_left (lstep true) (finish_schedule s) s) = true.
Proof.
  intros s W. pose proof (lrun_inv l) as I. fold s in I. unfold finish_schedule. rewrite fold_left_app.
  destruct (conn_ends (lconns s) s eq_refl) as [A [B [C [D [F [G K]]]]]]. set (s1 := fold_left (lstep true) (repeat LConnEnd (lconns s)) s) in *.
  destruct (l7 _ I W) as [Bg St]. pose proof (l4 _ I St) as Bd.
  unfold stop_returns. cbn [fold_left]. destruct (phase s) eqn:P.
  - rewrite (l8 _ I P) in Bg. discriminate.
  - (* binding: the next round of the loop sees the flag *)
    assert (E1 : lstep true s1 LServeExit = s1) by (cbn [lstep]; rewrite A; reflexivity). rewrite E1.
    cbn [lstep]. rewrite A, D, St. cbn. rewrite !orb_true_r. reflexivity.
  - (* serving: the socket is closed, the handlers have returned *)
    cbn [lstep]. rewrite A, B, C, Bd. cbn. rewrite !orb_true_r. reflexivity.
  - assert (E1 : lstep true s1 LServeExit = s1) by (cbn [lstep]; rewrite A; reflexivity). rewrite E1.
    assert (E2 : lstep true s1 LBindFail = s1) by (cbn [lstep]; rewrite A; reflexivity). rewrite E2.
    rewrite G, (l1 _ I P Bg). apply orb_true_r.
Qed.

(* once Stop has returned after a Serve that began, the port is closed and no connection is left *)
Theorem after_stop l : let s := lrun true l in done_closed s = true -> bound s = false /\ lconns s = 0.
Proof.
  intros s D. pose proof (lrun_inv l) as I. pose proof (l6 _ I D) as P. destruct (l3 _ I) as [A B]; [rewrite P; discriminate | auto].
Qed.

(* draining leaves the established connections alone and stops accepting *)
Lemma drain_keeps_connections s : lconns (lstep true s LDrain) = lconns s /\ bound (lstep true s LDrain) = false.
Proof. split; reflexivity. Qed.
Theorem no_accept_while_draining l : let s := lrun true l in ldraining s = true -> lstep true s LAccept = s.
Proof.
  intros s D. pose proof (lrun_inv l) as I. fold s in I. pose proof (l5 _ I D) as B. cbn [lstep]. rewrite B. rewrite andb_false_r. reflexivity.
Qed.

(* ---------- the code as it was ---------- *)
Example stop_while_binding_refuted :
  let s := lrun false [LServeBegin; LBindFail; LStop; LBindFail] in
  stop_waits s = true /\ phase s = PReturned /\ done_closed s = false.
Proof. vm_compute. repeat split. Qed.
Example stop_before_serve_refuted :
  let s := lrun false [LStop; LServeBegin; LBindFail] in
  stop_waits s = true /\ phase s = PReturned /\ done_closed s = false.
Proof. vm_compute. repeat split. Qed.
Example stop_while_binding_fixed : stop_returns (lrun true [LServeBegin; LBindFail; LStop; LBindFail]) = true.
Proof. vm_compute. reflexivity. Qed.

(* the drain step of a hand-over (C17): the established connections are kept - also the one Accept has only just
   returned: accepting is one step of the model, the harness makes the drain arrive right after it -, the listening socket
   is closed, nothing more is accepted, and Serve returns as soon as the kept connections have ended by themselves *)
Lemma drain_step s : let d := lstep true s LDrain in
  lconns d = lconns s /\ bound d = false /\ lstep true d LAccept = d /\ lstopped d = lstopped s /\ phase d = phase s.
Proof.
  destruct s as [ph bg st dr bd c dn sw]. cbn [lstep phase begun lstopped ldraining bound lconns done_closed stop_waits mk].
  repeat split. cbn [lstep phase begun lstopped ldraining bound lconns done_closed stop_waits mk].
  rewrite andb_false_r. reflexivity.
Qed.

Lemma drain_then_serve_returns s : phase s = PServing ->
  phase (lstep true (fold_left (lstep true) (repeat LConnEnd (lconns s)) (lstep true s LDrain)) LServeExit) = PReturned.
Proof.
  intros P. destruct (drain_step s) as [C [B [_ [_ Ph]]]]. set (d := lstep true s LDrain) in *.
  destruct (conn_ends (lconns s) d C) as [A [Z [Bd _]]]. set (e := fold_left (lstep true) (repeat LConnEnd (lconns s)) d) in *.
  cbn [lstep]. rewrite A, Ph, P, Bd, B, Z. reflexivity.
Qed.
