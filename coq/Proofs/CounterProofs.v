From Coq Require Import List Arith NArith Bool Lia.
From Sam Require Import Model.Counter.
Import ListNotations.
Open Scope N_scope.

(* ---------- shape of the frequency list ---------- *)
Fixpoint asc (lo : N) (b : buckets) : Prop :=
  match b with
  | [] => True
  | (f, ks) :: t => lo < f /\ ks <> [] /\ asc f t
  end.

Definition W (b : buckets) : Prop := asc 0 b /\ NoDup (tracked b).

Lemma mem_key_In k l : mem_key k l = true <-> In k l.
Proof.
  unfold mem_key. rewrite existsb_exists. split.
  - intros [x [H1 H2]]. apply N.eqb_eq in H2. subst. exact H1.
  - intros H. exists k. split; [exact H | apply N.eqb_refl].
Qed.

Lemma mem_key_false k l : mem_key k l = false <-> ~ In k l.
Proof.
  rewrite <- mem_key_In. destruct (mem_key k l); split; intros H.
  - discriminate.
  - exfalso. apply H. reflexivity.
  - intros H2. discriminate.
  - reflexivity.
Qed.

Lemma asc_weaken lo lo' b : lo' <= lo -> asc lo b -> asc lo' b.
Proof. destruct b as [|[f ks] t]; cbn [asc]; [trivial|]. intros H [H1 H2]. split; [lia | exact H2]. Qed.

Lemma remove_key_In k x l : In x (remove_key k l) <-> In x l /\ x <> k.
Proof.
  unfold remove_key. rewrite filter_In. split; intros [H1 H2]; split; try exact H1.
  - apply negb_true_iff in H2. apply N.eqb_neq in H2. exact H2.
  - apply negb_true_iff. apply N.eqb_neq. exact H2.
Qed.

Lemma remove_key_notin k l : ~ In k l -> remove_key k l = l.
Proof.
  induction l as [|x l IH]; intros H; [reflexivity|]. cbn [remove_key filter].
  destruct (N.eqb_spec x k) as [E|E]; [exfalso; apply H; left; exact E|]. cbn [negb].
  f_equal. apply IH. intros H1. apply H. right. exact H1.
Qed.

Lemma NoDup_remove_key k l : NoDup l -> NoDup (remove_key k l).
Proof. intros H. unfold remove_key. apply NoDup_filter. exact H. Qed.

Lemma NoDup_app_iff {A} (a b : list A) : NoDup (a ++ b) <-> NoDup a /\ NoDup b /\ (forall x, In x a -> ~ In x b).
Proof.
  induction a as [|x a IH]; cbn [app].
  - split; [intros H; repeat split; [constructor | exact H | intros x []] | tauto].
  - split.
    + intros H. inversion H as [|? ? Hn Hd]; subst. apply IH in Hd. destruct Hd as [D1 [D2 D3]].
      repeat split; [constructor; [intros Hi; apply Hn; apply in_or_app; left; exact Hi | exact D1] | exact D2 |].
      intros y [->|Hy]; [intros Hb; apply Hn; apply in_or_app; right; exact Hb | apply D3; exact Hy].
    + intros [D1 [D2 D3]]. inversion D1 as [|? ? Hn Hd]; subst. constructor.
      * intros Hi. apply in_app_or in Hi. destruct Hi as [Hi|Hi]; [exact (Hn Hi) | exact (D3 x (or_introl eq_refl) Hi)].
      * apply IH. repeat split; [exact Hd | exact D2 | intros y Hy; apply D3; right; exact Hy].
Qed.

(* ---------- the frequency of a key ---------- *)

Lemma freq_of_notin b k : ~ In k (tracked b) -> freq_of b k = None.
Proof.
  induction b as [|[f ks] t IH]; intros H; [reflexivity|]. cbn [freq_of tracked] in *.
  destruct (mem_key k ks) eqn:E; [apply mem_key_In in E; exfalso; apply H; apply in_or_app; left; exact E|].
  apply IH. intros Hi. apply H. apply in_or_app. right. exact Hi.
Qed.

Lemma freq_of_in b k : In k (tracked b) -> exists f, freq_of b k = Some f.
Proof.
  induction b as [|[f ks] t IH]; intros H; [destruct H|]. cbn [freq_of tracked] in *.
  destruct (mem_key k ks) eqn:E; [eexists; reflexivity|].
  apply mem_key_false in E. apply in_app_or in H. destruct H as [H|H]; [contradiction|]. apply IH. exact H.
Qed.

(* the head node holds the minimum frequency *)
Lemma freq_lower_bound lo b k f : asc lo b -> freq_of b k = Some f -> lo < f.
Proof.
  revert lo. induction b as [|[f0 ks] t IH]; intros lo Ha H; [discriminate|].
  cbn [asc freq_of] in *. destruct Ha as [H1 [H2 H3]].
  destruct (mem_key k ks); [inversion H; subst; exact H1|].
  specialize (IH f0 H3 H). lia.
Qed.

(* ---------- increment ---------- *)

Lemma increment_spec b : forall lo k f, asc lo b -> NoDup (tracked b) -> freq_of b k = Some f ->
  asc lo (increment b k) /\
  (forall x, In x (tracked (increment b k)) <-> In x (tracked b)) /\
  NoDup (tracked (increment b k)) /\
  freq_of (increment b k) k = Some (f + 1) /\
  (forall k', k' <> k -> freq_of (increment b k) k' = freq_of b k').
Proof.
  induction b as [|[f0 ks] t IH]; intros lo k f Ha Hnd Hf; [discriminate|].
  cbn [asc tracked freq_of increment] in *. destruct Ha as [Hlo [Hne Hat]].
  apply NoDup_app_iff in Hnd. destruct Hnd as [Dks [Dt Dx]].
  destruct (mem_key k ks) eqn:Ek.
  - (* k is in this node *)
    inversion Hf; subst f0. clear Hf. apply mem_key_In in Ek.
    assert (Hkt : ~ In k (tracked t)) by (apply Dx; exact Ek).
    set (ks' := remove_key k ks).
    assert (Hks' : forall x, In x ks' <-> In x ks /\ x <> k) by (intros x; apply remove_key_In).
    assert (Dks' : NoDup ks') by (apply NoDup_remove_key; exact Dks).
    (* the node after: either the existing f+1 node with k appended, or a fresh one *)
    set (t' := match t with
               | (f2, ks2) :: t2 => if f2 =? f + 1 then (f2, ks2 ++ [k]) :: t2 else (f + 1, [k]) :: t
               | [] => [(f + 1, [k])]
               end).
    assert (Ht' : asc f t' /\ (forall x, In x (tracked t') <-> In x (tracked t) \/ x = k) /\ NoDup (tracked t') /\
                  freq_of t' k = Some (f + 1) /\ (forall k', k' <> k -> freq_of t' k' = freq_of t k')).
    { unfold t'. destruct t as [|[f2 ks2] t2].
      - cbn [asc tracked freq_of app]. repeat split; try lia; try discriminate; try (constructor; [intros [] | constructor]).
        + intros [Hx|Hx]; [subst x; right; reflexivity | destruct Hx].
        + intros [Hx|Hx]; [destruct Hx | subst x; left; reflexivity].
        + unfold mem_key. cbn [existsb]. rewrite N.eqb_refl. reflexivity.
        + intros k' Hk'. unfold mem_key. cbn [existsb]. destruct (N.eqb_spec k' k); [contradiction | reflexivity].
      - cbn [asc] in Hat. destruct Hat as [Hf2 [Hne2 Hat2]]. cbn [tracked] in Hkt, Dt.
        apply NoDup_app_iff in Dt. destruct Dt as [D2 [D3 D4]].
        destruct (N.eqb_spec f2 (f + 1)) as [->|Hneq].
        + cbn [asc tracked freq_of]. repeat split; try lia.
          * destruct ks2; discriminate.
          * exact Hat2.
          * intros Hx. rewrite <- app_assoc in Hx. apply in_app_or in Hx. destruct Hx as [Hx|Hx]; [left; apply in_or_app; left; exact Hx|].
            cbn [app] in Hx. destruct Hx as [->|Hx]; [right; reflexivity | left; apply in_or_app; right; exact Hx].
          * intros [Hx| ->]; rewrite <- app_assoc; apply in_or_app.
            -- apply in_app_or in Hx. destruct Hx as [Hx|Hx]; [left; exact Hx | right; right; exact Hx].
            -- right. left. reflexivity.
          * rewrite <- app_assoc. apply NoDup_app_iff. repeat split; [exact D2 | | ].
            -- cbn [app]. constructor; [intros Hi; apply Hkt; apply in_or_app; right; exact Hi | exact D3].
            -- intros x Hx [->|Hx2]; [apply Hkt; apply in_or_app; left; exact Hx | exact (D4 x Hx Hx2)].
          * assert (Em : mem_key k (ks2 ++ [k]) = true) by (apply mem_key_In; apply in_or_app; right; left; reflexivity).
            rewrite Em. reflexivity.
          * intros k' Hk'. assert (Em : mem_key k' (ks2 ++ [k]) = mem_key k' ks2).
            { destruct (mem_key k' ks2) eqn:E2.
              - apply mem_key_In. apply in_or_app. left. apply mem_key_In. exact E2.
              - apply mem_key_false. intros Hi. apply in_app_or in Hi. destruct Hi as [Hi|[Hi|[]]]; [apply mem_key_false in E2; exact (E2 Hi) | congruence]. }
            rewrite Em. reflexivity.
        + cbn [asc tracked freq_of app]. repeat split; try lia; try discriminate; try assumption.
          * intros [->|Hx]; [right; reflexivity | left; exact Hx].
          * intros [Hx| ->]; [right; exact Hx | left; reflexivity].
          * constructor; [exact Hkt | apply NoDup_app_iff; repeat split; assumption].
          * unfold mem_key at 1. cbn [existsb]. rewrite N.eqb_refl. reflexivity.
          * intros k' Hk'. unfold mem_key at 1. cbn [existsb]. destruct (N.eqb_spec k' k); [contradiction | reflexivity]. }
    destruct Ht' as [A1 [A2 [A3 [A4 A5]]]].
    assert (Hsame : forall x, In x (tracked (match ks' with [] => t' | _ => (f, ks') :: t' end)) <-> In x (ks ++ tracked t)).
    { intros x. assert (G : In x (ks' ++ tracked t') <-> In x (ks ++ tracked t)).
      { split; intros Hx; apply in_app_or in Hx; apply in_or_app.
        - destruct Hx as [Hx|Hx]; [left; apply Hks' in Hx; tauto|]. apply A2 in Hx. destruct Hx as [Hx| ->]; [right; exact Hx | left; exact Ek].
        - destruct Hx as [Hx|Hx].
          + destruct (N.eq_dec x k) as [->|Hxk]; [right; apply A2; right; reflexivity | left; apply Hks'; tauto].
          + right. apply A2. left. exact Hx. }
      destruct ks' eqn:E; [cbn [app] in G; exact G | exact G]. }
    assert (Hnd' : NoDup (ks' ++ tracked t')).
    { apply NoDup_app_iff. repeat split; [exact Dks' | exact A3|].
      intros x Hx Hx2. apply Hks' in Hx. destruct Hx as [Hx Hxk]. apply A2 in Hx2. destruct Hx2 as [Hx2|Hx2]; [exact (Dx x Hx Hx2) | contradiction]. }
    assert (Hk' : mem_key k ks' = false) by (apply mem_key_false; intros Hi; apply Hks' in Hi; tauto).
    destruct ks' as [|y ks''] eqn:E.
    + (* the old node became empty and disappears *)
      repeat split.
      * apply (asc_weaken f lo); [lia | exact A1].
      * apply Hsame.
      * apply Hsame.
      * cbn [app] in Hnd'. exact Hnd'.
      * exact A4.
      * intros k' Hk'k. rewrite A5 by exact Hk'k.
        destruct (mem_key k' ks) eqn:E2; [|reflexivity].
        exfalso. apply mem_key_In in E2. assert (In k' (@nil key)) by (apply Hks'; tauto). contradiction.
    + cbn [asc tracked freq_of]. rewrite Hk'. repeat split; try assumption; try discriminate.
      * apply Hsame.
      * apply Hsame.
      * intros k' Hk'k. destruct (mem_key k' (y :: ks'')) eqn:E2.
        -- apply mem_key_In in E2. apply Hks' in E2. destruct E2 as [E2 _]. apply mem_key_In in E2. rewrite E2. reflexivity.
        -- rewrite A5 by exact Hk'k. destruct (mem_key k' ks) eqn:E3; [|reflexivity].
           exfalso. apply mem_key_In in E3. apply mem_key_false in E2. apply E2. apply Hks'. tauto.
  - (* k is further down *)
    apply mem_key_false in Ek.
    destruct (IH f0 k f Hat Dt Hf) as [B1 [B2 [B3 [B4 B5]]]].
    cbn [asc tracked freq_of]. repeat split; try assumption.
    + intros Hx. apply in_app_or in Hx. apply in_or_app. destruct Hx as [Hx|Hx]; [left; exact Hx | right; apply B2; exact Hx].
    + intros Hx. apply in_app_or in Hx. apply in_or_app. destruct Hx as [Hx|Hx]; [left; exact Hx | right; apply B2; exact Hx].
    + apply NoDup_app_iff. repeat split; [exact Dks | exact B3|]. intros x Hx Hx2. apply B2 in Hx2. exact (Dx x Hx Hx2).
    + assert (E : mem_key k ks = false) by (apply mem_key_false; exact Ek). rewrite E. exact B4.
    + intros k' Hk'. destruct (mem_key k' ks); [reflexivity | apply B5; exact Hk'].
Qed.

(* ---------- evict / add ---------- *)

Lemma mem_key_hd k l : mem_key k (k :: l) = true.
Proof. unfold mem_key. cbn [existsb]. rewrite N.eqb_refl. reflexivity. Qed.
Lemma mem_key_tl k v l : k <> v -> mem_key k (v :: l) = mem_key k l.
Proof. intros H. unfold mem_key. cbn [existsb]. destruct (N.eqb_spec k v); [contradiction | reflexivity]. Qed.
Lemma mem_key_snoc_other k' k l : k' <> k -> mem_key k' (l ++ [k]) = mem_key k' l.
Proof.
  intros H. destruct (mem_key k' l) eqn:E.
  - apply mem_key_In. apply in_or_app. left. apply mem_key_In. exact E.
  - apply mem_key_false. intros Hi. apply in_app_or in Hi. apply mem_key_false in E.
    destruct Hi as [Hi|[Hi|[]]]; [exact (E Hi) | congruence].
Qed.
Lemma mem_key_snoc k l : mem_key k (l ++ [k]) = true.
Proof. apply mem_key_In. apply in_or_app. right. left. reflexivity. Qed.

Lemma evict_spec b : W b -> b <> [] ->
  exists v, evicted b = Some v /\ W (evict b) /\
    (forall x, In x (tracked (evict b)) <-> In x (tracked b) /\ x <> v) /\
    (forall k, k <> v -> freq_of (evict b) k = freq_of b k) /\
    (exists fv, freq_of b v = Some fv /\ forall k f, freq_of b k = Some f -> fv <= f).
Proof.
  intros [Ha Hnd] Hne. destruct b as [|[f ks] t]; [contradiction|]. cbn [asc] in Ha. destruct Ha as [Hlo [Hks Hat]].
  destruct ks as [|v ks]; [contradiction|]. exists v. cbn [evicted]. split; [reflexivity|].
  cbn [tracked app] in Hnd. inversion Hnd as [|? ? Hv Hnd']; subst.
  assert (Hmin : exists fv, freq_of ((f, v :: ks) :: t) v = Some fv /\ forall k f0, freq_of ((f, v :: ks) :: t) k = Some f0 -> fv <= f0).
  { exists f. cbn [freq_of]. rewrite mem_key_hd. split; [reflexivity|].
    intros k f0 Hk. destruct (mem_key k (v :: ks)); [inversion Hk; lia|]. pose proof (freq_lower_bound f t k f0 Hat Hk). lia. }
  destruct ks as [|k2 ks]; cbn [evict].
  - split; [split; [apply (asc_weaken f 0); [lia | exact Hat] | exact Hnd']|].
    split; [|split; [|exact Hmin]].
    + intros x. cbn [tracked app]. split.
      * intros Hx. split; [right; exact Hx | intros ->; apply Hv; exact Hx].
      * intros [[->|Hx] Hxv]; [contradiction | exact Hx].
    + intros k Hk. cbn [freq_of]. rewrite mem_key_tl by exact Hk. reflexivity.
  - split; [split; [cbn [asc]; split; [exact Hlo | split; [discriminate | exact Hat]] | exact Hnd']|].
    split; [|split; [|exact Hmin]].
    + intros x. cbn [tracked app]. split.
      * intros Hx. split; [right; exact Hx | intros ->; apply Hv; exact Hx].
      * intros [[->|Hx] Hxv]; [contradiction | exact Hx].
    + intros k Hk. cbn [freq_of]. rewrite (mem_key_tl k v) by exact Hk. reflexivity.
Qed.

Lemma add_new_spec b k : W b -> ~ In k (tracked b) ->
  W (add_new b k) /\ (forall x, In x (tracked (add_new b k)) <-> In x (tracked b) \/ x = k) /\
  freq_of (add_new b k) k = Some 1 /\ (forall k', k' <> k -> freq_of (add_new b k) k' = freq_of b k').
Proof.
  intros [Ha Hnd] Hk. destruct b as [|[f ks] t].
  - cbn [add_new tracked app freq_of]. split; [|split; [|split]].
    + split; [cbn [asc]; split; [lia | split; [discriminate | exact I]] | cbn [tracked app]; constructor; [intros [] | constructor]].
    + intros x. split; [intros [Hx|[]]; right; symmetry; exact Hx | intros [[]|Hx]; left; symmetry; exact Hx].
    + rewrite mem_key_hd. reflexivity.
    + intros k' Hk'. rewrite mem_key_tl by exact Hk'. reflexivity.
  - cbn [asc] in Ha. destruct Ha as [Hlo [Hks Hat]]. cbn [tracked] in Hnd, Hk. cbn [add_new].
    destruct (N.eqb_spec f 1) as [->|Hf1].
    + apply NoDup_app_iff in Hnd. destruct Hnd as [D1 [D2 D3]]. split; [|split; [|split]].
      * split.
        -- cbn [asc]. split; [lia | split; [destruct ks; discriminate | exact Hat]].
        -- cbn [tracked]. rewrite <- app_assoc. apply NoDup_app_iff. split; [exact D1 | split].
           ++ cbn [app]. constructor; [intros Hi; apply Hk; apply in_or_app; right; exact Hi | exact D2].
           ++ intros x Hx [Hx2|Hx2]; [subst x; apply Hk; apply in_or_app; left; exact Hx | exact (D3 x Hx Hx2)].
      * intros x. cbn [tracked]. rewrite <- app_assoc. split.
        -- intros Hx. apply in_app_or in Hx. destruct Hx as [Hx|[Hx|Hx]];
             [left; apply in_or_app; left; exact Hx | right; symmetry; exact Hx | left; apply in_or_app; right; exact Hx].
        -- intros [Hx|Hx]; apply in_or_app.
           ++ apply in_app_or in Hx. destruct Hx as [Hx|Hx]; [left; exact Hx | right; right; exact Hx].
           ++ right. left. symmetry. exact Hx.
      * cbn [freq_of]. rewrite mem_key_snoc. reflexivity.
      * intros k' Hk'. cbn [freq_of]. rewrite mem_key_snoc_other by exact Hk'. reflexivity.
    + split; [|split; [|split]].
      * split; [cbn [asc]; split; [lia | split; [discriminate | split; [lia | split; assumption]]] | cbn [tracked app]; constructor; assumption].
      * intros x. cbn [tracked app]. split; [intros [Hx|Hx]; [right; symmetry; exact Hx | left; exact Hx] | intros [Hx|Hx]; [right; exact Hx | left; symmetry; exact Hx]].
      * cbn [freq_of]. rewrite mem_key_hd. reflexivity.
      * intros k' Hk'. cbn [freq_of]. rewrite mem_key_tl by exact Hk'. reflexivity.
Qed.

(* ---------- Incr: bounded size, exact counts, eviction of a minimum ---------- *)
From Coq Require Import Permutation.

Lemma same_set_length (a b : list key) : NoDup a -> NoDup b -> (forall x, In x a <-> In x b) -> length a = length b.
Proof. intros Ha Hb H. apply Permutation_length. apply NoDup_Permutation; assumption. Qed.

Definition sizeN (b : buckets) : N := N.of_nat (length (tracked b)).

Theorem incr_correct cap b k : 1 <= cap -> W b -> sizeN b <= cap ->
  let b' := incr cap b k in
  W b' /\ sizeN b' <= cap /\
  freq_of b' k = Some (match freq_of b k with Some f => f + 1 | None => 1 end) /\
  ((forall k', k' <> k -> freq_of b' k' = freq_of b k') \/
   (exists v fv, freq_of b k = None /\ sizeN b = cap /\ freq_of b v = Some fv /\
                 (forall x f, freq_of b x = Some f -> fv <= f) /\
                 freq_of b' v = None /\ forall k', k' <> k -> k' <> v -> freq_of b' k' = freq_of b k')).
Proof.
  intros Hcap HW Hsz. cbn zeta. unfold incr. destruct (N.eqb_spec cap 0); [lia|].
  destruct (mem_key k (tracked b)) eqn:Ek.
  - apply mem_key_In in Ek. destruct (freq_of_in b k Ek) as [f Hf]. destruct HW as [Ha Hnd].
    destruct (increment_spec b 0 k f Ha Hnd Hf) as [A1 [A2 [A3 [A4 A5]]]]. rewrite Hf.
    split; [split; assumption|]. split; [|split; [exact A4 | left; exact A5]].
    unfold sizeN in *. rewrite (same_set_length _ _ A3 Hnd A2). exact Hsz.
  - apply mem_key_false in Ek. rewrite (freq_of_notin b k Ek).
    destruct (N.leb_spec cap (N.of_nat (length (tracked b)))) as [Hfull|Hroom].
    + (* full: evict the head item of the lowest frequency node first *)
      assert (Hne : b <> []).
      { intros ->. cbn in Hfull. lia. }
      destruct (evict_spec b HW Hne) as [v [Ev [HW1 [T1 [F1 [fv [Fv Hmin]]]]]]].
      assert (Hk1 : ~ In k (tracked (evict b))) by (intros Hi; apply T1 in Hi; tauto).
      destruct (add_new_spec (evict b) k HW1 Hk1) as [HW2 [T2 [F2 F3]]].
      split; [exact HW2|]. split; [|split; [exact F2|]].
      * (* size: one out, one in *)
        unfold sizeN in *.
        assert (Hv : In v (tracked b)).
        { destruct (in_dec N.eq_dec v (tracked b)) as [Hi|Hn]; [exact Hi|]. rewrite (freq_of_notin b v Hn) in Fv. discriminate. }
        assert (Hlen : length (tracked (add_new (evict b) k)) = length (tracked b)).
        { destruct HW as [_ Hnd]. destruct HW2 as [_ Hnd2].
          assert (E : length (tracked (add_new (evict b) k)) = length (k :: tracked (evict b))).
          { apply same_set_length; [exact Hnd2 | constructor; [exact Hk1 | apply HW1] |].
            intros x. rewrite T2. cbn [In]. split; intros [H|H]; auto. }
          assert (E2 : length (v :: tracked (evict b)) = length (tracked b)).
          { apply same_set_length; [constructor; [intros Hi; apply T1 in Hi; tauto | apply HW1] | exact Hnd |].
            intros x. cbn [In]. rewrite T1. split.
            - intros [<-|[H _]]; assumption.
            - intros H. destruct (N.eq_dec v x) as [->|Hx]; [left; reflexivity | right; split; [exact H | congruence]]. }
          cbn [length] in E, E2. lia. }
        rewrite Hlen. exact Hsz.
      * right. exists v, fv. split; [reflexivity|]. split; [unfold sizeN in *; lia|]. split; [exact Fv|]. split; [exact Hmin|].
        split.
        -- destruct (N.eq_dec v k) as [->|Hvk]; [exfalso; apply Ek; destruct (in_dec N.eq_dec k (tracked b)) as [Hi|Hn]; [exact Hi | rewrite (freq_of_notin b k Hn) in Fv; discriminate]|].
           rewrite F3 by exact Hvk. apply freq_of_notin. intros Hi. apply T1 in Hi. tauto.
        -- intros k' H1 H2. rewrite F3 by exact H1. apply F1. exact H2.
    + destruct (add_new_spec b k HW Ek) as [HW2 [T2 [F2 F3]]].
      split; [exact HW2|]. split; [|split; [exact F2 | left; exact F3]].
      unfold sizeN in *.
      assert (E : length (tracked (add_new b k)) = length (k :: tracked b)).
      { apply same_set_length; [apply HW2 | constructor; [exact Ek | apply HW] |].
        intros x. rewrite T2. cbn [In]. split; intros [H|H]; auto. }
      rewrite E. cbn [length]. lia.
Qed.

(* every reachable counter state is well shaped and within capacity *)
Definition crun (cap : N) (ops : list cop) : buckets := fold_left (cstep cap) ops [].

Lemma W_nil : W [] /\ sizeN [] <= 0.
Proof. split; [split; [exact I | constructor] | cbn; lia]. Qed.

Theorem reachable_ok cap ops : 1 <= cap -> W (crun cap ops) /\ sizeN (crun cap ops) <= cap.
Proof.
  intros Hc. unfold crun.
  assert (G : forall b, W b /\ sizeN b <= cap -> W (fold_left (cstep cap) ops b) /\ sizeN (fold_left (cstep cap) ops b) <= cap).
  { induction ops as [|o ops IH]; intros b H; cbn [fold_left]; [exact H|]. apply IH. destruct H as [H1 H2].
    destruct o as [k| |]; cbn [cstep].
    - destruct (incr_correct cap b k Hc H1 H2) as [A [B _]]. split; assumption.
    - destruct W_nil as [A B]. split; [exact A | lia].
    - destruct W_nil as [A B]. split; [exact A | lia]. }
  apply G. destruct W_nil as [A B]. split; [exact A | lia].
Qed.

(* ---------- the collector's report ---------- *)
From Coq Require Import Sorted.

Definition ge_val (x y : hk) : Prop := hk_val y <= hk_val x.
Definition sorted_desc (l : list hk) : Prop := StronglySorted ge_val l.

Lemma ss_app (a b : list hk) : sorted_desc a -> sorted_desc b -> (forall x y, In x a -> In y b -> ge_val x y) -> sorted_desc (a ++ b).
Proof.
  induction a as [|x a IH]; intros Ha Hb H; cbn [app]; [exact Hb|].
  inversion Ha as [|? ? Hs Hf]; subst. constructor.
  - apply IH; [exact Hs | exact Hb | intros u v Hu Hv; apply H; [right; exact Hu | exact Hv]].
  - apply Forall_app. split; [exact Hf|]. apply Forall_forall. intros y Hy. apply H; [left; reflexivity | exact Hy].
Qed.

Lemma ss_sub (a b : list hk) : sorted_desc (a ++ b) -> sorted_desc a /\ sorted_desc b /\ (forall x y, In x a -> In y b -> ge_val x y).
Proof.
  induction a as [|x a IH]; cbn [app]; intros H.
  - split; [constructor|]. split; [exact H | intros x y []].
  - inversion H as [|? ? Hs Hf]; subst. destruct (IH Hs) as [I1 [I2 I3]]. rewrite Forall_forall in Hf.
    split; [constructor; [exact I1 | apply Forall_forall; intros y Hy; apply Hf; apply in_or_app; left; exact Hy]|].
    split; [exact I2|]. intros u v [->|Hu] Hv; [apply Hf; apply in_or_app; right; exact Hv | apply I3; assumption].
Qed.

Lemma search_pos_spec data v : sorted_desc data ->
  (forall x, In x (firstn (search_pos data v) data) -> v < hk_val x) /\
  (forall y, In y (skipn (search_pos data v) data) -> hk_val y <= v).
Proof.
  induction data as [|x t IH]; intros Hs; cbn [search_pos]; [split; intros ? []|].
  inversion Hs as [|? ? Hst Hf]; subst. destruct (N.leb_spec (hk_val x) v) as [Hle|Hgt].
  - cbn [firstn skipn]. split; [intros ? []|]. intros y [<-|Hy]; [exact Hle|].
    rewrite Forall_forall in Hf. specialize (Hf y Hy). unfold ge_val in Hf. lia.
  - cbn [firstn skipn]. destruct (IH Hst) as [I1 I2]. split; [|exact I2].
    intros z [<-|Hz]; [exact Hgt | apply I1; exact Hz].
Qed.

Lemma removelast_sub {A} (l : list A) x : In x (removelast l) -> In x l.
Proof.
  induction l as [|y l IH]; cbn [removelast]; [intros []|]. destruct l as [|z l]; [intros []|].
  intros [->|H]; [left; reflexivity | right; apply IH; exact H].
Qed.

Lemma ss_removelast l : sorted_desc l -> sorted_desc (removelast l).
Proof.
  induction l as [|y l IH]; cbn [removelast]; intros H; [constructor|]. destruct l as [|z l]; [constructor|].
  inversion H as [|? ? Hs Hf]; subst. constructor; [apply IH; exact Hs|].
  rewrite Forall_forall in *. intros u Hu. apply Hf. apply removelast_sub. exact Hu.
Qed.

(* Insert keeps the list in non-increasing order of heat, within capacity, and adds no other name *)
Theorem insert_ok cap data k : sorted_desc data -> N.of_nat (length data) <= cap ->
  sorted_desc (insert_hk cap data k) /\ N.of_nat (length (insert_hk cap data k)) <= cap /\
  (forall x, In x (insert_hk cap data k) -> x = k \/ In x data).
Proof.
  intros Hs Hl. unfold insert_hk. set (i := search_pos data (hk_val k)).
  destruct (search_pos_spec data (hk_val k) Hs) as [P1 P2]. fold i in P1, P2.
  pose proof (firstn_skipn i data) as Hfs.
  assert (Hss : sorted_desc (firstn i data ++ skipn i data)) by (rewrite Hfs; exact Hs).
  destruct (ss_sub _ _ Hss) as [S1 [S2 S3]].
  assert (Hmid : forall rest, sorted_desc rest -> (forall y, In y rest -> In y (skipn i data)) -> sorted_desc (firstn i data ++ k :: rest)).
  { intros rest Hr Hsub. apply ss_app; [exact S1 | |].
    - constructor; [exact Hr|]. apply Forall_forall. intros y Hy. unfold ge_val. apply P2. apply Hsub. exact Hy.
    - intros x y Hx [<-|Hy]; [unfold ge_val; specialize (P1 x Hx); lia | apply S3; [exact Hx | apply Hsub; exact Hy]]. }
  destruct (N.ltb_spec (N.of_nat (length data)) cap) as [Hroom|Hfull].
  - split; [apply Hmid; [exact S2 | auto]|]. split.
    + rewrite app_length. cbn [length]. rewrite <- Hfs in Hroom at 1. rewrite app_length in Hroom. lia.
    + intros x Hx. apply in_app_or in Hx. destruct Hx as [Hx|[<-|Hx]]; [right; rewrite <- Hfs; apply in_or_app; left; exact Hx | left; reflexivity | right; rewrite <- Hfs; apply in_or_app; right; exact Hx].
  - destruct (Nat.ltb_spec i (length data)) as [Hlt|Hge].
    + split; [apply Hmid; [apply ss_removelast; exact S2 | intros y Hy; apply removelast_sub; exact Hy]|]. split.
      * rewrite app_length. cbn [length].
        assert (Hsk : skipn i data <> []).
        { intros E. apply (f_equal (@length hk)) in E. rewrite skipn_length in E. cbn in E. lia. }
        assert (Hrl : length (removelast (skipn i data)) = (length (skipn i data) - 1)%nat).
        { destruct (exists_last Hsk) as [l' [a E]]. rewrite E. rewrite removelast_last, app_length. cbn. lia. }
        rewrite Hrl, firstn_length, skipn_length. lia.
      * intros x Hx. apply in_app_or in Hx. destruct Hx as [Hx|[<-|Hx]]; [right; rewrite <- Hfs; apply in_or_app; left; exact Hx | left; reflexivity |].
        right. rewrite <- Hfs. apply in_or_app. right. apply removelast_sub. exact Hx.
    + split; [exact Hs|]. split; [exact Hl | intros x Hx; right; exact Hx].
Qed.

Lemma insert_desc_sorted k l : sorted_desc l -> sorted_desc (insert_desc k l) /\ (forall x, In x (insert_desc k l) <-> x = k \/ In x l).
Proof.
  induction l as [|x t IH]; intros Hs; cbn [insert_desc].
  - split; [constructor; [constructor | constructor]|]. intros y. cbn [In]. split; [intros [H|[]]; left; symmetry; exact H | intros [H|[]]; left; symmetry; exact H].
  - inversion Hs as [|? ? Hst Hf]; subst. destruct (N.leb_spec (hk_val x) (hk_val k)) as [Hle|Hgt].
    + split; [|intros y; cbn [In]; split; [intros [H|H]; [left; symmetry; exact H | right; exact H] | intros [H|H]; [left; symmetry; exact H | right; exact H]]]. constructor; [exact Hs|]. constructor; [exact Hle|].
      rewrite Forall_forall in *. intros y Hy. specialize (Hf y Hy). unfold ge_val in *. lia.
    + destruct (IH Hst) as [I1 I2]. split.
      * constructor; [exact I1|]. apply Forall_forall. intros y Hy. apply I2 in Hy. destruct Hy as [->|Hy]; [unfold ge_val; lia|].
        rewrite Forall_forall in Hf. apply Hf. exact Hy.
      * intros y. cbn [In]. rewrite I2. split; [intros [H|[H|H]]; auto | intros [H|[H|H]]; auto].
Qed.

Lemma sort_desc_ok l : sorted_desc (sort_desc l) /\ (forall x, In x (sort_desc l) <-> In x l).
Proof.
  induction l as [|k l [I1 I2]]; cbn [sort_desc fold_right]; [split; [constructor | tauto]|].
  destruct (insert_desc_sorted k (sort_desc l) I1) as [A B]. split; [exact A|].
  intros x. fold (sort_desc l). rewrite B, I2. cbn [In]. split; intros [H|H]; auto.
Qed.

(* the report after a stale eviction: ordered by non-increasing heat, no entry with heat 0, only keys that
   were there (possibly halved) *)
Theorem evict_stale_ok now data :
  sorted_desc (evict_stale now data) /\
  (forall x, In x (evict_stale now data) -> hk_val x <> 0 /\ exists y, In y data /\ hk_name x = hk_name y /\ hk_val x <= hk_val y) /\
  (length (evict_stale now data) <= length data)%nat.
Proof.
  unfold evict_stale. destruct (sort_desc_ok (filter (fun k => negb (hk_val k =? 0)) (map (halve now) data))) as [S1 S2].
  split; [exact S1|]. split.
  - intros x Hx. apply S2 in Hx. apply filter_In in Hx. destruct Hx as [Hx Hnz]. apply negb_true_iff in Hnz. apply N.eqb_neq in Hnz.
    split; [exact Hnz|]. apply in_map_iff in Hx. destruct Hx as [y [E Hy]]. exists y. split; [exact Hy|]. subst x. unfold halve.
    destruct ((hk_lut y <? now) && negb (hk_val y =? 0)); cbn [hk_name hk_val]; split; try reflexivity; try lia.
    apply N.div_le_upper_bound; lia.
  - assert (Hlen : forall l, length (sort_desc l) = length l).
    { induction l as [|k l IH]; [reflexivity|]. cbn [sort_desc fold_right]. fold (sort_desc l).
      assert (G : forall k s, length (insert_desc k s) = S (length s)).
      { intros k0 s. induction s as [|x t IHs]; [reflexivity|]. cbn [insert_desc]. destruct (hk_val x <=? hk_val k0); cbn [length]; [reflexivity | rewrite IHs; reflexivity]. }
      rewrite G, IH. reflexivity. }
    rewrite Hlen. rewrite <- (map_length (halve now) data).
    generalize (map (halve now) data). intros l. induction l as [|x l IHl]; [apply Nat.le_refl|].
    cbn [filter length]. destruct (negb (hk_val x =? 0)); cbn [length]; lia.
Qed.
