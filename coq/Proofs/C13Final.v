(* C13 lemmas instantiated with the tables regenerated from filter_compress.go; the compressor
   stays abstract (any comp/decomp with decomp (comp x) = Some x). *)
From Coq Require Import List NArith Bool String.
From Sam Require Import Gen.Tables Model.Bytes Model.Resp Model.Text Model.Dispatch Model.Compress Proofs.CompressProofs.
Import ListNotations.
Open Scope list_scope.
Open Scope N_scope.

Definition magic : bytes := bytes_of_string cps_magic.
Definition hdr : bytes := header magic.

Section WithCompressor.
  Variable comp : bytes -> bytes.
  Variable decomp : bytes -> option bytes.
  Hypothesis decomp_comp : forall x, decomp (comp x) = Some x.

  Definition cv := compress_value comp magic.
  Definition dv := decompress_value decomp magic.
  Definition fdo := filter_do comp magic cps_commands cps_offsets banned_cmds_in_cps wk_skip_check_cmds.

  Lemma readback thr v : is_prefix hdr v = false -> dv (cv thr v) = v.
  Proof. exact (readback_value comp decomp decomp_comp magic thr v). Qed.

  Lemma readback_off v : is_prefix hdr v = false -> dv v = v.
  Proof. exact (readback_uncompressed decomp magic v). Qed.

  Lemma stored thr v :
    cv thr v = v \/ (cv thr v = hdr ++ comp v /\ decomp (comp v) = Some v /\ lenN (hdr ++ comp v) < lenN v /\ thr <= lenN v).
  Proof. exact (stored_shape comp decomp decomp_comp magic thr v). Qed.

  Lemma resend cfg cfg' cmd r r1 : present cfg = true ->
    fdo cfg cmd r = FContinue r1 -> c_filtered r = false -> fdo cfg' cmd r1 = FContinue r1.
  Proof. exact (resend_unchanged comp magic cps_commands cps_offsets banned_cmds_in_cps wk_skip_check_cmds cfg cfg' cmd r r1). Qed.

  Lemma banned cfg c r : present cfg = true -> enable cfg = true -> c_filtered r = false ->
    mem_s c banned_cmds_in_cps = true -> exists e, fdo cfg (Some c) r = FStop e.
  Proof. exact (banned_rejected comp magic cps_commands cps_offsets banned_cmds_in_cps wk_skip_check_cmds cfg c r). Qed.

  Lemma hook cfg cmd r r1 : present cfg = true -> c_filtered r = false ->
    (match cmd with Some c => mem_s c wk_skip_check_cmds = false | None => True end) ->
    fdo cfg cmd r = FContinue r1 -> c_hook r1 = true.
  Proof. exact (hook_registered comp magic cps_commands cps_offsets banned_cmds_in_cps wk_skip_check_cmds cfg cmd r r1). Qed.
End WithCompressor.

(* the regenerated tables: value positions per command, the disabled commands, and no read command
   whose reply carries stored values skips the decompression hook *)
Lemma tables :
  cps_magic = "(P$"%string /\
  map (fun c => (c, offset_of c cps_commands cps_offsets))
      ["set"; "getset"; "setnx"; "setex"; "psetex"; "hset"; "hmset"; "hsetnx"]%string
  = [("set", Some 2); ("getset", Some 2); ("setnx", Some 2); ("setex", Some 3); ("psetex", Some 3);
     ("hset", Some 3); ("hmset", Some 3); ("hsetnx", Some 3)]%string /\
  forallb (fun c => negb (mem_s c wk_skip_check_cmds)) ["get"; "mget"; "getset"; "hget"; "hmget"; "hgetall"; "hvals"]%string = true /\
  forallb (fun c => mem_s c banned_cmds_in_cps) ["append"; "eval"; "setbit"; "getbit"; "setrange"; "getrange"]%string = true.
Proof. vm_compute. repeat split. Qed.

(* non-vacuity with a toy run-length compressor: a long constant value is stored framed and reads back *)
Definition toy_comp (v : bytes) : bytes := match v with [] => [] | x :: _ => [x; lenN v] end.
Definition toy_decomp (z : bytes) : option bytes :=
  match z with [] => Some [] | [x; n] => Some (repeat x (N.to_nat n)) | _ => None end.
Lemma toy_example :
  let v := repeat 48 40 in
  compress_value toy_comp magic 16 v = hdr ++ [48; 40] /\
  decompress_value toy_decomp magic (compress_value toy_comp magic 16 v) = v.
Proof. vm_compute. split; reflexivity. Qed.
