(* The chunked reader (window + source oracle) refines the flat reader: every operation
   returns what the flat operation returns on  win ++ src , for every buffer size B >= 1,
   every oracle of read sizes and every end-of-source error. *)
From Coq Require Import List NArith ZArith Bool Lia.
From Sam Require Import Model.Bytes Model.Reader Proofs.BytesProofs.
Import ListNotations.
Open Scope N_scope.

Lemma find_byte_prefix c a b i : find_byte c a = Some i -> find_byte c (a ++ b) = Some i.
Proof.
  intros H. destruct (find_byte_some _ _ _ H) as [p [q [E [Hn Hl]]]]. subst a.
  rewrite <- app_assoc. cbn [app]. rewrite find_byte_app by exact Hn. congruence.
Qed.

Lemma find_byte_lt c a i : find_byte c a = Some i -> i < lenN a.
Proof.
  intros H. destruct (find_byte_some _ _ _ H) as [p [q [E [Hn Hl]]]]. subst a.
  rewrite lenN_app, lenN_cons. lia.
Qed.

Lemma takeN_split {A} n k (l : list A) : k <= n -> takeN n l = takeN k l ++ takeN (n - k) (dropN k l).
Proof.
  intros H. rewrite <- (take_drop k l) at 1.
  destruct (N.le_gt_cases (lenN l) k) as [Hl|Hl].
  - rewrite (takeN_all k l) by exact Hl. rewrite (dropN_all k l) by exact Hl.
    rewrite app_nil_r. cbn [takeN]. rewrite app_nil_r. apply takeN_all. lia.
  - rewrite takeN_app_r by (rewrite lenN_takeN; lia). f_equal. f_equal. rewrite lenN_takeN. lia.
Qed.

Ltac simp := cbn [fst snd win cerr src sizes send stream ferr fend set_err set_win f_fail f_set app].
Tactic Notation "simp" "in" hyp(H) := cbn [fst snd win cerr src sizes send stream ferr fend set_err set_win f_fail f_set app] in H.

Section Refine.
  Variable B : N.
  Hypothesis HB : 1 <= B.
  Variable F : nat.

  (* the simulation relation; the fuel F exceeds the number of bytes still to come *)
  Definition R (s : crd) (f : frd) : Prop :=
    send s = fend f /\ cerr s = ferr f /\ lenN (win s) <= B /\
    (cerr s = None -> win s ++ src s = stream f /\ lenN (stream f) < N.of_nat F).

  Lemma deliver_bounds cap s : 1 <= cap -> 1 <= deliver cap s <= cap.
  Proof. intros H. unfold deliver. destruct (sizes s); lia. Qed.

  (* fill on a reader without error and with free space *)
  Lemma fill_spec s : cerr s = None -> lenN (win s) < B ->
    match src s with
    | [] => fill B s = set_err s (send s)
    | _ => exists k, 1 <= k /\ k <= B - lenN (win s) /\
           fill B s = {| win := win s ++ takeN k (src s); cerr := None; src := dropN k (src s);
                         sizes := tl (sizes s); send := send s |}
    end.
  Proof.
    intros He Hl. unfold fill. rewrite He.
    destruct (N.eqb_spec (B - lenN (win s)) 0); [lia|].
    pose proof (deliver_bounds (B - lenN (win s)) s) as Hd.
    destruct (src s) as [|y r] eqn:Es.
    - reflexivity.
    - exists (deliver (B - lenN (win s)) s). split; [lia|]. split; [lia|]. reflexivity.
  Qed.

  Lemma R_err s f e : R s f -> cerr s = Some e -> ferr f = Some e.
  Proof. intros [_ [H _]] He. congruence. Qed.

  Lemma R_set_err s f : R s f -> cerr s = None -> R (set_err s (send s)) (f_fail f).
  Proof.
    intros [H1 [H2 [H3 H4]]] He. unfold R. simp.
    repeat split; try assumption; try congruence; discriminate.
  Qed.

  (* ---- PeekByte / ReadByte ---- *)
  Lemma peek_refines s f : R s f ->
    fst (c_peek B s) = fst (f_peek f) /\ R (snd (c_peek B s)) (snd (f_peek f)).
  Proof.
    intros HR. pose proof HR as [H1 [H2 [H3 H4]]]. unfold c_peek, f_peek.
    destruct (cerr s) as [e|] eqn:He.
    - rewrite <- H2. simp. split; [reflexivity | exact HR].
    - rewrite <- H2. destruct (H4 eq_refl) as [Hs Hf].
      destruct (win s) as [|x w] eqn:Ew.
      + simp in Hs. pose proof (fill_spec s He) as Hfill. rewrite Ew in Hfill. cbn [lenN] in Hfill.
        specialize (Hfill ltac:(lia)).
        destruct (src s) as [|y r] eqn:Es.
        * rewrite Hfill. simp. rewrite <- Hs. simp. split; [congruence|].
          apply R_set_err; assumption.
        * destruct Hfill as [k [Hk1 [Hk2 Hfill]]]. rewrite Hfill. simp.
          rewrite takeN_cons by lia. rewrite <- Hs. simp.
          split; [reflexivity|]. unfold R. simp. repeat split; try assumption.
          -- rewrite lenN_cons, lenN_takeN. lia.
          -- rewrite dropN_cons by lia. rewrite take_drop. exact Hs.
      + rewrite He, Ew. rewrite <- Hs. simp. split; [reflexivity|exact HR].
  Qed.

  Lemma R_drop s f k : R s f -> cerr s = None -> k <= lenN (win s) ->
    R (set_win s (dropN k (win s))) (f_set f (dropN k (stream f))).
  Proof.
    intros [H1 [H2 [H3 H4]]] He Hk. destruct (H4 He) as [Hs Hf].
    unfold R. simp. repeat split; try assumption.
    - rewrite lenN_dropN. lia.
    - rewrite <- Hs. rewrite dropN_app_l by exact Hk. reflexivity.
    - rewrite lenN_dropN. lia.
  Qed.

  Lemma rbyte_refines s f : R s f ->
    fst (c_rbyte B s) = fst (f_rbyte f) /\ R (snd (c_rbyte B s)) (snd (f_rbyte f)).
  Proof.
    intros HR. pose proof HR as [H1 [H2 [H3 H4]]]. unfold c_rbyte, f_rbyte.
    destruct (cerr s) as [e|] eqn:He.
    - rewrite <- H2. simp. split; [reflexivity | exact HR].
    - rewrite <- H2. destruct (H4 eq_refl) as [Hs Hf].
      destruct (win s) as [|x w] eqn:Ew.
      + simp in Hs. pose proof (fill_spec s He) as Hfill. rewrite Ew in Hfill. cbn [lenN] in Hfill.
        specialize (Hfill ltac:(lia)).
        destruct (src s) as [|y r] eqn:Es.
        * rewrite Hfill. simp. rewrite <- Hs. simp. split; [congruence|].
          apply R_set_err; assumption.
        * destruct Hfill as [k [Hk1 [Hk2 Hfill]]]. rewrite Hfill. simp.
          rewrite takeN_cons by lia. rewrite <- Hs. simp.
          split; [reflexivity|]. unfold R. simp. repeat split; try assumption.
          -- rewrite lenN_takeN. lia.
          -- rewrite dropN_cons by lia. apply take_drop.
          -- rewrite <- Hs in Hf. rewrite lenN_cons in Hf. lia.
      + rewrite He, Ew. rewrite <- Hs. simp.
        split; [reflexivity|].
        pose proof (R_drop s f 1 HR He) as Hd. rewrite Ew in Hd. rewrite lenN_cons in Hd. specialize (Hd ltac:(lia)).
        rewrite <- Hs in Hd. simp in Hd. rewrite !dropN_cons, !dropN_0 in Hd by lia. exact Hd.
  Qed.

  (* ---- ReadSlice ---- *)
  Lemma rslice_loop_refines fuel : forall s f, R s f -> cerr s = None -> lenN (src s) < N.of_nat fuel ->
    fst (c_rslice_loop B fuel s) = fst (f_rslice B f) /\ R (snd (c_rslice_loop B fuel s)) (snd (f_rslice B f)).
  Proof.
    induction fuel as [|fuel IH]; intros s f HR He Hfu; [lia|].
    pose proof HR as [H1 [H2 [H3 H4]]]. destruct (H4 He) as [Hs Hf].
    cbn [c_rslice_loop]. unfold f_rslice. rewrite <- H2, He.
    assert (Ht : takeN B (stream f) = win s ++ takeN (B - lenN (win s)) (src s)).
    { rewrite <- Hs. apply takeN_app_r. exact H3. }
    destruct (find_byte LF (win s)) as [i|] eqn:Efind.
    - rewrite Ht. rewrite (find_byte_prefix _ _ _ _ Efind). simp.
      pose proof (find_byte_lt _ _ _ Efind) as Hi.
      split.
      + rewrite <- Hs. rewrite takeN_app_l by lia. reflexivity.
      + apply R_drop; [exact HR | exact He | lia].
    - destruct (N.eqb_spec (lenN (win s)) B) as [Efull|Nfull].
      + rewrite Ht. replace (B - lenN (win s)) with 0 by lia. rewrite takeN_0, app_nil_r, Efind.
        rewrite has_len_spec. destruct (N.leb_spec B (lenN (stream f))) as [_|Hc];
          [|rewrite <- Hs, lenN_app in Hc; lia].
        simp. split; [reflexivity|].
        pose proof (R_drop s f B HR He ltac:(lia)) as Hd.
        rewrite dropN_all in Hd by lia. exact Hd.
      + pose proof (fill_spec s He ltac:(lia)) as Hfill.
        destruct (src s) as [|y r] eqn:Es.
        * rewrite Hfill. simp. rewrite Ht. rewrite takeN_0 || cbn [takeN]. rewrite app_nil_r, Efind.
          rewrite has_len_spec. destruct (N.leb_spec B (lenN (stream f))) as [Hc|_].
          { rewrite <- Hs, app_nil_r in Hc. lia. }
          simp. split; [congruence|]. apply R_set_err; assumption.
        * destruct Hfill as [k [Hk1 [Hk2 Hfill]]]. rewrite Hfill. simp.
          set (s1 := {| win := win s ++ takeN k (y :: r); cerr := None; src := dropN k (y :: r);
                        sizes := tl (sizes s); send := send s |}).
          assert (HR1 : R s1 f).
          { unfold R, s1. simp. repeat split; try assumption.
            - congruence.
            - rewrite lenN_app, lenN_takeN. lia.
            - rewrite <- app_assoc, take_drop. exact Hs. }
          specialize (IH s1 f HR1 eq_refl).
          assert (Hfu1 : lenN (src s1) < N.of_nat fuel).
          { unfold s1. simp. rewrite lenN_dropN. rewrite lenN_cons in *. lia. }
          specialize (IH Hfu1). unfold f_rslice in IH. rewrite <- H2, He in IH. exact IH.
  Qed.

  Lemma rslice_refines s f : R s f -> (lenN (stream f) < N.of_nat F -> True) ->
    fst (c_rslice B F s) = fst (f_rslice B f) /\ R (snd (c_rslice B F s)) (snd (f_rslice B f)).
  Proof.
    intros HR _. pose proof HR as [H1 [H2 [H3 H4]]]. unfold c_rslice.
    destruct (cerr s) as [e|] eqn:He.
    - unfold f_rslice. rewrite <- H2. simp. split; [reflexivity|exact HR].
    - destruct (H4 eq_refl) as [Hs Hf]. apply rslice_loop_refines; [exact HR | exact He |].
      rewrite <- Hs, lenN_app in Hf. lia.
  Qed.

  (* ---- ReadBytes ---- *)
  Definition prepend (acc : bytes) (r : res bytes) : res bytes :=
    match r with Ok l => Ok (acc ++ l) | Fail e => Fail e end.

  Lemma f_set_set f a b : f_set (f_set f a) b = f_set f b.
  Proof. reflexivity. Qed.
  Lemma f_fail_set f a : f_fail (f_set f a) = f_fail f.
  Proof. reflexivity. Qed.

  Lemma f_rbytes_via_slice f : ferr f = None ->
    match f_rslice B f with
    | (Line l, f1) => f_rbytes f = (Ok l, f1)
    | (Full frag, f1) => ferr f1 = None /\ lenN (stream f1) < lenN (stream f) /\ fend f1 = fend f /\
                         f_rbytes f = (prepend frag (fst (f_rbytes f1)), snd (f_rbytes f1))
    | (SErr e, f1) => f_rbytes f = (Fail e, f1)
    end.
  Proof.
    intros He. unfold f_rslice, f_rbytes at 1. rewrite He.
    destruct (find_byte LF (takeN B (stream f))) as [i|] eqn:Efind.
    - replace (find_byte LF (stream f)) with (find_byte LF (takeN B (stream f) ++ dropN B (stream f)))
        by (rewrite take_drop; reflexivity).
      rewrite (find_byte_prefix _ _ _ _ Efind). reflexivity.
    - rewrite has_len_spec. destruct (N.leb_spec B (lenN (stream f))) as [Hlen|Hlen].
      + simp. split; [reflexivity|]. split; [rewrite lenN_dropN; lia|]. split; [reflexivity|].
        apply find_byte_none in Efind.
        unfold f_rbytes at 1. rewrite He.
        replace (find_byte LF (stream f)) with (find_byte LF (takeN B (stream f) ++ dropN B (stream f)))
          by (rewrite take_drop; reflexivity).
        rewrite (find_byte_app_notin _ _ _ Efind).
        unfold f_rbytes. simp.
        destruct (find_byte LF (dropN B (stream f))) as [j|] eqn:Ej; simp; unfold prepend.
        * assert (Hl : lenN (takeN B (stream f)) = B) by (rewrite lenN_takeN; lia).
          rewrite Hl. f_equal.
          -- f_equal. rewrite (takeN_split (B + j + 1) B) by lia. f_equal. f_equal. lia.
          -- rewrite f_set_set. f_equal. rewrite dropN_dropN. f_equal. lia.
        * reflexivity.
      + rewrite takeN_all in Efind by lia. unfold f_rbytes. rewrite He, Efind. reflexivity.
  Qed.

  Lemma rbytes_loop_refines fuel : forall s f acc, R s f -> (0 < fuel)%nat ->
    (cerr s = None -> lenN (stream f) < N.of_nat fuel) ->
    fst (c_rbytes_loop B F fuel s acc) = prepend acc (fst (f_rbytes f)) /\
    R (snd (c_rbytes_loop B F fuel s acc)) (snd (f_rbytes f)).
  Proof.
    induction fuel as [|fuel IH]; intros s f acc HR Hpos Hfu; [lia|].
    pose proof HR as [H1 [H2 [H3 H4]]].
    cbn [c_rbytes_loop].
    pose proof (rslice_refines s f HR (fun _ => I)) as [Hr1 Hr2].
    destruct (cerr s) as [e|] eqn:He.
    - unfold c_rslice in *. rewrite He in *. unfold f_rbytes. rewrite <- H2. simp.
      split; [reflexivity | exact HR].
    - pose proof (f_rbytes_via_slice f ltac:(congruence)) as Hv.
      destruct (c_rslice B F s) as [r1 s1]. destruct (f_rslice B f) as [r2 f1]. simp in Hr1. simp in Hr2.
      subst r2. destruct r1 as [l|frag|e].
      + rewrite Hv. simp. split; [reflexivity | exact Hr2].
      + destruct Hv as [Hv1 [Hv2 [Hv3 Hv4]]]. rewrite Hv4. simp.
        specialize (Hfu eq_refl).
        destruct fuel as [|fuel'].
        { (* one unit of fuel left but the stream is non-empty: impossible *) lia. }
        specialize (IH s1 f1 (acc ++ frag) Hr2 ltac:(lia)).
        destruct IH as [I1 I2]; [intros _; lia|].
        split; [|exact I2]. rewrite I1. unfold prepend. destruct (fst (f_rbytes f1)); [rewrite app_assoc|]; reflexivity.
      + rewrite Hv. simp. split; [reflexivity | exact Hr2].
  Qed.

  Lemma rbytes_refines s f : R s f -> (0 < F)%nat ->
    fst (c_rbytes B F s) = fst (f_rbytes f) /\ R (snd (c_rbytes B F s)) (snd (f_rbytes f)).
  Proof.
    intros HR HF. unfold c_rbytes.
    destruct (rbytes_loop_refines F s f [] HR HF) as [H1 H2].
    - intros He. destruct HR as [_ [_ [_ H4]]]. apply H4. exact He.
    - split; [|exact H2]. rewrite H1. unfold prepend. destruct (fst (f_rbytes f)); reflexivity.
  Qed.

  (* ---- ReadFull ---- *)
  Definition rfull_spec (need : N) (f : frd) (acc : bytes) (r : res bytes * crd) : Prop :=
    if need <=? lenN (stream f)
    then fst r = Ok (acc ++ takeN need (stream f)) /\ R (snd r) (f_set f (dropN need (stream f)))
    else fst r = Fail (match acc, stream f with [], [] => fend f | _, _ => partial_err (fend f) end) /\
         R (snd r) (f_fail f).

  Lemma consume_step fuel
    (IH : forall need s f acc, R s f -> cerr s = None -> lenN (stream f) < N.of_nat fuel ->
                               rfull_spec need f acc (c_rfull_loop B fuel need s acc))
    need s' f acc k :
    1 <= k -> k <= need -> k <= lenN (stream f) ->
    R s' (f_set f (dropN k (stream f))) -> cerr s' = None ->
    lenN (stream f) < N.of_nat (S fuel) ->
    rfull_spec need f acc (c_rfull_loop B fuel (need - k) s' (acc ++ takeN k (stream f))).
  Proof.
    intros Hk1 Hk2 Hk3 HR' He' Hfu.
    specialize (IH (need - k) s' (f_set f (dropN k (stream f))) (acc ++ takeN k (stream f)) HR' He').
    simp in IH. rewrite lenN_dropN in IH. specialize (IH ltac:(lia)).
    unfold rfull_spec in *. simp in IH. rewrite lenN_dropN in IH.
    destruct (N.leb_spec need (lenN (stream f))) as [Hle|Hgt].
    - destruct (N.leb_spec (need - k) (lenN (stream f) - k)) as [_|Hc]; [|lia].
      destruct IH as [I1 I2]. split.
      + rewrite I1. rewrite <- app_assoc. f_equal. f_equal. symmetry. apply takeN_split. exact Hk2.
      + rewrite f_set_set in I2. rewrite dropN_dropN in I2. replace (k + (need - k)) with need in I2 by lia. exact I2.
    - destruct (N.leb_spec (need - k) (lenN (stream f) - k)) as [Hc|_]; [lia|].
      destruct IH as [I1 I2]. split; [|rewrite f_fail_set in I2; exact I2].
      rewrite I1. f_equal.
      assert (Hne : takeN k (stream f) <> []).
      { intros E. apply (f_equal lenN) in E. rewrite lenN_takeN in E. cbn [lenN] in E. lia. }
      destruct (stream f) as [|y r]; [cbn [lenN] in Hk3; lia|].
      destruct (acc ++ takeN k (y :: r)) as [|a0 l0] eqn:Ea.
      + apply app_eq_nil in Ea. destruct Ea as [_ Ea]. contradiction.
      + destruct acc; reflexivity.
  Qed.

  Lemma R_same s f : R s f -> cerr s = None -> R s (f_set f (stream f)).
  Proof. intros [H1 [H2 [H3 H4]]] He. unfold R. simp. repeat split; try assumption; apply H4; assumption. Qed.

  Lemma rfull_loop_refines fuel : forall need s f acc, R s f -> cerr s = None ->
    lenN (stream f) < N.of_nat fuel -> rfull_spec need f acc (c_rfull_loop B fuel need s acc).
  Proof.
    induction fuel as [|fuel IH]; intros need s f acc HR He Hfu; [lia|].
    pose proof HR as [H1 [H2 [H3 H4]]]. destruct (H4 He) as [Hs Hf].
    cbn [c_rfull_loop].
    destruct (N.eqb_spec need 0) as [->|Hneed].
    { unfold rfull_spec. cbn [N.leb]. rewrite takeN_0, dropN_0, app_nil_r. simp.
      destruct (0 <=? lenN (stream f)) eqn:E0; [|apply N.leb_gt in E0; lia].
      split; [reflexivity | apply R_same; assumption]. }
    rewrite He.
    (* the copy step from a non-empty window *)
    assert (Hcopy : forall s0, R s0 f -> cerr s0 = None -> win s0 <> [] ->
              rfull_spec need f acc
                (c_rfull_loop B fuel (need - N.min need (lenN (win s0)))
                   (set_win s0 (dropN (N.min need (lenN (win s0))) (win s0)))
                   (acc ++ takeN (N.min need (lenN (win s0))) (win s0)))).
    { intros s0 HR0 He0 Hw0. pose proof HR0 as [G1 [G2 [G3 G4]]]. destruct (G4 He0) as [Gs Gf].
      set (k := N.min need (lenN (win s0))).
      assert (Hwl : 1 <= lenN (win s0)) by (destruct (win s0); [contradiction | rewrite lenN_cons; lia]).
      assert (Hk : takeN k (win s0) = takeN k (stream f)).
      { rewrite <- Gs. symmetry. apply takeN_app_l. unfold k. lia. }
      rewrite Hk. apply consume_step; try (unfold k; lia).
      - exact IH.
      - unfold k. rewrite <- Gs, lenN_app. lia.
      - apply R_drop; [exact HR0 | exact He0 | unfold k; lia].
      - exact He0. }
    destruct (win s) as [|x w] eqn:Ew.
    - simp in Hs.
      destruct (N.leb_spec B need) as [Hbig|Hsmall].
      + (* direct read from the source *)
        destruct (src s) as [|y r] eqn:Es.
        * unfold rfull_spec. rewrite <- Hs. cbn [lenN]. destruct (N.leb_spec need 0); [lia|]. simp.
          split; [rewrite H1; destruct acc; reflexivity|].
          pose proof (R_set_err s f HR He) as Hx. exact Hx.
        * pose proof (deliver_bounds need s ltac:(lia)) as Hd.
          set (got := takeN (deliver need s) (y :: r)).
          assert (Hgl : lenN got = N.min (deliver need s) (lenN (y :: r))) by (unfold got; apply lenN_takeN).
          assert (Hg1 : 1 <= lenN got) by (rewrite Hgl, lenN_cons; lia).
          assert (Hgot : got = takeN (lenN got) (stream f)).
          { rewrite <- Hs. rewrite Hgl. unfold got.
            destruct (N.min_spec (deliver need s) (lenN (y :: r))) as [[_ E]|[Hlt E]]; rewrite E.
            - reflexivity.
            - rewrite !takeN_all by lia. reflexivity. }
          replace (acc ++ got) with (acc ++ takeN (lenN got) (stream f)) by (rewrite <- Hgot; reflexivity).
          apply consume_step; try lia.
          -- exact IH.
          -- rewrite <- Hs, Hgl. apply N.le_min_r.
          -- unfold R. simp. repeat split; try assumption.
             ++ rewrite <- Hs. reflexivity.
             ++ rewrite lenN_dropN. clear - Hf. lia.
          -- reflexivity.
      + (* fill, then copy *)
        pose proof (fill_spec s He) as Hfill. rewrite Ew in Hfill. cbn [lenN] in Hfill.
        specialize (Hfill ltac:(lia)).
        destruct (src s) as [|y r] eqn:Es.
        * rewrite Hfill. simp. unfold rfull_spec. rewrite <- Hs. cbn [lenN]. destruct (N.leb_spec need 0); [lia|]. simp.
          split; [rewrite H1; destruct acc; reflexivity|].
          pose proof (R_set_err s f HR He) as Hx. exact Hx.
        * destruct Hfill as [k0 [Hk1 [Hk2 Hfill]]]. rewrite Hfill. simp.
          set (s1 := {| win := takeN k0 (y :: r); cerr := None; src := dropN k0 (y :: r);
                        sizes := tl (sizes s); send := send s |}).
          assert (HR1 : R s1 f).
          { unfold R, s1. simp. repeat split; try assumption.
            - congruence.
            - rewrite lenN_takeN. lia.
            - rewrite take_drop. exact Hs. }
          specialize (Hcopy s1 HR1 eq_refl).
          assert (Hw1 : win s1 <> []).
          { unfold s1. simp. rewrite takeN_cons by lia. discriminate. }
          specialize (Hcopy Hw1). exact Hcopy.
    - specialize (Hcopy s HR He). rewrite Ew in Hcopy. specialize (Hcopy ltac:(discriminate)). exact Hcopy.
  Qed.

  Lemma rfull_refines n s f : R s f ->
    fst (c_rfull B F n s) = fst (f_rfull n f) /\ R (snd (c_rfull B F n s)) (snd (f_rfull n f)).
  Proof.
    intros HR. pose proof HR as [H1 [H2 [H3 H4]]]. unfold c_rfull, f_rfull.
    destruct (cerr s) as [e|] eqn:He.
    - rewrite <- H2. simp. split; [reflexivity | exact HR].
    - rewrite <- H2. destruct (H4 eq_refl) as [Hs Hf].
      destruct (N.eqb_spec n 0) as [->|Hn]; [simp; split; [reflexivity | exact HR]|].
      pose proof (rfull_loop_refines F n s f [] HR He Hf) as Hspec. unfold rfull_spec in Hspec.
      rewrite has_len_spec. destruct (n <=? lenN (stream f)).
      + simp. exact Hspec.
      + destruct Hspec as [S1 S2]. destruct (stream f); simp; split; assumption.
  Qed.
End Refine.
