(* C10 lemmas instantiated with the constants regenerated from the Go source *)
From Coq Require Import List NArith ZArith Bool Lia.
From Sam Require Import Gen.Tables Model.Bytes Model.Resp Model.Reader Model.Codec
  Proofs.BytesProofs Proofs.IntProofs Proofs.CodecProofs Proofs.ReaderProofs Proofs.ChunkProofs Proofs.CodecProofs2.
Import ListNotations.
Open Scope N_scope.

Definition T := mk_itoa_tab min_itoa max_itoa.
Definition wfv := wf max_array_len max_bulk_len.
Definition wfl := wf_list max_array_len max_bulk_len.

Lemma limits :
  max_array_len = 1048576%Z /\ max_bulk_len = 536870912%Z /\ 32 <= session_dec_buf /\ 32 <= client_dec_buf /\
  32 <= default_buffer_size /\ (min_itoa <= max_itoa)%Z /\ 8 <= max_array_depth <= 1024.
Proof. vm_compute. repeat split; discriminate. Qed.

Lemma Hmm : (min_itoa <= max_itoa)%Z. Proof. apply limits. Qed.
Lemma Hb0 : (0 <= max_bulk_len)%Z. Proof. vm_compute. discriminate. Qed.
Lemma Hb1 : (max_bulk_len <= int64_max)%Z. Proof. vm_compute. discriminate. Qed.
Lemma Ha0 : (0 <= max_array_len)%Z. Proof. vm_compute. discriminate. Qed.
Lemma Ha1 : (max_array_len <= int64_max)%Z. Proof. vm_compute. discriminate. Qed.

Lemma reader_refines B F : 1 <= B -> (0 < F)%nat -> forall s f, R B F s f ->
  (fst (c_peek B s) = fst (f_peek f) /\ R B F (snd (c_peek B s)) (snd (f_peek f))) /\
  (fst (c_rbyte B s) = fst (f_rbyte f) /\ R B F (snd (c_rbyte B s)) (snd (f_rbyte f))) /\
  (fst (c_rslice B F s) = fst (f_rslice B f) /\ R B F (snd (c_rslice B F s)) (snd (f_rslice B f))) /\
  (fst (c_rbytes B F s) = fst (f_rbytes f) /\ R B F (snd (c_rbytes B F s)) (snd (f_rbytes f))) /\
  (forall n, fst (c_rfull B F n s) = fst (f_rfull n f) /\ R B F (snd (c_rfull B F n s)) (snd (f_rfull n f))).
Proof.
  intros HB HF s f HR.
  split; [exact (peek_refines B HB F s f HR)|].
  split; [exact (rbyte_refines B HB F s f HR)|].
  split; [exact (rslice_refines B HB F s f HR (fun _ => I))|].
  split; [exact (rbytes_refines B HB F s f HR HF)|].
  intros n. exact (rfull_refines B HB F n s f HR).
Qed.

Lemma chunking B szs endv data : 1 <= B ->
  decode_all_chunked max_array_len max_bulk_len max_array_depth B szs endv data = decode_all_flat max_array_len max_bulk_len max_array_depth B endv data.
Proof. apply chunking_independent. Qed.

Lemma roundtrip_gen B v fuel d rest e : 22 <= B -> wfv v -> (depth v < fuel)%nat -> d + N.of_nat (depth v) <= max_array_depth ->
  decode frd (flat_ops B) max_array_len max_bulk_len max_array_depth fuel d (fs (encode T v ++ rest) e) = (Ok v, fs rest e).
Proof. intros HB Hw Hd Hdm. exact (roundtrip B HB max_array_len max_bulk_len max_array_depth min_itoa max_itoa Hmm Hb0 Hb1 Ha0 Ha1 v Hw fuel d rest e Hd Hdm). Qed.

Lemma canonical_gen B v fuel d rest e v' rest' : 22 <= B -> wfv v -> (depth v < fuel)%nat -> d + N.of_nat (depth v) <= max_array_depth ->
  decode frd (flat_ops B) max_array_len max_bulk_len max_array_depth fuel d (fs (encode T v ++ rest) e) = (Ok v', fs rest' e) ->
  encode T v' ++ rest' = encode T v ++ rest.
Proof.
  intros HB Hw Hd Hdm H. rewrite (roundtrip_gen B v fuel d rest e HB Hw Hd Hdm) in H.
  inversion H. reflexivity.
Qed.

Lemma concat_gen B vs szs : 22 <= B -> wfl vs -> N.of_nat (depth_list vs) <= max_array_depth ->
  decode_all_chunked max_array_len max_bulk_len max_array_depth B szs EOF (encode_list T vs) = (vs, EOF).
Proof. intros HB Hw Hd. exact (concat_any_chunking B HB max_array_len max_bulk_len max_array_depth min_itoa max_itoa Hmm Hb0 Hb1 Ha0 Ha1 vs szs Hw Hd). Qed.

Lemma inline_gen B ws c w0 rest e fuel d :
  Forall word_ok ws -> join_sp ws = c :: w0 -> is_type_byte c = false -> (0 < fuel)%nat ->
  decode frd (flat_ops B) max_array_len max_bulk_len max_array_depth fuel d (fs (join_sp ws ++ [CR; LF] ++ rest) e)
  = (Ok (Arr (Some (map (fun w => Bulk (Some w)) ws))), fs rest e).
Proof. apply inline_decodes. Qed.

Lemma itoa_gen i : itoa T i = dec_of_Z i.
Proof. apply itoa_is_dec. exact Hmm. Qed.

Lemma int_roundtrip z : in_int64 z = true -> btoi64 (itoa T z) = inl z.
Proof. intros H. rewrite itoa_gen, btoi64_is_parse_int64. apply parse_dec_of_Z. exact H. Qed.

(* non-vacuity: a concrete nested value is well-formed and round-trips (computed) *)
Definition sample : resp :=
  Arr (Some [Bulk (Some [83;69;84]); Bulk None; Int (-9223372036854775808); Simple [79;75]; Err [13];
             Arr (Some []); Arr None; Bulk (Some []); Arr (Some [Int 32768; Bulk (Some [13;10;0])])]).
Lemma sample_wf : wfv sample.
Proof. unfold wfv. cbn. repeat split; try (vm_compute; discriminate); try (vm_compute; reflexivity); intros H; cbn in H; intuition discriminate. Qed.
Lemma sample_roundtrip :
  decode_all_chunked max_array_len max_bulk_len max_array_depth 32 [1;2;3;1;1;1;7] EOF (encode T sample ++ encode T sample) = ([sample; sample], EOF).
Proof. vm_compute. reflexivity. Qed.
