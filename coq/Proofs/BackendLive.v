(* Liveness for Model/Backend.v: from every reachable state in which the connection has ended, the threads' own
   remaining steps lead to a finished state (no deadlock), in a number of steps linear in the number of requests. *)
From Coq Require Import List Arith Bool Lia.
From Sam Require Import Model.Backend Proofs.BackendProofs.
Import ListNotations.

Section Live.
  Variable ids : list nat.
  Notation next := (bnext true ids).
  Notation run := (fold_left next).

  Definition ended (s : bstate) : Prop := quit s = true /\ conn_ok s = false.

  Lemma mem_true i : In i ids -> existsb (Nat.eqb i) ids = true.
  Proof. intros H. apply existsb_exists. exists i. split; [exact H | apply Nat.eqb_refl]. Qed.

  (* flags that no thread step sets back *)
  Lemma ended_stable s x : ended s -> (x <> EConnLost -> True) -> ended (next s x).
  Proof.
    intros [Q C] _. unfold bnext. assert (H : ended (bnext0 true ids s x)).
    { destruct x; cbn [bnext0]; repeat match goal with |- context [if ?b then _ else _] => destruct b end; split; cbn; auto. }
    destruct (step_id x); [destruct (existsb _ ids)|]; (exact H || (split; assumption)).
  Qed.

  Lemma ended_run l : forall s, ended s -> ended (run l s).
  Proof. induction l as [|x t IH]; intros s E; cbn [fold_left]; [exact E|]. apply IH. apply ended_stable; auto. Qed.

  Lemma inv_run l : forall s, BI ids s -> BI ids (run l s).
  Proof. induction l as [|x t IH]; intros s I; cbn [fold_left]; [exact I|]. apply IH. apply bnext_inv. exact I. Qed.

  (* ---------- the writer ---------- *)
  Lemma wrun_false_stable x s : wrun s = false -> wrun (next s x) = false.
  Proof.
    intros W. unfold bnext. assert (H : wrun (bnext0 true ids s x) = false).
    { destruct x; cbn [bnext0]; rewrite ?W; cbn [andb]; repeat match goal with |- context [if ?b then _ else _] => destruct b end; cbn; auto. }
    destruct (step_id x); [destruct (existsb _ ids)|]; assumption.
  Qed.
  Lemma wrun_false_run l : forall s, wrun s = false -> wrun (run l s) = false.
  Proof. induction l as [|x t IH]; intros s W; cbn [fold_left]; [exact W|]. apply IH. apply wrun_false_stable. exact W. Qed.

  (* after offering every request's write failure and the latch, the writer has left *)
  Lemma writer_leaves s : BI ids s -> ended s -> wrun (run (map WWriteFail ids ++ [WQuit]) s) = false.
  Proof.
    intros I E. rewrite fold_left_app. cbn [fold_left].
    set (s1 := run (map WWriteFail ids) s).
    assert (I1 : BI ids s1) by (apply inv_run; exact I).
    assert (E1 : ended s1) by (apply ended_run; exact E).
    destruct (wrun s1) eqn:W1; [|apply wrun_false_stable; exact W1].
    (* still running: then it holds nothing (a held request's failing write would have made it leave) *)
    assert (Hnone : holds ids s1 = false).
    { unfold holds. destruct (existsb (fun i => is_loc (place s1 i) LHeld) ids) eqn:Ex; [|reflexivity]. exfalso.
      apply existsb_exists in Ex. destruct Ex as [i [Hi Hp]]. apply is_loc_eq in Hp.
      (* i was offered WWriteFail at some point; from then on either the writer had left or i was no longer held *)
      assert (G : forall l s0, In i l -> BI ids s0 -> ended s0 ->
                  let s' := run (map WWriteFail l) s0 in wrun s' = false \/ place s' i <> LHeld).
      { induction l as [|j t IHl]; intros s0 Hin I0 E0; [destruct Hin|]. cbn [map fold_left].
        assert (I0' : BI ids (next s0 (WWriteFail j))) by (apply bnext_inv; exact I0).
        assert (E0' : ended (next s0 (WWriteFail j))) by (apply ended_stable; auto).
        destruct Hin as [->|Hin]; [|apply IHl; assumption].
        (* the step for i itself *)
        assert (K : wrun (next s0 (WWriteFail i)) = false \/ place (next s0 (WWriteFail i)) i <> LHeld).
        { unfold bnext. cbn [step_id]. rewrite (mem_true i Hi). cbn [bnext0]. destruct E0 as [_ C0]. rewrite C0.
          destruct (wrun s0) eqn:W0; [|left; cbn [andb]; exact W0]. cbn [andb negb].
          destruct (is_loc (place s0 i) LHeld) eqn:P0; cbn [andb]; [left; reflexivity|]. right. apply is_loc_neq. exact P0. }
        destruct K as [K|K].
        - left. apply wrun_false_run. exact K.
        - (* not held after its own step: later steps of the same kind never put it back in the writer's hands *)
          clear IHl. revert K I0' E0'. generalize (next s0 (WWriteFail i)). induction t as [|k t IHt]; intros s2 K I2 E2; cbn [map fold_left]; [right; exact K|].
          apply IHt.
          + unfold bnext. cbn [step_id]. destruct (existsb (Nat.eqb k) ids); [|exact K]. cbn [bnext0].
            destruct (wrun s2 && is_loc (place s2 k) LHeld && negb (conn_ok s2)) eqn:Gd; [|exact K]. cbn [upd place].
            destruct (Nat.eq_dec i k) as [->|Hn]; [rewrite setp_same; discriminate | rewrite setp_other by exact Hn; exact K].
          + apply bnext_inv. exact I2.
          + apply ended_stable; auto. }
      destruct (G ids s Hi I E) as [W|P]; [fold s1 in W; congruence | fold s1 in P; contradiction]. }
    unfold bnext. cbn [step_id bnext0]. rewrite W1, Hnone. destruct E1 as [Q1 _]. rewrite Q1. reflexivity.
  Qed.

  (* ---------- the reader, the drain ---------- *)
  Lemma rrun_false_stable x s : rrun s = false -> rrun (next s x) = false.
  Proof.
    intros W. unfold bnext. assert (H : rrun (bnext0 true ids s x) = false).
    { destruct x; cbn [bnext0]; rewrite ?W; cbn [andb]; repeat match goal with |- context [if ?b then _ else _] => destruct b end; cbn; auto. }
    destruct (step_id x); [destruct (existsb _ ids)|]; assumption.
  Qed.
  Lemma rrun_false_run l : forall s, rrun s = false -> rrun (run l s) = false.
  Proof. induction l as [|x t IH]; intros s W; cbn [fold_left]; [exact W|]. apply IH. apply rrun_false_stable. exact W. Qed.

  Lemma drained_stable x s : drained s = true -> drained (next s x) = true.
  Proof.
    intros W. unfold bnext. assert (H : drained (bnext0 true ids s x) = true).
    { destruct x; cbn [bnext0]; repeat match goal with |- context [if ?b then _ else _] => destruct b end; cbn; auto. }
    destruct (step_id x); [destruct (existsb _ ids)|]; assumption.
  Qed.
  Lemma drained_run l : forall s, drained s = true -> drained (run l s) = true.
  Proof. induction l as [|x t IH]; intros s W; cbn [fold_left]; [exact W|]. apply IH. apply drained_stable. exact W. Qed.

  Lemma reader_leaves s : ended s -> rrun (next s RExit) = false.
  Proof.
    intros [_ C]. unfold bnext. cbn [step_id bnext0]. rewrite C. destruct (rrun s) eqn:R; cbn; [reflexivity | exact R].
  Qed.

  Lemma drain_happens s : wrun s = false -> rrun s = false -> drained (next s DDrain) = true.
  Proof.
    intros W R. unfold bnext. cbn [step_id bnext0]. rewrite W, R. cbn [negb andb]. destruct (drained s) eqn:D; cbn; [exact D | reflexivity].
  Qed.

  (* ---------- the senders ---------- *)
  Definition settled (s : bstate) (j : nat) : Prop := place s j <> LNew /\ place s j <> LChecked /\ recheck s j = false.

  Lemma sender_finishes s i : In i ids -> quit s = true ->
    let s' := run [SCheck i; SEnq i; SRecheck i] s in
    settled s' i /\ forall j, j <> i -> settled s j -> settled s' j.
  Proof.
    intros Hi Q. cbn [fold_left]. unfold bnext. cbn [step_id]. rewrite (mem_true i Hi).
    (* SCheck *)
    set (s1 := bnext0 true ids s (SCheck i)).
    assert (P1 : place s1 i <> LNew /\ quit s1 = true /\ recheck s1 = recheck s /\ forall j, j <> i -> place s1 j = place s j).
    { unfold s1. cbn [bnext0]. destruct (is_loc (place s i) LNew) eqn:G.
      - rewrite Q. cbn [upd place quit recheck]. rewrite setp_same. repeat split; try discriminate; auto. intros j Hj. apply setp_other. exact Hj.
      - apply is_loc_neq in G. repeat split; auto. }
    destruct P1 as [A1 [Q1 [R1 O1]]].
    (* SEnq *)
    set (s2 := bnext0 true ids s1 (SEnq i)).
    assert (P2 : place s2 i <> LNew /\ place s2 i <> LChecked /\ quit s2 = true /\
                 (forall j, j <> i -> place s2 j = place s1 j /\ recheck s2 j = recheck s1 j)).
    { unfold s2. cbn [bnext0]. destruct (is_loc (place s1 i) LChecked) eqn:G.
      - cbn [upd place quit recheck]. rewrite setp_same. repeat split; try discriminate; auto; [apply setp_other | apply setb_other]; assumption.
      - apply is_loc_neq in G. repeat split; auto. }
    destruct P2 as [A2 [B2 [Q2 O2]]].
    (* SRecheck *)
    set (s3 := bnext0 true ids s2 (SRecheck i)).
    assert (Hdp : forall f x, f x <> LNew -> f x <> LChecked -> drain_pending f x <> LNew /\ drain_pending f x <> LChecked).
    { intros f x N C. unfold drain_pending. destruct (f x); split; try discriminate; auto. }
    assert (P3 : settled s3 i /\ forall j, j <> i -> (place s2 j <> LNew -> place s2 j <> LChecked -> place s3 j <> LNew /\ place s3 j <> LChecked) /\ recheck s3 j = recheck s2 j).
    { unfold s3. cbn [bnext0]. destruct (recheck s2 i) eqn:G.
      - rewrite Q2. cbn [upd place recheck]. split.
        + destruct (Hdp (place s2) i A2 B2) as [X Y]. split; [exact X|]. split; [exact Y | apply setb_same].
        + intros j Hj. split; [intros N C; apply Hdp; assumption | apply setb_other; exact Hj].
      - split; [split; [exact A2 | split; [exact B2 | exact G]]|]. intros j Hj. split; [auto | reflexivity]. }
    destruct P3 as [S3 O3]. split; [exact S3|].
    intros j Hj [N [C R]]. destruct (O2 j Hj) as [E2 F2]. destruct (O3 j Hj) as [K3 L3].
    assert (N2 : place s2 j <> LNew) by (rewrite E2, (O1 j Hj); exact N).
    assert (C2 : place s2 j <> LChecked) by (rewrite E2, (O1 j Hj); exact C).
    destruct (K3 N2 C2) as [X Y]. split; [exact X|]. split; [exact Y|]. rewrite L3, F2, R1. exact R.
  Qed.

  Lemma senders_finish l : forall s, (forall i, In i l -> In i ids) -> quit s = true -> conn_ok s = false ->
    forall j, (In j l \/ settled s j) -> settled (run (flat_map (fun i => [SCheck i; SEnq i; SRecheck i]) l) s) j.
  Proof.
    induction l as [|i t IH]; intros s Hsub Q C j Hj; cbn [flat_map]; [destruct Hj as [[]|H]; exact H|].
    change ([SCheck i; SEnq i; SRecheck i] ++ flat_map (fun i0 => [SCheck i0; SEnq i0; SRecheck i0]) t)
      with ([SCheck i; SEnq i; SRecheck i] ++ flat_map (fun i0 => [SCheck i0; SEnq i0; SRecheck i0]) t).
    rewrite fold_left_app. destruct (sender_finishes s i (Hsub i (or_introl eq_refl)) Q) as [Si So].
    set (s' := run [SCheck i; SEnq i; SRecheck i] s) in *.
    assert (E' : ended s') by (apply ended_run; split; assumption). destruct E' as [Q' C'].
    apply IH; [intros k Hk; apply Hsub; right; exact Hk | exact Q' | exact C' |].
    destruct Hj as [[<-|Hj]|Hj].
    - right. exact Si.
    - left. exact Hj.
    - destruct (Nat.eq_dec j i) as [->|Hn]; [right; exact Si | right; apply So; assumption].
  Qed.

  (* ---------- no deadlock: once the connection has ended, the threads' remaining steps reach a finished state ---------- *)
  Theorem reaches_finished s : BI ids s -> ended s -> finished ids (run (finishing_schedule ids) s) = true.
  Proof.
    intros I E. unfold finishing_schedule.
    replace (map WWriteFail ids ++ [WQuit; RExit; DDrain] ++ flat_map (fun i => [SCheck i; SEnq i; SRecheck i]) ids)
      with ((map WWriteFail ids ++ [WQuit]) ++ [RExit] ++ [DDrain] ++ flat_map (fun i => [SCheck i; SEnq i; SRecheck i]) ids)
      by (rewrite <- !app_assoc; reflexivity).
    rewrite fold_left_app. set (s1 := run (map WWriteFail ids ++ [WQuit]) s).
    assert (W1 : wrun s1 = false) by (apply writer_leaves; assumption).
    assert (E1 : ended s1) by (apply ended_run; exact E).
    rewrite fold_left_app. change (run [RExit] s1) with (next s1 RExit). set (s2 := next s1 RExit).
    assert (R2 : rrun s2 = false) by (apply reader_leaves; exact E1).
    assert (W2 : wrun s2 = false) by (apply wrun_false_stable; exact W1).
    assert (E2 : ended s2) by (apply ended_stable; auto).
    rewrite fold_left_app. change (run [DDrain] s2) with (next s2 DDrain). set (s3 := next s2 DDrain).
    assert (D3 : drained s3 = true) by (apply drain_happens; assumption).
    assert (W3 : wrun s3 = false) by (apply wrun_false_stable; exact W2).
    assert (R3 : rrun s3 = false) by (apply rrun_false_stable; exact R2).
    assert (E3 : ended s3) by (apply ended_stable; auto).
    unfold finished. rewrite (wrun_false_run _ s3 W3), (rrun_false_run _ s3 R3), (drained_run _ s3 D3). cbn [negb andb].
    apply forallb_forall. intros j Hj. destruct E3 as [Q3 C3].
    destruct (senders_finish ids s3 (fun i H => H) Q3 C3 j (or_introl Hj)) as [N [C R]].
    rewrite R. apply is_loc_neq in N. apply is_loc_neq in C. rewrite N, C. reflexivity.
  Qed.

  (* ... and there, by finished_all_done's argument, every request is completed *)
  Corollary ended_then_all_answered l : ended (brun true ids l) ->
    all_done ids (run (finishing_schedule ids) (brun true ids l)) = true.
  Proof.
    intros E. pose proof (reaches_finished (brun true ids l) (brun_inv ids l) E) as F.
    unfold brun in *. rewrite <- fold_left_app in *. apply (finished_all_done ids (l ++ finishing_schedule ids)). exact F.
  Qed.
End Live.
