(* C01: whatever the request contains, a reply the proxy itself writes is one line. *)
From Coq Require Import List NArith ZArith Bool String Lia.
From Sam Require Import Gen.Tables Model.Bytes Model.Resp Model.Text Model.Dispatch Proofs.CodecProofs Proofs.DispatchProofs.
Import ListNotations.
Open Scope list_scope.
Open Scope N_scope.

Lemma one_line_no_lf l : ~ In LF (one_line l) /\ ~ In CR (one_line l).
Proof.
  unfold one_line. split; intros H; apply in_map_iff in H; destruct H as [b [Hb _]];
    destruct ((b =? 13) || (b =? 10)) eqn:E; try discriminate;
    apply orb_false_iff in E; destruct E as [E1 E2]; apply N.eqb_neq in E1; apply N.eqb_neq in E2; unfold LF, CR in *; congruence.
Qed.

Definition no_lf (t : bytes) : bool := negb (existsb (N.eqb LF) t).
Lemma no_lf_spec t : no_lf t = true -> ~ In LF t.
Proof.
  unfold no_lf. intros H Hin. apply negb_true_iff in H.
  assert (existsb (N.eqb LF) t = true) by (apply existsb_exists; exists LF; split; [exact Hin | apply N.eqb_refl]). congruence.
Qed.

Lemma unsupported_no_lf cmd : ~ In LF (unsupported_text cmd).
Proof.
  unfold unsupported_text. intros H. apply in_app_or in H. destruct H as [H|H].
  - revert H. apply no_lf_spec. vm_compute. reflexivity.
  - apply in_app_or in H. destruct H as [H|[H|[]]]; [apply (proj1 (one_line_no_lf cmd)); exact H | discriminate].
Qed.

(* every reply that handleRequest writes itself (errors and the fixed answers) has no line feed in its text:
   encoded, it is exactly one RESP frame (C10_roundtrip) *)
Lemma local_reply_one_line v :
  match plan v with
  | PLocalErr t | PLocalSimple t => ~ In LF t
  | _ => True
  end.
Proof.
  assert (Hinv : ~ In LF (str invalid_request_text)) by (apply no_lf_spec; vm_compute; reflexivity).
  assert (Hunk : ~ In LF (str "?unknown handler")) by (apply no_lf_spec; vm_compute; reflexivity).
  assert (Hpong : ~ In LF (str "PONG")) by (apply no_lf_spec; vm_compute; reflexivity).
  assert (Hok : ~ In LF (str "OK")) by (apply no_lf_spec; vm_compute; reflexivity).
  unfold plan, plan_of. destruct (valid_request v) as [args|]; [|exact Hinv].
  destruct (find_handler handler_names handler_funcs _) as [f|]; [|apply unsupported_no_lf].
  repeat match goal with
         | |- context [if ?b then _ else _] => destruct b
         end; try exact I; try exact Hinv; try exact Hunk; try exact Hpong; try exact Hok.
Qed.

(* the reply assembled for a request whose children failed is one line as well *)
Lemma sum_error_one_line rs t : sum_reply rs = Err t -> ~ In LF t.
Proof.
  unfold sum_reply. destruct (filter _ rs) as [|e es]; [discriminate|]. intros H.
  assert (E : t = str "finished with " ++ (dec_of_Z (Z.of_N (lenN (e :: es))) ++ str " error(s)")) by congruence.
  rewrite E. clear E H. intros Hin. apply in_app_or in Hin. destruct Hin as [Hin|Hin].
  - revert Hin. apply no_lf_spec. vm_compute. reflexivity.
  - apply in_app_or in Hin. destruct Hin as [Hin|Hin].
    + revert Hin. apply dec_of_Z_no. left. reflexivity.
    + revert Hin. apply no_lf_spec. vm_compute. reflexivity.
Qed.
