From Coq Require Import List NArith Bool String Lia.
From Sam Require Import Gen.Tables Lib.Sweep Model.Bytes Model.Frame Proofs.BytesProofs.
Import ListNotations.
Open Scope list_scope.
Open Scope N_scope.

Definition RS := hr_read_size.
Lemma RS_val : RS = 4096. Proof. reflexivity. Qed.

Definition bytes_lt256 (l : bytes) : Prop := Forall (fun b => b < 256) l.

Lemma send_ok t data : lenN data < 65533 ->
  send_frame t data = Some ([t mod 256; lenN data / 256; lenN data mod 256] ++ data).
Proof.
  intros H. unfold send_frame.
  rewrite (N.mod_small (lenN data)) by lia. rewrite (N.mod_small (3 + lenN data)) by lia.
  destruct (N.ltb_spec (3 + lenN data) 3); [lia|].
  replace (3 + lenN data - 3) with (lenN data) by lia. rewrite takeN_all by lia. reflexivity.
Qed.

Lemma nth3 (a b c : N) l : nthN (a :: b :: c :: l) 0 0 = a /\ nthN (a :: b :: c :: l) 1 0 = b /\ nthN (a :: b :: c :: l) 2 0 = c.
Proof. repeat split; reflexivity. Qed.

Lemma drop3 (a b c : N) l : dropN 3 (a :: b :: c :: l) = l.
Proof. rewrite !dropN_cons by lia. cbn [N.sub Pos.sub Pos.sub_mask Pos.double_pred_mask Pos.pred_double]. apply dropN_0. Qed.

Lemma roundtrip t data : t < 256 -> lenN data <= RS - 3 ->
  exists f, send_frame t data = Some f /\ read_frame RS f = FOk t data.
Proof.
  rewrite RS_val. intros Ht Hl. eexists. split; [apply send_ok; lia|].
  unfold read_frame.
  set (f := [t mod 256; lenN data / 256; lenN data mod 256] ++ data).
  assert (Hlen : lenN f = 3 + lenN data) by (unfold f; rewrite lenN_app; reflexivity).
  rewrite (takeN_all 4096 f) by lia. rewrite Hlen.
  destruct (N.ltb_spec (3 + lenN data) 3); [lia|].
  unfold f. cbn [app].
  destruct (nth3 (t mod 256) (lenN data / 256) (lenN data mod 256) data) as [Q0 [Q1 Q2]]. rewrite Q0, Q1, Q2.
  rewrite (N.mod_small t) by lia.
  assert (E : lenN data / 256 * 256 + lenN data mod 256 = lenN data).
  { rewrite N.mul_comm. symmetry. apply N.div_mod. lia. }
  rewrite E. destruct (N.ltb_spec (3 + lenN data - 3) (lenN data)); [lia|].
  destruct (N.ltb_spec 4096 (3 + lenN data)); [lia|].
  rewrite drop3.
  rewrite takeN_all by lia. reflexivity.
Qed.

Lemma no_panic bs : read_frame RS bs <> FPanic.
Proof.
  unfold read_frame. pose proof (lenN_takeN RS bs) as Hn.
  set (got := takeN RS bs) in *. set (len := nthN got 1 0 * 256 + nthN got 2 0).
  destruct (N.ltb_spec (lenN got) 3) as [|H3]; [discriminate|].
  destruct (N.ltb_spec (lenN got - 3) len) as [|Hl]; [discriminate|].
  destruct (N.ltb_spec RS (3 + len)) as [Hp|]; [|discriminate].
  exfalso. clearbody got len. lia.
Qed.

(* nothing malformed is accepted: an accepted frame is a prefix of the bytes read and is exactly
   what sendMessage would emit for the returned message *)
Lemma accept_faithful bs t d : bytes_lt256 bs -> read_frame RS bs = FOk t d ->
  exists f tail, send_frame t d = Some f /\ bs = f ++ tail.
Proof.
  intros Hb H. unfold read_frame in H.
  set (got := takeN RS bs) in *.
  assert (Hgl : lenN got <= RS) by (unfold got; rewrite lenN_takeN; lia).
  assert (Hgb : bytes_lt256 got).
  { unfold bytes_lt256, got in *. rewrite Forall_forall in *. intros x Hx. apply Hb.
    rewrite <- (take_drop RS bs). apply in_or_app. left. exact Hx. }
  destruct (N.ltb_spec (lenN got) 3) as [|Hn3]; [discriminate|].
  destruct got as [|b0 [|b1 [|b2 rest]]] eqn:Eg; try (cbn [lenN] in Hn3; lia).
  destruct (nth3 b0 b1 b2 rest) as [Q0 [Q1 Q2]]. rewrite Q0, Q1, Q2 in H.
  set (len := b1 * 256 + b2) in *.
  destruct (N.ltb_spec (lenN (b0 :: b1 :: b2 :: rest) - 3) len) as [|Hlen]; [discriminate|].
  destruct (RS <? 3 + len); [discriminate|].
  inversion H; subst t d. clear H.
  rewrite dropN_0.
  rewrite !lenN_cons in Hlen, Hgl. rewrite RS_val in Hgl.
  assert (Hd : lenN (takeN len rest) = len) by (rewrite lenN_takeN; lia).
  inversion Hgb as [|? ? Hb0 Hgb1]; subst. inversion Hgb1 as [|? ? Hb1 Hgb2]; subst.
  inversion Hgb2 as [|? ? Hb2 _]; subst.
  exists ([b0; b1; b2] ++ takeN len rest), (dropN len rest ++ dropN RS bs). split.
  - rewrite send_ok by (rewrite Hd; lia). rewrite Hd.
    assert (E0 : b0 mod 256 = b0) by (apply N.mod_small; exact Hb0).
    assert (E1 : len / 256 = b1).
    { unfold len. rewrite N.add_comm. rewrite N.div_add by lia. rewrite N.div_small by lia. reflexivity. }
    assert (E2 : len mod 256 = b2).
    { unfold len. rewrite N.add_comm. rewrite N.mod_add by lia. apply N.mod_small. exact Hb2. }
    rewrite E0, E1, E2. reflexivity.
  - rewrite <- (take_drop RS bs) at 1. fold got. rewrite Eg.
    rewrite <- app_assoc. cbn [app]. do 3 f_equal. rewrite app_assoc, take_drop. reflexivity.
Qed.

(* ---------- dispatcher over the regenerated tables ---------- *)

Definition events (t : N) : list hr_event :=
  events_of_type hr_message_types hr_dispatch_cases hr_dispatch_handlers hr_dispatch_default
                 hr_handler_names hr_handler_scripts hr_ctor_names hr_ctor_types t.

Definition ev_eqb (a b : hr_event) : bool :=
  match a, b with
  | EvCall x, EvCall y => String.eqb x y
  | EvReply t d, EvReply t' d' => N.eqb t t' && bytes_eqb d d'
  | _, _ => false
  end.

Fixpoint evs_eqb (a b : list hr_event) : bool :=
  match a, b with
  | [], [] => true
  | x :: a', y :: b' => ev_eqb x y && evs_eqb a' b'
  | _, _ => false
  end.

Lemma bytes_eqb_eq a : forall b, bytes_eqb a b = true -> a = b.
Proof.
  induction a as [|x a IH]; intros [|y b] H; cbn [bytes_eqb] in H; try discriminate; [reflexivity|].
  apply andb_true_iff in H. destruct H as [H1 H2]. apply N.eqb_eq in H1. subst. f_equal. apply IH. exact H2.
Qed.

Lemma evs_eqb_eq a : forall b, evs_eqb a b = true -> a = b.
Proof.
  induction a as [|x a IH]; intros [|y b] H; cbn [evs_eqb] in H; try discriminate; [reflexivity|].
  apply andb_true_iff in H. destruct H as [H1 H2]. f_equal; [|apply IH; exact H2].
  destruct x, y; cbn [ev_eqb] in H1; try discriminate.
  - apply String.eqb_eq in H1. subst. reflexivity.
  - apply andb_true_iff in H1. destruct H1 as [H3 H4]. apply N.eqb_eq in H3. apply bytes_eqb_eq in H4. subst. reflexivity.
Qed.

Lemma dispatch_table t : t < 256 -> events t = spec_events t.
Proof.
  intros Ht. apply evs_eqb_eq.
  pose (f := fun t => evs_eqb (events t) (spec_events t)).
  assert (H : all_below 256 f = true) by (vm_compute; reflexivity).
  exact (sweep _ _ H t Ht).
Qed.

Lemma message_numbering :
  hr_message_types = ["shutdownAdminReq"; "shutdownAdminReply"; "shutdownLocalConfReq"; "shutdownLocalConfReply";
                      "drainListenersReq"; "drainListenersReply"; "terminateReq"; "terminateReply"; "unknownReply"]%string.
Proof. reflexivity. Qed.

(* ---------- request sequences in lock step ---------- *)

Definition hc := handle_child hr_message_types hr_dispatch_cases hr_dispatch_handlers hr_dispatch_default
                              hr_handler_names hr_handler_scripts hr_ctor_names hr_ctor_types RS.
Definition srv := serve hr_message_types hr_dispatch_cases hr_dispatch_handlers hr_dispatch_default
                        hr_handler_names hr_handler_scripts hr_ctor_names hr_ctor_types RS.

(* a request: its type byte and any payload that fits one frame *)
Definition req_ok (r : N * bytes) : Prop := fst r < 256 /\ lenN (snd r) <= RS - 3.
Definition frame_of (r : N * bytes) : bytes :=
  match send_frame (fst r) (snd r) with Some f => f | None => [] end.
Definition reads_of (rs : list (N * bytes)) : list hr_read := map (fun r => RdBytes (frame_of r)) rs.

Lemma hc_requests rs tail : Forall req_ok rs ->
  hc (reads_of rs ++ tail) = List.concat (map (fun r => spec_events (fst r)) rs) ++ hc tail.
Proof.
  induction 1 as [|r rs [Ht Hl] _ IH]; [reflexivity|].
  cbn [reads_of map app List.concat]. unfold hc at 1. cbn [handle_child].
  destruct (roundtrip (fst r) (snd r) Ht Hl) as [f [Hs Hr]].
  unfold frame_of. rewrite Hs, Hr.
  fold hc. change (events_of_type _ _ _ _ _ _ _ _ (fst r)) with (events (fst r)).
  rewrite dispatch_table by exact Ht. rewrite <- app_assoc. f_equal. exact IH.
Qed.

Lemma hc_eof tail : hc (RdEOF :: tail) = [].
Proof. reflexivity. Qed.

Lemma hc_bad bs tail : (forall t d, read_frame RS bs <> FOk t d) -> hc (RdBytes bs :: tail) = hc tail.
Proof.
  intros H. unfold hc. cbn [handle_child]. destruct (read_frame RS bs) eqn:E; try reflexivity.
  exfalso. exact (H _ _ eq_refl).
Qed.

(* every child is served in turn; a child that disappears (EOF) does not block the next one *)
Lemma srv_children (rss : list (list (N * bytes))) : Forall (Forall req_ok) rss ->
  srv (map (fun rs => reads_of rs ++ [RdEOF]) rss)
  = List.concat (map (fun rs => List.concat (map (fun r => spec_events (fst r)) rs)) rss).
Proof.
  induction 1 as [|rs rss Hrs _ IH]; [reflexivity|].
  cbn [map List.concat]. unfold srv. cbn [serve]. fold srv. fold hc.
  rewrite (hc_requests rs [RdEOF] Hrs), hc_eof, app_nil_r. f_equal. exact IH.
Qed.
