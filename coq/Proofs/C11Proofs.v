From Coq Require Import List NArith ZArith Bool String Lia.
From Sam Require Import Gen.Tables Model.Bytes Model.Resp Model.Reader Model.Codec Model.Text Model.Dispatch Model.Redirect
  Proofs.BytesProofs.
Import ListNotations.
Open Scope list_scope.
Open Scope N_scope.

(* ---------- the decoder's recursion depth is bounded by maxArrayDepth for EVERY input ---------- *)

Section Depth.
  Variable St : Type.
  Variable O : ops St.
  Variables max_array max_bulk : Z.
  Variable max_depth : N.

  Lemma elems_ext (d1 d2 : St -> res resp * St) : (forall s, d1 s = d2 s) ->
    forall k s, elems St d1 k s = elems St d2 k s.
  Proof.
    intros H. induction k as [|k IH]; intros s; cbn [elems]; [reflexivity|].
    rewrite H. destruct (d2 s) as [[v|e] s1]; [|reflexivity]. rewrite IH. reflexivity.
  Qed.

  (* once the fuel exceeds the number of array levels that may still be opened, more fuel changes
     nothing: no input makes the decoder recurse deeper than max_depth - d + 1 calls *)
  Lemma decode_fuel_indep f1 : forall f2 d s,
    (N.to_nat (max_depth + 1 - d) < f1)%nat -> (N.to_nat (max_depth + 1 - d) < f2)%nat ->
    decode St O max_array max_bulk max_depth f1 d s = decode St O max_array max_bulk max_depth f2 d s.
  Proof.
    induction f1 as [|f1 IH]; intros f2 d s H1 H2; [lia|].
    destruct f2 as [|f2]; [lia|]. cbn [decode].
    destruct (o_peek O s) as [[b|e] s1]; [|reflexivity].
    destruct (is_type_byte b); [|reflexivity].
    destruct (b =? T_INT); [reflexivity|]. destruct (b =? T_SIMPLE); [reflexivity|].
    destruct (b =? T_ERR); [reflexivity|]. destruct (b =? T_BULK); [reflexivity|].
    destruct (decode_int St O (snd (o_rbyte O s1))) as [[n|e] s3]; [|reflexivity].
    destruct (n <? -1)%Z; [reflexivity|]. destruct (n >? max_array)%Z; [reflexivity|].
    destruct (n =? -1)%Z; [reflexivity|].
    destruct (N.leb_spec max_depth d) as [Hle|Hlt]; [reflexivity|].
    rewrite (elems_ext (decode St O max_array max_bulk max_depth f1 (d + 1))
                       (decode St O max_array max_bulk max_depth f2 (d + 1))); [reflexivity|].
    intros s'. apply IH; lia.
  Qed.
End Depth.

(* ---------- redirection errors: the request is always completed or re-sent ---------- *)

Lemma handle_redirection_total v text : handle_redirection v text <> OPanic /\ handle_redirection v text <> ONothing.
Proof.
  unfold handle_redirection. destruct (N.ltb_spec (lenN (split_on 32 text [])) 3) as [H|H]; [split; discriminate|].
  destruct (split_on 32 text []) as [|w0 [|w1 [|w2 ws]]] eqn:E; cbn [lenN] in H; try lia.
  cbn [nth_error hd].
  destruct (bytes_eqb (go_lower w0) s_moved); [split; discriminate|].
  destruct (bytes_eqb (go_lower w0) s_ask); split; discriminate.
Qed.

Lemma handle_resp_total v : handle_resp v <> OPanic /\ handle_resp v <> ONothing.
Proof.
  destruct v as [t|t|z|o|a]; cbn [handle_resp]; try (split; discriminate).
  destruct (_ || _); [apply handle_redirection_total|].
  destruct (equal_fold _ s_clusterdown); split; discriminate.
Qed.

(* ---------- CLUSTER NODES: never a nil dereference, work bounded by 16384 per token ---------- *)

Lemma restructure_no_panic l : restructure l <> CnPanic.
Proof. unfold restructure. destruct (negb _); [destruct (forallb _ _); discriminate|]. destruct (forallb _ _); discriminate. Qed.

Lemma parse_lines_no_panic sc ls : forall acc, parse_lines sc ls acc <> CnPanic.
Proof.
  induction ls as [|l ls IH]; intros acc; cbn [parse_lines]; [discriminate|].
  destruct (parse_line sc l); [apply IH | discriminate | apply IH].
Qed.

Lemma parse_cluster_nodes_no_panic data : parse_cluster_nodes data <> CnPanic.
Proof.
  unfold parse_cluster_nodes, parse_cluster_nodes_n.
  pose proof (parse_lines_no_panic 16384 (split_on 10 data []) []) as H.
  destruct (parse_lines 16384 (split_on 10 data []) []); try discriminate; [apply restructure_no_panic | contradiction].
Qed.

Lemma z_seq_length s n : List.length (z_seq s n) = n.
Proof. revert s. induction n as [|n IH]; intros s; cbn [z_seq List.length]; [reflexivity|]. rewrite IH. reflexivity. Qed.

(* the slot list built from a line is at most slot_count entries per token: no token can make the
   expansion loop run longer *)
Lemma parse_slots_cost sc segs : (0 < sc)%Z -> forall l, parse_slots sc segs = Some l ->
  (Z.of_nat (List.length l) <= sc * Z.of_nat (List.length segs))%Z.
Proof.
  intros Hsc. induction segs as [|seg segs IH]; intros l H; cbn [parse_slots] in H.
  - inversion H. cbn. lia.
  - cbn [List.length]. destruct (is_bracketed seg).
    + specialize (IH l H). lia.
    + destruct (split_on 45 seg []) as [|a [|b [|c rest]]]; try discriminate.
      * destruct (atoi a) as [s|]; [|discriminate].
        destruct (parse_slots sc segs) as [r|]; [|discriminate]. inversion H; subst.
        specialize (IH r eq_refl). cbn [app List.length]. lia.
      * destruct (atoi a) as [s|]; [|discriminate]. destruct (atoi b) as [e|]; [|discriminate].
        destruct ((s <? 0)%Z || (sc <=? e)%Z) eqn:Er; [discriminate|].
        apply orb_false_iff in Er. destruct Er as [E1 E2]. apply Z.ltb_ge in E1. apply Z.leb_gt in E2.
        destruct (parse_slots sc segs) as [r|]; [|discriminate]. inversion H; subst.
        specialize (IH r eq_refl). rewrite app_length, z_seq_length. lia.
Qed.

(* ---------- SCAN reply rewriting never indexes an empty array ---------- *)

Lemma scan_reply_total idx reply : scan_reply idx reply <> None.
Proof.
  destruct reply as [t|t|z|o|[l|]]; cbn [scan_reply]; try discriminate.
  destruct l as [|x rest]; [discriminate|]. destruct (btoi64 (text_of x)); discriminate.
Qed.

(* the regenerated limits *)
Lemma c11_limits : (max_array_len = 1048576)%Z /\ (max_bulk_len = 536870912)%Z /\ max_array_depth = 32 /\ slot_num = 16384.
Proof. vm_compute. repeat split. Qed.
