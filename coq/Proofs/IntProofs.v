From Coq Require Import List NArith ZArith Bool Lia.
From Sam Require Import Model.Bytes Model.Resp Proofs.BytesProofs.
Import ListNotations.
Open Scope N_scope.

(* unchecked value of a digit string *)
Fixpoint pv (l : bytes) (a : N) : option N :=
  match l with
  | [] => Some a
  | d :: t => if is_digit d then pv t (a * 10 + (d - 48)) else None
  end.

Fixpoint ndig (fuel : nat) (n : N) : N :=
  match fuel with
  | O => 0
  | S f => if n <? 10 then 1 else 1 + ndig f (n / 10)
  end.

Lemma is_digit_48 n : n < 10 -> is_digit (48 + n) = true.
Proof. intros H. unfold is_digit. apply andb_true_iff. split; apply N.leb_le; lia. Qed.

Lemma pv_digits f : forall n acc a, n < 10 ^ N.of_nat f ->
  pv (digits_fuel f n acc) a = pv acc (a * 10 ^ ndig f n + n).
Proof.
  induction f as [|f IH]; intros n acc a Hn.
  - cbn in Hn. assert (n = 0) by lia. subst. cbn. f_equal. lia.
  - cbn [digits_fuel ndig]. destruct (N.ltb_spec n 10) as [Hlt|Hge].
    + cbn [pv]. rewrite is_digit_48 by (apply N.mod_lt; lia).
      rewrite N.mod_small by lia. rewrite N.pow_1_r. f_equal; lia.
    + rewrite IH.
      2:{ rewrite Nat2N.inj_succ, N.pow_succ_r' in Hn. apply N.div_lt_upper_bound; lia. }
      cbn [pv]. rewrite is_digit_48 by (apply N.mod_lt; lia).
      rewrite N.pow_add_r, N.pow_1_r.
      pose proof (N.div_mod n 10).
      set (X := 10 ^ ndig f (n / 10)).
      replace (a * (10 * X) + n) with ((a * X + n / 10) * 10 + (48 + n mod 10 - 48)); [reflexivity|].
      assert (Q : 48 + n mod 10 - 48 = n mod 10) by (generalize (n mod 10); intros y; lia).
      rewrite Q. clear Q.
      assert (E : n = 10 * (n / 10) + n mod 10) by (apply N.div_mod; lia).
      rewrite E at 3. ring.
Qed.

Lemma pv_dec_of_N n : n < 10 ^ 40 -> pv (dec_of_N n) 0 = Some n.
Proof. intros H. unfold dec_of_N. rewrite pv_digits by exact H. cbn [pv]. f_equal. Qed.

Lemma pv_mono l : forall a v, pv l a = Some v -> a <= v.
Proof.
  induction l as [|d l IH]; intros a v H; cbn [pv] in H.
  - inversion H. lia.
  - destruct (is_digit d); [|discriminate]. apply IH in H. lia.
Qed.

Lemma parse_digits_pv l : forall a v, pv l a = Some v -> v <= uint64_max -> parse_digits l a = inl v.
Proof.
  induction l as [|d l IH]; intros a v H Hv; cbn [pv parse_digits] in *.
  - inversion H. reflexivity.
  - destruct (is_digit d); [|discriminate].
    pose proof (pv_mono _ _ _ H).
    destruct (N.ltb_spec uint64_max (a * 10 + (d - 48))); [lia|]. apply IH; assumption.
Qed.

Lemma pv_none l : forall a, pv l a = None -> forall b, pv l b = None.
Proof.
  induction l as [|d l IH]; intros a H b; cbn [pv] in *; [discriminate|].
  destruct (is_digit d); [|reflexivity]. eapply IH. exact H.
Qed.

(* first byte of a rendered number is a digit *)
Lemma digits_fuel_head f : forall n acc, n < 10 ^ N.of_nat f -> (0 < f)%nat ->
  exists d t, digits_fuel f n acc = d :: t /\ is_digit d = true.
Proof.
  induction f as [|f IH]; intros n acc Hn Hf; [lia|].
  cbn [digits_fuel]. destruct (N.ltb_spec n 10) as [Hlt|Hge].
  - eexists _, _. split; [reflexivity|]. apply is_digit_48. apply N.mod_lt. lia.
  - apply IH.
    + rewrite Nat2N.inj_succ, N.pow_succ_r' in Hn. apply N.div_lt_upper_bound; lia.
    + destruct f; [|lia]. cbn in Hn. lia.
Qed.

Lemma dec_of_N_head n : n < 10 ^ 40 -> exists d t, dec_of_N n = d :: t /\ is_digit d = true.
Proof. intros H. apply digits_fuel_head; [exact H | lia]. Qed.

Lemma is_digit_range d : is_digit d = true -> 48 <= d <= 57.
Proof. unfold is_digit. intros H. apply andb_true_iff in H. destruct H as [H1 H2]. apply N.leb_le in H1, H2. lia. Qed.

Lemma int64_lt_pow p : in_int64 (Zpos p) = true \/ in_int64 (Zneg p) = true -> Npos p < 10 ^ 40 /\ Npos p <= uint64_max.
Proof.
  unfold in_int64, int64_min, int64_max, uint64_max. intros H.
  assert (Z.pos p <= 9223372036854775808)%Z.
  { destruct H as [H|H]; apply andb_true_iff in H; destruct H as [H1 H2]; apply Z.leb_le in H1, H2; lia. }
  split.
  - apply N.lt_le_trans with (m := 18446744073709551616); [lia|]. vm_compute. discriminate.
  - lia.
Qed.

Lemma parse_dec_of_Z z : in_int64 z = true -> parse_int64 (dec_of_Z z) = inl z.
Proof.
  intros Hz. destruct z as [|p|p]; cbn [dec_of_Z].
  - reflexivity.
  - destruct (int64_lt_pow p (or_introl Hz)) as [H1 H2].
    destruct (dec_of_N_head _ H1) as [d [t [E Hd]]].
    unfold parse_int64. rewrite E. pose proof (is_digit_range _ Hd).
    destruct (N.eqb_spec d 45); [lia|]. destruct (N.eqb_spec d 43); [lia|].
    rewrite <- E. rewrite (parse_digits_pv _ _ _ (pv_dec_of_N _ H1) H2). cbn [Z.of_N]. rewrite Hz. reflexivity.
  - destruct (int64_lt_pow p (or_intror Hz)) as [H1 H2].
    destruct (dec_of_N_head _ H1) as [d [t [E Hd]]].
    unfold parse_int64. rewrite N.eqb_refl. rewrite E, <- E.
    rewrite (parse_digits_pv _ _ _ (pv_dec_of_N _ H1) H2). cbn [Z.of_N Z.opp]. rewrite Hz. reflexivity.
Qed.

(* ---------- btoi64: the fast path is a pure optimisation ---------- *)

Lemma fast_digits_spec l : forall a n, (0 <= a)%Z -> fast_digits l a = (n, []) ->
  pv l (Z.to_N a) = Some (Z.to_N n) /\ (0 <= n)%Z /\ (n < (a + 1) * 10 ^ Z.of_N (lenN l))%Z.
Proof.
  induction l as [|d l IH]; intros a n Ha H; cbn [fast_digits pv] in *.
  - inversion H; subst. cbn [lenN]. repeat split; lia.
  - destruct (is_digit d) eqn:Hd; [|discriminate].
    pose proof (is_digit_range _ Hd) as Hr.
    apply IH in H; [|lia]. destruct H as [H1 [H2 H3]].
    replace (Z.to_N a * 10 + (d - 48)) with (Z.to_N (Z.of_N (d - 48) + a * 10)) by lia.
    repeat split; [exact H1 | exact H2 |].
    rewrite lenN_cons, N2Z.inj_add, Z.pow_add_r by lia. change (10 ^ Z.of_N 1)%Z with 10%Z.
    eapply Z.lt_le_trans; [exact H3|].
    assert (0 < 10 ^ Z.of_N (lenN l))%Z by (apply Z.pow_pos_nonneg; lia).
    nia.
Qed.

Lemma btoi64_fast_ok ds n : ds <> [] -> lenN ds < 10 -> fast_digits ds 0%Z = (n, []) ->
  parse_digits ds 0 = inl (Z.to_N n) /\ (0 <= n < 10 ^ 9)%Z.
Proof.
  intros Hne Hlen H. apply fast_digits_spec in H; [|lia]. destruct H as [H1 [H2 H3]].
  assert (Hb : (n < 10 ^ 9)%Z).
  { eapply Z.lt_le_trans; [exact H3|]. rewrite Z.mul_1_l.
    apply Z.pow_le_mono_r; lia. }
  split; [|lia].
  apply parse_digits_pv; [exact H1|]. unfold uint64_max.
  assert (10 ^ 9 = 1000000000)%Z by reflexivity. lia.
Qed.

Lemma btoi64_is_parse_int64 b : btoi64 b = parse_int64 b.
Proof.
  unfold btoi64. destruct b as [|c t]; [reflexivity|].
  destruct (lenN (c :: t) <? 10) eqn:Hl; [|reflexivity]. apply N.ltb_lt in Hl.
  destruct (N.eqb_spec c 45) as [E45|N45]; [|destruct (N.eqb_spec c 43) as [E43|N43]].
  - destruct t as [|d t]; [reflexivity|].
    destruct (fast_digits (d :: t) 0%Z) as [n rest] eqn:Ef. destruct rest; [|reflexivity].
    destruct (btoi64_fast_ok (d :: t) n) as [H1 H2]; [discriminate | rewrite lenN_cons in Hl; lia | exact Ef |].
    unfold parse_int64. subst c. rewrite N.eqb_refl. rewrite H1.
    rewrite Z2N.id by lia.
    assert (Hin : in_int64 (- n) = true).
    { unfold in_int64, int64_min, int64_max. assert (10 ^ 9 = 1000000000)%Z by reflexivity.
      apply andb_true_iff; split; apply Z.leb_le; lia. }
    rewrite Hin. reflexivity.
  - destruct t as [|d t]; [reflexivity|].
    destruct (fast_digits (d :: t) 0%Z) as [n rest] eqn:Ef. destruct rest; [|reflexivity].
    destruct (btoi64_fast_ok (d :: t) n) as [H1 H2]; [discriminate | rewrite lenN_cons in Hl; lia | exact Ef |].
    unfold parse_int64. subst c. cbn [N.eqb Pos.eqb]. rewrite H1.
    rewrite Z2N.id by lia.
    assert (Hin : in_int64 n = true).
    { unfold in_int64, int64_min, int64_max. assert (10 ^ 9 = 1000000000)%Z by reflexivity.
      apply andb_true_iff; split; apply Z.leb_le; lia. }
    rewrite Hin. reflexivity.
  - destruct (fast_digits (c :: t) 0%Z) as [n rest] eqn:Ef. destruct rest; [|reflexivity].
    destruct (btoi64_fast_ok (c :: t) n) as [H1 H2]; [discriminate | exact Hl | exact Ef |].
    unfold parse_int64.
    destruct (N.eqb_spec c 45); [contradiction|]. destruct (N.eqb_spec c 43); [contradiction|].
    rewrite H1. rewrite Z2N.id by lia.
    assert (Hin : in_int64 n = true).
    { unfold in_int64, int64_min, int64_max. assert (10 ^ 9 = 1000000000)%Z by reflexivity.
      apply andb_true_iff; split; apply Z.leb_le; lia. }
    rewrite Hin. reflexivity.
Qed.

(* ---------- itoa: the pre-rendered table returns exactly the decimal text ---------- *)

Fixpoint prefix_offsets (off : N) (strs : list bytes) : list N :=
  match strs with [] => [] | s :: t => off :: prefix_offsets (off + lenN s) t end.

Lemma build_itoa_spec vals : forall off,
  build_itoa vals off = (prefix_offsets off (map dec_of_Z vals), concat (map dec_of_Z vals)).
Proof.
  induction vals as [|v vals IH]; intros off; cbn [build_itoa map prefix_offsets concat]; [reflexivity|].
  rewrite IH. reflexivity.
Qed.

Lemma nth_prefix_offsets strs : forall off k, k < lenN strs ->
  nthN (prefix_offsets off strs) k 0 = off + lenN (concat (takeN k strs)).
Proof.
  induction strs as [|s strs IH]; intros off k Hk; [cbn [lenN] in Hk; lia|].
  cbn [prefix_offsets nthN]. destruct (N.eqb_spec k 0) as [->|Hk0].
  - rewrite takeN_0. cbn. lia.
  - rewrite lenN_cons in Hk. rewrite IH by lia. rewrite takeN_cons by lia. cbn [concat].
    rewrite lenN_app. rewrite N.sub_1_r. lia.
Qed.

Lemma concat_split (strs : list bytes) k :
  concat strs = concat (takeN k strs) ++ concat (dropN k strs).
Proof. rewrite <- concat_app, take_drop. reflexivity. Qed.

Lemma dropN_cons_nth {A} (l : list A) k d : k < lenN l -> dropN k l = nthN l k d :: dropN (k + 1) l.
Proof.
  revert k. induction l as [|x l IH]; intros k Hk; [cbn [lenN] in Hk; lia|].
  rewrite lenN_cons in Hk. destruct (N.eq_dec k 0) as [->|Hk0].
  - rewrite dropN_0. cbn [nthN N.eqb]. rewrite dropN_cons by lia. rewrite dropN_0. reflexivity.
  - rewrite dropN_cons by lia. cbn [nthN]. destruct (N.eqb_spec k 0); [lia|].
    rewrite (dropN_cons (k + 1)) by lia. rewrite N.sub_1_r.
    rewrite (IH (N.pred k)) by lia. f_equal. f_equal. lia.
Qed.

Lemma nthN_map {A B} (f : A -> B) l k d : nthN (map f l) k (f d) = f (nthN l k d).
Proof.
  revert k. induction l as [|x l IH]; intros k; cbn [map nthN]; [reflexivity|].
  destruct (N.eqb k 0); [reflexivity | apply IH].
Qed.

Lemma lenN_map {A B} (f : A -> B) l : lenN (map f l) = lenN l.
Proof. induction l; cbn [map lenN]; congruence. Qed.

Lemma lenN_seq s n : lenN (seq s n) = N.of_nat n.
Proof. rewrite lenN_length, seq_length. reflexivity. Qed.

Lemma nthN_nth {A} (l : list A) k d : nthN l k d = nth (N.to_nat k) l d.
Proof.
  revert k. induction l as [|x l IH]; intros k; cbn [nthN]; [destruct (N.to_nat k); reflexivity|].
  destruct (N.eqb_spec k 0) as [->|Hk]; [reflexivity|].
  rewrite IH. replace (N.to_nat k) with (S (N.to_nat (N.pred k))) by lia. reflexivity.
Qed.

Lemma nth_z_range lo count k : k < N.of_nat count ->
  nthN (z_range lo count) k 0%Z = (lo + Z.of_N k)%Z.
Proof.
  intros Hk. unfold z_range. rewrite nthN_nth.
  set (f := fun k0 : nat => (lo + Z.of_nat k0)%Z).
  transitivity (nth (N.to_nat k) (map f (seq 0 count)) (f 0%nat)).
  { apply nth_indep. rewrite map_length, seq_length. lia. }
  rewrite map_nth. rewrite seq_nth by lia. unfold f. lia.
Qed.

Lemma itoa_segment vals : forall off k, k < lenN vals ->
  let '(offs, buf) := build_itoa vals off in
  let beg := nthN offs k 0 in
  off <= beg /\
  (k + 1 < lenN vals -> takeN (nthN offs (k + 1) 0 - beg) (dropN (beg - off) buf) = dec_of_Z (nthN vals k 0%Z)) /\
  (k + 1 = lenN vals -> dropN (beg - off) buf = dec_of_Z (nthN vals k 0%Z)).
Proof.
  induction vals as [|v vals IH]; intros off k Hk; [cbn [lenN] in Hk; lia|].
  cbn [build_itoa]. specialize (IH (off + lenN (dec_of_Z v))).
  destruct (build_itoa vals (off + lenN (dec_of_Z v))) as [offs buf] eqn:Eb.
  rewrite lenN_cons in *.
  destruct (N.eq_dec k 0) as [->|Hk0].
  - cbn [nthN N.eqb]. split; [lia|]. rewrite N.sub_diag, dropN_0. split.
    + intros Hlt. replace (0 + 1) with 1 by lia.
      specialize (IH 0). destruct vals as [|v2 vals]; [cbn [lenN] in Hlt; lia|].
      cbn [build_itoa] in Eb. destruct (build_itoa vals _) in Eb. inversion Eb; subst.
      change (takeN (off + lenN (dec_of_Z v) - off) (dec_of_Z v ++ dec_of_Z v2 ++ b) = dec_of_Z v).
      replace (off + lenN (dec_of_Z v) - off) with (lenN (dec_of_Z v)) by lia.
      apply takeN_app_exact.
    + intros He. assert (vals = []) by (apply lenN_nil; lia). subst vals.
      cbn [build_itoa] in Eb. inversion Eb; subst. apply app_nil_r.
  - cbn [nthN]. destruct (N.eqb_spec k 0); [lia|]. destruct (N.eqb_spec (k + 1) 0); [lia|].
    specialize (IH (N.pred k)). destruct IH as [I1 [I2 I3]]; [lia|].
    replace (N.pred (k + 1)) with (N.pred k + 1) by lia.
    set (beg := nthN offs (N.pred k) 0) in *.
    assert (Hd : dropN (beg - off) (dec_of_Z v ++ buf) = dropN (beg - (off + lenN (dec_of_Z v))) buf).
    { rewrite dropN_app_r by lia. f_equal. lia. }
    rewrite Hd. split; [lia|]. split.
    + intros Hlt. apply I2. lia.
    + intros He. apply I3. lia.
Qed.

Lemma itoa_is_dec mn mx i : (mn <= mx)%Z -> itoa (mk_itoa_tab mn mx) i = dec_of_Z i.
Proof.
  intros Hmm. unfold itoa, mk_itoa_tab.
  set (count := Z.to_nat (mx - mn + 1)).
  pose proof (itoa_segment (z_range mn count) 0 (Z.to_N (i - mn))) as Hseg.
  destruct (build_itoa (z_range mn count) 0) as [offs buf] eqn:Eb.
  cbn [it_min it_max it_off it_buf].
  destruct ((mn <=? i)%Z && (i <=? mx)%Z) eqn:Hin; [|reflexivity].
  apply andb_true_iff in Hin. destruct Hin as [H1 H2]. apply Z.leb_le in H1, H2.
  assert (Hlen : lenN (z_range mn count) = N.of_nat count).
  { unfold z_range. rewrite lenN_map, lenN_seq. reflexivity. }
  rewrite Hlen in Hseg.
  destruct Hseg as [_ [S2 S3]]; [clear Eb Hlen; subst count; lia|].
  rewrite N.sub_0_r in S2, S3.
  rewrite nth_z_range in S2, S3 by (clear Eb Hlen S2 S3; subst count; lia).
  replace (mn + Z.of_N (Z.to_N (i - mn)))%Z with i in S2, S3 by lia.
  destruct (Z.eqb_spec i mx) as [E|E].
  - apply S3. clear Eb S2 S3. subst count. lia.
  - apply S2. clear Eb S2 S3. subst count. lia.
Qed.

(* shape of decimal text: digits with an optional leading minus; at most 20 bytes *)
Lemma digits_fuel_all f : forall n acc (P : N -> Prop), (forall d, 48 <= d <= 57 -> P d) -> Forall P acc ->
  Forall P (digits_fuel f n acc).
Proof.
  induction f as [|f IH]; intros n acc P HP Hacc; cbn [digits_fuel]; [exact Hacc|].
  assert (Hd : P (48 + n mod 10)).
  { apply HP. assert (n mod 10 < 10) by (apply N.mod_lt; discriminate). generalize dependent (n mod 10). intros y Hy. lia. }
  destruct (n <? 10); [constructor; assumption|]. apply IH; [exact HP|]. constructor; assumption.
Qed.

Definition num_byte (d : N) : Prop := d = 45 \/ 48 <= d <= 57.

Lemma dec_of_Z_shape z : Forall num_byte (dec_of_Z z).
Proof.
  assert (H : forall n, Forall num_byte (dec_of_N n)).
  { intros n. apply digits_fuel_all; [|constructor]. intros d Hd. right. exact Hd. }
  destruct z; cbn [dec_of_Z].
  - constructor; [right; lia | constructor].
  - apply H.
  - constructor; [left; reflexivity | apply H].
Qed.

Lemma ndig_le f : forall n, ndig f n <= N.of_nat f.
Proof. induction f as [|f IH]; intros n; cbn [ndig]; [lia|]. destruct (n <? 10); [lia|]. specialize (IH (n / 10)). lia. Qed.

Lemma lenN_digits f : forall n acc, n < 10 ^ N.of_nat f -> (0 < f)%nat ->
  lenN (digits_fuel f n acc) = ndig f n + lenN acc.
Proof.
  induction f as [|f IH]; intros n acc Hn Hf; [lia|].
  cbn [digits_fuel ndig]. destruct (N.ltb_spec n 10) as [Hlt|Hge]; [rewrite lenN_cons; lia|].
  rewrite IH.
  - rewrite lenN_cons. lia.
  - rewrite Nat2N.inj_succ, N.pow_succ_r' in Hn. apply N.div_lt_upper_bound; lia.
  - destruct f; [cbn in Hn; lia | lia].
Qed.
