(* Proofs about Model/Gossip.v: nodes with inconsistent views of a slot's owner (the finalisation window of a
   migration).  Safety: whenever the redirect chain of a request ends, it ended with exactly one execution on a node
   that is authoritative for the key, the reply is the single server's, nothing is lost - whatever the lag, whatever
   (quiet) migration activity between the hops, finalisations with lag included.  Progress: when no finalisation of
   the request's own slot begins between its hops, the chain ends within 2*lag+3 hops: each MOVED the lagging target
   still gives costs one bounce (two hops). *)
From Coq Require Import List NArith Bool Arith Lia.
From Sam Require Import Model.Bytes Model.Resp Model.Cluster Model.Migrate Model.Gossip Proofs.ClusterProofs Proofs.MigrateProofs.
Import ListNotations.
Open Scope nat_scope.

Section P.
  Variable V : Type.
  Variable sem : list resp -> option V -> option V * resp.
  Variable slot : bytes -> N.

  Notation cstate := (cstate V).
  Notation gstate := (gstate V).
  Notation do_mstep := (do_mstep V slot).
  Notation do_msteps := (do_msteps V slot).
  Notation do_gstep := (do_gstep V slot).
  Notation do_gsteps := (do_gsteps V slot).
  Notation abs := (abs V slot).
  Notation node_decide := (node_decide V slot).
  Notation exec_at := (exec_at V sem).
  Notation exec_sub := (exec_sub V sem).
  Notation gnode := (gnode V slot).
  Notation gchain := (gchain V sem slot).
  Notation MInv := (MInv V slot).

  Record GInv (g : gstate) : Prop := {
    g1 : MInv (gb V g);
    g2 : forall sl so c, lag V g sl = Some (so, c) -> mig V (gb V g) sl = None /\ so <> own V (gb V g) sl }.

  Definition gbase (l : list gstep) : list mstep := flat_map base_of l.

  Ltac neq_dec a b := destruct (N.eqb_spec a b).

  (* ---------- the truth evolves by the Migrate.v steps ---------- *)
  Lemma gb_step g s : gb V (do_gstep g s) = do_msteps (gb V g) (base_of s).
  Proof.
    destruct s as [m|sl b|sl]; cbn [Gossip.do_gstep Gossip.base_of Migrate.do_msteps fold_left gb]; try reflexivity.
    destruct (mig V (gb V g) sl) eqn:Em; cbn [gb Migrate.do_mstep]; [reflexivity | rewrite Em; reflexivity].
  Qed.

  Lemma gb_steps l : forall g, gb V (do_gsteps g l) = do_msteps (gb V g) (gbase l).
  Proof.
    induction l as [|s t IH]; intros g; [reflexivity|].
    cbn [Gossip.do_gsteps fold_left]. fold (do_gsteps (do_gstep g s) t). rewrite IH, gb_step.
    unfold gbase. cbn [flat_map]. unfold Migrate.do_msteps. rewrite fold_left_app. reflexivity.
  Qed.

  Lemma mstep_own_mig_other cs m sl : (forall t, m <> MBegin sl t) -> m <> MFinish sl ->
    own V (do_mstep cs m) sl = own V cs sl /\ mig V (do_mstep cs m) sl = mig V cs sl.
  Proof.
    intros H1 H2. destruct m as [s t|k0|s]; cbn [Migrate.do_mstep].
    - destruct (mig V cs s) eqn:Em; [split; reflexivity|]. neq_dec t (own V cs s); [split; reflexivity|].
      cbn [own mig]. split; [reflexivity|]. neq_dec sl s; [subst; exfalso; apply (H1 t); reflexivity | reflexivity].
    - destruct (mig V cs (slot k0)); [|split; reflexivity]. destruct (ndb V cs (own V cs (slot k0)) k0); split; reflexivity.
    - destruct (mig V cs s) eqn:Em; [|split; reflexivity]. cbn [own mig].
      neq_dec sl s; [subst; exfalso; apply H2; reflexivity | split; reflexivity].
  Qed.

  Lemma mstep_no_mig cs m sl : mig V cs sl = None -> (forall t, m <> MBegin sl t) ->
    own V (do_mstep cs m) sl = own V cs sl /\ mig V (do_mstep cs m) sl = None.
  Proof.
    intros Hn H1. destruct m as [s t|k0|s]; cbn [Migrate.do_mstep].
    - destruct (mig V cs s) eqn:Em; [split; [reflexivity | exact Hn]|]. neq_dec t (own V cs s); [split; [reflexivity | exact Hn]|].
      cbn [own mig]. split; [reflexivity|]. neq_dec sl s; [subst; exfalso; apply (H1 t); reflexivity | exact Hn].
    - destruct (mig V cs (slot k0)); [|split; [reflexivity | exact Hn]].
      destruct (ndb V cs (own V cs (slot k0)) k0); split; try reflexivity; exact Hn.
    - destruct (mig V cs s) eqn:Em; [|split; [reflexivity | exact Hn]]. cbn [own mig].
      neq_dec sl s; [subst; congruence | split; [reflexivity | exact Hn]].
  Qed.

  (* ---------- one step keeps the invariant and the single server's data ---------- *)
  Lemma gstep_ok g s : GInv g -> GInv (do_gstep g s) /\ forall k, abs (gb V (do_gstep g s)) k = abs (gb V g) k.
  Proof.
    intros [I L]. destruct s as [m|sl b|sl].
    - cbn [Gossip.do_gstep gb lag]. destruct (mstep_ok V slot (gb V g) m I) as [I1 A1]. split; [|exact A1].
      constructor; cbn [gb lag]; [exact I1|].
      intros s0 so c Hl.
      assert (Hl0 : lag V g s0 = Some (so, c) /\ forall t, m <> MBegin s0 t).
      { destruct m as [s t|k0|s]; try (split; [exact Hl | discriminate]).
        unfold set_lag in Hl. neq_dec s0 s; [discriminate|]. split; [exact Hl|]. intros t0 E. inversion E; congruence. }
      destruct Hl0 as [Hl0 Hnb]. destruct (L _ _ _ Hl0) as [L1 L2].
      destruct (mstep_no_mig (gb V g) m s0 L1 Hnb) as [O1 O2]. split; [exact O2 | rewrite O1; exact L2].
    - cbn [Gossip.do_gstep]. destruct (mig V (gb V g) sl) as [t|] eqn:Em; [|split; [constructor; assumption | reflexivity]].
      cbn [gb lag]. destruct (mstep_ok V slot (gb V g) (MFinish sl) I) as [I1 A1]. split; [|exact A1].
      constructor; cbn [gb lag]; [exact I1|].
      intros s0 so c Hl. unfold set_lag in Hl. cbn [Migrate.do_mstep]. rewrite Em. cbn [own mig].
      neq_dec s0 sl.
      + inversion Hl; subst. split; [reflexivity|]. intros E. exact (m2 _ _ _ I _ _ Em (eq_sym E)).
      + exact (L _ _ _ Hl).
    - cbn [Gossip.do_gstep gb lag]. split; [|reflexivity]. constructor; cbn [gb lag]; [exact I|].
      intros s0 so c Hl. unfold set_lag in Hl. neq_dec s0 sl; [discriminate | exact (L _ _ _ Hl)].
  Qed.

  Lemma gsteps_ok l : forall g, GInv g -> GInv (do_gsteps g l) /\ forall k, abs (gb V (do_gsteps g l)) k = abs (gb V g) k.
  Proof.
    induction l as [|s t IH]; intros g I; [split; [exact I | reflexivity]|].
    cbn [Gossip.do_gsteps fold_left]. fold (do_gsteps (do_gstep g s) t).
    destruct (gstep_ok g s I) as [I1 A1]. destruct (IH _ I1) as [I2 A2]. split; [exact I2|].
    intros k. rewrite A2. apply A1.
  Qed.

  (* ---------- activity that does not begin a new migration of the slot ---------- *)
  Definition gquiet1 (sl : N) (s : gstep) : bool := match s with GBase m => quiet1 sl m | _ => true end.
  Definition gquiet (sl : N) (l : list gstep) : bool := forallb (gquiet1 sl) l.
  (* ... and does not open a finalisation window for it either *)
  Definition calm1 (sl : N) (s : gstep) : bool :=
    match s with GBase m => quiet1 sl m | GFinishLag s0 _ => negb (s0 =? sl)%N | GLearn _ => true end.
  Definition calm (sl : N) (l : list gstep) : bool := forallb (calm1 sl) l.

  Lemma calm_gquiet sl l : calm sl l = true -> gquiet sl l = true.
  Proof.
    unfold calm, gquiet. rewrite !forallb_forall. intros H s Hs. specialize (H s Hs). destruct s; cbn in *; auto.
  Qed.

  Lemma gquiet_base sl l : gquiet sl l = true -> quiet sl (gbase l) = true.
  Proof.
    induction l as [|s t IH]; [reflexivity|]. cbn [gquiet forallb]. intros H. apply andb_true_iff in H. destruct H as [H1 H2].
    unfold gbase. cbn [flat_map]. unfold quiet. rewrite forallb_app. apply andb_true_iff. split; [|apply IH; exact H2].
    destruct s as [m|s0 b|s0]; cbn in *; [rewrite H1; reflexivity | reflexivity | reflexivity].
  Qed.

  Lemma env_gslot l g sl : GInv g -> gquiet sl l = true ->
    same_phase V slot (gb V g) (gb V (do_gsteps g l)) sl \/ finished V (gb V g) (gb V (do_gsteps g l)) sl.
  Proof. intros I Q. rewrite gb_steps. apply env_slot; [apply (g1 _ I) | apply gquiet_base; exact Q]. Qed.

  Lemma calm_lag l : forall g sl, calm sl l = true -> lag V (do_gsteps g l) sl = lag V g sl \/ lag V (do_gsteps g l) sl = None.
  Proof.
    induction l as [|s t IH]; intros g sl H; [left; reflexivity|].
    cbn [calm forallb] in H. apply andb_true_iff in H. destruct H as [H1 H2].
    cbn [Gossip.do_gsteps fold_left]. fold (do_gsteps (do_gstep g s) t).
    assert (Hs : lag V (do_gstep g s) sl = lag V g sl \/ lag V (do_gstep g s) sl = None).
    { destruct s as [m|s0 b|s0]; cbn [Gossip.do_gstep].
      - cbn [lag]. destruct m as [s1 t1|k0|s1]; try (left; reflexivity). unfold set_lag. neq_dec sl s1; [right | left]; reflexivity.
      - destruct (mig V (gb V g) s0); [|left; reflexivity]. cbn [lag]. unfold set_lag. cbn in H1.
        neq_dec sl s0; [subst; rewrite N.eqb_refl in H1; discriminate | left; reflexivity].
      - cbn [lag]. unfold set_lag. neq_dec sl s0; [right | left]; reflexivity. }
    destruct (IH (do_gstep g s) sl H2) as [E|E]; [rewrite E; exact Hs | right; exact E].
  Qed.

  (* ---------- one node's answer ---------- *)
  Lemma gnode_inv g n asking k : GInv g -> GInv (fst (gnode g n asking k)) /\ gb V (fst (gnode g n asking k)) = gb V g.
  Proof.
    intros [I L]. unfold Gossip.gnode. destruct (lag V g (slot k)) as [[so c]|] eqn:El; [|split; [constructor; assumption | reflexivity]].
    destruct (own V (gb V g) (slot k) =? n)%N; [|split; [constructor; assumption | reflexivity]].
    destruct asking; [split; [constructor; assumption | reflexivity]|].
    destruct c as [|c']; cbn [fst gb]; (split; [|reflexivity]); constructor; cbn [gb lag]; try exact I;
      intros s0 so0 c0 Hl; unfold set_lag in Hl; neq_dec s0 (slot k).
    - discriminate.
    - exact (L _ _ _ Hl).
    - inversion Hl; subst. exact (L _ _ _ El).
    - exact (L _ _ _ Hl).
  Qed.

  (* ---------- safety: whenever the chain ends, it ended correctly ---------- *)
  Theorem gchain_safe fuel : forall g n asking s envs hops g' r nd h,
    GInv g -> Forall (fun l => gquiet (slot (sk s)) l = true) envs ->
    (asking = true -> AskPre V slot (gb V g) n (sk s)) ->
    gchain fuel g n asking s envs hops = GDone V g' r nd h ->
    GInv g' /\ r = snd (exec_sub (abs (gb V g)) s) /\ (forall x, abs (gb V g') x = fst (exec_sub (abs (gb V g)) s) x).
  Proof.
    induction fuel as [|f IH]; intros g n asking s envs hops g' r nd h I Q Hask Hc; [discriminate|].
    cbn [Gossip.gchain] in Hc. set (k := sk s) in *. set (sl := slot k) in *.
    assert (Q0 : gquiet sl (hd [] envs) = true) by (destruct envs; [reflexivity | inversion Q; assumption]).
    assert (Q1 : Forall (fun l => gquiet sl l = true) (tl envs)) by (destruct envs; [constructor | inversion Q; assumption]).
    destruct (gsteps_ok (hd [] envs) g I) as [I1 A1]. pose proof (env_gslot (hd [] envs) g sl I Q0) as Ph.
    set (ga := do_gsteps g (hd [] envs)) in *.
    destruct (exec_sub_ext V sem (abs (gb V ga)) (abs (gb V g)) s A1) as [X1 X2].
    destruct (gnode_inv ga n asking k I1) as [I2 B2].
    (* the precondition of an ASKING hop after the environment's steps *)
    assert (Hask1 : asking = true -> own V (gb V ga) sl <> n -> AskPre V slot (gb V ga) n k).
    { intros Ha Hn. destruct (Hask Ha) as [P1 P2]. fold k sl in P1, P2.
      destruct Ph as [[S1 [S2 S3]]|[t0 [F1 [F2 F3]]]].
      - split; fold sl; [rewrite S2; exact P1 | rewrite S1; apply S3; [reflexivity | exact P2]].
      - congruence. }
    destruct (gnode ga n asking k) as [gc a] eqn:Eg. cbn [fst] in I2, B2.
    assert (Hdec : a = NExec /\ Auth V slot (gb V ga) n k \/
                   (a = node_decide (gb V ga) n asking k /\ gc = ga /\ a <> NExec) \/
                   (exists so, a = NMoved so /\ asking = false)).
    { unfold Gossip.gnode in Eg. fold sl in Eg.
      assert (Hb : forall a0, node_decide (gb V ga) n asking k = a0 ->
                   a0 = NExec /\ Auth V slot (gb V ga) n k \/ (a0 = node_decide (gb V ga) n asking k /\ a0 <> NExec)).
      { intros a0 E. destruct a0 as [|t|o]; [left | right; split; [auto | discriminate] | right; split; [auto | discriminate]].
        split; [reflexivity|]. apply (decide_exec_auth V slot _ _ _ _ E). intros Ha Hn. exact (proj2 (Hask1 Ha Hn)). }
      destruct (lag V ga sl) as [[so c]|] eqn:El.
      - destruct (N.eqb_spec (own V (gb V ga) sl) n) as [Eo|Eo].
        + destruct (g2 _ I1 _ _ _ El) as [L1 L2].
          assert (Au : Auth V slot (gb V ga) n k) by (left; split; [exact Eo | left; exact L1]).
          destruct asking; [inversion Eg; subst; left; auto|].
          destruct c as [|c']; inversion Eg; subst; [left; auto | right; right; exists so; auto].
        + inversion Eg; subst. destruct (Hb _ eq_refl) as [H|[H1 H2]]; [left; exact H | right; left; auto].
      - inversion Eg; subst. destruct (Hb _ eq_refl) as [H|[H1 H2]]; [left; exact H | right; left; auto]. }
    destruct Hdec as [[Ea Au]|[[Ea [Eg2 Hne]]|[so [Ea Hna]]]].
    - (* executes *)
      subst a. rewrite B2 in Hc. destruct (exec_auth V sem slot (gb V ga) n s (g1 _ I1) Au) as [J1 [R1 R2]].
      destruct (exec_at (gb V ga) n s) as [cs r0] eqn:Ex. cbn [fst snd] in *. inversion Hc; subst g' r nd h.
      split; [|split; [congruence | intros x; cbn [gb]; rewrite R2; apply X2]].
      constructor; cbn [gb lag]; [exact J1|].
      intros s0 so c Hl. destruct (g2 _ I2 _ _ _ Hl) as [L1 L2]. rewrite B2 in L1, L2.
      unfold Migrate.exec_at in Ex. destruct (Cluster.exec_sub V sem (ndb V (gb V ga) n) s); inversion Ex; subst cs. cbn [own mig]. auto.
    - (* the plain decision of Migrate.v, not an execution *)
      subst gc. destruct a as [|t|o]; [contradiction| |].
      + (* ASK t *)
        assert (Hd : own V (gb V ga) sl = n /\ mig V (gb V ga) sl = Some t /\ ndb V (gb V ga) n k = None).
        { symmetry in Ea. unfold Migrate.node_decide in Ea. fold sl in Ea. destruct (N.eqb_spec (own V (gb V ga) sl) n) as [E|E].
          - destruct (mig V (gb V ga) sl) as [t'|]; [|discriminate]. destruct (ndb V (gb V ga) n k); [discriminate|]. inversion Ea; subst. auto.
          - destruct (asking && oeqb (mig V (gb V ga) sl) n); discriminate. }
        destruct Hd as [D1 [D2 D3]].
        destruct (IH ga t true s (tl envs) (S hops) g' r nd h I1 Q1) as [C1 [C2 C3]].
        * intros _. split; fold k sl; [exact D2 | rewrite D1; exact D3].
        * exact Hc.
        * split; [exact C1|]. split; [congruence | intros x; rewrite C3; apply X2].
      + (* MOVED o *)
        destruct (IH ga o false s (tl envs) (S hops) g' r nd h I1 Q1) as [C1 [C2 C3]]; [discriminate | exact Hc |].
        split; [exact C1|]. split; [congruence | intros x; rewrite C3; apply X2].
    - (* the lagging target sends the request back *)
      subst a.
      assert (A2 : forall x, abs (gb V gc) x = abs (gb V ga) x) by (intros x; rewrite B2; reflexivity).
      destruct (exec_sub_ext V sem (abs (gb V gc)) (abs (gb V ga)) s A2) as [Y1 Y2].
      destruct (IH gc so false s (tl envs) (S hops) g' r nd h I2 Q1) as [C1 [C2 C3]]; [discriminate | exact Hc |].
      split; [exact C1|]. split; [congruence | intros x; rewrite C3, Y2; apply X2].
  Qed.

  Corollary gchain_safe0 fuel g n s envs g' r nd h : GInv g ->
    Forall (fun l => gquiet (slot (sk s)) l = true) envs ->
    gchain fuel g n false s envs 0 = GDone V g' r nd h ->
    GInv g' /\ r = snd (exec_sub (abs (gb V g)) s) /\ (forall x, abs (gb V g') x = fst (exec_sub (abs (gb V g)) s) x).
  Proof. intros I Q. apply (gchain_safe fuel g n false s envs 0 g' r nd h I Q). discriminate. Qed.

  (* ---------- progress: how many hops are left ---------- *)
  Definition grank (g : gstate) (n : N) (asking : bool) (k : bytes) : nat :=
    if asking then 0
    else match lag V g (slot k) with
         | Some (_, c) => if (own V (gb V g) (slot k) =? n)%N then 2 * c else 2 * c + 1
         | None => rank V slot (gb V g) n false k
         end.

  Lemma env_rank l g n k : GInv g -> calm (slot k) l = true ->
    grank (do_gsteps g l) n false k <= grank g n false k.
  Proof.
    intros I C. pose proof (env_gslot l g (slot k) I (calm_gquiet _ _ C)) as Ph. pose proof (calm_lag l g (slot k) C) as Hl.
    unfold grank. set (ga := do_gsteps g l) in *. set (sl := slot k) in *. unfold rank. fold sl.
    destruct (lag V g sl) as [[so c]|] eqn:El.
    - destruct (g2 _ I _ _ _ El) as [L1 L2].
      destruct Ph as [[S1 [S2 S3]]|[t0 [F1 [F2 F3]]]]; [|congruence].
      destruct Hl as [Hl|Hl]; rewrite Hl; [rewrite S1; lia|].
      rewrite S1, S2, L1. destruct (own V (gb V g) sl =? n)%N; lia.
    - destruct Hl as [Hl|Hl]; rewrite Hl.
      + destruct Ph as [[S1 [S2 S3]]|[t0 [F1 [F2 F3]]]].
        * rewrite S1, S2. lia.
        * rewrite F2, F3, F1. destruct (t0 =? n)%N; destruct (own V (gb V g) sl =? n)%N; lia.
      + destruct Ph as [[S1 [S2 S3]]|[t0 [F1 [F2 F3]]]].
        * rewrite S1, S2. lia.
        * rewrite F2, F3, F1. destruct (t0 =? n)%N; destruct (own V (gb V g) sl =? n)%N; lia.
  Qed.

  Theorem gchain_ends fuel : forall g n asking s envs hops,
    GInv g -> Forall (fun l => calm (slot (sk s)) l = true) envs ->
    (asking = true -> AskPre V slot (gb V g) n (sk s)) -> grank g n asking (sk s) < fuel ->
    exists g' r nd h, gchain fuel g n asking s envs hops = GDone V g' r nd h /\ h <= hops + grank g n asking (sk s) + 1.
  Proof.
    induction fuel as [|f IH]; intros g n asking s envs hops I Q Hask Hr; [lia|].
    cbn [Gossip.gchain]. set (k := sk s) in *. set (sl := slot k) in *.
    assert (Q0 : calm sl (hd [] envs) = true) by (destruct envs; [reflexivity | inversion Q; assumption]).
    assert (Q1 : Forall (fun l => calm sl l = true) (tl envs)) by (destruct envs; [constructor | inversion Q; assumption]).
    destruct (gsteps_ok (hd [] envs) g I) as [I1 _].
    pose proof (env_gslot (hd [] envs) g sl I (calm_gquiet _ _ Q0)) as Ph.
    assert (Hrk : asking = false -> grank (do_gsteps g (hd [] envs)) n false k <= grank g n false k)
      by (intros _; apply env_rank; assumption).
    set (ga := do_gsteps g (hd [] envs)) in *.
    destruct (gnode_inv ga n asking k I1) as [I2 B2].
    destruct asking.
    - (* an ASKING hop always executes *)
      destruct (Hask eq_refl) as [P1 P2]. fold k sl in P1, P2.
      assert (Hex : snd (gnode ga n true k) = NExec).
      { unfold Gossip.gnode. fold sl.
        assert (Hb : node_decide (gb V ga) n true k = NExec).
        { unfold Migrate.node_decide. fold sl. destruct Ph as [[S1 [S2 S3]]|[t0 [F1 [F2 F3]]]].
          - rewrite S1, S2, P1. pose proof (m2 _ _ _ (g1 _ I) _ _ P1) as Hne.
            destruct (N.eqb_spec (own V (gb V g) sl) n) as [E|E]; [congruence|]. cbn. rewrite N.eqb_refl. reflexivity.
          - assert (Et : t0 = n) by congruence. rewrite F2, F3, Et, N.eqb_refl. reflexivity. }
        destruct (lag V ga sl) as [[so c]|]; [|exact Hb]. destruct (own V (gb V ga) sl =? n)%N; [reflexivity | exact Hb]. }
      destruct (gnode ga n true k) as [gc a]. cbn [snd] in Hex. subst a.
      destruct (exec_at (gb V gc) n s) as [cs r0]. do 4 eexists. split; [reflexivity|]. unfold grank. lia.
    - specialize (Hrk eq_refl). clear Hask.
      unfold Gossip.gnode in I2, B2 |- *. fold sl in I2, B2 |- *. unfold grank in Hrk at 1. fold sl in Hrk.
      destruct (lag V ga sl) as [[so c]|] eqn:El.
      + destruct (g2 _ I1 _ _ _ El) as [L1 L2]. destruct (N.eqb_spec (own V (gb V ga) sl) n) as [Eo|Eo].
        * destruct c as [|c'].
          -- cbn [gb]. destruct (exec_at (gb V ga) n s) as [cs r0]. do 4 eexists. split; [reflexivity | lia].
          -- cbn [fst] in I2.
             destruct (IH {| gb := gb V ga; lag := set_lag V ga sl (Some (so, c')) |} so false s (tl envs) (S hops) I2 Q1)
               as [g' [r [nd [h [C1 C2]]]]]; [discriminate | |].
             ++ unfold grank. fold k sl. cbn [gb lag]. unfold set_lag. rewrite N.eqb_refl.
                destruct (N.eqb_spec (own V (gb V ga) sl) so); [congruence | lia].
             ++ exists g', r, nd, h. split; [exact C1|]. revert C2. unfold grank at 1. fold k sl. cbn [gb lag]. unfold set_lag.
                rewrite N.eqb_refl. destruct (N.eqb_spec (own V (gb V ga) sl) so); [congruence | lia].
        * assert (Hd : node_decide (gb V ga) n false k = NMoved (own V (gb V ga) sl)).
          { unfold Migrate.node_decide. fold sl. destruct (N.eqb_spec (own V (gb V ga) sl) n); [contradiction | reflexivity]. }
          rewrite Hd.
          destruct (IH ga (own V (gb V ga) sl) false s (tl envs) (S hops) I1 Q1) as [g' [r [nd [h [C1 C2]]]]]; [discriminate | |].
          -- unfold grank. fold k sl. rewrite El, N.eqb_refl. lia.
          -- exists g', r, nd, h. split; [exact C1|]. revert C2. unfold grank at 1. fold k sl. rewrite El, N.eqb_refl. lia.
      + unfold rank in Hrk. fold sl in Hrk.
        destruct (node_decide (gb V ga) n false k) as [|t|o] eqn:Ed.
        * destruct (exec_at (gb V ga) n s) as [cs r0]. do 4 eexists. split; [reflexivity | lia].
        * assert (Hd : own V (gb V ga) sl = n /\ mig V (gb V ga) sl = Some t /\ ndb V (gb V ga) n k = None).
          { unfold Migrate.node_decide in Ed. fold sl in Ed. destruct (N.eqb_spec (own V (gb V ga) sl) n) as [E|E]; [|discriminate].
            destruct (mig V (gb V ga) sl) as [t'|]; [|discriminate]. destruct (ndb V (gb V ga) n k); [discriminate|]. inversion Ed; subst. auto. }
          destruct Hd as [D1 [D2 D3]]. rewrite D1, N.eqb_refl, D2 in Hrk.
          destruct (IH ga t true s (tl envs) (S hops) I1 Q1) as [g' [r [nd [h [C1 C2]]]]].
          -- intros _. split; fold k sl; [exact D2 | rewrite D1; exact D3].
          -- unfold grank. lia.
          -- exists g', r, nd, h. split; [exact C1|]. unfold grank in C2 at 1. lia.
        * assert (Hd : own V (gb V ga) sl = o /\ o <> n).
          { unfold Migrate.node_decide in Ed. fold sl in Ed. destruct (N.eqb_spec (own V (gb V ga) sl) n) as [E|E].
            - destruct (mig V (gb V ga) sl); [destruct (ndb V (gb V ga) n k)|]; discriminate.
            - cbn in Ed. inversion Ed; subst. auto. }
          destruct Hd as [D1 D2].
          assert (Hlt : grank ga o false k + 1 <= grank g n false k).
          { unfold grank at 1. fold sl. rewrite El. unfold rank. fold sl. rewrite D1, N.eqb_refl.
            rewrite D1 in Hrk. destruct (N.eqb_spec o n); [contradiction|]. destruct (mig V (gb V ga) sl); lia. }
          destruct (IH ga o false s (tl envs) (S hops) I1 Q1) as [g' [r [nd [h [C1 C2]]]]]; [discriminate | fold k; lia |].
          exists g', r, nd, h. split; [exact C1|]. fold k in C2. lia.
  Qed.

  (* what a client sees through a finalisation window: 2*lag+4 hops of fuel are always enough *)
  Corollary grequest_ok g n s envs : GInv g -> Forall (fun l => calm (slot (sk s)) l = true) envs ->
    exists g' r nd h, gchain (2 * lag_count V g (slot (sk s)) + 4) g n false s envs 0 = GDone V g' r nd h /\ GInv g' /\
      r = snd (exec_sub (abs (gb V g)) s) /\ (forall x, abs (gb V g') x = fst (exec_sub (abs (gb V g)) s) x) /\
      h <= 2 * lag_count V g (slot (sk s)) + 3.
  Proof.
    intros I Q.
    assert (Hr : grank g n false (sk s) <= 2 * lag_count V g (slot (sk s)) + 2).
    { unfold grank, lag_count, rank. destruct (lag V g (slot (sk s))) as [[so c]|].
      - destruct (_ =? _)%N; lia.
      - destruct (_ =? _)%N; destruct (mig V (gb V g) _); lia. }
    destruct (gchain_ends (2 * lag_count V g (slot (sk s)) + 4) g n false s envs 0 I Q ltac:(discriminate) ltac:(lia))
      as [g' [r [nd [h [C1 C2]]]]].
    assert (Q' : Forall (fun l => gquiet (slot (sk s)) l = true) envs)
      by (eapply Forall_impl; [|exact Q]; intros l; apply calm_gquiet).
    destruct (gchain_safe _ g n false s envs 0 g' r nd h I Q' ltac:(discriminate) C1) as [S1 [S2 S3]].
    exists g', r, nd, h. split; [exact C1|]. split; [exact S1|]. split; [exact S2|]. split; [exact S3 | lia].
  Qed.

  (* the bound is met: a request that starts at the old owner while the new owner still gives c MOVED answers takes
     exactly 2*c+2 hops *)
  Lemma gnode_old g so c k : GInv g -> lag V g (slot k) = Some (so, c) ->
    gnode g so false k = (g, NMoved (own V (gb V g) (slot k))).
  Proof.
    intros I El. destruct (g2 _ I _ _ _ El) as [L1 L2]. unfold Gossip.gnode. rewrite El.
    destruct (N.eqb_spec (own V (gb V g) (slot k)) so) as [E|E]; [congruence|].
    unfold Migrate.node_decide. destruct (N.eqb_spec (own V (gb V g) (slot k)) so) as [E'|_]; [congruence | reflexivity].
  Qed.

  Lemma gnode_new g so c k : lag V g (slot k) = Some (so, c) ->
    gnode g (own V (gb V g) (slot k)) false k =
    match c with
    | O => ({| gb := gb V g; lag := set_lag V g (slot k) None |}, NExec)
    | S c' => ({| gb := gb V g; lag := set_lag V g (slot k) (Some (so, c')) |}, NMoved so)
    end.
  Proof. intros El. unfold Gossip.gnode. rewrite El, N.eqb_refl. reflexivity. Qed.

  Lemma bounce_exact c : forall g so s hops, GInv g -> lag V g (slot (sk s)) = Some (so, c) ->
    exists g' r, gchain (2 * c + 2) g so false s [] hops = GDone V g' r (own V (gb V g) (slot (sk s))) (hops + 2 * c + 2).
  Proof.
    induction c as [|c IH]; intros g so s hops I El.
    - change (2 * 0 + 2) with 2. cbn [Gossip.gchain hd tl Gossip.do_gsteps fold_left].
      rewrite (gnode_old g so 0 (sk s) I El), (gnode_new g so 0 (sk s) El). cbn [gb lag].
      destruct (exec_at (gb V g) (own V (gb V g) (slot (sk s))) s) as [cs r0].
      do 2 eexists. f_equal. lia.
    - replace (2 * S c + 2) with (S (S (2 * c + 2))) by lia.
      cbn [Gossip.gchain hd tl Gossip.do_gsteps fold_left].
      rewrite (gnode_old g so (S c) (sk s) I El), (gnode_new g so (S c) (sk s) El).
      assert (In : GInv {| gb := gb V g; lag := set_lag V g (slot (sk s)) (Some (so, c)) |}).
      { constructor; cbn [gb lag]; [exact (g1 _ I)|]. intros s0 so0 c0 Hl. unfold set_lag in Hl.
        destruct (N.eqb_spec s0 (slot (sk s))) as [->|]; [inversion Hl; subst; exact (g2 _ I _ _ _ El) | exact (g2 _ I _ _ _ Hl)]. }
      destruct (IH _ so s (S (S hops)) In) as [g' [r E2]].
      + cbn [lag]. unfold set_lag. rewrite N.eqb_refl. reflexivity.
      + exists g', r. rewrite E2. cbn [gb]. f_equal. lia.
  Qed.
  (* ---------- a whole client program: migrations, finalisation windows, learning - between the requests anything ---------- *)
  Definition calm_req (q : greq) : Prop := Forall (fun l => calm (slot (sk (gq_sub q))) l = true) (gq_envs q).

  Theorem grun_seq_ok l : forall g, GInv g -> Forall calm_req l ->
    exists infos, snd (grun_seq V sem slot g l) = map Some infos /\
      map (fun i => fst (fst i)) infos = snd (ss_subs V sem (abs (gb V g)) (map gq_sub l)) /\
      GInv (fst (grun_seq V sem slot g l)) /\
      forall x, abs (gb V (fst (grun_seq V sem slot g l))) x = fst (ss_subs V sem (abs (gb V g)) (map gq_sub l)) x.
  Proof.
    induction l as [|q t IH]; intros g I Q; cbn [Gossip.grun_seq map Cluster.ss_subs].
    - exists []. cbn. split; [reflexivity|]. split; [reflexivity|]. split; [exact I | reflexivity].
    - inversion Q as [|? ? Q1 Q2]; subst.
      destruct (gsteps_ok (gq_pre q) g I) as [I0 A0].
      destruct (grequest_ok (do_gsteps g (gq_pre q)) (gq_first q) (gq_sub q) (gq_envs q) I0 Q1) as [g' [r [nd [h [C1 [C2 [C3 [C4 C5]]]]]]]].
      fold (do_gsteps g (gq_pre q)). rewrite C1.
      destruct (exec_sub_ext V sem (abs (gb V (do_gsteps g (gq_pre q)))) (abs (gb V g)) (gq_sub q) A0) as [X1 X2].
      destruct (IH g' C2 Q2) as [infos [H1 [H2 [H4 H5]]]].
      destruct (grun_seq V sem slot g' t) as [g3 rs]. cbn [fst snd] in *.
      destruct (exec_sub (abs (gb V g)) (gq_sub q)) as [d1 r1] eqn:E1. cbn [fst snd] in *.
      assert (Hext : forall x, abs (gb V g') x = d1 x) by (intros x; rewrite C4; apply X2).
      destruct (ss_subs_ext V sem (map gq_sub t) (abs (gb V g')) d1 Hext) as [Y1 Y2].
      destruct (ss_subs V sem d1 (map gq_sub t)) as [d2 r2]. cbn [fst snd] in *.
      exists ((r, nd, h) :: infos). cbn [map fst snd]. split; [rewrite H1; reflexivity|].
      split; [rewrite H2, Y1; congruence|]. split; [exact H4|].
      intros x. rewrite H5. apply Y2.
  Qed.
End P.
