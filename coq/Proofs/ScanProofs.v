From Coq Require Import List NArith ZArith Bool Lia.
From Sam Require Import Model.Bytes Model.Resp Model.Dispatch Model.Scan Proofs.BytesProofs.
Import ListNotations.
Open Scope N_scope.

Lemma two48_val : two48 = 2 ^ 48. Proof. reflexivity. Qed.
Lemma two64_val : two64 = 2 ^ 64. Proof. reflexivity. Qed.

Lemma land_shift_low idx n : n < 2 ^ 48 -> N.land (idx * 2 ^ 48) n = 0.
Proof.
  intros Hn. apply N.bits_inj. intros k. rewrite N.land_spec, N.bits_0.
  destruct (N.lt_ge_cases k 48) as [Hk|Hk].
  - rewrite N.mul_pow2_bits_low by exact Hk. reflexivity.
  - destruct (N.eq_dec n 0) as [->|Hn0]; [rewrite N.bits_0; apply andb_false_r|].
    rewrite (N.bits_above_log2 n k); [apply andb_false_r|].
    apply N.lt_le_trans with (m := 48); [|exact Hk]. apply N.log2_lt_pow2; lia.
Qed.

Lemma gen_is_sum idx n : idx < 65536 -> n < two48 -> gen_cursor idx n = idx * two48 + n.
Proof.
  intros Hi Hn. unfold gen_cursor. rewrite two48_val in *. rewrite two64_val.
  rewrite N.mod_small.
  2:{ change (2 ^ 64) with (65536 * 2 ^ 48). apply N.mul_lt_mono_pos_r; [|exact Hi]. apply N.neq_0_lt_0. apply N.pow_nonzero. lia. }
  rewrite <- N.lxor_lor by (apply land_shift_low; exact Hn).
  symmetry. apply N.add_nocarry_lxor. apply land_shift_low. exact Hn.
Qed.

(* the cursor given to the client encodes (node index, node cursor) losslessly below 2^48 *)
Lemma cursor_roundtrip idx n : idx < 65536 -> n < two48 -> parse_cursor (gen_cursor idx n) = (idx, n).
Proof.
  intros Hi Hn. rewrite gen_is_sum by assumption. unfold parse_cursor.
  assert (H48 : two48 <> 0) by (rewrite two48_val; apply N.pow_nonzero; lia).
  rewrite N.div_add_l by exact H48. rewrite (N.div_small n) by exact Hn. rewrite N.add_0_r.
  rewrite (N.mod_small idx) by exact Hi.
  rewrite N.add_comm, N.mod_add by exact H48. rewrite N.mod_small by exact Hn. reflexivity.
Qed.

Lemma gen_nonzero idx n : idx < 65536 -> n < two48 -> (idx <> 0 \/ n <> 0) -> gen_cursor idx n <> 0.
Proof.
  intros Hi Hn H. rewrite gen_is_sum by assumption. rewrite two48_val. 
  assert (0 < 2 ^ 48) by (apply N.neq_0_lt_0; apply N.pow_nonzero; lia).
  destruct H as [H|H]; nia.
Qed.

(* a cursor whose node index is past the last node yields the terminating reply *)
Lemma past_end nodes c : lenN nodes <= fst (parse_cursor c) -> client_step nodes c = (0, [], None).
Proof.
  intros H. unfold client_step. destruct (parse_cursor c) as [idx ncur]. cbn [fst] in H.
  destruct (N.leb_spec (lenN nodes) idx); [reflexivity | lia].
Qed.

(* ---------- a whole iteration ---------- *)

Definition chains := list (list N * list (list bytes)).

Fixpoint steps (ch : chains) : nat :=
  match ch with [] => O | c :: r => (S (length (fst c)) + steps r)%nat end.
Fixpoint all_keys (ch : chains) : list bytes :=
  match ch with [] => [] | c :: r => List.concat (snd c) ++ all_keys r end.
Fixpoint all_hits (j : N) (ch : chains) : list (N * N) :=
  match ch with [] => [] | c :: r => map (fun x => (j, x)) (0 :: fst c) ++ all_hits (j + 1) r end.

Lemma step_at (nodes : list node) j c : j < lenN nodes -> lenN nodes < 65535 -> c < two48 ->
  client_step nodes (gen_cursor j c) =
  let '(nn, keys) := node_next (@nthN node nodes j []) c in
  (gen_cursor (if nn =? 0 then j + 1 else j) nn, keys, Some (j, c)).
Proof.
  intros Hj Hl Hc. unfold client_step. rewrite cursor_roundtrip by (try assumption; lia).
  destruct (N.leb_spec (lenN nodes) j); [lia|].
  destruct (node_next (@nthN node nodes j []) c) as [nn keys].
  destruct (nn =? 0); [|reflexivity]. rewrite N.mod_small by lia. reflexivity.
Qed.

(* walking one node's cursor chain *)
Lemma walk_node (nodes : list node) j cs : forall c ks,
  j < lenN nodes -> lenN nodes < 65535 -> c < two48 ->
  chain_from (@nthN node nodes j []) c cs ks ->
  forall fuel, iterate (S (length cs) + fuel) nodes (gen_cursor j c) =
    match iterate fuel nodes (gen_cursor (j + 1) 0) with
    | Some (ks', hs') => Some (List.concat ks ++ ks', map (fun x => (j, x)) (c :: cs) ++ hs')
    | None => None
    end.
Proof.
  induction cs as [|c1 cs IH]; intros c ks Hj Hl Hc Hch fuel.
  - destruct ks as [|k [|k2 ks]]; cbn [chain_from] in Hch; try contradiction.
    cbn [length plus iterate]. rewrite step_at by assumption. rewrite Hch. cbn [N.eqb].
    assert (Hnz : gen_cursor (j + 1) 0 <> 0).
    { apply gen_nonzero; [lia | rewrite two48_val; apply N.neq_0_lt_0; apply N.pow_nonzero; lia | left; lia]. }
    destruct (N.eqb_spec (gen_cursor (j + 1) 0) 0) as [E|_]; [contradiction|].
    destruct (iterate fuel nodes (gen_cursor (j + 1) 0)) as [[ks' hs']|]; [|reflexivity].
    cbn [List.concat map app]. rewrite app_nil_r. reflexivity.
  - destruct ks as [|k ks]; cbn [chain_from] in Hch; [contradiction|].
    destruct Hch as [Hnext [Hnz1 [Hlt1 Hrest]]].
    change (S (length (c1 :: cs)) + fuel)%nat with (S (S (length cs) + fuel)).
    cbn [iterate]. rewrite step_at by assumption. rewrite Hnext.
    destruct (N.eqb_spec c1 0) as [E|_]; [contradiction|].
    assert (Hnz : gen_cursor j c1 <> 0) by (apply gen_nonzero; [lia | exact Hlt1 | right; exact Hnz1]).
    destruct (N.eqb_spec (gen_cursor j c1) 0) as [E|_]; [contradiction|].
    rewrite (IH c1 ks Hj Hl Hlt1 Hrest fuel).
    destruct (iterate fuel nodes (gen_cursor (j + 1) 0)) as [[ks' hs']|]; [|reflexivity].
    cbn [List.concat map app]. rewrite <- app_assoc. reflexivity.
Qed.

Lemma visit_suffix (suffix : list node) : forall (prefix : list node) (ch : chains),
  Forall2 (fun nd c => chain_from nd 0 (fst c) (snd c)) suffix ch ->
  lenN (prefix ++ suffix) < 65535 ->
  forall extra, iterate (steps ch + 1 + extra) (prefix ++ suffix) (gen_cursor (lenN prefix) 0)
                = Some (all_keys ch, all_hits (lenN prefix) ch).
Proof.
  induction suffix as [|nd suffix IH]; intros prefix ch HF Hl extra.
  - inversion HF; subst. cbn [steps plus iterate].
    rewrite app_nil_r in *. rewrite past_end; [reflexivity|].
    rewrite cursor_roundtrip; [cbn [fst]; lia | lia |].
    rewrite two48_val. apply N.neq_0_lt_0. apply N.pow_nonzero. lia.
  - inversion HF as [|? c ? ch' Hc HF']; subst. cbn [steps all_keys all_hits].
    assert (Hlen : lenN (prefix ++ nd :: suffix) = lenN prefix + 1 + lenN suffix).
    { rewrite lenN_app, lenN_cons. lia. }
    replace (S (length (fst c)) + steps ch' + 1 + extra)%nat
      with (S (length (fst c)) + (steps ch' + 1 + extra))%nat by lia.
    rewrite (walk_node (prefix ++ nd :: suffix) (lenN prefix) (fst c) 0 (snd c)).
    + replace (prefix ++ nd :: suffix) with ((prefix ++ [nd]) ++ suffix) by (rewrite <- app_assoc; reflexivity).
      replace (lenN prefix + 1) with (lenN (prefix ++ [nd])) by (rewrite lenN_app; reflexivity).
      rewrite IH; [reflexivity | exact HF' |].
      rewrite <- app_assoc. exact Hl.
    + lia.
    + exact Hl.
    + rewrite two48_val. apply N.neq_0_lt_0. apply N.pow_nonzero. lia.
    + rewrite nthN_app_r by lia. rewrite N.sub_diag. exact Hc.
Qed.

(* from cursor 0, feeding each returned cursor back: the iteration ends (cursor 0) after exactly
   steps + 1 calls, returns exactly the keys of every node's batches, and visits the nodes one after
   the other, each along its own cursor chain *)
Theorem scan_iteration (nodes : list node) (ch : chains) :
  Forall2 (fun nd c => chain_from nd 0 (fst c) (snd c)) nodes ch -> lenN nodes < 65535 ->
  forall extra, iterate (steps ch + 1 + extra) nodes 0 = Some (all_keys ch, all_hits 0 ch).
Proof.
  intros HF Hl extra.
  assert (E : gen_cursor 0 0 = 0) by reflexivity.
  rewrite <- E at 1. exact (visit_suffix nodes [] ch HF Hl extra).
Qed.
