From Coq Require Import List NArith Bool Lia.
From Sam Require Import Model.Bytes.
Import ListNotations.
Open Scope N_scope.

Lemma lenN_length {A} (l : list A) : lenN l = N.of_nat (length l).
Proof. induction l as [|x l IH]; cbn [lenN length]; [reflexivity|]. rewrite IH. lia. Qed.

Lemma lenN_app {A} (a b : list A) : lenN (a ++ b) = lenN a + lenN b.
Proof. rewrite !lenN_length, app_length. lia. Qed.

Lemma lenN_nil {A} (l : list A) : lenN l = 0 -> l = [].
Proof. destruct l; cbn [lenN]; [reflexivity|lia]. Qed.

Lemma lenN_cons {A} (x : A) l : lenN (x :: l) = lenN l + 1.
Proof. cbn [lenN]. lia. Qed.

Lemma takeN_0 {A} (l : list A) : takeN 0 l = [].
Proof. destruct l; reflexivity. Qed.

Lemma dropN_0 {A} (l : list A) : dropN 0 l = l.
Proof. destruct l; reflexivity. Qed.

Lemma takeN_cons {A} n (x : A) l : 0 < n -> takeN n (x :: l) = x :: takeN (n - 1) l.
Proof. intros H. cbn [takeN]. destruct (N.eqb_spec n 0); [lia|]. rewrite N.sub_1_r. reflexivity. Qed.

Lemma dropN_cons {A} n (x : A) l : 0 < n -> dropN n (x :: l) = dropN (n - 1) l.
Proof. intros H. cbn [dropN]. destruct (N.eqb_spec n 0); [lia|]. rewrite N.sub_1_r. reflexivity. Qed.

Lemma takeN_app_exact {A} (a b : list A) : takeN (lenN a) (a ++ b) = a.
Proof.
  induction a as [|x a IH]; [apply takeN_0|].
  cbn [app]. rewrite takeN_cons by (rewrite lenN_cons; lia).
  rewrite lenN_cons. replace (lenN a + 1 - 1) with (lenN a) by lia. rewrite IH. reflexivity.
Qed.

Lemma dropN_app_exact {A} (a b : list A) : dropN (lenN a) (a ++ b) = b.
Proof.
  induction a as [|x a IH]; [apply dropN_0|].
  cbn [app]. rewrite dropN_cons by (rewrite lenN_cons; lia).
  rewrite lenN_cons. replace (lenN a + 1 - 1) with (lenN a) by lia. exact IH.
Qed.

Lemma takeN_all {A} n (l : list A) : lenN l <= n -> takeN n l = l.
Proof.
  revert n. induction l as [|x l IH]; intros n H; [reflexivity|].
  rewrite lenN_cons in H. rewrite takeN_cons by lia. rewrite IH by lia. reflexivity.
Qed.

Lemma dropN_all {A} n (l : list A) : lenN l <= n -> dropN n l = [].
Proof.
  revert n. induction l as [|x l IH]; intros n H; [reflexivity|].
  rewrite lenN_cons in H. rewrite dropN_cons by lia. apply IH. lia.
Qed.

Lemma take_drop {A} n (l : list A) : takeN n l ++ dropN n l = l.
Proof.
  revert n. induction l as [|x l IH]; intros n; [reflexivity|].
  destruct (N.eq_dec n 0) as [->|Hn]; [rewrite takeN_0, dropN_0; reflexivity|].
  rewrite takeN_cons, dropN_cons by lia. cbn [app]. rewrite IH. reflexivity.
Qed.

Lemma lenN_takeN {A} n (l : list A) : lenN (takeN n l) = N.min n (lenN l).
Proof.
  revert n. induction l as [|x l IH]; intros n; [cbn; lia|].
  destruct (N.eq_dec n 0) as [->|Hn]; [rewrite takeN_0; cbn [lenN]; lia|].
  rewrite takeN_cons by lia. rewrite !lenN_cons, IH. lia.
Qed.

Lemma lenN_dropN {A} n (l : list A) : lenN (dropN n l) = lenN l - n.
Proof.
  revert n. induction l as [|x l IH]; intros n; [cbn; lia|].
  destruct (N.eq_dec n 0) as [->|Hn]; [rewrite dropN_0; lia|].
  rewrite dropN_cons by lia. rewrite lenN_cons, IH. lia.
Qed.

Lemma takeN_app_l {A} n (a b : list A) : n <= lenN a -> takeN n (a ++ b) = takeN n a.
Proof.
  revert n. induction a as [|x a IH]; intros n H.
  - cbn [lenN] in H. assert (n = 0) by lia. subst. rewrite !takeN_0. reflexivity.
  - destruct (N.eq_dec n 0) as [->|Hn]; [rewrite !takeN_0; reflexivity|].
    cbn [app]. rewrite !takeN_cons by lia. rewrite lenN_cons in H. rewrite IH by lia. reflexivity.
Qed.

Lemma dropN_app_l {A} n (a b : list A) : n <= lenN a -> dropN n (a ++ b) = dropN n a ++ b.
Proof.
  revert n. induction a as [|x a IH]; intros n H.
  - cbn [lenN] in H. assert (n = 0) by lia. subst. rewrite !dropN_0. reflexivity.
  - destruct (N.eq_dec n 0) as [->|Hn]; [rewrite !dropN_0; reflexivity|].
    cbn [app]. rewrite !dropN_cons by lia. rewrite lenN_cons in H. apply IH. lia.
Qed.

Lemma takeN_app_r {A} n (a b : list A) : lenN a <= n -> takeN n (a ++ b) = a ++ takeN (n - lenN a) b.
Proof.
  revert n. induction a as [|x a IH]; intros n H.
  - cbn [app lenN]. rewrite N.sub_0_r. reflexivity.
  - rewrite lenN_cons in H. cbn [app]. rewrite takeN_cons by lia. rewrite IH by lia.
    rewrite lenN_cons. replace (n - 1 - lenN a) with (n - (lenN a + 1)) by lia. reflexivity.
Qed.

Lemma dropN_app_r {A} n (a b : list A) : lenN a <= n -> dropN n (a ++ b) = dropN (n - lenN a) b.
Proof.
  revert n. induction a as [|x a IH]; intros n H.
  - cbn [app lenN]. rewrite N.sub_0_r. reflexivity.
  - rewrite lenN_cons in H. cbn [app]. rewrite dropN_cons by lia. rewrite IH by lia.
    rewrite lenN_cons. replace (n - 1 - lenN a) with (n - (lenN a + 1)) by lia. reflexivity.
Qed.

Lemma dropN_dropN {A} n m (l : list A) : dropN n (dropN m l) = dropN (m + n) l.
Proof.
  revert m. induction l as [|x l IH]; intros m; [reflexivity|].
  destruct (N.eq_dec m 0) as [->|Hm]; [rewrite dropN_0; reflexivity|].
  rewrite dropN_cons by lia. rewrite (dropN_cons (m + n)) by lia. rewrite IH. f_equal. lia.
Qed.

Lemma takeN_takeN {A} n m (l : list A) : takeN n (takeN m l) = takeN (N.min n m) l.
Proof.
  revert n m. induction l as [|x l IH]; intros n m; [reflexivity|].
  destruct (N.eq_dec m 0) as [->|Hm]; [rewrite N.min_0_r, !takeN_0; destruct n; reflexivity|].
  destruct (N.eq_dec n 0) as [->|Hn]; [rewrite N.min_0_l, !takeN_0; reflexivity|].
  rewrite (takeN_cons m) by lia. rewrite !takeN_cons by lia. rewrite IH. f_equal. f_equal. lia.
Qed.

Lemma has_len_spec {A} n (l : list A) : has_len n l = (n <=? lenN l).
Proof.
  revert n. induction l as [|x l IH]; intros n; cbn [has_len].
  - cbn [lenN]. destruct (N.eqb_spec n 0), (N.leb_spec n 0); try reflexivity; lia.
  - rewrite lenN_cons. destruct (N.eqb_spec n 0) as [->|Hn].
    + symmetry. apply N.leb_le. lia.
    + rewrite IH. destruct (N.leb_spec (N.pred n) (lenN l)), (N.leb_spec n (lenN l + 1)); try reflexivity; lia.
Qed.

Lemma nthN_app_l {A} (a b : list A) n d : n < lenN a -> nthN (a ++ b) n d = nthN a n d.
Proof.
  revert n. induction a as [|x a IH]; intros n H; [cbn [lenN] in H; lia|].
  cbn [app nthN]. destruct (N.eqb_spec n 0); [reflexivity|].
  apply IH. rewrite lenN_cons in H. lia.
Qed.

Lemma nthN_app_r {A} (a b : list A) n d : lenN a <= n -> nthN (a ++ b) n d = nthN b (n - lenN a) d.
Proof.
  revert n. induction a as [|x a IH]; intros n H; [cbn [app lenN]; rewrite N.sub_0_r; reflexivity|].
  rewrite lenN_cons in H. cbn [app nthN]. destruct (N.eqb_spec n 0); [lia|].
  rewrite IH by lia. rewrite lenN_cons. f_equal. lia.
Qed.

(* find_byte *)
Lemma find_byte_none c l : find_byte c l = None <-> ~ In c l.
Proof.
  induction l as [|x l IH]; cbn [find_byte]; [tauto|].
  destruct (N.eqb_spec x c) as [E|E].
  - split; [discriminate|]. intros H. exfalso. apply H. left. exact E.
  - destruct (find_byte c l); split; try discriminate; try tauto.
    + intros H. exfalso. cbn in H. destruct IH as [_ IH]. 
      assert (~ In c l) by tauto. specialize (IH H0). discriminate.
    + intros _ [H|H]; [contradiction|]. destruct IH as [IH _]. apply IH; auto.
Qed.

Lemma find_byte_app c a rest : ~ In c a -> find_byte c (a ++ c :: rest) = Some (lenN a).
Proof.
  induction a as [|x a IH]; intros H; cbn [app find_byte lenN].
  - rewrite N.eqb_refl. reflexivity.
  - destruct (N.eqb_spec x c) as [E|E]; [exfalso; apply H; left; exact E|].
    rewrite IH by (intros H1; apply H; right; exact H1). reflexivity.
Qed.

Lemma find_byte_some c l i : find_byte c l = Some i ->
  exists a rest, l = a ++ c :: rest /\ ~ In c a /\ lenN a = i.
Proof.
  revert i. induction l as [|x l IH]; intros i H; cbn [find_byte] in H; [discriminate|].
  destruct (N.eqb_spec x c) as [E|E].
  - inversion H; subst. exists [], l. repeat split; auto.
  - destruct (find_byte c l) as [j|] eqn:Ej; [|discriminate]. inversion H; subst.
    destruct (IH j eq_refl) as [a [rest [H1 [H2 H3]]]]. exists (x :: a), rest. subst l.
    repeat split; auto.
    + intros [H4|H4]; [contradiction | exact (H2 H4)].
    + cbn [lenN]. rewrite H3. reflexivity.
Qed.

Lemma find_byte_app_notin c a b : ~ In c a ->
  find_byte c (a ++ b) = match find_byte c b with Some i => Some (lenN a + i) | None => None end.
Proof.
  induction a as [|x a IH]; intros H; cbn [app find_byte lenN].
  - destruct (find_byte c b); f_equal.
  - destruct (N.eqb_spec x c) as [E|E]; [exfalso; apply H; left; exact E|].
    rewrite IH by (intros H1; apply H; right; exact H1).
    destruct (find_byte c b); [f_equal; lia | reflexivity].
Qed.
