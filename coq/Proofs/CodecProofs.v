From Coq Require Import List NArith ZArith Bool Lia.
From Sam Require Import Model.Bytes Model.Resp Model.Reader Model.Codec Proofs.BytesProofs Proofs.IntProofs.
Import ListNotations.
Open Scope N_scope.

Definition fs (l : bytes) (e : rerr) : frd := {| stream := l; ferr := None; fend := e |}.

(* ---------- flat reader operations on well-delimited input ---------- *)

Lemma f_rslice_line B line rest e : ~ In LF line -> lenN line < B ->
  f_rslice B (fs (line ++ LF :: rest) e) = (Line (line ++ [LF]), fs rest e).
Proof.
  intros Hn Hl. unfold f_rslice, fs. cbn [ferr stream].
  assert (Ht : takeN B (line ++ LF :: rest) = line ++ LF :: takeN (B - lenN line - 1) rest).
  { rewrite takeN_app_r by lia. rewrite takeN_cons by lia. reflexivity. }
  rewrite Ht, (find_byte_app _ _ _ Hn).
  replace (line ++ LF :: rest) with ((line ++ [LF]) ++ rest) by (rewrite <- app_assoc; reflexivity).
  replace (lenN line + 1) with (lenN (line ++ [LF])) by (rewrite lenN_app; reflexivity).
  rewrite takeN_app_exact, dropN_app_exact. reflexivity.
Qed.

Lemma f_rbytes_line line rest e : ~ In LF line ->
  f_rbytes (fs (line ++ LF :: rest) e) = (Ok (line ++ [LF]), fs rest e).
Proof.
  intros Hn. unfold f_rbytes, fs. cbn [ferr stream].
  rewrite (find_byte_app _ _ _ Hn).
  replace (line ++ LF :: rest) with ((line ++ [LF]) ++ rest) by (rewrite <- app_assoc; reflexivity).
  replace (lenN line + 1) with (lenN (line ++ [LF])) by (rewrite lenN_app; reflexivity).
  rewrite takeN_app_exact, dropN_app_exact. reflexivity.
Qed.

Lemma f_rfull_exact data rest e : data <> [] ->
  f_rfull (lenN data) (fs (data ++ rest) e) = (Ok data, fs rest e).
Proof.
  intros Hne. unfold f_rfull, fs. cbn [ferr stream].
  destruct (N.eqb_spec (lenN data) 0) as [E|E]; [apply lenN_nil in E; contradiction|].
  rewrite has_len_spec. rewrite lenN_app.
  destruct (N.leb_spec (lenN data) (lenN data + lenN rest)); [|lia].
  rewrite takeN_app_exact, dropN_app_exact. reflexivity.
Qed.

Lemma strip_crlf_ok t : strip_crlf (t ++ [CR; LF]) = Ok t.
Proof.
  unfold strip_crlf. rewrite lenN_app. cbn [lenN].
  destruct (N.ltb_spec (lenN t + N.succ (N.succ 0)) 2); [lia|].
  replace (lenN t + N.succ (N.succ 0) - 2) with (lenN t) by lia.
  rewrite nthN_app_r by lia. rewrite N.sub_diag. cbn [nthN N.eqb].
  change (CR =? CR) with true. cbv iota. rewrite takeN_app_exact. reflexivity.
Qed.

(* ---------- decimal text is short and contains no CR / LF ---------- *)

Lemma ndig_bound f : forall n k, n < 10 ^ k -> 1 <= k -> ndig f n <= k.
Proof.
  induction f as [|f IH]; intros n k Hn Hk; cbn [ndig]; [lia|].
  destruct (N.ltb_spec n 10); [lia|].
  assert (Hk2 : 2 <= k).
  { destruct (N.eq_dec k 1) as [->|]; [|lia]. rewrite N.pow_1_r in Hn. lia. }
  specialize (IH (n / 10) (k - 1)).
  assert (n / 10 < 10 ^ (k - 1)).
  { apply N.div_lt_upper_bound; [lia|]. rewrite <- N.pow_succ_r'. replace (N.succ (k - 1)) with k by lia. exact Hn. }
  lia.
Qed.

Lemma dec_of_Z_len z : in_int64 z = true -> 1 <= lenN (dec_of_Z z) <= 20.
Proof.
  intros Hz.
  assert (H : forall p, (Z.pos p <= 9223372036854775808)%Z -> 1 <= lenN (dec_of_N (Npos p)) <= 19).
  { intros p Hp. unfold dec_of_N. rewrite lenN_digits; [| |lia].
    - cbn [lenN]. assert (ndig 40 (N.pos p) <= 19).
      { apply ndig_bound; [|lia]. apply N.le_lt_trans with (m := 9223372036854775808); [lia|]. vm_compute. reflexivity. }
      assert (1 <= ndig 40 (N.pos p)) by (cbn [ndig]; destruct (N.pos p <? 10); lia). lia.
    - apply N.le_lt_trans with (m := 9223372036854775808); [lia|]. vm_compute. reflexivity. }
  unfold in_int64, int64_min, int64_max in Hz. apply andb_true_iff in Hz. destruct Hz as [H1 H2].
  apply Z.leb_le in H1, H2.
  destruct z as [|p|p]; cbn [dec_of_Z].
  - cbn. lia.
  - specialize (H p). lia.
  - rewrite lenN_cons. specialize (H p). lia.
Qed.

Lemma dec_of_Z_no c z : c = LF \/ c = CR -> ~ In c (dec_of_Z z).
Proof.
  intros Hc Hin. pose proof (dec_of_Z_shape z) as Hs. rewrite Forall_forall in Hs.
  specialize (Hs _ Hin). unfold num_byte, LF, CR in *. lia.
Qed.


(* ---------- well-formed values, nesting depth, induction principle ---------- *)

Section resp_ind2.
  Variable P : resp -> Prop.
  Hypothesis HS : forall t, P (Simple t).
  Hypothesis HE : forall t, P (Err t).
  Hypothesis HI : forall z, P (Int z).
  Hypothesis HB : forall o, P (Bulk o).
  Hypothesis HAn : P (Arr None).
  Hypothesis HA : forall l, Forall P l -> P (Arr (Some l)).
  Fixpoint resp_ind2 (v : resp) : P v :=
    match v with
    | Simple t => HS t
    | Err t => HE t
    | Int z => HI z
    | Bulk o => HB o
    | Arr None => HAn
    | Arr (Some l) =>
      HA l ((fix go (l : list resp) : Forall P l :=
               match l with
               | [] => Forall_nil P
               | x :: t => Forall_cons x (resp_ind2 x) (go t)
               end) l)
    end.
End resp_ind2.

Fixpoint depth (v : resp) : nat :=
  match v with
  | Arr (Some l) => S ((fix mx (l : list resp) : nat := match l with [] => O | x :: t => Nat.max (depth x) (mx t) end) l)
  | _ => O
  end.

Fixpoint depth_list (l : list resp) : nat :=
  match l with [] => O | x :: t => Nat.max (depth x) (depth_list t) end.

Lemma depth_arr l : depth (Arr (Some l)) = S (depth_list l).
Proof. reflexivity. Qed.

Section WF.
  Variable max_array max_bulk : Z.
  Fixpoint wf (v : resp) : Prop :=
    match v with
    | Simple t | Err t => ~ In LF t
    | Int z => in_int64 z = true
    | Bulk None => True
    | Bulk (Some t) => (Z.of_N (lenN t) <= max_bulk)%Z
    | Arr None => True
    | Arr (Some l) => (Z.of_N (lenN l) <= max_array)%Z /\
                      (fix all (l : list resp) : Prop := match l with [] => True | x :: t => wf x /\ all t end) l
    end.
  Fixpoint wf_list (l : list resp) : Prop := match l with [] => True | x :: t => wf x /\ wf_list t end.
  Lemma wf_arr l : wf (Arr (Some l)) <-> (Z.of_N (lenN l) <= max_array)%Z /\ wf_list l.
  Proof.
    cbn [wf]. split; intros [H1 H2]; (split; [exact H1|]); induction l as [|x l IH]; cbn [wf_list] in *; tauto.
  Qed.
End WF.

Lemma encode_arr T l : encode T (Arr (Some l)) = T_ARR :: enc_int_line T (Z.of_N (lenN l)) ++ encode_list T l.
Proof. reflexivity. Qed.

Section RoundTrip.
  Variable B : N.
  Hypothesis HB : 22 <= B.
  Variable max_array max_bulk : Z.
  Variable max_depth : N.
  Variable mn mx : Z.
  Hypothesis Hmm : (mn <= mx)%Z.
  Let T := mk_itoa_tab mn mx.
  Let O := flat_ops B.

  Lemma decode_int_ok z rest e : in_int64 z = true ->
    decode_int frd O (fs (enc_int_line T z ++ rest) e) = (Ok z, fs rest e).
  Proof.
    intros Hz. unfold decode_int, enc_int_line, O, T. cbn [o_rslice flat_ops].
    rewrite itoa_is_dec by exact Hmm.
    replace ((dec_of_Z z ++ [CR; LF]) ++ rest) with ((dec_of_Z z ++ [CR]) ++ LF :: rest)
      by (rewrite <- !app_assoc; reflexivity).
    pose proof (dec_of_Z_len z Hz) as Hl.
    rewrite f_rslice_line.
    - replace ((dec_of_Z z ++ [CR]) ++ [LF]) with (dec_of_Z z ++ [CR; LF]) by (rewrite <- app_assoc; reflexivity).
      rewrite strip_crlf_ok, btoi64_is_parse_int64, parse_dec_of_Z by exact Hz. reflexivity.
    - intros Hin. apply in_app_or in Hin. destruct Hin as [Hin|Hin].
      + exact (dec_of_Z_no LF z (or_introl eq_refl) Hin).
      + cbn in Hin. destruct Hin as [Hin|[]]. discriminate.
    - rewrite lenN_app. cbn [lenN]. lia.
  Qed.

  Lemma decode_text_ok t rest e : ~ In LF t ->
    decode_text frd O (fs (t ++ [CR; LF] ++ rest) e) = (Ok t, fs rest e).
  Proof.
    intros Hn. unfold decode_text, O. cbn [o_rbytes flat_ops].
    replace (t ++ [CR; LF] ++ rest) with ((t ++ [CR]) ++ LF :: rest) by (rewrite <- app_assoc; reflexivity).
    rewrite f_rbytes_line.
    - replace ((t ++ [CR]) ++ [LF]) with (t ++ [CR; LF]) by (rewrite <- app_assoc; reflexivity).
      rewrite strip_crlf_ok. reflexivity.
    - intros Hin. apply in_app_or in Hin. destruct Hin as [Hin|Hin]; [exact (Hn Hin)|].
      cbn in Hin. destruct Hin as [Hin|[]]. discriminate.
  Qed.

  Hypothesis Hbulk0 : (0 <= max_bulk)%Z.
  Hypothesis Hbulk1 : (max_bulk <= int64_max)%Z.
  Hypothesis Harr0 : (0 <= max_array)%Z.
  Hypothesis Harr1 : (max_array <= int64_max)%Z.

  Lemma in_int64_small z : (-1 <= z)%Z -> (z <= int64_max)%Z -> in_int64 z = true.
  Proof. intros H1 H2. unfold in_int64, int64_min, int64_max in *. apply andb_true_iff; split; apply Z.leb_le; lia. Qed.

  Lemma decode_bulk_null rest e :
    decode_bulk frd O max_bulk (fs (enc_int_line T (-1) ++ rest) e) = (Ok None, fs rest e).
  Proof.
    unfold decode_bulk. rewrite decode_int_ok by reflexivity.
    destruct (Z.ltb_spec (-1) (-1)); [lia|]. destruct (Z.gtb_spec (-1) max_bulk); [lia|]. reflexivity.
  Qed.

  Lemma decode_bulk_some t rest e : (Z.of_N (lenN t) <= max_bulk)%Z ->
    decode_bulk frd O max_bulk (fs (enc_int_line T (Z.of_N (lenN t)) ++ t ++ [CR; LF] ++ rest) e) = (Ok (Some t), fs rest e).
  Proof.
    intros Hl. unfold decode_bulk. rewrite decode_int_ok by (apply in_int64_small; lia).
    destruct (Z.ltb_spec (Z.of_N (lenN t)) (-1)); [lia|]. destruct (Z.gtb_spec (Z.of_N (lenN t)) max_bulk); [lia|].
    destruct (Z.eqb_spec (Z.of_N (lenN t)) (-1)); [lia|].
    rewrite N2Z.id. unfold O. cbn [o_rfull flat_ops].
    replace (t ++ [CR; LF] ++ rest) with ((t ++ [CR; LF]) ++ rest) by (rewrite <- app_assoc; reflexivity).
    replace (lenN t + 2) with (lenN (t ++ [CR; LF])) by (rewrite lenN_app; reflexivity).
    rewrite f_rfull_exact by (destruct t; discriminate).
    rewrite !nthN_app_r by lia. rewrite N.sub_diag.
    replace (lenN t + 1 - lenN t) with 1 by lia.
    cbn [nthN N.eqb Pos.eqb N.pred]. change (CR =? CR) with true. change (LF =? LF) with true. cbn [andb].
    rewrite takeN_app_exact. reflexivity.
  Qed.

  Lemma elems_ok (dec : frd -> res resp * frd) e l :
    Forall (fun x => forall rest, dec (fs (encode T x ++ rest) e) = (Ok x, fs rest e)) l ->
    forall rest, elems frd dec (length l) (fs (encode_list T l ++ rest) e) = (Ok l, fs rest e).
  Proof.
    induction 1 as [|x l Hx _ IH]; intros rest; cbn [length elems encode_list app]; [reflexivity|].
    rewrite <- app_assoc, Hx, IH. reflexivity.
  Qed.

  Lemma peek_cons b l e : o_peek O (fs (b :: l) e) = (Ok b, fs (b :: l) e).
  Proof. reflexivity. Qed.
  Lemma rbyte_cons b l e : snd (o_rbyte O (fs (b :: l) e)) = fs l e.
  Proof. reflexivity. Qed.

  Theorem roundtrip v : wf max_array max_bulk v -> forall fuel d rest e, (depth v < fuel)%nat ->
    d + N.of_nat (depth v) <= max_depth ->
    decode frd O max_array max_bulk max_depth fuel d (fs (encode T v ++ rest) e) = (Ok v, fs rest e).
  Proof.
    induction v as [t|t|z|o| |l IHl] using resp_ind2; intros Hwf fuel d rest e Hd Hdm;
      (destruct fuel as [|f]; [lia|]).
    - cbn [encode wf] in *. cbn [decode app]. rewrite peek_cons, rbyte_cons.
      change (is_type_byte T_SIMPLE) with true.
      change (T_SIMPLE =? T_INT) with false. change (T_SIMPLE =? T_SIMPLE) with true. cbv iota.
      rewrite <- app_assoc. rewrite decode_text_ok by exact Hwf. reflexivity.
    - cbn [encode wf] in *. cbn [decode app]. rewrite peek_cons, rbyte_cons.
      change (is_type_byte T_ERR) with true.
      change (T_ERR =? T_INT) with false. change (T_ERR =? T_SIMPLE) with false. change (T_ERR =? T_ERR) with true. cbv iota.
      rewrite <- app_assoc. rewrite decode_text_ok by exact Hwf. reflexivity.
    - cbn [encode wf] in *. cbn [decode app]. rewrite peek_cons, rbyte_cons.
      change (is_type_byte T_INT) with true.
      change (T_INT =? T_INT) with true. cbv iota.
      rewrite decode_int_ok by exact Hwf. reflexivity.
    - destruct o as [t|]; cbn [encode wf] in *; cbn [decode app]; rewrite peek_cons, rbyte_cons;
        change (is_type_byte T_BULK) with true;
        change (T_BULK =? T_INT) with false; change (T_BULK =? T_SIMPLE) with false;
        change (T_BULK =? T_ERR) with false; change (T_BULK =? T_BULK) with true; cbv iota.
      + rewrite <- !app_assoc. rewrite decode_bulk_some by exact Hwf. reflexivity.
      + rewrite decode_bulk_null. reflexivity.
    - cbn [encode wf] in *. cbn [decode app]. rewrite peek_cons, rbyte_cons.
      change (is_type_byte T_ARR) with true.
      change (T_ARR =? T_INT) with false. change (T_ARR =? T_SIMPLE) with false.
      change (T_ARR =? T_ERR) with false. change (T_ARR =? T_BULK) with false. cbv iota.
      rewrite decode_int_ok by reflexivity.
      destruct (Z.ltb_spec (-1) (-1)); [lia|]. destruct (Z.gtb_spec (-1) max_array); [lia|]. reflexivity.
    - apply wf_arr in Hwf. destruct Hwf as [Hlen Hall]. rewrite depth_arr in Hd, Hdm.
      assert (HF : Forall (fun x => forall rest0, decode frd O max_array max_bulk max_depth f (d + 1) (fs (encode T x ++ rest0) e) = (Ok x, fs rest0 e)) l).
      { clear Hlen. revert Hall Hd Hdm. induction IHl as [|x l Hx Hl IH]; intros Hall Hd Hdm; constructor.
        - intros rest0. cbn [wf_list depth_list] in Hall, Hd, Hdm. apply Hx; [tauto | lia | lia].
        - cbn [wf_list depth_list] in Hall, Hd, Hdm. apply IH; [tauto | lia | lia]. }
      rewrite encode_arr. cbn [decode app]. rewrite peek_cons, rbyte_cons.
      change (is_type_byte T_ARR) with true.
      change (T_ARR =? T_INT) with false. change (T_ARR =? T_SIMPLE) with false.
      change (T_ARR =? T_ERR) with false. change (T_ARR =? T_BULK) with false. cbv iota.
      rewrite <- app_assoc. rewrite decode_int_ok by (apply in_int64_small; lia).
      destruct (Z.ltb_spec (Z.of_N (lenN l)) (-1)); [lia|]. destruct (Z.gtb_spec (Z.of_N (lenN l)) max_array); [lia|].
      destruct (Z.eqb_spec (Z.of_N (lenN l)) (-1)); [lia|].
      destruct (N.leb_spec max_depth d); [lia|].
      replace (Z.to_nat (Z.of_N (lenN l))) with (length l) by (rewrite lenN_length; lia).
      rewrite (elems_ok (decode frd O max_array max_bulk max_depth f (d + 1)) e l); [reflexivity | exact HF].
  Qed.
End RoundTrip.
