(* Proofs about Model/Heal.v: errors have a present cause, service resumes over a new connection, routing converges. *)
From Coq Require Import List NArith Bool Lia.
From Sam Require Import Gen.Tables Model.Bytes Model.Resp Model.Cluster Model.Heal.
Import ListNotations.
Open Scope N_scope.

Section P.
  Variable V : Type.
  Variable sem : list resp -> option V -> option V * resp.
  Variable slot : bytes -> N.
  Variable hosts : list N.

  Notation hstate := (hstate V).
  Notation attempt := (attempt V).
  Notation do_req := (do_req V sem slot hosts).
  Notation do_hop := (do_hop V sem slot hosts).
  Notation run_hops := (run_hops V sem slot hosts).
  Notation refresh := (refresh V hosts).

  (* a live connection is to a reachable backend, and connection ids are never reused *)
  Definition HI (s : hstate) : Prop :=
    forall n id a, hconn V s n = Some (id, a) -> id < nextid V s /\ (a = true -> reach V s n = true).

  Definition no_dead (s : hstate) : Prop := forall n id, hconn V s n <> Some (id, false).
  Definition converged (s : hstate) : Prop := forall sl, tbl V s sl = hown V s sl.

  Lemma attempt_spec s n :
    match hconn V s n with
    | Some (id, true) => attempt s n = (s, HServed n id)
    | Some (_, false) => attempt s n = (s, HExited n)
    | None => if reach V s n
              then exists s', attempt s n = (s', HServed n (nextid V s)) /\ hconn V s' n = Some (nextid V s, true) /\
                              accepts V s' n = accepts V s n + 1 /\ nextid V s' = nextid V s + 1 /\
                              (forall x, x <> n -> hconn V s' x = hconn V s x /\ accepts V s' x = accepts V s x) /\
                              reach V s' = reach V s /\ tbl V s' = tbl V s /\ hown V s' = hown V s /\ hdb V s' = hdb V s
              else attempt s n = (s, HRefused n)
    end.
  Proof.
    unfold Heal.attempt. destruct (hconn V s n) as [[id [|]]|]; try reflexivity.
    destruct (reach V s n); [|reflexivity]. eexists. split; [reflexivity|]. cbn [Heal.set_conn hconn accepts nextid reach tbl hown hdb].
    rewrite !N.eqb_refl. repeat (split; [reflexivity|]). split; [|repeat split; reflexivity].
    intros x Hx. destruct (N.eqb_spec x n); [contradiction|]. split; reflexivity.
  Qed.

  Lemma attempt_served s n s1 x id : attempt s n = (s1, HServed x id) ->
    x = n /\ hconn V s1 n = Some (id, true) /\ hdb V s1 = hdb V s.
  Proof.
    unfold Heal.attempt. destruct (hconn V s n) as [[i [|]]|] eqn:E.
    - intros H. inversion H; subst. auto.
    - discriminate.
    - destruct (reach V s n); [|discriminate]. intros H. inversion H; subst. cbn [Heal.set_conn hconn hdb]. rewrite N.eqb_refl. auto.
  Qed.

  Lemma attempt_inv s n : HI s -> HI (fst (attempt s n)).
  Proof.
    intros I. pose proof (attempt_spec s n) as A. destruct (hconn V s n) as [[id [|]]|] eqn:E; try (rewrite A; exact I).
    destruct (reach V s n) eqn:R; [|rewrite A; exact I]. destruct A as [s' [A1 [A2 [A3 [A4 [A5 [A6 _]]]]]]]. rewrite A1. cbn [fst].
    intros x id a Hc. destruct (N.eq_dec x n) as [->|Hx].
    - rewrite A2 in Hc. inversion Hc; subst. split; [lia|]. intros _. rewrite A6. exact R.
    - destruct (A5 x Hx) as [B1 _]. rewrite B1 in Hc. destruct (I x id a Hc) as [J1 J2]. split; [lia|]. rewrite A6. exact J2.
  Qed.

  (* ---------- an error reply has a cause that holds now ---------- *)
  Theorem error_has_cause s sb s' o : HI s -> do_req s sb = (s', RErr o) ->
    match o with
    | HRefused n => reach V s n = false
    | HExited n => exists id, hconn V s n = Some (id, false)
    | HServed _ _ => False
    end.
  Proof.
    intros I. unfold Heal.do_req. set (sl := slot (sk sb)). set (n := tbl V s sl).
    pose proof (attempt_spec s n) as A. destruct (hconn V s n) as [[id [|]]|] eqn:E.
    - rewrite A. destruct (hown V s sl =? n) eqn:Eo.
      + unfold Heal.exec_db. destruct (exec_sub V sem (hdb V s) sb). discriminate.
      + pose proof (attempt_spec s (hown V s sl)) as B. destruct (hconn V s (hown V s sl)) as [[id2 [|]]|] eqn:E2.
        * rewrite B. unfold Heal.exec_db. destruct (exec_sub V sem (hdb V s) sb). discriminate.
        * rewrite B. intros H. inversion H; subst. exists id2. exact E2.
        * destruct (reach V s (hown V s sl)) eqn:R.
          -- destruct B as [s2 [B1 _]]. rewrite B1. unfold Heal.exec_db. destruct (exec_sub V sem (hdb V s2) sb). discriminate.
          -- rewrite B. intros H. inversion H; subst. exact R.
    - rewrite A. intros H. inversion H; subst. exists id. exact E.
    - destruct (reach V s n) eqn:R.
      + destruct A as [s1 [A1 [A2 [A3 [A4 [A5 [A6 [A7 [A8 A9]]]]]]]]]. rewrite A1. rewrite A8.
        destruct (hown V s sl =? n) eqn:Eo.
        * unfold Heal.exec_db. destruct (exec_sub V sem (hdb V s1) sb). discriminate.
        * apply N.eqb_neq in Eo. pose proof (attempt_spec s1 (hown V s sl)) as B. destruct (A5 _ Eo) as [C1 _]. rewrite C1 in B.
          destruct (hconn V s (hown V s sl)) as [[id2 [|]]|] eqn:E2.
          -- rewrite B. unfold Heal.exec_db. destruct (exec_sub V sem (hdb V s1) sb). discriminate.
          -- rewrite B. intros H. inversion H; subst. exists id2. exact E2.
          -- rewrite A6 in B. destruct (reach V s (hown V s sl)) eqn:R2.
             ++ destruct B as [s2 [B1 _]]. rewrite B1. unfold Heal.exec_db. destruct (exec_sub V sem (hdb V s2) sb). discriminate.
             ++ rewrite B. intros H. inversion H; subst. exact R2.
      + rewrite A. intros H. inversion H; subst. exact R.
  Qed.

  (* ---------- service resumes: no dead connection left and the nodes involved reachable => served, by the owner,
     with the single server's reply ---------- *)
  Theorem heals s sb : no_dead s -> reach V s (tbl V s (slot (sk sb))) = true -> reach V s (hown V s (slot (sk sb))) = true ->
    exists s' r id red, do_req s sb = (s', ROk r (hown V s (slot (sk sb))) id red) /\
                        r = snd (exec_sub V sem (hdb V s) sb) /\ hdb V s' = fst (exec_sub V sem (hdb V s) sb).
  Proof.
    intros ND R1 R2. unfold Heal.do_req. set (sl := slot (sk sb)) in *. set (n := tbl V s sl) in *.
    assert (Hat : forall s0 x, hconn V s0 x <> Some (0, false) -> (forall id, hconn V s0 x <> Some (id, false)) -> reach V s0 x = true ->
                  exists s1 id, attempt s0 x = (s1, HServed x id) /\ hown V s1 = hown V s0 /\ hdb V s1 = hdb V s0 /\ reach V s1 = reach V s0 /\
                                (forall y, y <> x -> hconn V s1 y = hconn V s0 y)).
    { intros s0 x _ Hd Hr. pose proof (attempt_spec s0 x) as A. destruct (hconn V s0 x) as [[id [|]]|] eqn:E.
      - exists s0, id. rewrite A. repeat split; reflexivity.
      - exfalso. exact (Hd id eq_refl).
      - rewrite Hr in A. destruct A as [s1 [A1 [A2 [A3 [A4 [A5 [A6 [A7 [A8 A9]]]]]]]]]. exists s1, (nextid V s0). rewrite A1.
        split; [reflexivity|]. split; [exact A8|]. split; [exact A9|]. split; [exact A6|]. intros y Hy. apply (A5 y Hy). }
    destruct (Hat s n (ND n 0) (ND n) R1) as [s1 [id [A1 [A2 [A3 [A4 A5]]]]]]. rewrite A1, A2.
    destruct (hown V s sl =? n) eqn:Eo.
    - apply N.eqb_eq in Eo. unfold Heal.exec_db. rewrite A3. destruct (exec_sub V sem (hdb V s) sb) as [d r] eqn:Ex.
      exists {| reach := reach V s1; hconn := hconn V s1; nextid := nextid V s1; accepts := accepts V s1; tbl := tbl V s1; hown := hown V s1; hdb := d; refreshes := refreshes V s1 |}, r, id, false.
      rewrite Eo. split; [reflexivity|]. split; reflexivity.
    - apply N.eqb_neq in Eo.
      assert (Hd1 : forall id0, hconn V s1 (hown V s sl) <> Some (id0, false)) by (intros id0; rewrite (A5 _ Eo); apply ND).
      assert (Hr1 : reach V s1 (hown V s sl) = true) by (rewrite A4; exact R2).
      destruct (Hat s1 (hown V s sl) (Hd1 0) Hd1 Hr1) as [s2 [id2 [B1 [B2 [B3 [B4 B5]]]]]]. rewrite B1.
      unfold Heal.exec_db. rewrite B3, A3. destruct (exec_sub V sem (hdb V s) sb) as [d r] eqn:Ex.
      eexists. exists r, id2, true. split; [reflexivity|]. split; [reflexivity|].
      unfold Heal.refresh. destruct (can_refresh V hosts _); reflexivity.
  Qed.

  (* time passing removes every finished connection *)
  Lemma wait_no_dead s : no_dead (fst (do_hop s HWait)).
  Proof. intros n id. cbn [Heal.do_hop fst hconn]. destruct (hconn V s n) as [[i [|]]|]; discriminate. Qed.

  (* a request for an address without a connection dials a NEW connection: fresh id, one more accept on the backend *)
  Theorem reconnects s n : HI s -> hconn V s n = None -> reach V s n = true ->
    exists s', attempt s n = (s', HServed n (nextid V s)) /\ accepts V s' n = accepts V s n + 1 /\
               forall x id a, hconn V s x = Some (id, a) -> id <> nextid V s.
  Proof.
    intros I E R. pose proof (attempt_spec s n) as A. rewrite E, R in A. destruct A as [s' [A1 [A2 [A3 _]]]].
    exists s'. split; [exact A1|]. split; [exact A3|]. intros x id a Hc. destruct (I x id a Hc) as [J _]. lia.
  Qed.

  (* ---------- routing converges ---------- *)
  Lemma converged_no_redirect s sb s' r n id red : converged s -> do_req s sb = (s', ROk r n id red) -> red = false.
  Proof.
    intros C. unfold Heal.do_req. set (sl := slot (sk sb)). rewrite (C sl).
    destruct (attempt s (hown V s sl)) as [s1 [x id1|x|x]] eqn:A; try discriminate.
    - assert (Ho : hown V s1 = hown V s).
      { pose proof (attempt_spec s (hown V s sl)) as B. destruct (hconn V s (hown V s sl)) as [[i [|]]|].
        - rewrite B in A. inversion A; subst. reflexivity.
        - rewrite B in A. discriminate.
        - destruct (reach V s (hown V s sl)); [destruct B as [s2 [B1 [_ [_ [_ [_ [_ [_ [B8 _]]]]]]]]]; rewrite B1 in A; inversion A; subst; exact B8 | rewrite B in A; discriminate]. }
      rewrite Ho, N.eqb_refl. unfold Heal.exec_db. destruct (exec_sub V sem (hdb V s1) sb). intros H. inversion H. reflexivity.
  Qed.

  Lemma refresh_converges s : can_refresh V hosts s = true -> converged (refresh s).
  Proof. intros H sl. unfold Heal.refresh. rewrite H. reflexivity. Qed.

  (* the first redirection triggers a refresh: when some configured host is reachable the table is the layout afterwards *)
  Theorem redirect_then_converged s sb s' r n id : do_req s sb = (s', ROk r n id true) -> can_refresh V hosts s = true -> converged s'.
  Proof.
    unfold Heal.do_req. set (sl := slot (sk sb)). set (m := tbl V s sl).
    destruct (attempt s m) as [s1 [x id1|x|x]] eqn:A; try discriminate.
    - destruct (hown V s1 sl =? m); [unfold Heal.exec_db; destruct (exec_sub V sem (hdb V s1) sb); intros H; inversion H|].
      destruct (attempt s1 (hown V s1 sl)) as [s2 [y id2|y|y]] eqn:B; try discriminate.
      unfold Heal.exec_db. destruct (exec_sub V sem (hdb V s2) sb) as [d r0]. intros H Hc. inversion H; subst. clear H.
      assert (Hr : forall s0 x s0' o, attempt s0 x = (s0', o) -> reach V s0' = reach V s0).
      { intros s0 x0 s0' o0 E. pose proof (attempt_spec s0 x0) as S. destruct (hconn V s0 x0) as [[i [|]]|].
        - rewrite S in E. inversion E; reflexivity.
        - rewrite S in E. inversion E; reflexivity.
        - destruct (reach V s0 x0); [destruct S as [s3 [S1 [_ [_ [_ [_ [S6 _]]]]]]]; rewrite S1 in E; inversion E; subst; exact S6 | rewrite S in E; inversion E; reflexivity]. }
      apply refresh_converges. unfold Heal.can_refresh in *. cbn [reach]. rewrite (Hr _ _ _ _ B), (Hr _ _ _ _ A). exact Hc.
  Qed.

  (* ---------- every reachable state ---------- *)
  Lemma req_inv s sb : HI s -> HI (fst (do_req s sb)).
  Proof.
    intros I. unfold Heal.do_req. set (sl := slot (sk sb)). set (m := tbl V s sl).
    pose proof (attempt_inv s m I) as I1. destruct (attempt s m) as [s1 [x id1|x|x]] eqn:A; cbn [fst] in *.
    + destruct (hown V s1 sl =? m).
      * unfold Heal.exec_db. destruct (exec_sub V sem (hdb V s1) sb). cbn [fst]. exact I1.
      * pose proof (attempt_inv s1 (hown V s1 sl) I1) as I2. destruct (attempt s1 (hown V s1 sl)) as [s2 [y id2|y|y]]; cbn [fst] in *.
        -- unfold Heal.exec_db. destruct (exec_sub V sem (hdb V s2) sb). cbn [fst]. unfold Heal.refresh. destruct (can_refresh V hosts _); exact I2.
        -- unfold Heal.refresh. destruct (can_refresh V hosts _); exact I2.
        -- unfold Heal.refresh. destruct (can_refresh V hosts _); exact I2.
    + exact I1.
    + unfold Heal.refresh. destruct (can_refresh V hosts _); exact I1.
  Qed.

  Lemma kill_inv s n : HI s -> HI (kill_conn V s n).
  Proof.
    intros I. unfold Heal.kill_conn. destruct (hconn V s n) as [[id a]|] eqn:E; [|exact I].
    intros x i b Hc. cbn [Heal.set_conn hconn nextid reach] in *. destruct (N.eqb_spec x n) as [->|Hx].
    + inversion Hc; subst. split; [exact (proj1 (I n i a E)) | discriminate].
    + exact (I x i b Hc).
  Qed.

  (* a served request: the data is the single execution's, and it arrived on the live connection of the node named *)
  Lemma served_conn s sb s' r n id red : HI s -> do_req s sb = (s', ROk r n id red) ->
    hdb V s' = fst (exec_sub V sem (hdb V s) sb) /\ hconn V s' n = Some (id, true).
  Proof.
    intros I. unfold Heal.do_req. set (sl := slot (sk sb)). set (m := tbl V s sl).
    pose proof (attempt_served s m) as A1.
    destruct (attempt s m) as [s1 [x id1|x|x]] eqn:A; [|discriminate | intros H; destruct (can_refresh V hosts s1); discriminate].
    destruct (A1 s1 x id1 eq_refl) as [Ex [Ec Ed]]. subst x.
    destruct (hown V s1 sl =? m) eqn:Eo.
    - unfold Heal.exec_db. destruct (exec_sub V sem (hdb V s1) sb) as [d r0] eqn:Ee. intros H. inversion H; subst. cbn [hdb hconn].
      rewrite Ed in Ee. rewrite Ee. split; [reflexivity | exact Ec].
    - pose proof (attempt_served s1 (hown V s1 sl)) as A2.
      destruct (attempt s1 (hown V s1 sl)) as [s2 [y id2|y|y]] eqn:B; [| intros H; unfold Heal.refresh in H; destruct (can_refresh V hosts s2); discriminate
                                                                        | intros H; unfold Heal.refresh in H; destruct (can_refresh V hosts s2); discriminate].
      destruct (A2 s2 y id2 eq_refl) as [Ey [Fc Fd]]. subst y.
      unfold Heal.exec_db. destruct (exec_sub V sem (hdb V s2) sb) as [d r0] eqn:Ee. intros H.
      unfold Heal.refresh in H. rewrite Fd, Ed in Ee.
      destruct (can_refresh V hosts _); inversion H; subst; cbn [hdb hconn]; rewrite Ee; (split; [reflexivity | exact Fc]).
  Qed.

  Lemma hop_inv s o : HI s -> HI (fst (do_hop s o)).
  Proof.
    intros I. destruct o as [sb|n|n|n|lo hi n| |sb]; cbn [Heal.do_hop].
    - (* request *)
      unfold Heal.do_req. set (sl := slot (sk sb)). set (m := tbl V s sl).
      pose proof (attempt_inv s m I) as I1. destruct (attempt s m) as [s1 [x id1|x|x]] eqn:A; cbn [fst] in *.
      + destruct (hown V s1 sl =? m).
        * unfold Heal.exec_db. destruct (exec_sub V sem (hdb V s1) sb). cbn [fst]. exact I1.
        * pose proof (attempt_inv s1 (hown V s1 sl) I1) as I2. destruct (attempt s1 (hown V s1 sl)) as [s2 [y id2|y|y]]; cbn [fst] in *.
          -- unfold Heal.exec_db. destruct (exec_sub V sem (hdb V s2) sb). cbn [fst]. unfold Heal.refresh. destruct (can_refresh V hosts _); exact I2.
          -- unfold Heal.refresh. destruct (can_refresh V hosts _); exact I2.
          -- unfold Heal.refresh. destruct (can_refresh V hosts _); exact I2.
      + exact I1.
      + unfold Heal.refresh. destruct (can_refresh V hosts _); exact I1.
    - (* kill *)
      cbn [fst]. unfold Heal.kill_conn. destruct (hconn V s n) as [[id a]|] eqn:E; [|exact I].
      intros x i b Hc. cbn [Heal.set_conn hconn nextid reach] in *. destruct (N.eqb_spec x n) as [->|Hx].
      + inversion Hc; subst. split; [exact (proj1 (I n i a E)) | discriminate].
      + exact (I x i b Hc).
    - (* down *)
      cbn [fst]. unfold Heal.kill_conn. destruct (hconn V s n) as [[id a]|] eqn:E.
      + intros x i b Hc. cbn [Heal.set_conn hconn nextid reach] in *. destruct (N.eqb_spec x n) as [->|Hx].
        * inversion Hc; subst. split; [exact (proj1 (I n i a E)) | discriminate].
        * exact (I x i b Hc).
      + intros x i b Hc. cbn [hconn nextid reach] in *. destruct (N.eqb_spec x n) as [->|Hx]; [congruence | exact (I x i b Hc)].
    - (* up *)
      cbn [fst]. intros x i b Hc. cbn [hconn nextid reach] in *. destruct (I x i b Hc) as [J1 J2]. split; [exact J1|].
      intros Hb. destruct (x =? n); [reflexivity | exact (J2 Hb)].
    - cbn [fst]. exact I.
    - (* wait *)
      cbn [fst]. intros x i b Hc. cbn [hconn nextid reach] in *. destruct (hconn V s x) as [[i0 [|]]|] eqn:E; try discriminate.
      inversion Hc; subst. exact (I x i true E).
    - (* a request whose reply is lost *)
      pose proof (req_inv s sb I) as I1. destruct (do_req s sb) as [s1 [r n id red|out]]; cbn [fst] in *; [|exact I1].
      apply kill_inv. exact I1.
  Qed.

  (* ---------- a reply lost after execution ---------- *)
  (* the client is told an error, never a result; the data is what exactly one execution leaves (the command is not
     sent again, its effect is not undone); the connection is gone, so the next request dials a new one *)
  Theorem lost_reply s sb : HI s ->
    let '(s1, out) := do_hop s (HReqLost sb) in
    (exists o, out = Some (RErr o)) /\ hdb V s1 = hdb V (fst (do_req s sb)) /\
    (forall r n id red, snd (do_req s sb) = ROk r n id red ->
       hdb V s1 = fst (exec_sub V sem (hdb V s) sb) /\ exists id', hconn V s1 n = Some (id', false)).
  Proof.
    intros I. cbn [Heal.do_hop]. destruct (do_req s sb) as [s' [r n id red|o]] eqn:E; cbn [fst snd].
    - split; [eexists; reflexivity|]. split; [unfold Heal.kill_conn; destruct (hconn V s' n) as [[i a]|]; reflexivity|].
      intros r0 n0 id0 red0 H. inversion H; subst r0 n0 id0 red0.
      destruct (served_conn s sb s' r n id red I E) as [D C]. split.
      + unfold Heal.kill_conn. destruct (hconn V s' n) as [[i a]|]; cbn [Heal.set_conn hdb]; exact D.
      + unfold Heal.kill_conn. rewrite C. cbn [Heal.set_conn hconn]. rewrite N.eqb_refl. eexists; reflexivity.
    - split; [eexists; reflexivity|]. split; [reflexivity|]. intros r n id red H. discriminate.
  Qed.

  Lemma hinit_inv layout : HI (hinit V layout).
  Proof. intros n id a H. discriminate. Qed.

  Theorem reachable_inv layout l : HI (fst (run_hops (hinit V layout) l)).
  Proof.
    generalize (hinit_inv layout). generalize (hinit V layout). induction l as [|o t IH]; intros s I; cbn [Heal.run_hops]; [exact I|].
    pose proof (hop_inv s o I) as I1. destruct (do_hop s o) as [s1 r]. specialize (IH s1 I1). destruct (run_hops s1 t). exact IH.
  Qed.
End P.

Lemma trigger_kept : 1 <= slots_refresh_ch_cap.
Proof. vm_compute. discriminate. Qed.
