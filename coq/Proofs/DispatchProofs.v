From Coq Require Import List NArith ZArith Bool String Lia.
From Sam Require Import Gen.Tables Model.Bytes Model.Resp Model.Text Model.Slot Model.Dispatch Model.RedisFlags
  Proofs.BytesProofs.
Import ListNotations.
Open Scope list_scope.
Open Scope N_scope.

Definition plan (v : resp) : plan := plan_of handler_names handler_funcs invalid_request_text v.
Definition finder (cmd : bytes) : option string := find_handler handler_names handler_funcs cmd.
Definition read_only (name : bytes) : bool := is_read_only read_only_commands name.

Definition mem_str (x : string) (l : list string) : bool := existsb (String.eqb x) l.

(* ---------- the regenerated tables against Redis' own flags ---------- *)

Lemma read_only_table_sound : forallb (fun c => mem_str c redis_read_only) read_only_commands = true.
Proof. vm_compute. reflexivity. Qed.

Lemma no_write_command_read_only : forallb (fun c => negb (mem_str c read_only_commands)) redis_write = true.
Proof. vm_compute. reflexivity. Qed.

(* every forwarding handler is registered for a Redis data command, the rest are the proxy's own *)
Lemma handler_table_known :
  forallb (fun c => mem_str c redis_read_only || mem_str c redis_write || mem_str c proxy_local || String.eqb c "scan") handler_names = true.
Proof. vm_compute. reflexivity. Qed.

(* ---------- lookup ---------- *)

(* a name that is not (ASCII case-insensitively) in the handler table is answered locally with
   the unsupported-command error: nothing is forwarded *)
Lemma unsupported_is_local args cmd :
  valid_request (Arr (Some args)) = Some args -> cmd = bulk_text (hd (Bulk None) args) ->
  (forall n, In n handler_names -> bytes_eqb (ascii_lower cmd) (str n) = false) ->
  plan (Arr (Some args)) = PLocalErr (unsupported_text cmd).
Proof.
  intros Hv Hc Hn. unfold plan, plan_of. rewrite Hv. rewrite <- Hc.
  assert (E : find_handler handler_names handler_funcs cmd = None).
  { unfold find_handler.
    assert (G : forall ns fs, (forall n, In n ns -> bytes_eqb (ascii_lower cmd) (str n) = false) ->
                              lookup_handler (ascii_lower cmd) ns fs None = None).
    { induction ns as [|n ns IH]; intros fs H; [reflexivity|]. destruct fs as [|f fs]; [reflexivity|].
      cbn [lookup_handler]. rewrite (H n (or_introl eq_refl)). apply IH. intros m Hm. apply H. right. exact Hm. }
    apply G. exact Hn. }
  rewrite E. reflexivity.
Qed.

(* the handler found depends only on the ASCII lower-casing of the name *)
Lemma finder_case cmd cmd' : ascii_lower cmd = ascii_lower cmd' -> finder cmd = finder cmd'.
Proof. intros H. unfold finder, find_handler. rewrite H. reflexivity. Qed.

Lemma ascii_lower_idem l : ascii_lower (ascii_lower l) = ascii_lower l.
Proof.
  induction l as [|b l IH]; [reflexivity|]. cbn [ascii_lower map]. f_equal; [|exact IH].
  unfold ascii_lower_byte, is_upper.
  destruct ((65 <=? b) && (b <=? 90)) eqn:E; [|rewrite E; reflexivity].
  apply andb_true_iff in E. destruct E as [E1 E2]. apply N.leb_le in E1, E2.
  destruct (N.leb_spec 65 (b + 32)), (N.leb_spec (b + 32) 90); cbn [andb]; try reflexivity; lia.
Qed.

Lemma local_handlers :
  finder (str "ping") = Some "handlePing"%string /\ finder (str "quit") = Some "handleQuit"%string /\
  finder (str "select") = Some "handleSelect"%string /\ finder (str "info") = Some "handleInfo"%string /\
  finder (str "time") = Some "handleTime"%string /\ finder (str "hotkey") = Some "handleHotKey"%string.
Proof. vm_compute. repeat split. Qed.

(* PING, QUIT, SELECT, INFO, TIME and HOTKEY in any letter case, with any arguments, are answered by the proxy *)
Definition is_local_plan (p : Dispatch.plan) : bool :=
  match p with PLocalErr _ | PLocalSimple _ | PLocalInfo | PLocalTime | PLocalHotKey => true | _ => false end.

Lemma local_commands args cmd name :
  valid_request (Arr (Some args)) = Some args -> cmd = bulk_text (hd (Bulk None) args) ->
  In name proxy_local -> ascii_lower cmd = str name -> is_local_plan (plan (Arr (Some args))) = true.
Proof.
  intros Hv Hc Hin Hl. unfold plan, plan_of. rewrite Hv, <- Hc.
  assert (E : find_handler handler_names handler_funcs cmd = finder (str name)).
  { unfold finder, find_handler. rewrite Hl.
    assert (A : ascii_lower (str name) = str name).
    { cbn in Hin. destruct Hin as [<-|[<-|[<-|[<-|[<-|[<-|[]]]]]]]; reflexivity. }
    rewrite A. reflexivity. }
  rewrite E. destruct local_handlers as [H1 [H2 [H3 [H4 [H5 H6]]]]].
  cbn in Hin. destruct Hin as [<-|[<-|[<-|[<-|[<-|[<-|[]]]]]]].
  - rewrite H1. reflexivity.
  - rewrite H2. reflexivity.
  - rewrite H3. reflexivity.
  - rewrite H4. reflexivity.
  - rewrite H5. reflexivity.
  - rewrite H6. reflexivity.
Qed.

(* ---------- routing ---------- *)

(* a request that is not read-only has exactly one candidate: the master owning the slot *)
Lemma write_goes_to_master st inst : candidates st false inst = [i_addr inst].
Proof. reflexivity. Qed.

(* with the MASTER strategy everything goes to the master *)
Lemma master_strategy ro inst : candidates SMaster ro inst = [i_addr inst].
Proof. destruct ro; reflexivity. Qed.

(* a candidate is always the owning master or one of ITS replicas; never empty *)
Lemma candidates_of_owner st ro inst a : In a (candidates st ro inst) -> a = i_addr inst \/ In a (i_replicas inst).
Proof.
  unfold candidates. destruct ro; cbn [negb]; [|intros [H|[]]; left; symmetry; exact H].
  destruct st.
  - intros [H|[]]. left. symmetry. exact H.
  - destruct (i_replicas inst) eqn:E; [intros [H|[]]; left; symmetry; exact H|]. intros H. right. exact H.
  - intros [H|H]; [left; symmetry; exact H | right; exact H].
Qed.

Lemma candidates_nonempty st ro inst : candidates st ro inst <> [].
Proof.
  unfold candidates. destruct ro; cbn [negb]; [|discriminate].
  destruct st; try discriminate. destruct (i_replicas inst); discriminate.
Qed.

(* the children of split requests: MSET children are SETs (never read-only), MGET children are GETs *)
Lemma mset_child_not_read_only : read_only (str "set") = false.
Proof. vm_compute. reflexivity. Qed.
Lemma write_names_not_read_only : forallb (fun c => negb (read_only (str c))) redis_write = true.
Proof. vm_compute. reflexivity. Qed.
