(* Liveness for Model/Cluster.v (one connection): from every reachable state, letting the handler finish sending, the
   nodes answer what is queued and the writer write, answers every request read so far; repeating this for the rest
   of the program reaches quiescence.  Together with single_connection_quiescent: every request gets exactly its
   reply. *)
From Coq Require Import List NArith Bool Arith Lia.
From Sam Require Import Model.Bytes Model.Resp Model.Dispatch Model.Cluster Proofs.ClusterProofs.
Import ListNotations.
Open Scope nat_scope.

Section L.
  Variable V : Type.
  Variable sem : list resp -> option V -> option V * resp.
  Variable owner : bytes -> N.
  Variable asm : assemble -> list resp -> resp.

  Notation state := (state V).
  Notation do_step := (do_step V sem owner asm).
  Notation run := (run V sem owner asm).
  Notation init := (init V owner).
  Notation cl := (cl V).
  Notation Inv := (Inv V sem owner asm).

  Definition dflt : request := RLocal (Bulk None).

  (* position determines label; every entry sent is queued on its owner or answered *)
  Record Inv2 (st : state) : Prop := {
    jL : forall c p e, nth_error (cl st c) p = Some e ->
           e_c e = c /\ e_r e < length (reqs (conns V st c)) /\ e_i e < nchildren (nth (e_r e) (reqs (conns V st c)) dflt) /\
           offset (reqs (conns V st c)) (e_r e) + e_i e = p;
    jQ : forall e, In e (lin V st) -> In e (nq V st (owner (sk (e_s e)))) \/ slots V st (e_c e) (e_r e) (e_i e) = Some (e_x e);
    jO : forall n e, In e (nq V st n) -> owner (sk (e_s e)) = n /\ In e (lin V st) }.

  Lemma inv2_init nd progs : Inv2 (init nd progs).
  Proof.
    constructor; cbn [Cluster.init lin nq conns slots].
    - intros c p e H. unfold ClusterProofs.cl in H. cbn in H. destruct p; discriminate.
    - intros e [].
    - intros n e [].
  Qed.

  Lemma fsame {A} (f : N -> A) n v : fset f n v n = v.
  Proof. unfold fset. rewrite N.eqb_refl. reflexivity. Qed.
  Lemma fother {A} (f : N -> A) n v x : x <> n -> fset f n v x = f x.
  Proof. intros H. unfold fset. destruct (N.eqb_spec x n); [contradiction | reflexivity]. Qed.

  Lemma nth_last (l : list request) : l <> [] -> nth (length l - 1) l dflt = last_req l.
  Proof.
    intros H. destruct (exists_last H) as [l' [r ->]]. rewrite app_length. cbn [length].
    replace (length l' + 1 - 1) with (length l') by lia. rewrite app_nth2, Nat.sub_diag by lia. unfold last_req. rewrite last_last. reflexivity.
  Qed.

  (* where the next child goes in the connection's part of the send order *)
  Lemma send_pos nd0 progs st c s rest : Inv nd0 progs st -> sending (conns V st c) = s :: rest ->
    reqs (conns V st c) <> [] /\
    offset (reqs (conns V st c)) (length (reqs (conns V st c)) - 1) + (nchildren (last_req (reqs (conns V st c))) - length (s :: rest)) = length (cl st c) /\
    length (s :: rest) <= nchildren (last_req (reqs (conns V st c))).
  Proof.
    intros I Es. pose proof (iC _ _ _ _ _ _ _ I c) as HC. rewrite Es in HC. pose proof (iH _ _ _ _ _ _ _ I c) as [pre HH]. rewrite Es in HH.
    assert (Hne : reqs (conns V st c) <> []) by (intros E0; rewrite E0 in HC; cbn in HC; destruct (map e_s (cl st c)); discriminate).
    split; [exact Hne|].
    pose proof (nth_error_last (reqs (conns V st c)) Hne) as HL. pose proof (offset_S _ _ _ HL) as HS.
    replace (S (length (reqs (conns V st c)) - 1)) with (length (reqs (conns V st c))) in HS
      by (destruct (reqs (conns V st c)); [contradiction | cbn [length]; lia]).
    rewrite offset_all in HS. apply (f_equal (@length _)) in HC. rewrite app_length, map_length in HC.
    unfold nchildren in *. rewrite HH in *. rewrite app_length in *. unfold kids in *. split; lia.
  Qed.

  Lemma in_cl st e : In e (lin V st) -> exists p, nth_error (cl st (e_c e)) p = Some e.
  Proof. intros H. apply In_nth_error. unfold ClusterProofs.cl. apply filter_In. split; [exact H | apply N.eqb_refl]. Qed.

  Lemma exec_reply nd0 progs st n e t : Inv nd0 progs st -> nq V st n = e :: t ->
    snd (exec_sub V sem (nodes V st n) (e_s e)) = e_x e.
  Proof.
    intros I En. destruct (iB _ _ _ _ _ _ _ I n) as [dF [B1 _]]. rewrite En in B1. cbn [map Cluster.ss_subs] in B1.
    destruct (exec_sub V sem (nodes V st n) (e_s e)) as [d' r]. destruct (ss_subs V sem d' (map e_s t)). inversion B1. reflexivity.
  Qed.

  Lemma step_inv2 nd0 progs st x : Inv nd0 progs st -> Inv2 st -> Inv2 (do_step st x).
  Proof.
    intros I J. destruct x as [c|c|n|c]; cbn [Cluster.do_step].
    - (* read *)
      destruct (sending (conns V st c)) as [|s0 r0] eqn:Es; [|exact J]. destruct (todo (conns V st c)) as [|r t] eqn:Et; [exact J|].
      constructor; cbn [lin nq conns slots].
      + intros x p e H. unfold ClusterProofs.cl in H. cbn [lin] in H. destruct (jL _ J x p e H) as [A [B [C D]]].
        destruct (N.eq_dec x c) as [->|Hx]; [rewrite fsame | rewrite fother by exact Hx; auto]. cbn [reqs].
        split; [exact A|]. split; [rewrite app_length; lia|]. split; [rewrite app_nth1 by exact B; exact C|]. rewrite offset_app by lia. exact D.
      + exact (jQ _ J).
      + exact (jO _ J).
    - (* send *)
      destruct (sending (conns V st c)) as [|s rest] eqn:Es; [exact J|].
      destruct (exec_sub V sem (gdb V st) s) as [g' r] eqn:Eg.
      destruct (send_pos nd0 progs st c s rest I Es) as [Hne [Hpos Hle]].
      set (e := {| e_c := c; e_r := length (reqs (conns V st c)) - 1; e_i := nchildren (last_req (reqs (conns V st c))) - length (s :: rest); e_s := s; e_x := r |}) in *.
      constructor; cbn [lin nq conns slots].
      + intros x p e0 H. unfold ClusterProofs.cl in H. cbn [lin] in H. rewrite filter_app in H. cbn [filter e_c e] in H.
        assert (Hr : reqs (fset (conns V st) c {| todo := todo (conns V st c); sending := rest; reqs := reqs (conns V st c); nwritten := nwritten (conns V st c); out := out (conns V st c) |} x) = reqs (conns V st x))
          by (destruct (N.eq_dec x c) as [->|Hx]; [rewrite fsame | rewrite fother by exact Hx]; reflexivity).
        rewrite Hr. destruct (N.eqb_spec c x) as [<-|Hcx].
        * fold (cl st c) in H. destruct (Nat.lt_ge_cases p (length (cl st c))) as [Hp|Hp].
          -- rewrite nth_error_app1 in H by exact Hp. exact (jL _ J c p e0 H).
          -- rewrite nth_error_app2 in H by exact Hp. destruct (p - length (cl st c)) as [|k] eqn:Ek; [|destruct k; discriminate].
             cbn in H. inversion H; subst e0. cbn [e_c e_r e_i e]. split; [reflexivity|]. split; [destruct (reqs (conns V st c)); [contradiction | cbn [length]; lia]|].
             split; [rewrite nth_last by exact Hne; cbn [length] in *; lia|]. cbn [e_i e] in Hpos. lia.
        * rewrite app_nil_r in H. exact (jL _ J x p e0 H).
      + intros e0 H. apply in_app_or in H. destruct H as [H|[<-|[]]].
        * destruct (jQ _ J e0 H) as [Q|Q]; [|right; exact Q]. left.
          destruct (N.eq_dec (owner (sk (e_s e0))) (owner (sk s))) as [Eo|Eo]; [rewrite Eo, fsame; apply in_or_app; left; rewrite <- Eo; exact Q | rewrite fother by exact Eo; exact Q].
        * left. cbn [e_s e]. rewrite fsame. apply in_or_app. right. left. reflexivity.
      + intros n e0 H. destruct (N.eq_dec n (owner (sk s))) as [->|Hn].
        * rewrite fsame in H. apply in_app_or in H. destruct H as [H|[<-|[]]].
          -- destruct (jO _ J _ e0 H) as [A B]. split; [exact A | apply in_or_app; left; exact B].
          -- split; [reflexivity | apply in_or_app; right; left; reflexivity].
        * rewrite fother in H by exact Hn. destruct (jO _ J _ e0 H) as [A B]. split; [exact A | apply in_or_app; left; exact B].
    - (* exec *)
      destruct (nq V st n) as [|e t] eqn:En; [exact J|].
      pose proof (exec_reply nd0 progs st n e t I En) as Hx.
      destruct (exec_sub V sem (nodes V st n) (e_s e)) as [d' r] eqn:Ed. cbn [snd] in Hx. subst r.
      constructor; cbn [lin nq conns slots].
      + exact (jL _ J).
      + intros e0 H.
        destruct ((e_c e0 =? e_c e)%N && Nat.eqb (e_r e0) (e_r e) && Nat.eqb (e_i e0) (e_i e)) eqn:Eb.
        * (* same label: it is the same entry *)
          right. apply andb_true_iff in Eb. destruct Eb as [Eb E3]. apply andb_true_iff in Eb. destruct Eb as [E1 E2].
          apply N.eqb_eq in E1. apply Nat.eqb_eq in E2. apply Nat.eqb_eq in E3.
          destruct (in_cl st e0 H) as [p0 P0]. destruct (jO _ J n e ltac:(rewrite En; left; reflexivity)) as [_ Hl]. destruct (in_cl st e Hl) as [p P].
          destruct (jL _ J _ _ _ P0) as [_ [_ [_ D0]]]. destruct (jL _ J _ _ _ P) as [_ [_ [_ D]]].
          rewrite E1 in P0, D0. rewrite E2, E3 in D0. assert (p0 = p) by lia. subst p0. assert (e0 = e) by congruence. subst e0. reflexivity.
        * destruct (jQ _ J e0 H) as [Q|Q]; [|right; exact Q].
          destruct (N.eq_dec (owner (sk (e_s e0))) n) as [Eo|Eo].
          -- rewrite Eo in *. rewrite fsame. rewrite En in Q. destruct Q as [<-|Q]; [|left; exact Q].
             rewrite !N.eqb_refl, !Nat.eqb_refl in Eb. discriminate.
          -- left. rewrite fother by exact Eo. exact Q.
      + intros m e0 H. destruct (N.eq_dec m n) as [->|Hm].
        * rewrite fsame in H. apply (jO _ J n e0). rewrite En. right. exact H.
        * rewrite fother in H by exact Hm. exact (jO _ J m e0 H).
    - (* write *)
      destruct (nth_error (reqs (conns V st c)) (nwritten (conns V st c))) as [rq|]; [|exact J].
      destruct (all_some _); [|exact J].
      constructor; cbn [lin nq conns slots].
      + intros x p e H. unfold ClusterProofs.cl in H. cbn [lin] in H. destruct (jL _ J x p e H) as [A [B [C D]]].
        destruct (N.eq_dec x c) as [->|Hx]; [rewrite fsame | rewrite fother by exact Hx; auto]. cbn [reqs]. auto.
      + exact (jQ _ J).
      + exact (jO _ J).
  Qed.

  Theorem run_inv2 nd progs sch : Inv2 (run (init nd progs) sch).
  Proof.
    unfold Cluster.run. assert (G : forall l st, Inv nd progs st -> Inv2 st -> Inv nd progs (fold_left do_step l st) /\ Inv2 (fold_left do_step l st)).
    { induction l as [|x t IH]; intros st I J; cbn [fold_left]; [split; assumption|]. apply IH; [apply step_inv; exact I | apply (step_inv2 nd progs); assumption]. }
    apply G; [apply inv_init | apply inv2_init].
  Qed.

  (* ---------- schedules that finish the work ---------- *)
  Definition Good nd progs (st : state) : Prop := Inv nd progs st /\ Inv2 st.

  Lemma good_fold nd progs sch : forall st, Good nd progs st -> Good nd progs (fold_left do_step sch st).
  Proof.
    induction sch as [|x t IH]; intros st [I J]; cbn [fold_left]; [split; assumption|].
    apply IH. split; [apply step_inv; exact I | apply (step_inv2 nd progs); assumption].
  Qed.

  (* what a phase leaves alone *)
  Definition same_conn_but (st st' : state) (c : N) (snd' : list sub) (nw' : nat) : Prop :=
    reqs (conns V st' c) = reqs (conns V st c) /\ todo (conns V st' c) = todo (conns V st c) /\
    sending (conns V st' c) = snd' /\ nwritten (conns V st' c) = nw'.

  (* E1: the handler sends the children it still holds *)
  Lemma finish_sending c : forall k st, length (sending (conns V st c)) = k ->
    exists sch, same_conn_but st (fold_left do_step sch st) c [] (nwritten (conns V st c)).
  Proof.
    induction k as [|k IH]; intros st Hk.
    - exists []. cbn [fold_left]. destruct (sending (conns V st c)) eqn:E; [|discriminate]. repeat split; auto.
    - destruct (sending (conns V st c)) as [|s rest] eqn:Es; [discriminate|]. cbn [length] in Hk.
      set (st1 := do_step st (SSend c)).
      assert (H1 : same_conn_but st st1 c rest (nwritten (conns V st c))).
      { unfold st1, same_conn_but. cbn [Cluster.do_step]. rewrite Es. destruct (exec_sub V sem (gdb V st) s). cbn [conns]. rewrite !fsame. cbn. repeat split; reflexivity. }
      destruct H1 as [A [B [C D]]]. destruct (IH st1 ltac:(rewrite C; lia)) as [sch [A' [B' [C' D']]]].
      exists (SSend c :: sch). cbn [fold_left]. fold st1. repeat split; congruence.
  Qed.

  (* E2: a node answers everything queued on its connection *)
  Lemma drain_node n : forall k st, length (nq V st n) = k ->
    exists sch, let st' := fold_left do_step sch st in
      nq V st' n = [] /\ (forall m, m <> n -> nq V st' m = nq V st m) /\ conns V st' = conns V st /\ lin V st' = lin V st.
  Proof.
    induction k as [|k IH]; intros st Hk.
    - exists []. cbn [fold_left]. destruct (nq V st n); [|discriminate]. repeat split; auto.
    - destruct (nq V st n) as [|e t] eqn:En; [discriminate|]. cbn [length] in Hk.
      set (st1 := do_step st (SExec n)).
      assert (H1 : nq V st1 n = t /\ (forall m, m <> n -> nq V st1 m = nq V st m) /\ conns V st1 = conns V st /\ lin V st1 = lin V st).
      { unfold st1. cbn [Cluster.do_step]. rewrite En. destruct (exec_sub V sem (nodes V st n) (e_s e)). cbn [nq conns lin].
        split; [apply fsame|]. split; [intros m Hm; apply fother; exact Hm|]. split; reflexivity. }
      destruct H1 as [A [B [C D]]]. destruct (IH st1 ltac:(rewrite A; lia)) as [sch [A' [B' [C' D']]]].
      exists (SExec n :: sch). cbn [fold_left]. fold st1. split; [exact A'|]. split; [intros m Hm; rewrite (B' m Hm); apply B; exact Hm|]. split; congruence.
  Qed.

  (* E3: all the nodes of a list *)
  Lemma drain_nodes ns : forall st,
    exists sch, let st' := fold_left do_step sch st in
      (forall n, In n ns -> nq V st' n = []) /\ (forall m, nq V st m = [] -> nq V st' m = []) /\
      (forall m, ~ In m ns -> nq V st' m = nq V st m) /\ conns V st' = conns V st /\ lin V st' = lin V st.
  Proof.
    induction ns as [|n t IH]; intros st.
    - exists []. cbn [fold_left]. repeat split; auto. intros n [].
    - destruct (drain_node n (length (nq V st n)) st eq_refl) as [s1 [A [B [C D]]]]. set (st1 := fold_left do_step s1 st) in *.
      destruct (IH st1) as [s2 [A2 [B2 [C2 [D2 E2]]]]]. exists (s1 ++ s2). rewrite fold_left_app. fold st1. cbn zeta in *.
      split; [intros m [<-|Hm]; [apply B2; exact A | apply A2; exact Hm]|].
      split; [intros m Hm; apply B2; destruct (N.eq_dec m n) as [->|Hn]; [exact A | rewrite (B m Hn); exact Hm]|].
      split; [intros m Hm; destruct (N.eq_dec m n) as [->|Hn]; [exfalso; apply Hm; left; reflexivity|];
              destruct (in_dec N.eq_dec m t) as [Hi|Hi]; [exfalso; apply Hm; right; exact Hi | rewrite (C2 m Hi); apply B; exact Hn]|].
      split; congruence.
  Qed.

  (* the position of a child determines its request and index *)
  Lemma decompose (rs : list request) a x b y :
    a < length rs -> b < length rs -> x < nchildren (nth a rs dflt) -> y < nchildren (nth b rs dflt) ->
    offset rs a + x = offset rs b + y -> a = b /\ x = y.
  Proof.
    assert (G : forall a x b y, a < b -> b < length rs -> x < nchildren (nth a rs dflt) -> offset rs a + x = offset rs b + y -> False).
    { intros a0 x0 b0 y0 Hab Hb Hx E.
      destruct (nth_error rs a0) as [r|] eqn:Ea; [|apply nth_error_None in Ea; lia].
      pose proof (offset_S rs a0 r Ea) as HS. rewrite (nth_error_nth rs a0 dflt Ea) in Hx.
      pose proof (offset_mono rs (S a0) b0 ltac:(lia)). lia. }
    intros Ha Hb Hx Hy E. destruct (Nat.lt_trichotomy a b) as [H|[H|H]].
    - exfalso. exact (G a x b y H Hb Hx E).
    - subst b. split; [reflexivity | lia].
    - exfalso. exact (G b y a x H Ha Hy (eq_sym E)).
  Qed.

  (* E4: with nothing left to send and every queue empty, the writer writes every reply *)
  Lemma write_all nd progs c : forall k st, Good nd progs st -> sending (conns V st c) = [] -> (forall n, nq V st n = []) ->
    length (reqs (conns V st c)) - nwritten (conns V st c) = k ->
    exists sch, let st' := fold_left do_step sch st in
      same_conn_but st st' c [] (length (reqs (conns V st c))) /\ (forall n, nq V st' n = []).
  Proof.
    induction k as [|k IH]; intros st [I J] Hs Hq Hk.
    - exists []. cbn [fold_left]. destruct (iG _ _ _ _ _ _ _ I c) as [_ [G2 _]]. split; [|exact Hq]. repeat split; auto. lia.
    - destruct (iG _ _ _ _ _ _ _ I c) as [_ [G2 _]].
      set (nw := nwritten (conns V st c)) in *. set (rs := reqs (conns V st c)) in *.
      destruct (nth_error rs nw) as [rq|] eqn:Eq; [|apply nth_error_None in Eq; lia].
      (* every child of request nw is answered *)
      assert (Hall : all_some (slot_vals (slots V st c nw) (nchildren rq)) = true).
      { unfold all_some, slot_vals. apply forallb_forall. intros o Ho. apply in_map_iff in Ho. destruct Ho as [i [<- Hi]]. apply in_seq in Hi.
        pose proof (iC _ _ _ _ _ _ _ I c) as HC. rewrite Hs, app_nil_r in HC. fold rs in HC.
        assert (Hlen : length (cl st c) = offset rs (length rs)) by (rewrite offset_all, <- HC, map_length; reflexivity).
        pose proof (offset_S rs nw rq Eq) as HS. pose proof (offset_mono rs (S nw) (length rs) ltac:(lia)) as HM.
        destruct (nth_error (cl st c) (offset rs nw + i)) as [e|] eqn:Ee; [|apply nth_error_None in Ee; lia].
        destruct (jL _ J c _ e Ee) as [L1 [L2 [L3 L4]]]. fold rs in L2, L3, L4.
        assert (Hrq : nth nw rs dflt = rq) by (apply nth_error_nth; exact Eq).
        destruct (decompose rs (e_r e) (e_i e) nw i L2 ltac:(lia) L3 ltac:(rewrite Hrq; lia) L4) as [D1 D2].
        assert (Hin : In e (lin V st)) by (apply nth_error_In in Ee; unfold ClusterProofs.cl in Ee; apply filter_In in Ee; exact (proj1 Ee)).
        destruct (jQ _ J e Hin) as [Q|Q]; [rewrite Hq in Q; destruct Q|]. rewrite L1, D1, D2 in Q. rewrite Q. reflexivity. }
      set (st1 := do_step st (SWrite c)).
      assert (H1 : same_conn_but st st1 c [] (S nw) /\ (forall n, nq V st1 n = [])).
      { unfold st1, same_conn_but. cbn [Cluster.do_step]. fold rs nw. rewrite Eq, Hall. cbn [conns nq]. rewrite !fsame. cbn. split; [|exact Hq]. repeat split; auto. }
      destruct H1 as [[A [B [C D]]] Q1].
      assert (G1 : Good nd progs st1) by (apply (good_fold nd progs [SWrite c]); split; assumption).
      destruct (IH st1 G1 C Q1 ltac:(rewrite A, D; fold rs; lia)) as [sch [[A' [B' [C' D']]] Q']].
      exists (SWrite c :: sch). cbn [fold_left]. fold st1. cbn zeta in *. split; [|exact Q']. repeat split; try congruence. rewrite D', A. reflexivity.
  Qed.

  (* everything read so far gets answered *)
  Lemma answer_all_read nd progs c st : Good nd progs st ->
    exists sch, let st' := fold_left do_step sch st in
      same_conn_but st st' c [] (length (reqs (conns V st c))) /\ (forall n, nq V st' n = []).
  Proof.
    intros G0.
    destruct (finish_sending c _ st eq_refl) as [s1 [A1 [B1 [C1 D1]]]]. set (st1 := fold_left do_step s1 st) in *.
    assert (G1 : Good nd progs st1) by (apply good_fold; exact G0).
    destruct (drain_nodes (map (fun e => owner (sk (e_s e))) (lin V st1)) st1) as [s2 [A2 [_ [C2 [D2 E2]]]]]. set (st2 := fold_left do_step s2 st1) in *.
    assert (G2 : Good nd progs st2) by (apply good_fold; exact G1).
    assert (Q2 : forall n, nq V st2 n = []).
    { intros n. destruct (in_dec N.eq_dec n (map (fun e => owner (sk (e_s e))) (lin V st1))) as [Hi|Hi]; [apply A2; exact Hi|].
      rewrite (C2 n Hi). destruct (nq V st1 n) as [|e t] eqn:En; [reflexivity|]. exfalso. apply Hi.
      destruct (jO _ (proj2 G1) n e ltac:(rewrite En; left; reflexivity)) as [Ho Hl]. apply in_map_iff. exists e. split; assumption. }
    assert (S2 : sending (conns V st2 c) = []) by (rewrite D2; exact C1).
    destruct (write_all nd progs c _ st2 G2 S2 Q2 eq_refl) as [s3 [[A3 [B3 [C3 D3]]] Q3]].
    exists (s1 ++ s2 ++ s3). rewrite !fold_left_app. fold st1 st2. cbn zeta in *. split; [|exact Q3].
    rewrite D2 in A3, B3, D3. unfold same_conn_but. split; [congruence|]. split; [congruence|]. split; [exact C3|]. rewrite D3, A1. reflexivity.
  Qed.

  (* ... and then the rest of the program, request by request *)
  Theorem reaches_quiescence nd progs c : forall k st, Good nd progs st -> length (todo (conns V st c)) = k ->
    exists sch, quiescent V (fold_left do_step sch st) c.
  Proof.
    induction k as [|k IH]; intros st G0 Hk.
    - destruct (answer_all_read nd progs c st G0) as [s1 [[A [B [C D]]] _]]. exists s1. cbn zeta in *. unfold quiescent.
      split; [rewrite B; destruct (todo (conns V st c)); [reflexivity | discriminate]|]. split; [exact C | rewrite D, A; reflexivity].
    - destruct (answer_all_read nd progs c st G0) as [s1 [[A [B [C D]]] _]]. set (st1 := fold_left do_step s1 st) in *. cbn zeta in *.
      assert (G1 : Good nd progs st1) by (apply good_fold; exact G0).
      assert (Hk1 : length (todo (conns V st1 c)) = S k) by (rewrite B; exact Hk).
      destruct (todo (conns V st1 c)) as [|r t] eqn:Et; [discriminate|].
      assert (Hkt : length t = k) by (cbn [length] in Hk1; lia).
      set (st2 := do_step st1 (SRead c)).
      assert (T2 : todo (conns V st2 c) = t).
      { unfold st2. cbn [Cluster.do_step]. rewrite C, Et. cbn [conns]. rewrite fsame. reflexivity. }
      assert (G2 : Good nd progs st2) by (apply (good_fold nd progs [SRead c]); exact G1).
      destruct (IH st2 G2 ltac:(rewrite T2; exact Hkt)) as [s3 Q].
      exists (s1 ++ SRead c :: s3). rewrite fold_left_app. fold st1. cbn [fold_left]. fold st2. exact Q.
  Qed.

  (* from ANY reachable state there is a continuation after which the connection has received every reply *)
  Corollary always_can_finish nd progs c sch0 : exists sch, quiescent V (run (init nd progs) (sch0 ++ sch)) c.
  Proof.
    pose proof (run_inv V sem owner asm nd progs sch0) as I. pose proof (run_inv2 nd progs sch0) as J.
    destruct (reaches_quiescence nd progs c _ (run (init nd progs) sch0) (conj I J) eq_refl) as [sch Q].
    exists sch. unfold Cluster.run in *. rewrite fold_left_app. exact Q.
  Qed.

  (* with one connection: every request of the program gets exactly the single server's reply *)
  Corollary every_request_answered nd progs c sch0 : (forall c', c' <> c -> progs c' = []) ->
    exists sch, out (conns V (run (init nd progs) (sch0 ++ sch)) c) = snd (ss_run V sem asm (abs_db V owner nd) (progs c)).
  Proof.
    intros Hp. destruct (always_can_finish nd progs c sch0) as [sch Q]. exists sch.
    apply single_connection_quiescent; assumption.
  Qed.
End L.
