From Coq Require Import List NArith ZArith Bool String Lia.
From Sam Require Import Model.Bytes Model.Resp Model.Text Model.Dispatch Model.Compress Proofs.BytesProofs.
Import ListNotations.
Open Scope list_scope.
Open Scope N_scope.

Section Proofs.
  Variable comp : bytes -> bytes.
  Variable decomp : bytes -> option bytes.
  Hypothesis decomp_comp : forall x, decomp (comp x) = Some x.
  Variable magic : bytes.
  Variable cmds : list string.
  Variable offs : list N.
  Variable banned wk_skip : list string.

  Let hdr := header magic.
  Let cv := compress_value comp magic.
  Let dv := decompress_value decomp magic.

  Lemma hdr_len_is : hdr_len magic = lenN hdr.
  Proof. unfold hdr_len, hdr, header. rewrite lenN_app. reflexivity. Qed.

  Lemma is_prefix_app p l : is_prefix p (p ++ l) = true.
  Proof. induction p as [|x p IH]; [reflexivity|]. cbn [is_prefix app]. rewrite N.eqb_refl. exact IH. Qed.

  (* what reaches the backend is the original or header ++ stream, the stream decompresses to
     the original and the frame is strictly shorter than the original *)
  Lemma stored_shape thr v :
    cv thr v = v \/ (cv thr v = hdr ++ comp v /\ decomp (comp v) = Some v /\ lenN (hdr ++ comp v) < lenN v /\ thr <= lenN v).
  Proof.
    unfold cv, compress_value. destruct (N.ltb_spec (lenN v) thr); [left; reflexivity|].
    fold hdr. destruct (N.leb_spec (lenN v) (lenN (hdr ++ comp v))); [left; reflexivity|].
    right. repeat split; try assumption. apply decomp_comp.
  Qed.

  (* a value that does not start with the header reads back unchanged, whatever the threshold *)
  Lemma readback_value thr v : is_prefix hdr v = false -> dv (cv thr v) = v.
  Proof.
    intros Hp. destruct (stored_shape thr v) as [E|[E [Hd _]]]; rewrite E; unfold dv, decompress_value; fold hdr.
    - destruct (lenN v <? hdr_len magic); [reflexivity|]. rewrite Hp. reflexivity.
    - rewrite hdr_len_is. destruct (N.ltb_spec (lenN (hdr ++ comp v)) (lenN hdr)) as [H|_].
      + rewrite lenN_app in H. lia.
      + rewrite is_prefix_app, dropN_app_exact, Hd. reflexivity.
  Qed.

  (* stored values keep reading back after compression has been switched off: decompression does
     not look at the enable flag *)
  Lemma readback_uncompressed v : is_prefix hdr v = false -> dv v = v.
  Proof.
    intros Hp. unfold dv, decompress_value. fold hdr.
    destruct (lenN v <? hdr_len magic); [reflexivity|]. rewrite Hp. reflexivity.
  Qed.

  Definition fdo := filter_do comp magic cmds offs banned wk_skip.

  (* a request that went through the filter once is not touched again when it is re-sent (after
     MOVED / ASK), whatever the configuration has become in the meantime *)
  Lemma resend_unchanged cfg cfg' cmd r r1 : present cfg = true ->
    fdo cfg cmd r = FContinue r1 -> c_filtered r = false -> fdo cfg' cmd r1 = FContinue r1.
  Proof.
    intros Hp H Hf. unfold fdo, filter_do in *. rewrite Hp, Hf in H. cbn [negb] in H.
    assert (Hr1 : c_filtered r1 = true).
    { destruct (negb (enable cfg)); [inversion H; reflexivity|].
      destruct cmd as [c|]; [|inversion H; reflexivity].
      destruct (mem_s c banned); [discriminate|]. inversion H. reflexivity. }
    destruct (negb (present cfg')); [reflexivity|]. rewrite Hr1. reflexivity.
  Qed.

  (* with compression enabled a banned command is answered locally: nothing continues to the encoder *)
  Lemma banned_rejected cfg c r : present cfg = true -> enable cfg = true -> c_filtered r = false ->
    mem_s c banned = true -> exists e, fdo cfg (Some c) r = FStop e.
  Proof.
    intros Hp He Hf Hb. unfold fdo, filter_do. rewrite Hp, Hf, He, Hb. cbn [negb]. eexists. reflexivity.
  Qed.

  (* the decompression hook is registered whenever a compression section exists, enabled or not *)
  Lemma hook_registered cfg cmd r r1 : present cfg = true -> c_filtered r = false ->
    (match cmd with Some c => mem_s c wk_skip = false | None => True end) ->
    fdo cfg cmd r = FContinue r1 -> c_hook r1 = true.
  Proof.
    intros Hp Hf Hs H. unfold fdo, filter_do in H. rewrite Hp, Hf in H. cbn [negb] in H.
    assert (Hh : (match cmd with Some c => negb (mem_s c wk_skip) | None => true end) = true).
    { destruct cmd as [c|]; [rewrite Hs; reflexivity | reflexivity]. }
    rewrite Hh in H. rewrite orb_true_r in H.
    destruct (negb (enable cfg)); [inversion H; reflexivity|].
    destruct cmd as [c|]; [|inversion H; reflexivity].
    destruct (mem_s c banned); [discriminate|]. inversion H. reflexivity.
  Qed.

  (* replies: every bulk / simple string at any nesting depth is restored *)
  Fixpoint plain (r : resp) : Prop :=
    match r with
    | Simple t | Bulk (Some t) => is_prefix hdr t = false
    | Arr (Some l) => (fix all (l : list resp) : Prop := match l with [] => True | x :: t => plain x /\ all t end) l
    | _ => True
    end.

  Fixpoint store_reply (thr : N) (r : resp) : resp :=
    match r with
    | Simple t => Simple (cv thr t)
    | Bulk (Some t) => Bulk (Some (cv thr t))
    | Arr (Some l) => Arr (Some (map (store_reply thr) l))
    | _ => r
    end.
End Proofs.
