(* Inline commands, concatenations of messages, and the combination with chunk independence *)
From Coq Require Import List NArith ZArith Bool Lia.
From Sam Require Import Model.Bytes Model.Resp Model.Reader Model.Codec
  Proofs.BytesProofs Proofs.IntProofs Proofs.CodecProofs Proofs.ReaderProofs Proofs.ChunkProofs.
Import ListNotations.
Open Scope N_scope.

(* ---------- inline commands ---------- *)

Fixpoint join_sp (ws : list bytes) : bytes :=
  match ws with
  | [] => []
  | [w] => w
  | w :: t => w ++ SP :: join_sp t
  end.

Definition word_ok (w : bytes) : Prop := w <> [] /\ ~ In SP w /\ ~ In LF w.

Lemma split_words_word w : ~ In SP w -> forall rest cur,
  split_words (w ++ rest) cur = split_words rest (rev w ++ cur).
Proof.
  induction w as [|x w IH]; intros Hn rest cur; [reflexivity|].
  cbn [app split_words]. destruct (N.eqb_spec x SP) as [E|E]; [exfalso; apply Hn; left; exact E|].
  rewrite IH by (intros H; apply Hn; right; exact H).
  cbn [rev]. rewrite <- app_assoc. reflexivity.
Qed.

Lemma split_words_join ws : Forall word_ok ws -> split_words (join_sp ws) [] = ws.
Proof.
  induction 1 as [|w ws [Hne [Hsp _]] Hws IH]; [reflexivity|].
  destruct ws as [|w2 ws].
  - cbn [join_sp]. rewrite <- (app_nil_r w) at 1. rewrite split_words_word by exact Hsp.
    cbn [split_words]. rewrite app_nil_r. destruct (rev w) eqn:Er.
    + apply (f_equal (@rev N)) in Er. rewrite rev_involutive in Er. cbn in Er. contradiction.
    + rewrite <- Er, rev_involutive. reflexivity.
  - change (join_sp (w :: w2 :: ws)) with (w ++ SP :: join_sp (w2 :: ws)).
    rewrite split_words_word by exact Hsp. cbn [split_words]. rewrite N.eqb_refl, app_nil_r.
    destruct (rev w) eqn:Er.
    + apply (f_equal (@rev N)) in Er. rewrite rev_involutive in Er. cbn in Er. contradiction.
    + rewrite <- Er, rev_involutive, IH. reflexivity.
Qed.

Lemma join_no_lf ws : Forall word_ok ws -> ~ In LF (join_sp ws).
Proof.
  induction 1 as [|w ws [Hne [Hsp Hlf]] Hws IH]; [intros []|].
  destruct ws as [|w2 ws]; [exact Hlf|].
  change (join_sp (w :: w2 :: ws)) with (w ++ SP :: join_sp (w2 :: ws)).
  intros Hin. apply in_app_or in Hin. destruct Hin as [Hin|[Hin|Hin]]; [exact (Hlf Hin) | discriminate | exact (IH Hin)].
Qed.

Section Inline.
  Variable B : N.
  Variables max_array max_bulk : Z.
  Variable max_depth : N.
  Let O := flat_ops B.

  Theorem inline_decodes ws c w0 rest e fuel d :
    Forall word_ok ws -> join_sp ws = c :: w0 -> is_type_byte c = false -> (0 < fuel)%nat ->
    decode frd O max_array max_bulk max_depth fuel d (fs (join_sp ws ++ [CR; LF] ++ rest) e)
    = (Ok (Arr (Some (map (fun w => Bulk (Some w)) ws))), fs rest e).
  Proof.
    intros Hws Hj Hc Hf. destruct fuel as [|f]; [lia|].
    cbn [decode].
    assert (Hp : o_peek O (fs (join_sp ws ++ [CR; LF] ++ rest) e) = (Ok c, fs (join_sp ws ++ [CR; LF] ++ rest) e))
      by (rewrite Hj; reflexivity).
    rewrite Hp, Hc. unfold decode_inline.
    rewrite (decode_text_ok B) by (apply join_no_lf; exact Hws).
    rewrite split_words_join by exact Hws.
    destruct ws as [|w ws]; [discriminate|]. reflexivity.
  Qed.
End Inline.

(* ---------- concatenations of messages ---------- *)

Lemma encode_nonempty T v : (1 <= length (encode T v))%nat.
Proof. destruct v as [t|t|z|[t|]|[l|]]; cbn [encode length]; lia. Qed.

Lemma depth_lt_len T v : (depth v < length (encode T v))%nat.
Proof.
  induction v as [t|t|z|o| |l IHl] using resp_ind2; try (pose proof (encode_nonempty T (Arr None)); cbn [depth]; cbn [encode length]; lia).
  - destruct o; cbn [depth encode length]; lia.
  - rewrite depth_arr, encode_arr. cbn [length]. rewrite app_length.
    assert (H : (depth_list l <= length (encode_list T l))%nat).
    { induction IHl as [|x l Hx _ IH]; cbn [depth_list encode_list]; [lia|]. rewrite app_length. lia. }
    unfold enc_int_line. rewrite app_length. cbn [length]. lia.
Qed.

Section Concat.
  Variable B : N.
  Hypothesis HB : 22 <= B.
  Variable max_array max_bulk : Z.
  Variable max_depth : N.
  Variable mn mx : Z.
  Hypothesis Hmm : (mn <= mx)%Z.
  Hypothesis Hbulk0 : (0 <= max_bulk)%Z.
  Hypothesis Hbulk1 : (max_bulk <= int64_max)%Z.
  Hypothesis Harr0 : (0 <= max_array)%Z.
  Hypothesis Harr1 : (max_array <= int64_max)%Z.
  Let T := mk_itoa_tab mn mx.
  Let O := flat_ops B.

  Lemma decode_all_concat vs : wf_list max_array max_bulk vs ->
    forall msgs dfuel e, (length vs < msgs)%nat -> (depth_list vs < dfuel)%nat -> N.of_nat (depth_list vs) <= max_depth ->
    exists f', decode_all frd O max_array max_bulk max_depth msgs dfuel (fs (encode_list T vs) e) = (vs, e, f').
  Proof.
    induction vs as [|v vs IH]; intros Hwf msgs dfuel e Hm Hd Hdm.
    - destruct msgs as [|m]; [cbn in Hm; lia|]. destruct dfuel as [|d]; [lia|].
      cbn [decode_all decode encode_list]. eexists. reflexivity.
    - destruct msgs as [|m]; [lia|]. cbn [wf_list depth_list length] in *. destruct Hwf as [Hv Hvs].
      cbn [decode_all encode_list]. unfold T, O in *.
      rewrite (roundtrip B HB max_array max_bulk max_depth mn mx Hmm Hbulk0 Hbulk1 Harr0 Harr1 v Hv dfuel 0 (encode_list (mk_itoa_tab mn mx) vs) e) by lia.
      destruct (IH Hvs m dfuel e ltac:(lia) ltac:(lia) ltac:(lia)) as [f' Hf]. rewrite Hf.
      eexists. reflexivity.
  Qed.

  Lemma len_encode_list vs : (length vs <= length (encode_list T vs))%nat /\ (depth_list vs <= length (encode_list T vs))%nat.
  Proof.
    induction vs as [|v vs [IH1 IH2]]; cbn [length depth_list encode_list]; [lia|].
    rewrite app_length. pose proof (encode_nonempty T v). pose proof (depth_lt_len T v). lia.
  Qed.

  Theorem concat_any_chunking vs szs : wf_list max_array max_bulk vs -> N.of_nat (depth_list vs) <= max_depth ->
    decode_all_chunked max_array max_bulk max_depth B szs EOF (encode_list T vs) = (vs, EOF).
  Proof.
    intros Hwf Hdm. rewrite chunking_independent by lia. unfold decode_all_flat.
    destruct (len_encode_list vs) as [L1 L2].
    destruct (decode_all_concat vs Hwf (S (N.to_nat (lenN (encode_list T vs)))) (depth_fuel max_depth) EOF) as [f' Hf].
    - rewrite lenN_length. lia.
    - unfold depth_fuel. lia.
    - exact Hdm.
    - unfold fs, O in Hf. rewrite Hf. reflexivity.
  Qed.
End Concat.
