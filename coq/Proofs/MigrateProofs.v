(* Proofs about Model/Migrate.v: migration steps keep the data a single server would hold; a request's redirect
   chain ends within three hops, executes exactly once on a node that is authoritative for the key, and gives the
   single server's reply - for every (stale) first node and every migration activity between the hops that does not
   start a new migration of the request's own slot. *)
From Coq Require Import List NArith Bool Arith Lia.
From Sam Require Import Model.Bytes Model.Resp Model.Cluster Model.Migrate Proofs.ClusterProofs.
Import ListNotations.
Open Scope nat_scope.

Section P.
  Variable V : Type.
  Variable sem : list resp -> option V -> option V * resp.
  Variable slot : bytes -> N.

  Notation cstate := (cstate V).
  Notation do_mstep := (do_mstep V slot).
  Notation do_msteps := (do_msteps V slot).
  Notation abs := (abs V slot).
  Notation node_decide := (node_decide V slot).
  Notation exec_at := (exec_at V sem).
  Notation chain := (chain V sem slot).
  Notation exec_sub := (exec_sub V sem).

  Record MInv (cs : cstate) : Prop := {
    m1 : forall n k v, ndb V cs n k = Some v -> n = own V cs (slot k) \/ mig V cs (slot k) = Some n;
    m2 : forall sl t, mig V cs sl = Some t -> t <> own V cs sl;
    m3 : forall k t v, mig V cs (slot k) = Some t -> ndb V cs (own V cs (slot k)) k = Some v -> ndb V cs t k = None }.

  Lemma updV_same (d : db V) k v : upd V d k v k = v.
  Proof. apply upd_same. Qed.
  Lemma updV_other (d : db V) k v x : x <> k -> upd V d k v x = d x.
  Proof. apply upd_other. Qed.

  Ltac neq_dec a b := destruct (N.eqb_spec a b).

  (* ---------- one migration step ---------- *)
  Lemma mstep_ok cs m : MInv cs -> MInv (do_mstep cs m) /\ forall k, abs (do_mstep cs m) k = abs cs k.
  Proof.
    intros I. destruct m as [sl t|k0|sl]; cbn [Migrate.do_mstep].
    - (* begin *)
      destruct (mig V cs sl) eqn:Em; [split; [exact I | reflexivity]|].
      neq_dec t (own V cs sl); [split; [exact I | reflexivity]|].
      split.
      + constructor; cbn [ndb own mig].
        * intros n0 k v Hv. destruct (m1 _ I n0 k v Hv) as [H|H]; [left; exact H|].
          right. neq_dec (slot k) sl; [congruence | exact H].
        * intros sl0 t0 H. neq_dec sl0 sl; [inversion H; subst; assumption | exact (m2 _ I _ _ H)].
        * intros k t0 v H Hv. neq_dec (slot k) sl; [|exact (m3 _ I k t0 v H Hv)].
          inversion H; subst t0. destruct (ndb V cs t k) eqn:Et; [|reflexivity].
          destruct (m1 _ I t k v0 Et) as [H1|H1]; [congruence | congruence].
      + intros k. unfold Migrate.abs. cbn [ndb own mig]. neq_dec (slot k) sl; [|reflexivity].
        rewrite e, Em. destruct (ndb V cs (own V cs sl) k) eqn:Eo; [reflexivity|].
        destruct (ndb V cs t k) eqn:Et; [|reflexivity].
        destruct (m1 _ I t k v Et) as [H1|H1]; congruence.
    - (* move one key *)
      destruct (mig V cs (slot k0)) as [t|] eqn:Em; [|split; [exact I | reflexivity]].
      destruct (ndb V cs (own V cs (slot k0)) k0) as [v0|] eqn:Ev; [|split; [exact I | reflexivity]].
      pose proof (m2 _ I _ _ Em) as Hne. pose proof (m3 _ I k0 t v0 Em Ev) as Ht.
      assert (Hnd : forall n k, (if (n =? t)%N then upd V (ndb V cs t) k0 (Some v0)
                                 else if (n =? own V cs (slot k0))%N then upd V (ndb V cs (own V cs (slot k0))) k0 None else ndb V cs n) k =
                                if list_eq_dec N.eq_dec k k0 then (if (n =? t)%N then Some v0 else if (n =? own V cs (slot k0))%N then None else ndb V cs n k)
                                else ndb V cs n k).
      { intros n k. destruct (list_eq_dec N.eq_dec k k0) as [->|Hk].
        - neq_dec n t; [apply updV_same|]. neq_dec n (own V cs (slot k0)); [apply updV_same | reflexivity].
        - neq_dec n t; [subst; apply updV_other; exact Hk|]. neq_dec n (own V cs (slot k0)); [subst; apply updV_other; exact Hk | reflexivity]. }
      split.
      + constructor; cbn [ndb own mig].
        * intros n k v. rewrite Hnd. destruct (list_eq_dec N.eq_dec k k0) as [->|Hk]; [|apply (m1 _ I)].
          neq_dec n t; [intros _; right; subst; exact Em|]. neq_dec n (own V cs (slot k0)); [discriminate | apply (m1 _ I)].
        * exact (m2 _ I).
        * intros k t0 v H. rewrite !Hnd. destruct (list_eq_dec N.eq_dec k k0) as [->|Hk]; [|apply (m3 _ I); exact H].
          rewrite N.eqb_refl. neq_dec (own V cs (slot k0)) t; [congruence | discriminate].
      + intros k. unfold Migrate.abs. cbn [ndb own mig].
        destruct (list_eq_dec N.eq_dec k k0) as [->|Hk].
        * rewrite Em, Ev, !Hnd. destruct (list_eq_dec N.eq_dec k0 k0) as [_|]; [|contradiction].
          rewrite !N.eqb_refl. neq_dec (own V cs (slot k0)) t; [congruence | reflexivity].
        * destruct (mig V cs (slot k)) as [t1|]; rewrite !Hnd; destruct (list_eq_dec N.eq_dec k k0); try contradiction; reflexivity.
    - (* finish *)
      destruct (mig V cs sl) as [t|] eqn:Em; [|split; [exact I | reflexivity]].
      pose proof (m2 _ I _ _ Em) as Hne.
      split.
      + constructor; cbn [ndb own mig].
        * intros n k v. destruct (N.eqb_spec (slot k) sl) as [Es|Es].
          -- destruct (N.eqb_spec n t) as [En|En]; [intros _; left; exact En|].
             destruct (N.eqb_spec n (own V cs sl)) as [Eo|Eo]; [discriminate|]. intros Hv.
             destruct (m1 _ I n k v Hv) as [H|H]; congruence.
          -- intros Hv. exact (m1 _ I n k v Hv).
        * intros sl0 t0 H. destruct (N.eqb_spec sl0 sl) as [Es|Es]; [discriminate | exact (m2 _ I _ _ H)].
        * intros k t0 v H. destruct (N.eqb_spec (slot k) sl) as [Es|Es]; [discriminate|]. apply (m3 _ I). exact H.
      + intros k. unfold Migrate.abs. cbn [ndb own mig]. destruct (N.eqb_spec (slot k) sl) as [Es|Es]; [|reflexivity].
        rewrite !N.eqb_refl. rewrite Es, Em. reflexivity.
  Qed.

  Lemma msteps_ok l : forall cs, MInv cs -> MInv (do_msteps cs l) /\ forall k, abs (do_msteps cs l) k = abs cs k.
  Proof.
    induction l as [|m t IH]; intros cs I; cbn [Migrate.do_msteps fold_left]; [split; [exact I | reflexivity]|].
    destruct (mstep_ok cs m I) as [I1 A1]. destruct (IH _ I1) as [I2 A2]. split; [exact I2|].
    intros k. unfold Migrate.do_msteps in A2. rewrite A2. apply A1.
  Qed.

  (* ---------- what migration activity can do to one slot when no new migration of that slot starts ---------- *)
  Definition quiet1 (sl : N) (m : mstep) : bool := match m with MBegin s _ => negb (s =? sl)%N | _ => true end.
  Definition quiet (sl : N) (l : list mstep) : bool := forallb (quiet1 sl) l.

  Definition same_phase (cs cs' : cstate) (sl : N) : Prop :=
    own V cs' sl = own V cs sl /\ mig V cs' sl = mig V cs sl /\
    forall k, slot k = sl -> ndb V cs (own V cs sl) k = None -> ndb V cs' (own V cs sl) k = None.
  Definition finished (cs cs' : cstate) (sl : N) : Prop :=
    exists t, mig V cs sl = Some t /\ own V cs' sl = t /\ mig V cs' sl = None.

  Lemma step_slot cs m sl : MInv cs -> quiet1 sl m = true -> same_phase cs (do_mstep cs m) sl \/ finished cs (do_mstep cs m) sl.
  Proof.
    intros I Q. destruct m as [s t|k0|s]; cbn [Migrate.do_mstep quiet1] in *.
    - left. apply negb_true_iff in Q. destruct (mig V cs s); [repeat split; auto|].
      destruct (t =? own V cs s)%N; [repeat split; auto|]. unfold same_phase. cbn [ndb own mig].
      rewrite N.eqb_sym, Q. repeat split; auto.
    - left. destruct (mig V cs (slot k0)) as [t0|] eqn:Em; [|repeat split; auto].
      destruct (ndb V cs (own V cs (slot k0)) k0) as [v0|] eqn:Ev; [|repeat split; auto].
      unfold same_phase. cbn [ndb own mig]. split; [reflexivity|]. split; [reflexivity|]. intros k Hk Hn.
      pose proof (m2 _ I _ _ Em) as Hne.
      destruct (N.eqb_spec (own V cs sl) t0) as [E1|E1].
      + (* the owner of sl is the target of k0's slot: only k0 changes there, and k0 is not in sl's owner... *)
        destruct (list_eq_dec N.eq_dec k k0) as [->|Hkk]; [congruence|]. rewrite upd_other by exact Hkk. rewrite <- E1. exact Hn.
      + destruct (N.eqb_spec (own V cs sl) (own V cs (slot k0))) as [E2|E2]; [|exact Hn].
        destruct (list_eq_dec N.eq_dec k k0) as [->|Hkk]; [apply upd_same|]. rewrite upd_other by exact Hkk. rewrite <- E2. exact Hn.
    - destruct (mig V cs s) as [t|] eqn:Em; [|left; repeat split; auto].
      destruct (N.eqb_spec sl s) as [->|Hs].
      + right. exists t. cbn [own mig]. rewrite N.eqb_refl. auto.
      + left. unfold same_phase. cbn [ndb own mig]. destruct (N.eqb_spec sl s); [contradiction|].
        split; [reflexivity|]. split; [reflexivity|]. intros k Hk Hn. destruct (N.eqb_spec (slot k) s); [congruence | exact Hn].
  Qed.

  Lemma env_slot l : forall cs sl, MInv cs -> quiet sl l = true -> same_phase cs (do_msteps cs l) sl \/ finished cs (do_msteps cs l) sl.
  Proof.
    induction l as [|m t IH]; intros cs sl I Q; cbn [Migrate.do_msteps fold_left]; [left; repeat split; auto|].
    cbn [quiet forallb] in Q. apply andb_true_iff in Q. destruct Q as [Q1 Q2].
    destruct (mstep_ok cs m I) as [I1 _]. specialize (IH (do_mstep cs m) sl I1 Q2). fold (do_msteps (do_mstep cs m) t).
    destruct (step_slot cs m sl I Q1) as [[S1 [S2 S3]]|[t0 [F1 [F2 F3]]]].
    - destruct IH as [[T1 [T2 T3]]|[t1 [G1 [G2 G3]]]].
      + left. split; [congruence|]. split; [congruence|]. intros k Hk Hn. rewrite <- S1. apply T3; [exact Hk|]. rewrite S1. apply S3; assumption.
      + right. exists t1. split; [congruence|]. auto.
    - destruct IH as [[T1 [T2 T3]]|[t1 [G1 [G2 G3]]]].
      + right. exists t0. split; [exact F1|]. split; congruence.
      + congruence.
  Qed.

  (* ---------- executing on a node that is authoritative for the key ---------- *)
  Definition Auth (cs : cstate) (n : N) (k : bytes) : Prop :=
    (own V cs (slot k) = n /\ (mig V cs (slot k) = None \/ ndb V cs n k <> None)) \/
    (mig V cs (slot k) = Some n /\ ndb V cs (own V cs (slot k)) k = None).

  Lemma auth_value cs n k : MInv cs -> Auth cs n k -> ndb V cs n k = abs cs k.
  Proof.
    intros I [[A1 A2]|[A1 A2]]; unfold Migrate.abs.
    - rewrite A1. destruct (mig V cs (slot k)) as [t|]; [|reflexivity]. destruct A2 as [|A2]; [discriminate|].
      destruct (ndb V cs n k); [reflexivity | contradiction].
    - rewrite A1, A2. reflexivity.
  Qed.

  Lemma exec_auth cs n s : MInv cs -> Auth cs n (sk s) ->
    MInv (fst (exec_at cs n s)) /\ snd (exec_at cs n s) = snd (exec_sub (abs cs) s) /\
    forall x, abs (fst (exec_at cs n s)) x = fst (exec_sub (abs cs) s) x.
  Proof.
    intros I A. pose proof (auth_value cs n (sk s) I A) as Hv.
    destruct (exec_sub_local V sem (ndb V cs n) (abs cs) s Hv) as [L1 [L2 L3]].
    destruct (exec_sub_local V sem (abs cs) (abs cs) s eq_refl) as [_ [_ M3]].
    unfold Migrate.exec_at. destruct (exec_sub (ndb V cs n) s) as [d r] eqn:Ed. cbn [fst snd] in *.
    assert (Hd : forall n0 x, (if (n0 =? n)%N then d else ndb V cs n0) x = if (n0 =? n)%N then (if list_eq_dec N.eq_dec x (sk s) then d (sk s) else ndb V cs n x) else ndb V cs n0 x).
    { intros n0 x. destruct (n0 =? n)%N; [|reflexivity]. destruct (list_eq_dec N.eq_dec x (sk s)) as [->|Hx]; [reflexivity | apply L3; exact Hx]. }
    split; [|split; [exact L1|]].
    - constructor; cbn [ndb own mig].
      + intros n0 x v. rewrite Hd. destruct (N.eqb_spec n0 n) as [->|Hn]; [|apply (m1 _ I)].
        destruct (list_eq_dec N.eq_dec x (sk s)) as [->|Hx]; [|apply (m1 _ I)].
        intros _. destruct A as [[A1 _]|[A1 _]]; [left; symmetry; exact A1 | right; exact A1].
      + exact (m2 _ I).
      + intros x t v Hm. rewrite !Hd. pose proof (m2 _ I _ _ Hm) as Hne.
        destruct (list_eq_dec N.eq_dec x (sk s)) as [->|Hx].
        * destruct A as [[A1 A2]|[A1 A2]].
          -- rewrite A1, N.eqb_refl. destruct (N.eqb_spec t n) as [->|Htn]; [congruence|]. intros _.
             destruct A2 as [A2|A2]; [congruence|]. destruct (ndb V cs n (sk s)) as [v0|] eqn:E0; [|contradiction].
             apply (m3 _ I (sk s) t v0 Hm). rewrite A1. exact E0.
          -- assert (t = n) by congruence. subst t. destruct (N.eqb_spec (own V cs (slot (sk s))) n) as [E|E]; [congruence|].
             rewrite A2. discriminate.
        * destruct (N.eqb_spec (own V cs (slot x)) n) as [E1|E1]; destruct (N.eqb_spec t n) as [E3|E3].
          -- congruence.
          -- intros Hs. apply (m3 _ I x t v Hm). rewrite E1. exact Hs.
          -- intros Hs. rewrite <- E3. apply (m3 _ I x t v Hm Hs).
          -- apply (m3 _ I). exact Hm.
    - intros x. unfold Migrate.abs at 1. cbn [ndb own mig].
      destruct (list_eq_dec N.eq_dec x (sk s)) as [->|Hx].
      + rewrite <- L2. destruct A as [[A1 A2]|[A1 A2]].
        * rewrite A1. rewrite !Hd, N.eqb_refl. destruct (list_eq_dec N.eq_dec (sk s) (sk s)) as [_|]; [|contradiction].
          destruct (mig V cs (slot (sk s))) as [t|] eqn:Em; [|reflexivity].
          destruct (d (sk s)) eqn:Edk; [reflexivity|]. rewrite Hd. pose proof (m2 _ I _ _ Em) as Hne.
          destruct (N.eqb_spec t n) as [->|Htn]; [congruence|].
          destruct A2 as [A2|A2]; [discriminate|]. destruct (ndb V cs n (sk s)) as [v0|] eqn:E0; [|contradiction].
          apply (m3 _ I (sk s) t v0 Em). rewrite A1. exact E0.
        * rewrite A1. rewrite !Hd. pose proof (m2 _ I _ _ A1) as Hne.
          destruct (N.eqb_spec (own V cs (slot (sk s))) n) as [E|E]; [congruence|]. rewrite A2, N.eqb_refl.
          destruct (list_eq_dec N.eq_dec (sk s) (sk s)) as [_|]; [reflexivity | contradiction].
      + rewrite (M3 x Hx). unfold Migrate.abs.
        assert (Hsame : forall m, (if (m =? n)%N then (if list_eq_dec N.eq_dec x (sk s) then d (sk s) else ndb V cs n x) else ndb V cs m x) = ndb V cs m x).
        { intros m. destruct (list_eq_dec N.eq_dec x (sk s)); [contradiction|]. destruct (N.eqb_spec m n) as [->|]; reflexivity. }
        destruct (mig V cs (slot x)) as [t|]; rewrite !Hd, !Hsame; reflexivity.
  Qed.

  (* ---------- the redirect chain of one request ---------- *)
  Definition rank (cs : cstate) (n : N) (asking : bool) (k : bytes) : nat :=
    if asking then 0
    else if (own V cs (slot k) =? n)%N then (match mig V cs (slot k) with None => 0 | Some _ => 1 end)
    else (match mig V cs (slot k) with None => 1 | Some _ => 2 end).

  Definition AskPre (cs : cstate) (n : N) (k : bytes) : Prop :=
    mig V cs (slot k) = Some n /\ ndb V cs (own V cs (slot k)) k = None.

  Lemma exec_sub_ext (d d' : db V) s : (forall x, d x = d' x) ->
    snd (exec_sub d s) = snd (exec_sub d' s) /\ forall x, fst (exec_sub d s) x = fst (exec_sub d' s) x.
  Proof.
    intros H. destruct (exec_sub_local V sem d d' s (H _)) as [L1 [L2 L3]].
    destruct (exec_sub_local V sem d' d' s eq_refl) as [_ [_ M3]]. split; [exact L1|].
    intros x. destruct (list_eq_dec N.eq_dec x (sk s)) as [->|Hx]; [exact L2|]. rewrite L3, M3 by exact Hx. apply H.
  Qed.

  Lemma decide_exec_auth cs n asking k : node_decide cs n asking k = NExec ->
    (asking = true -> own V cs (slot k) <> n -> ndb V cs (own V cs (slot k)) k = None) -> Auth cs n k.
  Proof.
    unfold Migrate.node_decide. intros H Hs. destruct (N.eqb_spec (own V cs (slot k)) n) as [E|E].
    - left. split; [exact E|]. destruct (mig V cs (slot k)) as [t|]; [|left; reflexivity].
      right. destruct (ndb V cs n k); [discriminate | discriminate].
    - destruct (asking && oeqb (mig V cs (slot k)) n) eqn:Ea; [|discriminate].
      apply andb_true_iff in Ea. destruct Ea as [Ea1 Ea2]. right. unfold oeqb in Ea2.
      destruct (mig V cs (slot k)) as [t|]; [|discriminate]. apply N.eqb_eq in Ea2. subst t. split; [reflexivity|].
      apply Hs; assumption.
  Qed.

  Theorem chain_ok fuel : forall cs n asking s envs hops,
    MInv cs -> Forall (fun l => quiet (slot (sk s)) l = true) envs ->
    (asking = true -> AskPre cs n (sk s)) -> rank cs n asking (sk s) < fuel ->
    exists cs' r nd h, chain fuel cs n asking s envs hops = CDone V cs' r nd h /\ MInv cs' /\
      r = snd (exec_sub (abs cs) s) /\ (forall x, abs cs' x = fst (exec_sub (abs cs) s) x) /\
      h <= hops + rank cs n asking (sk s) + 1.
  Proof.
    induction fuel as [|f IH]; intros cs n asking s envs hops I Q Hask Hr; [lia|].
    cbn [Migrate.chain]. set (k := sk s) in *. set (sl := slot k) in *.
    assert (Q0 : quiet sl (hd [] envs) = true) by (destruct envs; [reflexivity | inversion Q; assumption]).
    assert (Q1 : Forall (fun l => quiet sl l = true) (tl envs)) by (destruct envs; [constructor | inversion Q; assumption]).
    destruct (msteps_ok (hd [] envs) cs I) as [I1 A1]. set (cs1 := do_msteps cs (hd [] envs)) in *.
    destruct (exec_sub_ext (abs cs1) (abs cs) s A1) as [X1 X2].
    pose proof (env_slot (hd [] envs) cs sl I Q0) as Ph. fold cs1 in Ph.
    destruct (node_decide cs1 n asking k) as [|t|o] eqn:Ed.
    - (* the node executes *)
      assert (A : Auth cs1 n k).
      { apply (decide_exec_auth cs1 n asking k Ed). intros Ha Hn. destruct (Hask Ha) as [P1 P2]. fold k sl in P1, P2.
        destruct Ph as [[S1 [S2 S3]]|[t0 [F1 [F2 F3]]]].
        - fold sl. rewrite S1. apply S3; [reflexivity | exact P2].
        - fold sl in Hn. congruence. }
      destruct (exec_auth cs1 n s I1 A) as [I2 [R1 R2]]. destruct (exec_at cs1 n s) as [cs2 r]. cbn [fst snd] in *.
      exists cs2, r, n, (S hops). split; [reflexivity|]. split; [exact I2|]. split; [congruence|].
      split; [intros x; rewrite R2; apply X2 | lia].
    - (* ASK t *)
      assert (Hd : own V cs1 sl = n /\ mig V cs1 sl = Some t /\ ndb V cs1 n k = None).
      { unfold Migrate.node_decide in Ed. fold sl in Ed. destruct (N.eqb_spec (own V cs1 sl) n) as [E|E].
        - destruct (mig V cs1 sl) as [t'|]; [|discriminate]. destruct (ndb V cs1 n k); [discriminate|]. inversion Ed; subst. auto.
        - destruct (asking && oeqb (mig V cs1 sl) n); discriminate. }
      destruct Hd as [D1 [D2 D3]].
      assert (Hna : asking = false).
      { destruct asking; [|reflexivity]. exfalso. destruct (Hask eq_refl) as [P1 P2]. fold k sl in P1, P2.
        destruct Ph as [[S1 [S2 S3]]|[t0 [F1 [F2 F3]]]]; [|congruence].
        pose proof (m2 _ I _ _ P1). congruence. }
      subst asking.
      assert (Hrk : rank cs n false k = 1).
      { unfold rank. fold sl. destruct Ph as [[S1 [S2 S3]]|[t0 [F1 [F2 F3]]]]; [|congruence].
        rewrite <- S1, D1, N.eqb_refl. rewrite <- S2, D2. reflexivity. }
      destruct (IH cs1 t true s (tl envs) (S hops) I1 Q1) as [cs' [r [nd [h [C1 [C2 [C3 [C4 C5]]]]]]]].
      + intros _. split; fold k sl; [exact D2 | rewrite D1; exact D3].
      + unfold rank. lia.
      + exists cs', r, nd, h. split; [exact C1|]. split; [exact C2|]. split; [congruence|].
        split; [intros x; rewrite C4; apply X2|]. unfold rank in C5 at 1. fold k in Hrk. lia.
    - (* MOVED o *)
      assert (Hd : own V cs1 sl = o /\ o <> n /\ (asking && oeqb (mig V cs1 sl) n = false)).
      { unfold Migrate.node_decide in Ed. fold sl in Ed. destruct (N.eqb_spec (own V cs1 sl) n) as [E|E].
        - destruct (mig V cs1 sl); [destruct (ndb V cs1 n k)|]; discriminate.
        - destruct (asking && oeqb (mig V cs1 sl) n) eqn:Ea; [discriminate|]. inversion Ed; subst. auto. }
      destruct Hd as [D1 [D2 D3]].
      assert (Hna : asking = false).
      { destruct asking; [|reflexivity]. exfalso. destruct (Hask eq_refl) as [P1 P2]. fold k sl in P1, P2.
        destruct Ph as [[S1 [S2 S3]]|[t0 [F1 [F2 F3]]]].
        - rewrite S2, P1 in D3. cbn in D3. rewrite N.eqb_refl in D3. discriminate.
        - congruence. }
      subst asking.
      assert (Hrk : rank cs1 o false k + 1 <= rank cs n false k).
      { unfold rank. fold sl. rewrite D1, N.eqb_refl. destruct Ph as [[S1 [S2 S3]]|[t0 [F1 [F2 F3]]]].
        - rewrite S2. rewrite <- S1, D1. destruct (N.eqb_spec o n); [contradiction|]. destruct (mig V cs sl); lia.
        - rewrite F3, F1. destruct (own V cs sl =? n)%N; lia. }
      destruct (IH cs1 o false s (tl envs) (S hops) I1 Q1) as [cs' [r [nd [h [C1 [C2 [C3 [C4 C5]]]]]]]].
      + discriminate.
      + fold k. lia.
      + exists cs', r, nd, h. split; [exact C1|]. split; [exact C2|]. split; [congruence|].
        split; [intros x; rewrite C4; apply X2|]. fold k in C5. lia.
  Qed.

  (* what a client sees: with fuel 3 the chain always ends, whatever node the (stale) table names first *)
  Corollary request_ok cs n s envs : MInv cs -> Forall (fun l => quiet (slot (sk s)) l = true) envs ->
    exists cs' r nd h, chain 3 cs n false s envs 0 = CDone V cs' r nd h /\ MInv cs' /\
      r = snd (exec_sub (abs cs) s) /\ (forall x, abs cs' x = fst (exec_sub (abs cs) s) x) /\ h <= 3.
  Proof.
    intros I Q. assert (Hr : rank cs n false (sk s) < 3) by (unfold rank; destruct (_ =? _)%N; destruct (mig V cs _); lia).
    destruct (chain_ok 3 cs n false s envs 0 I Q ltac:(discriminate) Hr) as [cs' [r [nd [h [C1 [C2 [C3 [C4 C5]]]]]]]].
    exists cs', r, nd, h. split; [exact C1|]. split; [exact C2|]. split; [exact C3|]. split; [exact C4 | lia].
  Qed.

  (* ---------- a whole client program with migration going on ---------- *)
  Lemma ss_subs_ext l : forall (d d' : db V), (forall x, d x = d' x) ->
    snd (ss_subs V sem d l) = snd (ss_subs V sem d' l) /\ forall x, fst (ss_subs V sem d l) x = fst (ss_subs V sem d' l) x.
  Proof.
    induction l as [|s t IH]; intros d d' H; cbn [Cluster.ss_subs]; [split; [reflexivity | exact H]|].
    destruct (exec_sub_ext d d' s H) as [E1 E2].
    destruct (exec_sub d s) as [d1 r1]. destruct (exec_sub d' s) as [d1' r1']. cbn [fst snd] in *.
    destruct (IH d1 d1' E2) as [J1 J2]. destruct (ss_subs V sem d1 t) as [d2 r2]. destruct (ss_subs V sem d1' t) as [d2' r2'].
    cbn [fst snd] in *. split; [congruence | exact J2].
  Qed.

  Definition quiet_req (q : creq) : Prop := Forall (fun l => quiet (slot (sk (q_sub q))) l = true) (q_envs q).

  Theorem run_seq_ok l : forall cs, MInv cs -> Forall quiet_req l ->
    exists infos, snd (run_seq V sem slot 3 cs l) = map Some infos /\
      map (fun i => fst (fst i)) infos = snd (ss_subs V sem (abs cs) (map q_sub l)) /\
      Forall (fun i => snd i <= 3) infos /\
      MInv (fst (run_seq V sem slot 3 cs l)) /\
      forall x, abs (fst (run_seq V sem slot 3 cs l)) x = fst (ss_subs V sem (abs cs) (map q_sub l)) x.
  Proof.
    induction l as [|q t IH]; intros cs I Q; cbn [Migrate.run_seq map Cluster.ss_subs].
    - exists []. cbn. split; [reflexivity|]. split; [reflexivity|]. split; [constructor|]. split; [exact I | reflexivity].
    - inversion Q as [|? ? Q1 Q2]; subst.
      destruct (msteps_ok (q_pre q) cs I) as [I0 A0].
      destruct (request_ok (do_msteps cs (q_pre q)) (q_first q) (q_sub q) (q_envs q) I0 Q1) as [cs' [r [nd [h [C1 [C2 [C3 [C4 C5]]]]]]]].
      fold (do_msteps cs (q_pre q)). rewrite C1.
      destruct (exec_sub_ext (abs (do_msteps cs (q_pre q))) (abs cs) (q_sub q) A0) as [X1 X2].
      destruct (IH cs' C2 Q2) as [infos [H1 [H2 [H3 [H4 H5]]]]].
      destruct (run_seq V sem slot 3 cs' t) as [cs2 rs]. cbn [fst snd] in *.
      destruct (exec_sub (abs cs) (q_sub q)) as [d1 r1] eqn:E1. cbn [fst snd] in *.
      assert (Hext : forall x, abs cs' x = d1 x) by (intros x; rewrite C4; apply X2).
      destruct (ss_subs_ext (map q_sub t) (abs cs') d1 Hext) as [Y1 Y2].
      destruct (ss_subs V sem d1 (map q_sub t)) as [d2 r2]. cbn [fst snd] in *.
      exists ((r, nd, h) :: infos). cbn [map fst snd]. split; [rewrite H1; reflexivity|].
      split; [rewrite H2, Y1; congruence|]. split; [constructor; [exact C5 | exact H3]|]. split; [exact H4|].
      intros x. rewrite H5. apply Y2.
  Qed.
End P.
