(* The SCAN cursor functions translated from the Go source (Gen/Funcs.v) are the model's (Model/Dispatch.v). *)
From Coq Require Import List NArith Bool Arith Lia.
From Sam Require Import Gen.Tables Lib.GoLib Gen.Funcs Model.Bytes Model.Resp Model.Dispatch Proofs.GenFuncsProofs Proofs.ScanProofs.
Import ListNotations.
Open Scope N_scope.

(* ---------- the SCAN cursor ---------- *)
Theorem parseCursor_go_agrees c : parseCursor_go c = parse_cursor c.
Proof.
  unfold parseCursor_go, parse_cursor, wrap, two48. cbv zeta. f_equal.
  - rewrite N.shiftr_div_pow2. reflexivity.
  - change 281474976710655 with (N.ones 48). rewrite N.land_ones. reflexivity.
Qed.

Theorem genCursor_go_agrees idx ncur : idx < 2 ^ 64 -> genCursor_go idx ncur = gen_cursor idx ncur.
Proof.
  intros H. unfold genCursor_go, gen_cursor, two48, two64. rewrite (wrap_small 64 idx H). unfold wrap.
  rewrite N.shiftl_mul_pow2. reflexivity.
Qed.

Corollary cursor_go_roundtrip idx n : idx < 65536 -> n < two48 -> parseCursor_go (genCursor_go idx n) = (idx, n).
Proof.
  intros Hi Hn. rewrite genCursor_go_agrees by (eapply N.lt_trans; [exact Hi | reflexivity]).
  rewrite parseCursor_go_agrees. apply cursor_roundtrip; assumption.
Qed.

Corollary cursor_go_all c idx n : parseCursor_go c = parse_cursor c /\
  (idx < 2 ^ 64 -> genCursor_go idx n = gen_cursor idx n) /\
  (idx < 65536 -> n < two48 -> parseCursor_go (genCursor_go idx n) = (idx, n)).
Proof. split; [apply parseCursor_go_agrees|]. split; [apply genCursor_go_agrees | apply cursor_go_roundtrip]. Qed.
