(* Proofs about Model/Discovery.v *)
From Coq Require Import List NArith Bool Lia.
From Sam Require Import Model.Discovery.
Import ListNotations.
Open Scope N_scope.

Lemma smem_sadd x a s : smem x (sadd a s) = (x =? a) || smem x s.
Proof.
  unfold sadd. destruct (smem a s) eqn:E.
  - destruct (N.eqb_spec x a) as [->|]; [rewrite E; reflexivity | reflexivity].
  - unfold smem. rewrite existsb_app. cbn. rewrite orb_false_r, orb_comm. reflexivity.
Qed.
Lemma smem_sdel x a s : smem x (sdel a s) = negb (x =? a) && smem x s.
Proof.
  unfold sdel, smem. induction s as [|y t IH]; cbn [filter existsb]; [rewrite andb_false_r; reflexivity|].
  destruct (N.eqb_spec y a) as [->|Hy]; cbn [negb existsb].
  - rewrite IH. destruct (N.eqb_spec x a); cbn; [reflexivity | reflexivity].
  - rewrite IH. destruct (N.eqb_spec x y) as [->|]; cbn.
    + destruct (N.eqb_spec y a); [contradiction | reflexivity].
    + reflexivity.
Qed.

Definition is_sub (c : change) : bool := match c with CSub _ => true | CUnsub _ => false end.
Definition step_change (sv : nset) (c : change) : nset := match c with CSub a => sadd a sv | CUnsub a => sdel a sv end.
Definition apply_changes (l : list change) (sv : nset) : nset := fold_left step_change l sv.

Fixpoint lastc (x : N) (l : list change) : option bool :=
  match l with
  | [] => None
  | c :: t => match lastc x t with Some b => Some b | None => if cname c =? x then Some (is_sub c) else None end
  end.

Lemma smem_step x sv c : smem x (step_change sv c) = if cname c =? x then is_sub c else smem x sv.
Proof.
  destruct c as [a|a]; cbn [step_change cname is_sub].
  - rewrite smem_sadd, (N.eqb_sym x a). destruct (a =? x); reflexivity.
  - rewrite smem_sdel, (N.eqb_sym x a). destruct (a =? x); reflexivity.
Qed.

Lemma smem_apply x l : forall sv, smem x (apply_changes l sv) = match lastc x l with Some b => b | None => smem x sv end.
Proof.
  induction l as [|c t IH]; intros sv; cbn [apply_changes fold_left lastc]; [reflexivity|].
  fold (apply_changes t (step_change sv c)). rewrite IH. destruct (lastc x t); [reflexivity|]. rewrite smem_step. destruct (cname c =? x); reflexivity.
Qed.

Lemma later_has_lastc a t : later_has a t = match lastc a t with Some _ => true | None => false end.
Proof.
  unfold later_has. induction t as [|c t IH]; cbn [existsb lastc]; [reflexivity|]. rewrite IH.
  destruct (lastc a t); [apply orb_true_r|]. rewrite orb_false_r. destruct (cname c =? a); reflexivity.
Qed.

Lemma coalesce_spec x l :
  existsb (N.eqb x) (fst (coalesce l)) = (match lastc x l with Some true => true | _ => false end) /\
  existsb (N.eqb x) (snd (coalesce l)) = (match lastc x l with Some false => true | _ => false end).
Proof.
  induction l as [|c t [IH1 IH2]]; cbn [coalesce lastc]; [split; reflexivity|].
  destruct (coalesce t) as [s u]. cbn [fst snd] in *. rewrite later_has_lastc.
  destruct (lastc (cname c) t) as [b0|] eqn:El.
  - cbn [fst snd]. destruct (lastc x t) as [b|] eqn:Ex; [split; assumption|].
    destruct (N.eqb_spec (cname c) x) as [E|E]; [rewrite E in El; congruence | split; assumption].
  - destruct c as [a|a]; cbn [cname is_sub fst snd existsb] in *.
    + rewrite IH1, IH2. destruct (lastc x t) as [[|]|] eqn:Ex; rewrite ?orb_true_r; try (split; reflexivity).
      * destruct (N.eqb_spec x a) as [->|]; [congruence | split; reflexivity].
      * rewrite orb_false_r, (N.eqb_sym x a). destruct (a =? x); split; reflexivity.
    + rewrite IH1, IH2. destruct (lastc x t) as [[|]|] eqn:Ex; rewrite ?orb_true_r; try (split; reflexivity).
      * destruct (N.eqb_spec x a) as [->|]; [congruence | split; reflexivity].
      * rewrite orb_false_r, (N.eqb_sym x a). destruct (a =? x); split; reflexivity.
Qed.

Lemma smem_fold_sadd x subs : forall sv, smem x (fold_left (fun acc a => sadd a acc) subs sv) = existsb (N.eqb x) subs || smem x sv.
Proof.
  induction subs as [|a t IH]; intros sv; cbn [fold_left existsb]; [reflexivity|]. rewrite IH, smem_sadd.
  destruct (x =? a), (existsb (N.eqb x) t), (smem x sv); reflexivity.
Qed.
Lemma smem_fold_sdel x unsubs : forall sv, smem x (fold_left (fun acc a => sdel a acc) unsubs sv) = negb (existsb (N.eqb x) unsubs) && smem x sv.
Proof.
  induction unsubs as [|a t IH]; intros sv; cbn [fold_left existsb]; [reflexivity|]. rewrite IH, smem_sdel.
  destruct (x =? a), (existsb (N.eqb x) t), (smem x sv); reflexivity.
Qed.

(* one request built from the queue tells the server exactly what the queued changes say, in their order *)
Theorem flush_correct l sv : same_set (server_apply (fst (coalesce l)) (snd (coalesce l)) sv) (apply_changes l sv).
Proof.
  intros x. unfold server_apply. rewrite smem_fold_sdel, smem_fold_sadd, smem_apply.
  destruct (coalesce_spec x l) as [H1 H2]. rewrite H1, H2. destruct (lastc x l) as [[|]|]; cbn; try reflexivity.
Qed.

(* ---------- the invariant ---------- *)
Definition DInv (s : dstate) : Prop :=
  stuck s = false /\ match stream s with Some sv => same_set (apply_changes (pending s) sv) (desired s) | None => True end.

Lemma apply_app l1 l2 sv : apply_changes (l1 ++ l2) sv = apply_changes l2 (apply_changes l1 sv).
Proof. unfold apply_changes. apply fold_left_app. Qed.

Lemma dstep_inv s o : DInv s -> DInv (dstep false s o).
Proof.
  intros [St I]. unfold dstep. rewrite St. destruct o as [a|a| | |].
  - (* subscribe *)
    destruct (smem a (desired s)) eqn:E; [split; assumption|]. unfold enqueue. cbn [andb].
    destruct (stream s) as [sv|] eqn:Es; split; cbn [stuck stream pending desired]; try exact St; try reflexivity; try exact Logic.I.
    intros x. rewrite apply_app. cbn [apply_changes fold_left step_change]. rewrite !smem_sadd. rewrite (I x). reflexivity.
  - (* unsubscribe *)
    destruct (smem a (desired s)) eqn:E; [|split; assumption]. unfold enqueue. cbn [andb].
    destruct (stream s) as [sv|] eqn:Es; split; cbn [stuck stream pending desired]; try exact St; try reflexivity; try exact Logic.I.
    intros x. rewrite apply_app. cbn [apply_changes fold_left step_change]. rewrite !smem_sdel. rewrite (I x). reflexivity.
  - (* a stream comes up: the whole set is sent *)
    destruct (stream s) as [sv|] eqn:Es; [split; [exact St | rewrite Es; exact I]|].
    split; [reflexivity|]. cbn [stream pending desired]. intros x. reflexivity.
  - (* the stream is lost *)
    split; [reflexivity | exact Logic.I].
  - (* the sender flushes the queue *)
    destruct (stream s) as [sv|] eqn:Es; [|split; [exact St | rewrite Es; exact Logic.I]].
    destruct (pending s) as [|c t] eqn:Ep; [split; [exact St | rewrite Es, Ep; exact I]|].
    pose proof (flush_correct (c :: t) sv) as F. destruct (coalesce (c :: t)) as [subs unsubs]. cbn [fst snd] in F.
    split; [reflexivity || exact St|]. cbn [stream pending desired apply_changes fold_left]. intros x. rewrite (F x). apply I.
Qed.

Theorem drun_inv l : DInv (drun false l).
Proof.
  unfold drun. assert (H0 : DInv dinit) by (split; [reflexivity | exact Logic.I]).
  revert H0. generalize dinit. induction l as [|o t IH]; intros s H; cbn [fold_left]; [exact H|]. apply IH. apply dstep_inv. exact H.
Qed.

(* never blocked *)
Corollary never_stuck l : stuck (drun false l) = false.
Proof. exact (proj1 (drun_inv l)). Qed.

(* once a stream is up and the queue has been flushed (one request), the server's view is the dependency set *)
Corollary converged l sv : stream (drun false l) = Some sv -> pending (drun false l) = [] -> same_set sv (desired (drun false l)).
Proof. intros Es Ep. pose proof (proj2 (drun_inv l)) as I. rewrite Es, Ep in I. exact I. Qed.

(* ... and one flush is enough whatever was queued *)
Corollary one_flush_converges l sv : stream (drun false (l ++ [DFlush])) = Some sv -> same_set sv (desired (drun false (l ++ [DFlush]))).
Proof.
  intros Es. apply converged; [exact Es|]. revert Es. unfold drun. rewrite fold_left_app. cbn [fold_left].
  pose proof (drun_inv l) as [St _]. unfold drun in St. set (s := fold_left (dstep false) l dinit) in *.
  unfold dstep. rewrite St. destruct (stream s) as [sv0|] eqn:E0.
  - intros _. destruct (pending s) as [|c t] eqn:Ep; [exact Ep|]. destruct (coalesce (c :: t)). reflexivity.
  - intros Es. rewrite E0 in Es. discriminate.
Qed.

(* ---------- dependency responses ---------- *)
Lemma sadd_mem a s : smem a s = true -> sadd a s = s.
Proof. intros H. unfold sadd. rewrite H. reflexivity. Qed.

Lemma sdel_notmem a s : smem a s = false -> sdel a s = s.
Proof.
  unfold smem, sdel. induction s as [|x t IH]; [reflexivity|]. cbn [existsb filter]. intros H.
  apply orb_false_iff in H. destruct H as [H1 H2]. rewrite N.eqb_sym in H1. rewrite H1. cbn [negb]. rewrite IH by exact H2. reflexivity.
Qed.

Lemma desired_step s o : stuck s = false ->
  desired (dstep false s o) = match o with DSubscribe a => sadd a (desired s) | DUnsubscribe a => sdel a (desired s) | _ => desired s end.
Proof.
  intros St. unfold dstep. rewrite St. destruct o as [a|a| | |].
  - destruct (smem a (desired s)) eqn:E; [rewrite sadd_mem by exact E; reflexivity|]. unfold enqueue. cbn [andb]. destruct (stream s); reflexivity.
  - destruct (smem a (desired s)) eqn:E; [|rewrite sdel_notmem by exact E; reflexivity]. unfold enqueue. cbn [andb]. destruct (stream s); reflexivity.
  - destruct (stream s); reflexivity.
  - reflexivity.
  - destruct (stream s); [|reflexivity]. destruct (pending s); [reflexivity|]. destruct (coalesce _). reflexivity.
Qed.

Lemma desired_subs l : forall s, DInv s -> DInv (fold_left (dstep false) (map DSubscribe l) s) /\
  desired (fold_left (dstep false) (map DSubscribe l) s) = fold_left (fun acc a => sadd a acc) l (desired s).
Proof.
  induction l as [|a t IH]; intros s I; [split; [exact I | reflexivity]|]. cbn [map fold_left].
  destruct (IH _ (dstep_inv s (DSubscribe a) I)) as [I2 E]. split; [exact I2|]. rewrite E, (desired_step s _ (proj1 I)). reflexivity.
Qed.

Lemma desired_unsubs l : forall s, DInv s -> DInv (fold_left (dstep false) (map DUnsubscribe l) s) /\
  desired (fold_left (dstep false) (map DUnsubscribe l) s) = fold_left (fun acc a => sdel a acc) l (desired s).
Proof.
  induction l as [|a t IH]; intros s I; [split; [exact I | reflexivity]|]. cbn [map fold_left].
  destruct (IH _ (dstep_inv s (DUnsubscribe a) I)) as [I2 E]. split; [exact I2|]. rewrite E, (desired_step s _ (proj1 I)). reflexivity.
Qed.

Lemma desired_responses rs : forall s, DInv s -> DInv (fold_left (dstep false) (dep_history rs) s) /\
  desired (fold_left (dstep false) (dep_history rs) s) = fold_left dep_apply rs (desired s).
Proof.
  induction rs as [|r t IH]; intros s I; [split; [exact I | reflexivity]|].
  change (dep_history (r :: t)) with ((map DSubscribe (fst r) ++ map DUnsubscribe (snd r)) ++ dep_history t).
  rewrite !fold_left_app.
  destruct (desired_subs (fst r) s I) as [I1 E1]. destruct (desired_unsubs (snd r) _ I1) as [I2 E2].
  destruct (IH _ I2) as [I3 E3]. split; [exact I3|]. rewrite E3, E2, E1. reflexivity.
Qed.

(* any history, then any sequence of dependency responses, then one flush on a live stream: the server has been told to
   watch exactly the dependency set the responses leave *)
Theorem dependency_responses l0 rs sv :
  stream (drun false (l0 ++ dep_history rs ++ [DFlush])) = Some sv ->
  same_set sv (fold_left dep_apply rs (desired (drun false l0))).
Proof.
  intros Es. pose proof (one_flush_converges (l0 ++ dep_history rs) sv) as H. rewrite <- app_assoc in H. specialize (H Es).
  intros x. rewrite (H x). f_equal.
  assert (Hd : desired (drun false (l0 ++ dep_history rs ++ [DFlush])) = desired (drun false (l0 ++ dep_history rs))).
  { rewrite app_assoc. unfold drun. rewrite (fold_left_app _ (l0 ++ dep_history rs) [DFlush]). cbn [fold_left].
    apply desired_step. exact (never_stuck (l0 ++ dep_history rs)). }
  rewrite Hd. unfold drun. rewrite fold_left_app. exact (proj2 (desired_responses rs _ (drun_inv l0))).
Qed.

(* ---------- the code as it was ---------- *)
Definition seventeen : list dop := map (fun i => DSubscribe (N.of_nat i)) (seq 0 17).
Example blocks_holding_the_lock_refuted : stuck (drun true (seventeen ++ [DStreamUp])) = true /\ stream (drun true (seventeen ++ [DStreamUp])) = None.
Proof. vm_compute. split; reflexivity. Qed.

Example order_lost_refuted :
  let s := drun true [DSubscribe 1; DStreamUp; DUnsubscribe 1; DSubscribe 1; DFlush] in
  desired s = [1] /\ stream s = Some [] /\ pending s = [].
Proof. vm_compute. repeat split. Qed.

Example order_kept :
  let s := drun false [DSubscribe 1; DStreamUp; DUnsubscribe 1; DSubscribe 1; DFlush] in
  desired s = [1] /\ stream s = Some [1] /\ pending s = [].
Proof. vm_compute. repeat split. Qed.
Example seventeen_fine : stuck (drun false (seventeen ++ [DStreamUp])) = false /\ length (match stream (drun false (seventeen ++ [DStreamUp])) with Some s => s | None => [] end) = 17%nat.
Proof. vm_compute. split; reflexivity. Qed.
