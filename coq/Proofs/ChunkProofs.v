(* Decoding is independent of how the byte stream is split into reads: the decoder run on
   the chunked reader returns what it returns on the flat reader. *)
From Coq Require Import List NArith ZArith Bool Lia.
From Sam Require Import Model.Bytes Model.Resp Model.Reader Model.Codec Proofs.BytesProofs Proofs.ReaderProofs.
Import ListNotations.
Open Scope N_scope.

Section Sim.
  Variables S1 S2 : Type.
  Variable Rel : S1 -> S2 -> Prop.
  Variable O1 : ops S1.
  Variable O2 : ops S2.

  Definition agree {A} (r1 : A * S1) (r2 : A * S2) : Prop := fst r1 = fst r2 /\ Rel (snd r1) (snd r2).

  Hypothesis Hpeek : forall s f, Rel s f -> agree (o_peek O1 s) (o_peek O2 f).
  Hypothesis Hrbyte : forall s f, Rel s f -> agree (o_rbyte O1 s) (o_rbyte O2 f).
  Hypothesis Hrslice : forall s f, Rel s f -> agree (o_rslice O1 s) (o_rslice O2 f).
  Hypothesis Hrbytes : forall s f, Rel s f -> agree (o_rbytes O1 s) (o_rbytes O2 f).
  Hypothesis Hrfull : forall n s f, Rel s f -> agree (o_rfull O1 n s) (o_rfull O2 n f).

  Variables max_array max_bulk : Z.
  Variable max_depth : N.

  Ltac step H s f HR r s1 f1 HR1 :=
    let r2 := fresh "r" in let E := fresh "E" in
    pose proof (H s f HR) as [E HR1];
    match type of E with
    | fst ?a = fst ?b => destruct a as [r s1]; destruct b as [r2 f1]
    end; cbn [fst snd] in E, HR1; subst r2.

  Ltac fin := split; [reflexivity | assumption].

  Lemma decode_int_sim s f : Rel s f -> agree (decode_int S1 O1 s) (decode_int S2 O2 f).
  Proof.
    intros HR. unfold decode_int. step Hrslice s f HR r0 s0 f0 HR0.
    destruct r0 as [l|frag|e]; [|fin..].
    destruct (strip_crlf l); [|fin]. destruct (btoi64 a); fin.
  Qed.

  Lemma decode_text_sim s f : Rel s f -> agree (decode_text S1 O1 s) (decode_text S2 O2 f).
  Proof.
    intros HR. unfold decode_text. step Hrbytes s f HR r0 s0 f0 HR0.
    destruct r0; fin.
  Qed.

  Lemma decode_bulk_sim s f : Rel s f -> agree (decode_bulk S1 O1 max_bulk s) (decode_bulk S2 O2 max_bulk f).
  Proof.
    intros HR. unfold decode_bulk. step decode_int_sim s f HR r0 s0 f0 HR0.
    destruct r0 as [n|e]; [|fin].
    destruct (n <? -1)%Z; [fin|]. destruct (n >? max_bulk)%Z; [fin|].
    destruct (n =? -1)%Z; [fin|].
    step (Hrfull (Z.to_N n + 2)) s0 f0 HR0 r1 s1 f1 HR1.
    destruct r1 as [b|e]; [|fin].
    destruct ((nthN b (Z.to_N n) 0 =? CR) && (nthN b (Z.to_N n + 1) 0 =? LF)); fin.
  Qed.

  Lemma decode_inline_sim s f : Rel s f -> agree (decode_inline S1 O1 s) (decode_inline S2 O2 f).
  Proof.
    intros HR. unfold decode_inline. step decode_text_sim s f HR r0 s0 f0 HR0.
    destruct r0 as [b|e]; [|fin].
    destruct (split_words b []); fin.
  Qed.

  Lemma elems_sim (d1 : S1 -> res resp * S1) (d2 : S2 -> res resp * S2) :
    (forall s f, Rel s f -> agree (d1 s) (d2 f)) ->
    forall k s f, Rel s f -> agree (elems S1 d1 k s) (elems S2 d2 k f).
  Proof.
    intros Hd. induction k as [|k IH]; intros s f HR; cbn [elems]; [fin|].
    step Hd s f HR r0 s0 f0 HR0. destruct r0 as [v|e]; [|fin].
    step IH s0 f0 HR0 r1 s1 f1 HR1. destruct r1; fin.
  Qed.

  Lemma decode_sim fuel : forall d s f, Rel s f ->
    agree (decode S1 O1 max_array max_bulk max_depth fuel d s) (decode S2 O2 max_array max_bulk max_depth fuel d f).
  Proof.
    induction fuel as [|fuel IH]; intros d s f HR; cbn [decode]; [fin|].
    step Hpeek s f HR r0 s0 f0 HR0. destruct r0 as [b|e]; [|fin].
    destruct (is_type_byte b); [|apply decode_inline_sim; exact HR0].
    pose proof (Hrbyte s0 f0 HR0) as [_ HR1].
    destruct (b =? T_INT).
    { step decode_int_sim (snd (o_rbyte O1 s0)) (snd (o_rbyte O2 f0)) HR1 r1 s1 f1 HR2. destruct r1; fin. }
    destruct (b =? T_SIMPLE).
    { step decode_text_sim (snd (o_rbyte O1 s0)) (snd (o_rbyte O2 f0)) HR1 r1 s1 f1 HR2. destruct r1; fin. }
    destruct (b =? T_ERR).
    { step decode_text_sim (snd (o_rbyte O1 s0)) (snd (o_rbyte O2 f0)) HR1 r1 s1 f1 HR2. destruct r1; fin. }
    destruct (b =? T_BULK).
    { step decode_bulk_sim (snd (o_rbyte O1 s0)) (snd (o_rbyte O2 f0)) HR1 r1 s1 f1 HR2. destruct r1; fin. }
    step decode_int_sim (snd (o_rbyte O1 s0)) (snd (o_rbyte O2 f0)) HR1 r1 s1 f1 HR2.
    destruct r1 as [n|e]; [|fin].
    destruct (n <? -1)%Z; [fin|]. destruct (n >? max_array)%Z; [fin|].
    destruct (n =? -1)%Z; [fin|].
    destruct (max_depth <=? d); [fin|].
    step (elems_sim _ _ (IH (d + 1)) (Z.to_nat n)) s1 f1 HR2 r2 s2 f2 HR3.
    destruct r2; fin.
  Qed.

  Lemma decode_all_sim depth msgs : forall s f, Rel s f ->
    fst (decode_all S1 O1 max_array max_bulk max_depth msgs depth s) = fst (decode_all S2 O2 max_array max_bulk max_depth msgs depth f).
  Proof.
    induction msgs as [|m IH]; intros s f HR; cbn [decode_all]; [reflexivity|].
    step (decode_sim depth 0) s f HR r0 s0 f0 HR0. destruct r0 as [v|e]; [|reflexivity].
    specialize (IH s0 f0 HR0).
    destruct (decode_all S1 O1 max_array max_bulk max_depth m depth s0) as [[vs1 e1] s2].
    destruct (decode_all S2 O2 max_array max_bulk max_depth m depth f0) as [[vs2 e2] f2].
    cbn [fst] in *. congruence.
  Qed.
End Sim.

(* the chunked entry point equals the flat entry point for every buffer size, oracle and end error *)
Theorem chunking_independent max_array max_bulk max_depth B szs endv data : 1 <= B ->
  decode_all_chunked max_array max_bulk max_depth B szs endv data = decode_all_flat max_array max_bulk max_depth B endv data.
Proof.
  intros HB. unfold decode_all_chunked, decode_all_flat.
  set (F := S (N.to_nat (lenN data))).
  set (s0 := {| win := []; cerr := None; src := data; sizes := szs; send := endv |}).
  set (f0 := {| stream := data; ferr := None; fend := endv |}).
  assert (HR : R B F s0 f0).
  { unfold R, s0, f0. cbn. repeat split; try (unfold F; lia). }
  pose proof (decode_all_sim crd frd (R B F) (chunked_ops B F) (flat_ops B)
                (peek_refines B HB F) (rbyte_refines B HB F)
                (fun s f H => rslice_refines B HB F s f H (fun _ => I))
                (fun s f H => rbytes_refines B HB F s f H ltac:(unfold F; lia))
                (fun n s f H => rfull_refines B HB F n s f H)
                max_array max_bulk max_depth (depth_fuel max_depth) F s0 f0 HR) as Hsim.
  destruct (decode_all crd _ _ _ _ F _ s0) as [[vs1 e1] s2].
  destruct (decode_all frd _ _ _ _ F _ f0) as [[vs2 e2] f2].
  cbn [fst] in Hsim. inversion Hsim. reflexivity.
Qed.
