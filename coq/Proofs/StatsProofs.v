(* Proofs about Model/Stats.v: the counters are conserved in every reachable state. *)
From Coq Require Import List NArith ZArith Bool String Lia.
From Sam Require Import Model.Stats.
Import ListNotations.
Open Scope Z_scope.

Definition SInv (s : sstate) : Prop :=
  cx_total s = cx_destroy s + open_conns s /\ cx_active s = open_conns s /\ 0 <= open_conns s /\
  (0 < limit s -> open_conns s <= limit s) /\
  rq_total s = rq_success s + rq_failure s + inflight s.

Lemma sstep_inv s e : SInv s -> SInv (sstep s e) /\ limit (sstep s e) = limit s.
Proof.
  intros I. pose proof I as [I1 [I2 [I3 [I4 I5]]]]. destruct e as [| |c|c ok|]; cbn [sstep].
  - destruct (stopped s); [split; [exact I | reflexivity]|].
    destruct (negb (limit s =? 0) && (limit s <=? open_conns s)) eqn:E; (split; [|reflexivity]); unfold SInv; cbn.
    + split; [lia|]. split; [lia|]. split; [lia|]. split; [exact I4 | lia].
    + split; [lia|]. split; [lia|]. split; [lia|]. split; [|lia].
      intros Hl. apply andb_false_iff in E. destruct E as [E|E].
      * apply negb_false_iff in E. apply Z.eqb_eq in E. lia.
      * apply Z.leb_gt in E. lia.
  - destruct (0 <? open_conns s) eqn:E; [|split; [exact I | reflexivity]]. apply Z.ltb_lt in E.
    split; [|reflexivity]. unfold SInv; cbn. split; [lia|]. split; [lia|]. split; [lia|]. split; [|lia].
    intros Hl. specialize (I4 Hl). lia.
  - split; [|reflexivity]. unfold SInv; cbn. split; [lia|]. split; [lia|]. split; [lia|]. split; [exact I4 | lia].
  - split; [|reflexivity]. unfold SInv; cbn. split; [lia|]. split; [lia|]. split; [lia|]. split; [exact I4 | destruct ok; lia].
  - split; [|reflexivity]. unfold SInv; cbn. split; [lia|]. split; [lia|]. split; [lia|]. split; [exact I4 | lia].
Qed.

Lemma fold_inv l : forall s, SInv s -> SInv (fold_left sstep l s) /\ limit (fold_left sstep l s) = limit s.
Proof.
  induction l as [|e t IH]; intros s I; cbn [fold_left]; [split; [exact I | reflexivity]|].
  destruct (sstep_inv s e I) as [I1 L1]. destruct (IH _ I1) as [I2 L2]. split; [exact I2 | congruence].
Qed.

Theorem conserved lim l : 0 <= lim -> SInv (srun lim l).
Proof. intros H. unfold srun. apply fold_inv. unfold SInv, sinit; cbn. split; [lia|]. split; [lia|]. split; [lia|]. split; lia. Qed.

(* quiescence: no registered connection, no request in flight *)
Corollary quiescent_connections lim l : 0 <= lim -> open_conns (srun lim l) = 0 ->
  cx_total (srun lim l) = cx_destroy (srun lim l) /\ cx_active (srun lim l) = 0.
Proof. intros H Q. destruct (conserved lim l H) as [I1 [I2 _]]. lia. Qed.

Corollary quiescent_requests lim l : 0 <= lim -> inflight (srun lim l) = 0 ->
  rq_total (srun lim l) = rq_success (srun lim l) + rq_failure (srun lim l).
Proof. intros H Q. destruct (conserved lim l H) as [_ [_ [_ [_ I5]]]]. lia. Qed.

Corollary gauge_never_negative lim l : 0 <= lim -> 0 <= cx_active (srun lim l).
Proof. intros H. destruct (conserved lim l H) as [_ [I2 [I3 _]]]. lia. Qed.

(* the limit: never more registered connections than the limit, and a connection under it is always registered *)
Corollary limit_respected lim l : 0 < lim -> open_conns (srun lim l) <= lim.
Proof.
  intros H. destruct (conserved lim l ltac:(lia)) as [_ [_ [_ [I4 _]]]].
  assert (E : limit (srun lim l) = lim).
  { unfold srun. rewrite (proj2 (fold_inv l (sinit lim) ltac:(unfold SInv, sinit; cbn; split; [lia|]; split; [lia|]; split; [lia|]; split; lia))). reflexivity. }
  rewrite E in I4. apply I4. exact H.
Qed.

Lemma under_limit_served s : stopped s = false -> (limit s = 0 \/ open_conns s < limit s) ->
  cx_total (sstep s SvConnect) = cx_total s + 1 /\ open_conns (sstep s SvConnect) = open_conns s + 1 /\ cx_restricted (sstep s SvConnect) = cx_restricted s.
Proof.
  intros Hs Hl. cbn [sstep]. rewrite Hs.
  assert (E : negb (limit s =? 0) && (limit s <=? open_conns s) = false).
  { destruct Hl as [Hl|Hl]; [rewrite Hl; reflexivity|]. apply andb_false_iff. right. apply Z.leb_gt. exact Hl. }
  rewrite E. cbn. auto.
Qed.

(* ---------- per-command counters ---------- *)
Lemma get_upd_same name f l : get_cmd name (upd_cmd name f l) = f (get_cmd name l).
Proof.
  induction l as [|[n c] t IH]; cbn [upd_cmd get_cmd]; [rewrite String.eqb_refl; reflexivity|].
  destruct (String.eqb n name) eqn:E; cbn [get_cmd]; rewrite E; [reflexivity | exact IH].
Qed.
Lemma get_upd_other name name' f l : name' <> name -> get_cmd name (upd_cmd name' f l) = get_cmd name l.
Proof.
  intros H. induction l as [|[n c] t IH]; cbn [upd_cmd get_cmd].
  - destruct (String.eqb_spec name' name); [contradiction | reflexivity].
  - destruct (String.eqb n name') eqn:E; cbn [get_cmd].
    + apply String.eqb_eq in E. subst n. destruct (String.eqb_spec name' name); [contradiction | reflexivity].
    + destruct (String.eqb n name); [reflexivity | exact IH].
Qed.

Definition CInv (name : string) (s : sstate) (l : list sevent) : Prop :=
  c_total (get_cmd name (cmds s)) = starts name l /\
  c_success (get_cmd name (cmds s)) + c_error (get_cmd name (cmds s)) = dones name l.

Lemma filter_snoc {A} (f : A -> bool) l x : filter f (l ++ [x]) = filter f l ++ (if f x then [x] else []).
Proof. rewrite filter_app. cbn. destruct (f x); reflexivity. Qed.

Theorem command_counters name lim l : CInv name (srun lim l) l.
Proof.
  unfold srun. induction l as [|e l IH] using rev_ind; [split; reflexivity|].
  rewrite fold_left_app. cbn [fold_left]. destruct IH as [H1 H2]. set (s := fold_left sstep l (sinit lim)) in *.
  unfold CInv, starts, dones. rewrite !filter_snoc, !app_length, !Nat2Z.inj_add. unfold starts, dones in H1, H2.
  destruct e as [| |c|c ok|]; cbn [sstep cmds].
  - destruct (stopped s); [|destruct (negb _ && _)]; cbn [cmds List.length]; lia.
  - destruct (0 <? open_conns s); cbn [cmds List.length]; lia.
  - destruct c as [n|]; [|cbn [List.length]; lia]. destruct (String.eqb_spec n name) as [->|Hn].
    + rewrite get_upd_same. cbn [c_total c_success c_error List.length]. lia.
    + rewrite get_upd_other by exact Hn. cbn [List.length]. lia.
  - destruct c as [n|]; [|cbn [List.length]; lia]. destruct (String.eqb_spec n name) as [->|Hn].
    + rewrite get_upd_same. destruct ok; cbn [c_total c_success c_error List.length]; lia.
    + rewrite get_upd_other by exact Hn. cbn [List.length]. lia.
  - cbn [List.length]. lia.
Qed.

(* when every request of a command has completed its total is success + error *)
Corollary command_quiescent name lim l : starts name l = dones name l ->
  c_total (get_cmd name (cmds (srun lim l))) = c_success (get_cmd name (cmds (srun lim l))) + c_error (get_cmd name (cmds (srun lim l))).
Proof. intros H. destruct (command_counters name lim l) as [H1 H2]. lia. Qed.

(* one counter state per host object *)
Lemma host_count l : let s := srun 0 l in (cx_active s = open_conns s /\ 0 <= open_conns s)%Z.
Proof. intros s. destruct (conserved 0 l (Z.le_refl 0)) as [_ [H1 [H2 _]]]. exact (conj H1 H2). Qed.
