(* The functions translated from the Go source (Gen/Funcs.v, regenerated on every run by gen/trans.go) are the
   hand-written models the property theorems are stated about: crc16 and hashtag (Model/Slot.v, C12); parseCursor and
   genCursor (Model/Dispatch.v, C18) are in Proofs/GenCursorProofs.v.  When the Go code changes, Gen/Funcs.v changes and these proofs are re-checked
   against what the code says now. *)
From Coq Require Import List NArith Bool Arith Lia.
From Sam Require Import Gen.Tables Lib.GoLib Gen.Funcs Model.Bytes Model.Slot Proofs.SlotProofs.
Import ListNotations.
Open Scope N_scope.

(* ---------- the library the generated code is written with ---------- *)
Lemma lenN_length {A} (l : list A) : lenN l = N.of_nat (length l).
Proof. induction l as [|x t IH]; [reflexivity|]. cbn [lenN length]. rewrite IH. lia. Qed.

Lemma lenN_app1 {A} (pre : list A) x : lenN (pre ++ [x]) = lenN pre + 1.
Proof. rewrite !lenN_length, app_length. cbn [length]. lia. Qed.

Lemma idxN_mid (pre : list N) x t : idxN (pre ++ x :: t) (lenN pre) = x.
Proof. unfold idxN. rewrite lenN_length, Nat2N.id. rewrite app_nth2 by lia. rewrite Nat.sub_diag. reflexivity. Qed.

(* an accumulation loop over the indexes of a slice is a fold over its elements *)
Lemma iter_fold {A} (f : A -> N -> A) l : forall pre acc,
  iter (length l) (lenN pre) (fun i a => f a (idxN (pre ++ l) i)) acc = fold_left f l acc.
Proof.
  induction l as [|x t IH]; intros pre acc; [reflexivity|].
  cbn [length iter fold_left]. rewrite idxN_mid. rewrite <- (lenN_app1 pre x).
  replace (pre ++ x :: t) with ((pre ++ [x]) ++ t) by (rewrite <- app_assoc; reflexivity). apply IH.
Qed.

Lemma for_range_fold {A} (f : A -> N -> A) l acc :
  for_range 0 (lenN l) (fun i a => f a (idxN l i)) acc = fold_left f l acc.
Proof.
  unfold for_range. rewrite N.sub_0_r, lenN_length, Nat2N.id. exact (iter_fold f l [] acc).
Qed.

(* a search loop finds the first occurrence, or stops at the bound *)
Lemma search_index c l : forall pre,
  search (length l) (lenN pre) (fun i => idxN (pre ++ l) i =? c) = lenN pre + N.of_nat (index_of c l).
Proof.
  induction l as [|x t IH]; intros pre; cbn [length search index_of]; [lia|].
  rewrite idxN_mid. destruct (N.eqb_spec x c) as [E|E]; [cbn; lia|].
  rewrite <- (lenN_app1 pre x). replace (pre ++ x :: t) with ((pre ++ [x]) ++ t) by (rewrite <- app_assoc; reflexivity).
  rewrite IH, lenN_app1. lia.
Qed.

Lemma find_from_index c pre l :
  find_from (lenN pre) (lenN (pre ++ l)) (fun i => idxN (pre ++ l) i =? c) = lenN pre + N.of_nat (index_of c l).
Proof.
  unfold find_from. rewrite !lenN_length, app_length.
  destruct (N.leb_spec (N.of_nat (length pre + length l)) (N.of_nat (length pre))) as [H|H].
  - assert (length l = 0%nat) by lia. destruct l; [cbn; lia | discriminate].
  - replace (N.to_nat (N.of_nat (length pre + length l) - N.of_nat (length pre))) with (length l) by lia.
    rewrite <- lenN_length. apply search_index.
Qed.

(* ---------- crc16 ---------- *)
Lemma land_wrap16_hi x : N.land (wrap 16 x) 65280 = N.land x 65280.
Proof.
  unfold wrap. change (2 ^ 16) with (2 ^ 16). rewrite <- N.land_ones, <- N.land_assoc. f_equal.
Qed.

Lemma wrap_small w x : x < 2 ^ w -> wrap w x = x.
Proof. intros H. unfold wrap. apply N.mod_small. exact H. Qed.

Lemma fold_left_ext_in {A B} (f g : A -> B -> A) l : (forall a x, In x l -> f a x = g a x) -> forall a, fold_left f l a = fold_left g l a.
Proof.
  induction l as [|x t IH]; intros H a; [reflexivity|]. cbn [fold_left]. rewrite (H a x) by (left; reflexivity).
  apply IH. intros a' y Hy. apply H. right. exact Hy.
Qed.

Theorem crc16_go_agrees b : bytes_ok b -> crc16_go b = crc16_tab crc16tab b.
Proof.
  intros Hb. unfold crc16_go, crc16_tab.
  change (for_range 0 (lenN b) (fun i crc => (fun crc x => N.lxor (N.land (wrap 16 (N.shiftl crc 8)) 65280)
            (idxN crc16tab (N.lxor (N.land (N.shiftr crc 8) 255) (wrap 16 x)))) crc (idxN b i)) 0 = fold_left (crc_step crc16tab) b 0).
  rewrite for_range_fold. apply fold_left_ext_in. intros crc x Hx. unfold crc_step, idxN.
  rewrite land_wrap16_hi. rewrite (wrap_small 16 x); [reflexivity|].
  unfold bytes_ok in Hb. rewrite Forall_forall in Hb. specialize (Hb x Hx). cbn. lia.
Qed.

(* ---------- hashtag ---------- *)
Theorem hashtag_go_agrees b : hashtag_go b = hashtag b.
Proof.
  unfold hashtag_go, hashtag. cbv zeta.
  pose proof (find_from_index 123 [] b) as H1. cbn [app lenN] in H1. rewrite H1. clear H1. rewrite N.add_0_l.
  change 123 with lbrace. set (i := index_of lbrace b).
  pose proof (index_of_le lbrace b) as Hi. fold i in Hi.
  rewrite lenN_length. destruct (Nat.eqb_spec i (length b)) as [E|E].
  - rewrite E, N.eqb_refl. reflexivity.
  - destruct (N.eqb_spec (N.of_nat i) (N.of_nat (length b))) as [E'|_]; [lia|].
    assert (Hlt : (i < length b)%nat) by lia.
    (* the second loop runs over the rest of the slice *)
    assert (Hsplit : b = firstn (S i) b ++ skipn (S i) b) by (symmetry; apply firstn_skipn).
    assert (Hpre : lenN (firstn (S i) b) = N.of_nat i + 1) by (rewrite lenN_length, firstn_length; lia).
    pose proof (find_from_index 125 (firstn (S i) b) (skipn (S i) b)) as H2.
    rewrite <- Hsplit, Hpre, lenN_length in H2. rewrite H2. clear H2.
    change 125 with rbrace. set (r := index_of rbrace (skipn (S i) b)).
    replace (N.of_nat i + 1 + N.of_nat r) with (N.of_nat (S i + r)) by lia.
    replace (N.of_nat i + 1) with (N.of_nat (S i)) by lia.
    destruct (Nat.eqb_spec (S i + r) (length b)) as [F|F]; destruct (Nat.eqb_spec (S i + r) (S i)) as [G|G];
      destruct (N.eqb_spec (N.of_nat (S i + r)) (N.of_nat (length b))) as [F'|F']; destruct (N.eqb_spec (N.of_nat (S i + r)) (N.of_nat (S i))) as [G'|G'];
      cbn [orb]; try reflexivity; try lia.
    unfold sliceN. rewrite Nat2N.id. f_equal. lia.
Qed.

(* the slot the proxy computes, through the generated functions *)
Theorem slot_go_agrees key : bytes_ok key ->
  N.land (crc16_go (hashtag_go key)) (slot_num - 1) = slot_of crc16tab slot_num key.
Proof.
  intros H. unfold slot_of. rewrite hashtag_go_agrees. rewrite crc16_go_agrees by (apply hashtag_bytes; exact H). reflexivity.
Qed.

Corollary slot_go_spec key : bytes_ok key ->
  N.land (crc16_go (hashtag_go key)) (slot_num - 1) = crc16_spec (hashtag key) mod 16384 /\ hashtag_go key = hashtag key.
Proof. intros H. split; [rewrite slot_go_agrees by exact H; exact (proj1 (slot_spec key H)) | apply hashtag_go_agrees]. Qed.

