From Coq Require Import List Arith NArith Bool Lia Permutation.
From Sam Require Import Model.HostSet.
Import ListNotations.
Open Scope N_scope.

Section Inv.
  Variable desc : oid -> addr * htype.
  Variable U : list addr.
  Notation o_addr := (o_addr desc).
  Notation o_type := (o_type desc).

  (* the healthy maps are exactly the healthy members of their type *)
  Definition J (al hm hb : amap) (hl : oid -> bool) : Prop :=
    (forall a i, hm a = Some i -> al a = Some i /\ o_type i = Main /\ hl i = true) /\
    (forall a i, hb a = Some i -> al a = Some i /\ o_type i = Backup /\ hl i = true) /\
    (forall a i, al a = Some i -> o_addr i = a /\
       (hl i = true -> match o_type i with Main => hm a = Some i | Backup => hb a = Some i end)).

  Definition Inv (s : hset) : Prop :=
    J (all s) (hmain s) (hbackup s) (healthy s) /\
    cache s = match members U (hmain s) with [] => members U (hbackup s) | l => l end.

  Lemma upd_same m a v : upd m a v a = v.
  Proof. unfold upd. rewrite N.eqb_refl. reflexivity. Qed.
  Lemma upd_other m a v x : x <> a -> upd m a v x = m x.
  Proof. intros H. unfold upd. destruct (N.eqb_spec x a); [contradiction | reflexivity]. Qed.

  Lemma J_empty : J (fun _ => None) (fun _ => None) (fun _ => None) (fun _ => true).
  Proof. repeat split; intros; discriminate. Qed.

  (* after the object stored under address a has left both healthy maps, nothing is left under a *)
  Lemma J_clear al hm hb hl a : J al hm hb hl ->
    let hm' := match al a with Some old => fst (drop_healthy desc hm hb old) | None => hm end in
    let hb' := match al a with Some old => snd (drop_healthy desc hm hb old) | None => hb end in
    hm' a = None /\ hb' a = None /\ (forall x, x <> a -> hm' x = hm x /\ hb' x = hb x).
  Proof.
    intros [J1 [J2 J3]]. cbn zeta. destruct (al a) as [old|] eqn:Ea.
    - destruct (J3 a old Ea) as [Hadr _]. unfold drop_healthy, is_obj. rewrite Hadr. cbn [fst snd].
      assert (Hm : (match hm a with Some j => j =? old | None => false end) = true \/ hm a = None).
      { destruct (hm a) as [j|] eqn:E; [|right; reflexivity]. left.
        destruct (J1 a j E) as [E2 _]. rewrite Ea in E2. inversion E2. apply N.eqb_refl. }
      assert (Hb : (match hb a with Some j => j =? old | None => false end) = true \/ hb a = None).
      { destruct (hb a) as [j|] eqn:E; [|right; reflexivity]. left.
        destruct (J2 a j E) as [E2 _]. rewrite Ea in E2. inversion E2. apply N.eqb_refl. }
      repeat split.
      + destruct Hm as [Hm|Hm]; [rewrite Hm; apply upd_same|].
        rewrite Hm. exact Hm.
      + destruct Hb as [Hb|Hb]; [rewrite Hb; apply upd_same|].
        rewrite Hb. exact Hb.
      + destruct (match hm a with Some j => j =? old | None => false end); [apply upd_other; assumption | reflexivity].
      + destruct (match hb a with Some j => j =? old | None => false end); [apply upd_other; assumption | reflexivity].
    - repeat split.
      + destruct (hm a) as [j|] eqn:E; [|reflexivity]. destruct (J1 a j E) as [E2 _]. congruence.
      + destruct (hb a) as [j|] eqn:E; [|reflexivity]. destruct (J2 a j E) as [E2 _]. congruence.
  Qed.

  (* ---- the invariant address by address ---- *)
  Definition J_at (al hm hb : amap) (hl : oid -> bool) (a : addr) : Prop :=
    (forall i, hm a = Some i -> al a = Some i /\ o_type i = Main /\ hl i = true) /\
    (forall i, hb a = Some i -> al a = Some i /\ o_type i = Backup /\ hl i = true) /\
    (forall i, al a = Some i -> o_addr i = a /\
       (hl i = true -> match o_type i with Main => hm a = Some i | Backup => hb a = Some i end)).

  Lemma J_pointwise al hm hb hl : J al hm hb hl <-> forall a, J_at al hm hb hl a.
  Proof.
    split.
    - intros [J1 [J2 J3]] a. split; [|split].
      + intros i Hi. exact (J1 a i Hi).
      + intros i Hi. exact (J2 a i Hi).
      + intros i Hi. exact (J3 a i Hi).
    - intros H. split; [|split]; intros a i Hi; destruct (H a) as [H1 [H2 H3]].
      + exact (H1 i Hi).
      + exact (H2 i Hi).
      + exact (H3 i Hi).
  Qed.

  Lemma J_frame al hm hb hl al' hm' hb' hl' x :
    J_at al hm hb hl x -> al' x = al x -> hm' x = hm x -> hb' x = hb x ->
    (forall i, al x = Some i -> hl' i = hl i) -> J_at al' hm' hb' hl' x.
  Proof.
    intros [H1 [H2 H3]] Ea Em Eb Eh. unfold J_at. rewrite Ea, Em, Eb. split; [|split].
    - intros i Hi. destruct (H1 i Hi) as [Q [Q1 Q2]]. split; [exact Q|]. split; [exact Q1|]. rewrite (Eh i Q). exact Q2.
    - intros i Hi. destruct (H2 i Hi) as [Q [Q1 Q2]]. split; [exact Q|]. split; [exact Q1|]. rewrite (Eh i Q). exact Q2.
    - intros i Hi. destruct (H3 i Hi) as [Q Q1]. split; [exact Q|]. rewrite (Eh i Hi). exact Q1.
  Qed.

  (* object i stored under its address when the healthy maps hold nothing else there; put if healthy *)
  Lemma J_at_store (al hm hb : amap) hl i :
    (forall j, hm (o_addr i) = Some j -> j = i /\ o_type i = Main /\ hl i = true) ->
    (forall j, hb (o_addr i) = Some j -> j = i /\ o_type i = Backup /\ hl i = true) ->
    J_at (upd al (o_addr i) (Some i))
         (fst (if hl i then put_healthy desc hm hb i else (hm, hb)))
         (snd (if hl i then put_healthy desc hm hb i else (hm, hb))) hl (o_addr i).
  Proof.
    intros Tm Tb. set (a := o_addr i) in *.
    assert (Hm2 : forall j, fst (if hl i then put_healthy desc hm hb i else (hm, hb)) a = Some j ->
                            j = i /\ o_type i = Main /\ hl i = true).
    { intros j Hj. destruct (hl i) eqn:Ehl; [|exact (Tm j Hj)].
      unfold put_healthy in Hj. fold a in Hj. destruct (o_type i) eqn:Et; cbn [fst] in Hj.
      - rewrite upd_same in Hj. inversion Hj. auto.
      - exact (Tm j Hj). }
    assert (Hb2 : forall j, snd (if hl i then put_healthy desc hm hb i else (hm, hb)) a = Some j ->
                            j = i /\ o_type i = Backup /\ hl i = true).
    { intros j Hj. destruct (hl i) eqn:Ehl; [|exact (Tb j Hj)].
      unfold put_healthy in Hj. fold a in Hj. destruct (o_type i) eqn:Et; cbn [snd] in Hj.
      - exact (Tb j Hj).
      - rewrite upd_same in Hj. inversion Hj. auto. }
    unfold J_at. rewrite upd_same. split; [|split].
    - intros j Hj. destruct (Hm2 j Hj) as [-> [Q1 Q2]]. auto.
    - intros j Hj. destruct (Hb2 j Hj) as [-> [Q1 Q2]]. auto.
    - intros j Hj. inversion Hj; subst j. split; [reflexivity|]. intros Ehl. rewrite Ehl.
      unfold put_healthy. fold a. destruct (o_type i); cbn [fst snd]; apply upd_same.
  Qed.

  Definition Js (s : hset) : Prop := J (all s) (hmain s) (hbackup s) (healthy s).

  Lemma put_other hm hb i x : x <> o_addr i ->
    fst (put_healthy desc hm hb i) x = hm x /\ snd (put_healthy desc hm hb i) x = hb x.
  Proof. intros H. unfold put_healthy. destruct (o_type i); cbn [fst snd]; split; try reflexivity; apply upd_other; exact H. Qed.

  Lemma put_if_other (b : bool) hm hb i hm2 hb2 x :
    (if b then put_healthy desc hm hb i else (hm, hb)) = (hm2, hb2) -> x <> o_addr i -> hm2 x = hm x /\ hb2 x = hb x.
  Proof.
    intros E Hx. destruct b; [|inversion E; subst; split; reflexivity].
    pose proof (put_other hm hb i x Hx) as [P1 P2]. rewrite E in P1, P2. cbn [fst snd] in P1, P2. split; assumption.
  Qed.

  Lemma J_add_one s i : Js s -> Js (add_one desc s i).
  Proof.
    intros HJ. pose proof HJ as [J1 [J2 J3]]. unfold Js in *. apply J_pointwise. intros x.
    pose proof (proj1 (J_pointwise _ _ _ _) HJ) as Hat.
    pose proof (J_clear _ _ _ _ (o_addr i) HJ) as Hclr. cbn zeta in Hclr.
    unfold add_one. set (a := o_addr i) in *.
    (* the maps before the put *)
    destruct (all s a) as [old|] eqn:Ea; [destruct (N.eqb_spec old i) as [->|Hne]|].
    - (* the same object is stored already *)
      destruct (if healthy s i then put_healthy desc (hmain s) (hbackup s) i else (hmain s, hbackup s)) as [hm2 hb2] eqn:Ep.
      cbn [set_maps all hmain hbackup healthy].
      destruct (N.eq_dec x a) as [->|Hx].
      + pose proof (J_at_store (all s) (hmain s) (hbackup s) (healthy s) i) as Hst. fold a in Hst. rewrite Ep in Hst. cbn [fst snd] in Hst.
        apply Hst.
        * intros j Hj. destruct (J1 a j Hj) as [Q [Q1 Q2]]. rewrite Ea in Q. inversion Q; subst. auto.
        * intros j Hj. destruct (J2 a j Hj) as [Q [Q1 Q2]]. rewrite Ea in Q. inversion Q; subst. auto.
      + destruct (put_if_other _ _ _ _ _ _ x Ep Hx) as [P1 P2].
        apply (J_frame _ _ _ _ _ _ _ _ x (Hat x)); try (apply upd_other; exact Hx); try reflexivity; assumption.
    - (* another object held the address: it leaves *)
      destruct (drop_healthy desc (hmain s) (hbackup s) old) as [hm1 hb1] eqn:Ed. cbn [fst snd] in Hclr.
      destruct Hclr as [C1 [C2 C3]].
      destruct (if healthy s i then put_healthy desc hm1 hb1 i else (hm1, hb1)) as [hm2 hb2] eqn:Ep.
      cbn [set_maps all hmain hbackup healthy].
      destruct (N.eq_dec x a) as [->|Hx].
      + pose proof (J_at_store (all s) hm1 hb1 (healthy s) i) as Hst. fold a in Hst. rewrite Ep in Hst. cbn [fst snd] in Hst.
        apply Hst; intros j Hj; congruence.
      + destruct (C3 x Hx) as [D1 D2]. destruct (put_if_other _ _ _ _ _ _ x Ep Hx) as [P1 P2].
        apply (J_frame _ _ _ _ _ _ _ _ x (Hat x)); try (apply upd_other; exact Hx); try reflexivity; congruence.
    - (* the address was free *)
      destruct Hclr as [C1 [C2 C3]].
      destruct (if healthy s i then put_healthy desc (hmain s) (hbackup s) i else (hmain s, hbackup s)) as [hm2 hb2] eqn:Ep.
      cbn [set_maps all hmain hbackup healthy].
      destruct (N.eq_dec x a) as [->|Hx].
      + pose proof (J_at_store (all s) (hmain s) (hbackup s) (healthy s) i) as Hst. fold a in Hst. rewrite Ep in Hst. cbn [fst snd] in Hst.
        apply Hst; intros j Hj; congruence.
      + destruct (put_if_other _ _ _ _ _ _ x Ep Hx) as [P1 P2].
        apply (J_frame _ _ _ _ _ _ _ _ x (Hat x)); try (apply upd_other; exact Hx); try reflexivity; assumption.
  Qed.

  Lemma J_at_empty_slot (al hm hb : amap) hl a : hm a = None -> hb a = None -> J_at (upd al a None) hm hb hl a.
  Proof.
    intros Hm Hb. unfold J_at. rewrite upd_same, Hm, Hb. split; [|split]; intros i Hi; discriminate.
  Qed.

  Lemma J_remove_one s i : Js s -> Js (remove_one desc s i).
  Proof.
    intros HJ. unfold Js in *. pose proof (proj1 (J_pointwise _ _ _ _) HJ) as Hat.
    pose proof (J_clear _ _ _ _ (o_addr i) HJ) as Hclr. cbn zeta in Hclr.
    unfold remove_one. set (a := o_addr i) in *.
    destruct (all s a) as [stored|] eqn:Ea.
    - destruct (drop_healthy desc (hmain s) (hbackup s) stored) as [hm1 hb1] eqn:Ed. cbn [fst snd] in Hclr.
      destruct Hclr as [C1 [C2 C3]]. cbn [set_maps all hmain hbackup healthy].
      apply J_pointwise. intros x. destruct (N.eq_dec x a) as [->|Hx].
      + apply J_at_empty_slot; assumption.
      + destruct (C3 x Hx) as [D1 D2].
        apply (J_frame _ _ _ _ _ _ _ _ x (Hat x)); try (apply upd_other; exact Hx); try reflexivity; assumption.
    - cbn [set_maps all hmain hbackup healthy]. exact HJ.
  Qed.

  Lemma J_build_cache s : Js s -> Js (build_cache U s).
  Proof. intros H. exact H. Qed.

  Lemma J_fold (f : hset -> oid -> hset) : (forall s i, Js s -> Js (f s i)) ->
    forall ids s, Js s -> Js (fold_left f ids s).
  Proof. intros Hf. induction ids as [|i ids IH]; intros s H; cbn [fold_left]; [exact H|]. apply IH. apply Hf. exact H. Qed.

  Lemma J_add s ids : Js s -> Js (add desc U s ids).
  Proof. intros H. unfold add. apply J_build_cache. apply J_fold; [intros; apply J_add_one; assumption | exact H]. Qed.

  Lemma J_remove s ids : Js s -> Js (remove desc U s ids).
  Proof. intros H. unfold remove. apply J_build_cache. apply J_fold; [intros; apply J_remove_one; assumption | exact H]. Qed.

  Lemma J_replace_all s ids : Js s -> Js (replace_all desc U s ids).
  Proof.
    intros H. unfold replace_all. apply J_add. apply J_fold; [|exact H].
    intros s0 i H0. apply J_remove. exact H0.
  Qed.

  Lemma is_obj_true m a i : is_obj m a i = true -> m a = Some i.
  Proof. unfold is_obj. destruct (m a) as [j|]; [|discriminate]. intros E. apply N.eqb_eq in E. subst. reflexivity. Qed.
  Lemma is_obj_false m a i : is_obj m a i = false -> m a <> Some i.
  Proof. unfold is_obj. intros E H. rewrite H in E. rewrite N.eqb_refl in E. discriminate. Qed.

  Lemma bupd_same m i v : bupd m i v i = v.
  Proof. unfold bupd. rewrite N.eqb_refl. reflexivity. Qed.
  Lemma bupd_other m i v x : x <> i -> bupd m i v x = m x.
  Proof. intros H. unfold bupd. destruct (N.eqb_spec x i); [contradiction | reflexivity]. Qed.

  (* the object stored under an address other than its own cannot be i *)
  Lemma stored_addr s x j : Js s -> all s x = Some j -> o_addr j = x.
  Proof. intros [_ [_ J3]] H. exact (proj1 (J3 x j H)). Qed.

  Lemma J_mark_healthy s i : Js s -> Js (fst (mark_healthy desc U s i)).
  Proof.
    intros HJ. unfold mark_healthy. destruct (healthy s i) eqn:Eh; [exact HJ|].
    unfold Js in *. pose proof (proj1 (J_pointwise _ _ _ _) HJ) as Hat. cbn [set_healthy_flag all hmain hbackup healthy removed].
    set (a := o_addr i) in *.
    destruct (is_obj (all s) a i) eqn:Em.
    - apply is_obj_true in Em.
      destruct (put_healthy desc (hmain s) (hbackup s) i) as [hm2 hb2] eqn:Ep.
      cbn [fst build_cache set_maps all hmain hbackup healthy]. apply J_pointwise. intros x.
      destruct (N.eq_dec x a) as [->|Hx].
      + pose proof (J_at_store (all s) (hmain s) (hbackup s) (bupd (healthy s) i true) i) as Hst.
        rewrite bupd_same in Hst. fold a in Hst. rewrite Ep in Hst. cbn [fst snd] in Hst.
        assert (Eu : upd (all s) a (Some i) a = all s a) by (rewrite upd_same; symmetry; exact Em).
        destruct HJ as [J1 [J2 J3]].
        assert (G : J_at (upd (all s) a (Some i)) hm2 hb2 (bupd (healthy s) i true) a).
        { apply Hst.
          - intros j Hj. destruct (J1 a j Hj) as [Q [Q1 Q2]]. rewrite Em in Q. inversion Q; subst. congruence.
          - intros j Hj. destruct (J2 a j Hj) as [Q [Q1 Q2]]. rewrite Em in Q. inversion Q; subst. congruence. }
        unfold J_at in *. rewrite upd_same in G. rewrite Em. exact G.
      + pose proof (put_other (hmain s) (hbackup s) i x Hx) as [P1 P2]. rewrite Ep in P1, P2. cbn [fst snd] in P1, P2.
        apply (J_frame _ _ _ _ _ _ _ _ x (Hat x)); try reflexivity; try assumption.
        intros j Hj. apply bupd_other. intros ->. apply Hx. symmetry. exact (stored_addr s x i HJ Hj).
    - apply is_obj_false in Em. cbn [fst all hmain hbackup healthy]. apply J_pointwise. intros x.
      apply (J_frame _ _ _ _ _ _ _ _ x (Hat x)); try reflexivity.
      intros j Hj. apply bupd_other. intros ->. apply Em. rewrite <- (stored_addr s x i HJ Hj) in Hj. exact Hj.
  Qed.

  Lemma J_mark_unhealthy s i : Js s -> Js (fst (mark_unhealthy desc U s i)).
  Proof.
    intros HJ. unfold mark_unhealthy. destruct (healthy s i) eqn:Eh; cbn [negb]; [|exact HJ].
    unfold Js in *. pose proof (proj1 (J_pointwise _ _ _ _) HJ) as Hat. cbn [set_healthy_flag all hmain hbackup healthy removed].
    set (a := o_addr i) in *. pose proof HJ as [J1 [J2 J3]].
    destruct (is_obj (all s) a i) eqn:Em.
    - apply is_obj_true in Em.
      assert (Hstep : forall hm2 hb2,
                (hm2, hb2) = match o_type i with
                             | Main => (upd (hmain s) a None, hbackup s)
                             | Backup => (hmain s, upd (hbackup s) a None)
                             end ->
                J (all s) hm2 hb2 (bupd (healthy s) i false)).
      { intros hm2 hb2 E. apply J_pointwise. intros x. destruct (N.eq_dec x a) as [->|Hx].
        - unfold J_at. rewrite Em. destruct (o_type i) eqn:Et; inversion E; subst hm2 hb2; split; [|split| |split]; intros j Hj.
          + rewrite upd_same in Hj. discriminate.
          + destruct (J2 a j Hj) as [Q [Q1 Q2]]. rewrite Em in Q. inversion Q; subst. congruence.
          + inversion Hj; subst j. split; [reflexivity|]. rewrite bupd_same. discriminate.
          + destruct (J1 a j Hj) as [Q [Q1 Q2]]. rewrite Em in Q. inversion Q; subst. congruence.
          + rewrite upd_same in Hj. discriminate.
          + inversion Hj; subst j. split; [reflexivity|]. rewrite bupd_same. discriminate.
        - assert (hm2 x = hmain s x /\ hb2 x = hbackup s x) as [P1 P2].
          { destruct (o_type i); inversion E; subst; split; try reflexivity; apply upd_other; exact Hx. }
          apply (J_frame _ _ _ _ _ _ _ _ x (Hat x)); try reflexivity; try assumption.
          intros j Hj. apply bupd_other. intros ->. apply Hx. symmetry. exact (stored_addr s x i HJ Hj). }
      destruct (o_type i); cbn [fst build_cache set_maps all hmain hbackup healthy]; eapply Hstep; reflexivity.
    - apply is_obj_false in Em. cbn [fst]. unfold set_healthy_flag. cbn [all hmain hbackup healthy]. apply J_pointwise. intros x.
      assert (Hnot : forall j, all s x = Some j -> j <> i).
      { intros j Hj ->. apply Em. rewrite <- (stored_addr s x i HJ Hj) in Hj. exact Hj. }
      destruct (Hat x) as [H1 [H2 H3]]. unfold J_at. split; [|split]; intros j Hj.
      + destruct (H1 j Hj) as [Q [Q1 Q2]]. rewrite bupd_other by (apply (Hnot j Q)). auto.
      + destruct (H2 j Hj) as [Q [Q1 Q2]]. rewrite bupd_other by (apply (Hnot j Q)). auto.
      + destruct (H3 j Hj) as [Q Q1]. rewrite bupd_other by (apply (Hnot j Hj)). auto.
  Qed.

  Lemma J_step s o : Js s -> Js (hstep desc U s o).
  Proof.
    intros H. destruct o; cbn [hstep]; [apply J_add | apply J_remove | apply J_replace_all | apply J_mark_healthy | apply J_mark_unhealthy]; exact H.
  Qed.

  (* ---- the cached usable list ---- *)
  Definition Cs (s : hset) : Prop :=
    cache s = match members U (hmain s) with [] => members U (hbackup s) | l => l end.

  Lemma C_step s o : Cs s -> Cs (hstep desc U s o).
  Proof.
    intros H. destruct o; cbn [hstep]; try reflexivity.
    - unfold mark_healthy. destruct (healthy s i); [exact H|].
      destruct (is_obj _ _ _); [destruct (put_healthy _ _ _ _); reflexivity | exact H].
    - unfold mark_unhealthy. destruct (negb (healthy s i)); [exact H|].
      destruct (is_obj _ _ _); [destruct (o_type i); reflexivity | exact H].
  Qed.

  Lemma members_tier s : Js s ->
    members U (hmain s) = tier_members desc U s Main /\ members U (hbackup s) = tier_members desc U s Backup.
  Proof.
    intros [J1 [J2 J3]]. unfold tier_members, members.
    induction U as [|a U' IH]; [split; reflexivity|]. cbn [flat_map]. rewrite !filter_app.
    destruct IH as [IH1 IH2]. rewrite IH1, IH2. split; f_equal.
    - destruct (hmain s a) as [i|] eqn:Em.
      + destruct (J1 a i Em) as [Q [Q1 Q2]]. rewrite Q. cbn [filter]. rewrite Q1, Q2. reflexivity.
      + destruct (all s a) as [i|] eqn:Ea; [|reflexivity]. cbn [filter].
        destruct (healthy s i) eqn:Eh; [|reflexivity]. destruct (J3 a i Ea) as [_ Q]. specialize (Q Eh).
        destruct (o_type i); [congruence | reflexivity].
    - destruct (hbackup s a) as [i|] eqn:Em.
      + destruct (J2 a i Em) as [Q [Q1 Q2]]. rewrite Q. cbn [filter]. rewrite Q1, Q2. reflexivity.
      + destruct (all s a) as [i|] eqn:Ea; [|reflexivity]. cbn [filter].
        destruct (healthy s i) eqn:Eh; [|reflexivity]. destruct (J3 a i Ea) as [_ Q]. specialize (Q Eh).
        destruct (o_type i); [reflexivity | congruence].
  Qed.

  Lemma usable_is_spec s : Js s -> Cs s -> cache s = usable_spec desc U s.
  Proof.
    intros HJ HC. unfold usable_spec. destruct (members_tier s HJ) as [E1 E2]. rewrite <- E1, <- E2. exact HC.
  Qed.

  Lemma members_none : members U (fun _ => None) = [].
  Proof. unfold members. induction U as [|a U' IH]; [reflexivity|]. cbn [flat_map app]. exact IH. Qed.

  Definition run (ops : list (hop)) : hset := fold_left (hstep desc U) ops empty.

  Lemma reachable_inv ops : Js (run ops) /\ Cs (run ops).
  Proof.
    unfold run. assert (G : forall s, Js s /\ Cs s -> Js (fold_left (hstep desc U) ops s) /\ Cs (fold_left (hstep desc U) ops s)).
    { induction ops as [|o ops IH]; intros s H; cbn [fold_left]; [exact H|].
      apply IH. destruct H as [H1 H2]. split; [apply J_step; exact H1 | apply C_step; exact H2]. }
    apply G. split; [apply J_empty | unfold Cs, empty; cbn [cache hmain hbackup]; rewrite members_none; reflexivity].
  Qed.

  (* after ANY sequence of additions, removals, replacements and health marks (with any objects, incl. the
     same address re-added as another object or with another type, stale objects, repeated operations) the
     usable list is exactly the members marked healthy in the preferred tier, in address order *)
  Theorem usable_correct ops : cache (run ops) = usable_spec desc U (run ops).
  Proof. destruct (reachable_inv ops) as [H1 H2]. apply usable_is_spec; assumption. Qed.

  (* ... one entry per address at most, in the order of the address universe; only members are listed *)
  Theorem usable_members ops i : In i (cache (run ops)) -> all (run ops) (o_addr i) = Some i /\ healthy (run ops) i = true.
  Proof.
    rewrite usable_correct. destruct (reachable_inv ops) as [[_ [_ J3]] _]. unfold usable_spec, tier_members, members.
    intros Hin.
    assert (G : forall t, In i (filter (fun i0 => healthy (run ops) i0 && htype_eqb (o_type i0) t)
                               (flat_map (fun a => match all (run ops) a with Some i0 => [i0] | None => [] end) U)) ->
                          all (run ops) (o_addr i) = Some i /\ healthy (run ops) i = true).
    { intros t H. apply filter_In in H. destruct H as [H1 H2]. apply andb_true_iff in H2. destruct H2 as [H2 _].
      apply in_flat_map in H1. destruct H1 as [a [_ Ha]]. destruct (all (run ops) a) as [j|] eqn:Ea; [|destruct Ha].
      destruct Ha as [->|[]]. destruct (J3 a i Ea) as [Q _]. rewrite Q. split; assumption. }
    destruct (filter _ _) eqn:E in Hin.
    - apply (G Backup). exact Hin.
    - apply (G Main). rewrite E. exact Hin.
  Qed.
End Inv.

(* ---------- hysteresis ---------- *)

Lemma trailing_snoc_same b h : trailing b (b :: h) = 1 + trailing b h.
Proof. cbn [trailing]. rewrite Bool.eqb_reflx. reflexivity. Qed.
Lemma trailing_snoc_other b h : trailing b (negb b :: h) = 0.
Proof. cbn [trailing]. destruct b; reflexivity. Qed.

(* the counters never exceed the number of consecutive equal results just observed *)
Definition hc_inv (s : hc_state) (rev_hist : list bool) : Prop :=
  succ s <= trailing true rev_hist /\ fail s <= trailing false rev_hist.

Lemma hc_inv_step rise fall s h ok : hc_inv s h -> hc_inv (hc_step rise fall s ok) (ok :: h).
Proof.
  intros [H1 H2]. unfold hc_step, hc_inv. destruct ok.
  - rewrite trailing_snoc_same. change (true :: h) with (negb false :: h). rewrite trailing_snoc_other.
    destruct (rise <? succ s + 1); cbn [succ fail]; lia.
  - rewrite trailing_snoc_same. change (false :: h) with (negb true :: h). rewrite trailing_snoc_other.
    destruct (fall <? fail s + 1); cbn [succ fail]; lia.
Qed.

(* the flag flips to unhealthy only at a failure that completes more than `fall` consecutive failures
   (any success in between restarts the count), and symmetrically for healthy *)
Lemma flip_needs_run rise fall s h ok : hc_inv s h ->
  flag (hc_step rise fall s ok) <> flag s ->
  (ok = false /\ flag s = true /\ fall < trailing false (ok :: h)) \/
  (ok = true /\ flag s = false /\ rise < trailing true (ok :: h)).
Proof.
  intros [H1 H2] Hf. unfold hc_step in Hf. destruct ok.
  - right. destruct (N.ltb_spec rise (succ s + 1)) as [Hlt|Hge]; cbn [flag] in Hf; [|congruence].
    rewrite trailing_snoc_same. destruct (flag s); [congruence|]. repeat split. lia.
  - left. destruct (N.ltb_spec fall (fail s + 1)) as [Hlt|Hge]; cbn [flag] in Hf; [|congruence].
    rewrite trailing_snoc_same. destruct (flag s); [|congruence]. repeat split. lia.
Qed.

Lemma hc_inv_run rise fall results : forall s h, hc_inv s h -> hc_inv (hc_run rise fall s results) (rev results ++ h).
Proof.
  induction results as [|r rs IH]; intros s h H; cbn [hc_run fold_left rev app]; [exact H|].
  rewrite <- app_assoc. cbn [app]. apply (IH _ (r :: h)). apply hc_inv_step. exact H.
Qed.

Lemma hc_inv_run_cfg l : forall s h, hc_inv s h -> hc_inv (hc_run_cfg s l) (rev (map snd l) ++ h).
Proof.
  induction l as [|x t IH]; intros s h H; cbn [hc_run_cfg fold_left map rev app]; [exact H|].
  rewrite <- app_assoc. cbn [app]. apply (IH _ (snd x :: h)). apply hc_inv_step. exact H.
Qed.

(* ---------- balancing policies ---------- *)

Lemma rand_member r n : 0 < n -> rand_pick r n < n.
Proof. intros H. unfold rand_pick. apply N.mod_lt. lia. Qed.

Lemma rr_member c n : 0 < n -> snd (rr_pick c n) < n.
Proof. intros H. unfold rr_pick. cbn [snd]. apply N.mod_lt. lia. Qed.

Lemma least_member r1 r2 conns : conns <> [] -> least_pick r1 r2 conns < N.of_nat (length conns).
Proof.
  intros H. unfold least_pick. assert (0 < N.of_nat (length conns)) by (destruct conns; [contradiction | cbn [length]; lia]).
  destruct (_ <? _); apply N.mod_lt; lia.
Qed.

(* least-connection never prefers the strictly busier of its two samples *)
Lemma least_not_busier r1 r2 conns : conns <> [] ->
  let n := N.of_nat (length conns) in
  let c i := nth (N.to_nat i) conns 0 in
  c (least_pick r1 r2 conns) <= c (r1 mod n) /\ c (least_pick r1 r2 conns) <= c (r2 mod n).
Proof.
  intros H n c. unfold least_pick. fold n. fold (c (r1 mod n)). fold (c (r2 mod n)).
  destruct (N.ltb_spec (c (r1 mod n)) (c (r2 mod n))); lia.
Qed.

(* round robin: any n consecutive counter values select each of the n hosts exactly once *)
Lemma mod_window_perm n : (0 < n)%nat -> forall c,
  Permutation (map (fun t => (t mod n)%nat) (seq (c + 1) n)) (seq 0 n).
Proof.
  intros Hn. induction c as [|c IH].
  - cbn [plus]. destruct n as [|n']; [lia|].
    replace (seq 1 (S n')) with (seq 1 n' ++ [S n']) by (rewrite <- seq_S; reflexivity).
    rewrite map_app. cbn [map]. rewrite Nat.mod_same by lia.
    eapply perm_trans; [apply Permutation_app_comm|]. cbn [app seq].
    apply perm_skip.
    rewrite (map_ext_in _ (fun t => t)); [rewrite map_id; apply Permutation_refl|].
    intros t Ht. apply in_seq in Ht. apply Nat.mod_small. lia.
  - replace (seq (S c + 1) n) with (seq (c + 2) (n - 1) ++ [c + 1 + n])%nat.
    2:{ destruct n as [|n']; [lia|]. replace (S n' - 1)%nat with n' by lia.
        replace (S c + 1)%nat with (c + 2)%nat by lia. rewrite seq_S. f_equal. f_equal. lia. }
    rewrite map_app. cbn [map].
    eapply perm_trans; [apply Permutation_app_comm|]. cbn [app].
    eapply perm_trans; [|exact IH].
    destruct n as [|n']; [lia|]. replace (S n' - 1)%nat with n' by lia.
    cbn [seq map]. replace (c + 2)%nat with (S (c + 1)) by lia.
    replace ((c + 1 + S n') mod S n')%nat with ((c + 1) mod S n')%nat; [apply Permutation_refl|].
    rewrite <- (Nat.mod_add (c + 1) 1 (S n')) by lia. f_equal. lia.
Qed.

(* removing a host (through ANY object carrying its address) closes the removal latch of the stored
   object, which is the one established connections watch *)
Lemma removed_after_remove desc U s i st : all s (o_addr desc i) = Some st ->
  removed (remove desc U s [i]) st = true /\ all (remove desc U s [i]) (o_addr desc i) = None.
Proof.
  intros H. unfold remove. cbn [fold_left]. unfold remove_one. rewrite H.
  destruct (drop_healthy desc (hmain s) (hbackup s) st) as [hm hb]. cbn [build_cache set_maps removed all].
  split; [|apply upd_same].
  unfold bupd. destruct (st =? i); [reflexivity|]. rewrite N.eqb_refl. reflexivity.
Qed.

(* replacing a stored host by another object with the same address also closes the old object's latch *)
Lemma removed_after_readd desc U s i old : all s (o_addr desc i) = Some old -> old <> i ->
  removed (add desc U s [i]) old = true.
Proof.
  intros H Hne. unfold add. cbn [fold_left]. unfold add_one. rewrite H.
  destruct (N.eqb_spec old i); [contradiction|].
  destruct (drop_healthy desc (hmain s) (hbackup s) old) as [hm hb].
  destruct (if healthy s i then put_healthy desc hm hb i else (hm, hb)) as [hm2 hb2].
  cbn [build_cache set_maps removed]. apply bupd_same.
Qed.
