(* Proofs about Model/Relay.v *)
From Coq Require Import List NArith Bool Lia.
From Sam Require Import Gen.Tables Model.Bytes Model.Relay.
Import ListNotations.
Open Scope N_scope.

Lemma take_drop {A} (l : list A) : forall n, takeN n l ++ dropN n l = l.
Proof.
  induction l as [|x t IH]; intros n; [reflexivity|]. cbn [takeN dropN].
  destruct (N.eqb n 0); [reflexivity|]. cbn [app]. f_equal. apply IH.
Qed.

(* what has been delivered plus what is still unread is exactly what was sent, in order: nothing added, dropped,
   duplicated or reordered; and end-of-stream is delivered only when nothing is unread and the source has finished *)
Definition RInv (sent : bytes) (closed : bool) (d : dir) : Prop :=
  delivered d ++ unread d = sent /\ src_closed d = closed /\ (eof_delivered d = true -> unread d = [] /\ closed = true).

Lemma rstep_inv B o : forall d sent closed, RInv sent closed d ->
  RInv (match o with RSend data => if closed then sent else sent ++ data | _ => sent end)
       (match o with RFinish => true | _ => closed end) (rstep B d o).
Proof.
  intros d sent closed [I1 [I2 I3]]. destruct d as [u sc dl ef]. cbn [unread src_closed delivered eof_delivered] in *. subst sc.
  destruct o as [data| |k]; cbn [rstep unread src_closed delivered eof_delivered].
  - destruct closed; unfold RInv; cbn [unread src_closed delivered eof_delivered]; [auto|].
    split; [rewrite app_assoc, I1; reflexivity|]. split; [reflexivity|]. intros E. destruct (I3 E) as [_ C]. discriminate.
  - unfold RInv; cbn [unread src_closed delivered eof_delivered]. split; [exact I1|]. split; [reflexivity|]. intros E. destruct (I3 E) as [U _]. auto.
  - destruct ef; [unfold RInv; cbn [unread src_closed delivered eof_delivered]; auto|].
    destruct u as [|x t].
    + destruct closed; unfold RInv; cbn [unread src_closed delivered eof_delivered].
      * split; [exact I1|]. split; [reflexivity|]. auto.
      * split; [exact I1|]. split; [reflexivity|]. discriminate.
    + unfold RInv; cbn [unread src_closed delivered eof_delivered]. split; [rewrite <- app_assoc, take_drop; exact I1|]. split; [reflexivity|]. discriminate.
Qed.

(* every history of sends, a half-close and copy rounds of any sizes *)
Theorem relay_exact B l : let d := rrun B l in
  delivered d ++ unread d = sent_of l false /\ (eof_delivered d = true -> delivered d = sent_of l false).
Proof.
  assert (G : forall l d sent closed, RInv sent closed d ->
            let d' := fold_left (rstep B) l d in
            exists closed', RInv (sent ++ sent_of l closed) closed' d').
  { induction l0 as [|o t IH]; intros d sent closed I; cbn [fold_left sent_of]; [exists closed; rewrite app_nil_r; exact I|].
    pose proof (rstep_inv B o d sent closed I) as I'. destruct o as [data| |k].
    - destruct closed.
      + destruct (IH _ _ _ I') as [c' H]. exists c'. exact H.
      + destruct (IH _ _ _ I') as [c' H]. exists c'. rewrite <- app_assoc in H. exact H.
    - destruct (IH _ _ _ I') as [c' H]. exists c'. exact H.
    - destruct (IH _ _ _ I') as [c' H]. exists c'. exact H. }
  intros d. destruct (G l rinit [] false) as [c' [I1 [I2 I3]]]; [unfold RInv, rinit; cbn; auto|].
  fold (rrun B l) in *. fold d in I1, I2, I3. cbn [app] in *. split; [exact I1|].
  intros E. destruct (I3 E) as [U _]. rewrite U, app_nil_r in I1. exact I1.
Qed.

(* delivered bytes are always a prefix of what was sent *)
Corollary relay_prefix B l : exists rest, sent_of l false = delivered (rrun B l) ++ rest.
Proof. exists (unread (rrun B l)). symmetry. apply relay_exact. Qed.

(* progress: while something is unread, a copy round delivers at least one more byte; when the source has finished and
   nothing is unread, the next round delivers end-of-stream *)
Lemma copy_progress B d k : 1 <= B -> eof_delivered d = false -> unread d <> [] ->
  lenN (unread (rstep B d (RCopy k))) < lenN (unread d).
Proof.
  intros HB E U. cbn [rstep]. rewrite E. destruct (unread d) as [|x t] eqn:Eu; [contradiction|]. cbn [unread].
  set (n := N.min (N.max 1 k) B). assert (Hn : 1 <= n) by (unfold n; lia).
  cbn [dropN]. destruct (N.eqb_spec n 0); [lia|]. cbn [lenN].
  assert (G : forall (l : bytes) m, lenN (dropN m l) <= lenN l).
  { induction l as [|y l IH]; intros m; cbn [dropN lenN]; [lia|]. destruct (N.eqb m 0); cbn [lenN]; [lia|]. specialize (IH (N.pred m)). lia. }
  specialize (G t (N.pred n)). lia.
Qed.

Lemma copy_eof B d k : eof_delivered d = false -> unread d = [] -> src_closed d = true -> eof_delivered (rstep B d (RCopy k)) = true.
Proof. intros E U S. cbn [rstep]. rewrite E, U, S. reflexivity. Qed.

(* bytes never wait for more bytes: with nothing further sent, copy rounds alone deliver everything that is unread -
   one round per byte is always enough, whatever the sizes of the reads (a request/response exchange cannot stall) *)
Definition copy_rounds (B : N) (d : dir) (ks : list N) : dir := fold_left (fun d k => rstep B d (RCopy k)) ks d.

Lemma copy_rounds_idle B ks : forall d, unread d = [] ->
  unread (copy_rounds B d ks) = [] /\ delivered (copy_rounds B d ks) = delivered d.
Proof.
  induction ks as [|k t IH]; intros d U; [split; [exact U | reflexivity]|].
  cbn [copy_rounds fold_left]. fold (copy_rounds B (rstep B d (RCopy k)) t).
  assert (H : unread (rstep B d (RCopy k)) = [] /\ delivered (rstep B d (RCopy k)) = delivered d).
  { cbn [rstep]. destruct (eof_delivered d); [split; [exact U | reflexivity]|]. rewrite U.
    destruct (src_closed d); split; try reflexivity; exact U. }
  destruct H as [H1 H2]. destruct (IH _ H1) as [J1 J2]. split; [exact J1 | congruence].
Qed.

Lemma copy_drains B ks : forall d, 1 <= B -> eof_delivered d = false -> lenN (unread d) <= N.of_nat (length ks) ->
  unread (copy_rounds B d ks) = [] /\ delivered (copy_rounds B d ks) = delivered d ++ unread d.
Proof.
  induction ks as [|k t IH]; intros d HB E L.
  - cbn [length] in L. destruct (unread d) as [|x u] eqn:Eu; [split; [exact Eu | rewrite app_nil_r; reflexivity]|].
    cbn [lenN length] in L. lia.
  - destruct (unread d) as [|x u] eqn:Eu.
    + destruct (copy_rounds_idle B (k :: t) d Eu) as [H1 H2]. split; [exact H1 | rewrite H2, app_nil_r; reflexivity].
    + cbn [copy_rounds fold_left]. fold (copy_rounds B (rstep B d (RCopy k)) t).
      assert (Hne : unread d <> []) by (rewrite Eu; discriminate).
      pose proof (copy_progress B d k HB E Hne) as Hp.
      assert (Hs : eof_delivered (rstep B d (RCopy k)) = false /\
                   delivered (rstep B d (RCopy k)) ++ unread (rstep B d (RCopy k)) = delivered d ++ unread d).
      { cbn [rstep]. rewrite E, Eu. cbn [eof_delivered delivered unread]. split; [reflexivity|].
        rewrite <- app_assoc, take_drop. reflexivity. }
      destruct Hs as [E1 D1].
      destruct (IH (rstep B d (RCopy k)) HB E1) as [J1 J2].
      * rewrite Eu in Hp. cbn [length] in L. rewrite Nat2N.inj_succ in L. lia.
      * split; [exact J1 | rewrite J2, D1, Eu; reflexivity].
Qed.

(* the other direction is untouched by anything that happens in this one *)
Lemma directions_independent B c2b b2c extra : snd (both B (c2b ++ extra) b2c) = snd (both B c2b b2c).
Proof. reflexivity. Qed.

Lemma tcp_buf_ok : 1 <= tcp_buf_size.
Proof. vm_compute. discriminate. Qed.
