From Coq Require Import List NArith Bool Lia.
From Sam Require Import Model.ConfigStore.
Import ListNotations.
Open Scope N_scope.

(* ---------- address-keyed lists ---------- *)
Definition addrs (l : list ep) : list N := map eaddr l.
Definition uniq (l : list ep) : Prop := NoDup (addrs l).
Definition same (a b : list ep) : Prop := forall x, find_addr x a = find_addr x b.

Lemma has_addr_In a l : has_addr a l = true <-> In a (addrs l).
Proof.
  unfold has_addr, addrs. rewrite existsb_exists, in_map_iff. split.
  - intros [e [H1 H2]]. apply N.eqb_eq in H2. exists e. split; [exact H2 | exact H1].
  - intros [e [H1 H2]]. exists e. split; [exact H2 | apply N.eqb_eq; exact H1].
Qed.

Lemma has_addr_false a l : has_addr a l = false <-> ~ In a (addrs l).
Proof.
  rewrite <- has_addr_In. destruct (has_addr a l); split; intros H.
  - discriminate.
  - exfalso. apply H. reflexivity.
  - intros H2. discriminate.
  - reflexivity.
Qed.

Lemma find_addr_none a l : ~ In a (addrs l) -> find_addr a l = None.
Proof.
  unfold find_addr. induction l as [|e l IH]; intros H; [reflexivity|]. cbn [find].
  destruct (N.eqb_spec (eaddr e) a) as [E|E]; [exfalso; apply H; left; exact E|].
  apply IH. intros Hi. apply H. right. exact Hi.
Qed.

Lemma find_addr_cons a e l : find_addr a (e :: l) = if eaddr e =? a then Some (ebackup e) else find_addr a l.
Proof. unfold find_addr. cbn [find]. destruct (eaddr e =? a); reflexivity. Qed.

Lemma find_addr_app a l e : find_addr a (l ++ [e]) =
  match find_addr a l with Some b => Some b | None => if eaddr e =? a then Some (ebackup e) else None end.
Proof.
  induction l as [|x l IH]; cbn [app]; [rewrite find_addr_cons; reflexivity|].
  rewrite !find_addr_cons. destruct (eaddr x =? a); [reflexivity | exact IH].
Qed.

Lemma addrs_remove a l x : In x (addrs (remove_addr a l)) -> In x (addrs l).
Proof.
  induction l as [|e l IH]; cbn [remove_addr]; [intros []|]. destruct (eaddr e =? a); cbn [addrs map].
  - intros H. right. exact H.
  - intros [H|H]; [left; exact H | right; apply IH; exact H].
Qed.

Lemma uniq_remove a l : uniq l -> uniq (remove_addr a l) /\ ~ In a (addrs (remove_addr a l)) /\
  (forall x, x <> a -> find_addr x (remove_addr a l) = find_addr x l).
Proof.
  unfold uniq. induction l as [|e l IH]; intros H; cbn [remove_addr].
  - split; [exact H | split; [intros [] | reflexivity]].
  - cbn [addrs map] in H. inversion H as [|? ? Hn Hd]; subst. destruct (N.eqb_spec (eaddr e) a) as [E|E].
    + subst a. split; [exact Hd | split; [exact Hn|]]. intros x Hx. rewrite find_addr_cons.
      destruct (N.eqb_spec (eaddr e) x); [congruence | reflexivity].
    + destruct (IH Hd) as [I1 [I2 I3]]. split; [|split].
      * cbn [addrs map]. constructor; [intros Hi; apply Hn; apply (addrs_remove a); exact Hi | exact I1].
      * cbn [addrs map]. intros [Hi|Hi]; [congruence | exact (I2 Hi)].
      * intros x Hx. rewrite !find_addr_cons. destruct (eaddr e =? x); [reflexivity | apply I3; exact Hx].
Qed.

Lemma NoDup_snoc {A} (l : list A) x : NoDup l -> ~ In x l -> NoDup (l ++ [x]).
Proof.
  induction l as [|y l IH]; intros H Hn; cbn [app]; [constructor; [intros [] | constructor]|].
  inversion H as [|? ? Hy Hd]; subst. constructor.
  - intros Hi. apply in_app_or in Hi. destruct Hi as [Hi|[Hi|[]]]; [exact (Hy Hi) | subst; apply Hn; left; reflexivity].
  - apply IH; [exact Hd | intros Hi; apply Hn; right; exact Hi].
Qed.

Lemma uniq_snoc l e : uniq l -> ~ In (eaddr e) (addrs l) -> uniq (l ++ [e]).
Proof. unfold uniq, addrs. intros H Hn. rewrite map_app. cbn [map]. apply NoDup_snoc; assumption. Qed.

(* host.Set.Add on the controller side *)
Lemma host_add_spec hs e : uniq hs -> uniq (host_add hs e) /\
  (forall x, find_addr x (host_add hs e) = if eaddr e =? x then Some (ebackup e) else find_addr x hs).
Proof.
  intros H. unfold host_add. destruct (uniq_remove (eaddr e) hs H) as [U1 [U2 U3]]. split.
  - apply uniq_snoc; assumption.
  - intros x. rewrite find_addr_app. destruct (N.eqb_spec (eaddr e) x) as [E|E].
    + subst x. rewrite (find_addr_none _ _ U2). reflexivity.
    + rewrite U3 by congruence. destruct (find_addr x hs); reflexivity.
Qed.

Lemma host_remove_spec hs e : uniq hs -> uniq (host_remove hs e) /\
  (forall x, find_addr x (host_remove hs e) = if eaddr e =? x then None else find_addr x hs).
Proof.
  intros H. unfold host_remove. destruct (uniq_remove (eaddr e) hs H) as [U1 [U2 U3]]. split; [exact U1|].
  intros x. destruct (N.eqb_spec (eaddr e) x) as [E|E]; [subst x; apply find_addr_none; exact U2 | apply U3; congruence].
Qed.

(* the store's removal loop against the controller's removals *)
Lemma removals_sync removed : forall cur hs c1 vrem, uniq cur -> uniq hs -> same hs cur ->
  ep_removals cur removed = (c1, vrem) ->
  uniq c1 /\ uniq (fold_left host_remove vrem hs) /\ same (fold_left host_remove vrem hs) c1.
Proof.
  induction removed as [|e t IH]; intros cur hs c1 vrem Uc Uh Hs H; cbn [ep_removals] in H.
  - inversion H; subst. cbn [fold_left]. auto.
  - destruct (has_addr (eaddr e) cur) eqn:Eh.
    + destruct (ep_removals (remove_addr (eaddr e) cur) t) as [c' v] eqn:Er. inversion H; subst c1 vrem. cbn [fold_left].
      destruct (uniq_remove (eaddr e) cur Uc) as [U1 [U2 U3]]. destruct (host_remove_spec hs e Uh) as [V1 V2].
      apply (IH (remove_addr (eaddr e) cur) (host_remove hs e) c' v U1 V1); [|exact Er].
      intros x. rewrite V2. destruct (N.eqb_spec (eaddr e) x) as [E|E]; [subst x; symmetry; apply find_addr_none; exact U2|].
      rewrite U3 by congruence. apply Hs.
    + apply (IH cur hs c1 vrem Uc Uh Hs H).
Qed.

Lemma additions_sync added : forall cur hs c2 vadd, uniq cur -> uniq hs -> same hs cur ->
  ep_additions cur added = (c2, vadd) ->
  uniq c2 /\ uniq (fold_left host_add vadd hs) /\ same (fold_left host_add vadd hs) c2.
Proof.
  induction added as [|e t IH]; intros cur hs c2 vadd Uc Uh Hs H; cbn [ep_additions] in H.
  - inversion H; subst. cbn [fold_left]. auto.
  - destruct (has_addr (eaddr e) cur) eqn:Eh.
    + apply (IH cur hs c2 vadd Uc Uh Hs H).
    + destruct (ep_additions (cur ++ [e]) t) as [c' v] eqn:Er. inversion H; subst c2 vadd. cbn [fold_left].
      apply has_addr_false in Eh. destruct (host_add_spec hs e Uh) as [V1 V2].
      apply (IH (cur ++ [e]) (host_add hs e) c' v (uniq_snoc cur e Uc Eh) V1); [|exact Er].
      intros x. rewrite V2, find_addr_app. rewrite <- (Hs x). destruct (N.eqb_spec (eaddr e) x) as [E|E].
      * subst x. rewrite (Hs (eaddr e)). rewrite (find_addr_none _ _ Eh). reflexivity.
      * destruct (find_addr x hs); reflexivity.
Qed.

(* building a host set from the endpoint list of an add event *)
Lemma build_hosts eps : uniq eps -> uniq (fold_left host_add eps []) /\ same (fold_left host_add eps []) eps.
Proof.
  intros H. assert (G : forall l hs done, uniq hs -> same hs done -> uniq (done ++ l) ->
                        uniq (fold_left host_add l hs) /\ same (fold_left host_add l hs) (done ++ l)).
  { induction l as [|e l IH]; intros hs done Uh Hs Ud; cbn [fold_left].
    - rewrite app_nil_r in *. split; assumption.
    - destruct (host_add_spec hs e Uh) as [V1 V2].
      replace (done ++ e :: l) with ((done ++ [e]) ++ l) in * by (rewrite <- app_assoc; reflexivity).
      apply IH; [exact V1 | | exact Ud].
      intros x. rewrite V2, find_addr_app, <- (Hs x).
      assert (Hn : ~ In (eaddr e) (addrs done)).
      { unfold uniq, addrs in Ud. rewrite !map_app in Ud. cbn [map] in Ud.
        intros Hi. rewrite <- app_assoc in Ud. apply NoDup_remove_2 in Ud. apply Ud. apply in_or_app. left. exact Hi. }
      destruct (N.eqb_spec (eaddr e) x) as [E|E].
      + subst x. rewrite (Hs (eaddr e)), (find_addr_none _ _ Hn). reflexivity.
      + destruct (find_addr x hs); reflexivity. }
  apply (G eps [] []); [constructor | intros x; reflexivity | exact H].
Qed.

(* ---------- the store and the controller stay in step ---------- *)

Definition eps_ok (w : sw) : Prop :=
  match s_eps w with Some l => uniq l | None => True end /\
  match s_cfg w with Some cf => cvalid cf = true | None => True end.

Definition in_step (s : store) (c : ctl) (n : name) : Prop :=
  match s n with
  | Some {| s_cfg := Some cf; s_eps := Some l |} =>
    exists p, c n = Some p /\ p_cfg p = cf /\ uniq (p_hosts p) /\ same (p_hosts p) l
  | _ => c n = None
  end.

Definition Inv (s : store) (c : ctl) : Prop :=
  (forall n w, s n = Some w -> eps_ok w) /\ (forall n, in_step s c n).

(* what the theorem assumes of a history: static services are declared once, with a valid configuration and
   distinct endpoint addresses; every configuration delivered later validates *)
Definition op_ok (s : store) (o : sop) : Prop :=
  match o with
  | OStatic n c eps => s n = None /\ (exists cf, c = Some cf /\ cvalid cf = true) /\ (exists l, eps = Some l /\ uniq l)
  | OCfg n cf => cvalid cf = true
  | _ => True
  end.

Lemma sset_same s n v : sset s n v n = v.
Proof. unfold sset. rewrite N.eqb_refl. reflexivity. Qed.
Lemma sset_other s n v x : x <> n -> sset s n v x = s x.
Proof. intros H. unfold sset. destruct (N.eqb_spec x n); [contradiction | reflexivity]. Qed.
Lemma cset_same c n v : cset c n v n = v.
Proof. unfold cset. rewrite N.eqb_refl. reflexivity. Qed.
Lemma cset_other c n v x : x <> n -> cset c n v x = c x.
Proof. intros H. unfold cset. destruct (N.eqb_spec x n); [contradiction | reflexivity]. Qed.

Lemma in_step_frame s c s' c' x : in_step s c x -> s' x = s x -> c' x = c x -> in_step s' c' x.
Proof. unfold in_step. intros H E1 E2. rewrite E1, E2. exact H. Qed.

(* a service that has no processor: nothing to say about c until both parts are known *)
Lemma inv_set_partial s c n w : Inv s c -> c n = None -> eps_ok w -> (s_cfg w = None \/ s_eps w = None) ->
  Inv (sset s n (Some w)) c.
Proof.
  intros [I1 I2] Hc Hw Hp. split.
  - intros x w0 Hx. destruct (N.eq_dec x n) as [->|Hn]; [rewrite sset_same in Hx; inversion Hx; subst; exact Hw|].
    rewrite sset_other in Hx by exact Hn. exact (I1 x w0 Hx).
  - intros x. destruct (N.eq_dec x n) as [->|Hn].
    + unfold in_step. rewrite sset_same. destruct w as [[cf|] [l|]]; cbn in Hp; try exact Hc; destruct Hp; discriminate.
    + apply (in_step_frame s c); [apply I2 | apply sset_other; exact Hn | reflexivity].
Qed.

Lemma Inv_ext s c c' : Inv s c -> (forall x, c' x = c x) -> Inv s c'.
Proof.
  intros [I1 I2] E. split; [exact I1|]. intros x. apply (in_step_frame s c); [apply I2 | reflexivity | apply E].
Qed.

Lemma inv_set_full s c n cf l p : Inv s c -> uniq l /\ cvalid cf = true -> p_cfg p = cf -> uniq (p_hosts p) -> same (p_hosts p) l ->
  Inv (sset s n (Some {| s_cfg := Some cf; s_eps := Some l |})) (cset c n (Some p)).
Proof.
  intros [I1 I2] Ul Hp Uh Hs. split.
  - intros x w0 Hx. destruct (N.eq_dec x n) as [->|Hn]; [rewrite sset_same in Hx; inversion Hx; subst; exact Ul|].
    rewrite sset_other in Hx by exact Hn. exact (I1 x w0 Hx).
  - intros x. destruct (N.eq_dec x n) as [->|Hn].
    + unfold in_step. rewrite sset_same, cset_same. exists p. auto.
    + apply (in_step_frame s c); [apply I2 | apply sset_other; exact Hn | apply cset_other; exact Hn].
Qed.

Lemma inv_remove s c n : Inv s c -> Inv (sset s n None) (cset c n None).
Proof.
  intros [I1 I2]. split.
  - intros x w0 Hx. destruct (N.eq_dec x n) as [->|Hn]; [rewrite sset_same in Hx; discriminate|].
    rewrite sset_other in Hx by exact Hn. exact (I1 x w0 Hx).
  - intros x. destruct (N.eq_dec x n) as [->|Hn].
    + unfold in_step. rewrite sset_same, cset_same. reflexivity.
    + apply (in_step_frame s c); [apply I2 | apply sset_other; exact Hn | apply cset_other; exact Hn].
Qed.

Lemma dep_add_inv added : forall s c, Inv s c -> Inv (dep_add s added) c.
Proof.
  induction added as [|n t IH]; intros s c H; cbn [dep_add]; [exact H|]. apply IH.
  destruct (s n) eqn:E; [exact H|].
  apply inv_set_partial; [exact H | | split; exact I | left; reflexivity].
  destruct H as [_ I2]. specialize (I2 n). unfold in_step in I2. rewrite E in I2. exact I2.
Qed.

Lemma dep_remove_inv removed : forall s c s' ev, Inv s c -> dep_remove s removed = (s', ev) -> Inv s' (fold_left ctl_handle ev c).
Proof.
  induction removed as [|n t IH]; intros s c s' ev H E; cbn [dep_remove] in E.
  - inversion E; subst. exact H.
  - destruct (s n) eqn:En.
    + destruct (dep_remove (sset s n None) t) as [s2 ev2] eqn:E2. inversion E; subst. cbn [fold_left ctl_handle].
      apply (IH (sset s n None) (cset c n None) s' ev2); [apply inv_remove; exact H | exact E2].
    + apply (IH s c s' ev H E).
Qed.

(* the body of the endpoint handler once the service is known to the store *)
Definition ep_body (s : store) (n : name) (w : sw) (added removed : list ep) : store * list event :=
  let cur := match s_eps w with Some l => l | None => [] end in
  let '(c1, vrem) := ep_removals cur removed in
  let '(c2, vadd) := ep_additions c1 added in
  let s' := sset s n (Some {| s_cfg := s_cfg w; s_eps := Some c2 |}) in
  match s_cfg w with
  | None => (s', [])
  | Some c =>
    match s_eps w with
    | None => (s', [EAdd n (Some c) c2])
    | Some _ => (s', match vadd, vrem with [], [] => [] | _, _ => [EEndpoint n vadd vrem] end)
    end
  end.

Lemma ep_step_unfold s n added removed :
  store_step s (OEp n added removed) =
  match added, removed with
  | [], [] => (s, [])
  | _, _ => match s n with None => (s, []) | Some w => ep_body s n w added removed end
  end.
Proof. destruct added, removed; reflexivity. Qed.

Lemma ep_body_inv s c n w added removed : Inv s c -> s n = Some w ->
  Inv (fst (ep_body s n w added removed)) (fold_left ctl_handle (snd (ep_body s n w added removed)) c).
Proof.
  intros HI En. pose proof HI as [I1 I2].
  pose proof (I1 n w En) as [Hw Hvalid]. pose proof (I2 n) as Hn. unfold in_step in Hn. rewrite En in Hn.
  unfold ep_body. destruct w as [ocf oeps]. cbn [s_eps s_cfg] in *.
  remember (match oeps with Some l => l | None => [] end) as cur eqn:Ecur.
  assert (Ucur : uniq cur) by (subst cur; destruct oeps; [exact Hw | constructor]).
  destruct (ep_removals cur removed) as [c1 vrem] eqn:Er.
  destruct (ep_additions c1 added) as [c2 vadd] eqn:Ea.
  destruct ocf as [cf|].
  - destruct oeps as [l|].
    + (* a running processor: the endpoint event *)
      subst cur. destruct Hn as [p [Hp [P1 [P2 P3]]]].
      destruct (removals_sync _ l (p_hosts p) c1 vrem Ucur P2 P3 Er) as [U1 [V1 S1]].
      destruct (additions_sync _ c1 (fold_left host_remove vrem (p_hosts p)) c2 vadd U1 V1 S1 Ea) as [U2 [V2 S2]].
      assert (Hfin : Inv (sset s n (Some {| s_cfg := Some cf; s_eps := Some c2 |}))
                         (cset c n (Some {| p_cfg := p_cfg p; p_hosts := fold_left host_add vadd (fold_left host_remove vrem (p_hosts p)) |})))
        by (apply inv_set_full; [exact HI | split; [exact U2 | exact Hvalid] | exact P1 | exact V2 | exact S2]).
      destruct vadd as [|va vat]; [destruct vrem as [|vr vrt]|]; cbn [fst snd fold_left ctl_handle]; try rewrite Hp; try exact Hfin.
      (* no valid change: the controller hears nothing, and nothing changed *)
      cbn [fold_left] in S2.
      apply (Inv_ext _ (cset c n (Some p))).
      * apply inv_set_full; [exact HI | split; [exact U2 | exact Hvalid] | exact P1 | exact P2 | exact S2].
      * intros x. destruct (N.eq_dec x n) as [->|Hx]; [rewrite cset_same; exact Hp | rewrite cset_other by exact Hx; reflexivity].
    + (* first endpoint list of a configured service: the add event *)
      subst cur. cbn [fst snd fold_left ctl_handle]. rewrite Hn, Hvalid.
      destruct (removals_sync _ [] [] c1 vrem Ucur Ucur (fun x => eq_refl) Er) as [U1 _].
      destruct (additions_sync _ c1 c1 c2 vadd U1 U1 (fun x => eq_refl) Ea) as [U2 _].
      destruct (build_hosts c2 U2) as [B1 B2].
      apply inv_set_full; [exact HI | split; [exact U2 | exact Hvalid] | reflexivity | exact B1 | exact B2].
  - (* no configuration yet *)
    cbn [fst snd fold_left].
    destruct (removals_sync _ cur cur c1 vrem Ucur Ucur (fun x => eq_refl) Er) as [U1 _].
    destruct (additions_sync _ c1 c1 c2 vadd U1 U1 (fun x => eq_refl) Ea) as [U2 _].
    apply inv_set_partial; [exact HI | destruct oeps; exact Hn | split; [exact U2 | exact I] | left; reflexivity].
Qed.

Theorem step_inv s c o : Inv s c -> op_ok s o ->
  Inv (fst (store_step s o)) (fold_left ctl_handle (snd (store_step s o)) c).
Proof.
  intros HI Hok. pose proof HI as [I1 I2]. destruct o as [n oc oeps|added removed|n cf|n added removed].
  - (* static service *)
    cbn [store_step]. destruct Hok as [Hfresh [[cf [-> Hv]] [l [-> Ul]]]]. cbn [fst snd fold_left ctl_handle].
    assert (Hc : c n = None) by (specialize (I2 n); unfold in_step in I2; rewrite Hfresh in I2; exact I2).
    rewrite Hc, Hv. destruct (build_hosts l Ul) as [B1 B2].
    apply inv_set_full; [exact HI | split; [exact Ul | exact Hv] | reflexivity | exact B1 | exact B2].
  - (* dependency update *)
    cbn [store_step]. destruct (dep_remove (dep_add s added) removed) as [s' ev] eqn:E. cbn [fst snd].
    apply (dep_remove_inv removed (dep_add s added) c s' ev); [apply dep_add_inv; exact HI | exact E].
  - (* configuration update *)
    cbn [store_step]. cbn [op_ok] in Hok. destruct (s n) as [w|] eqn:En; [|cbn [fst snd fold_left]; exact HI].
    pose proof (I1 n w En) as [Hw _]. pose proof (I2 n) as Hn. unfold in_step in Hn. rewrite En in Hn.
    destruct w as [ocf oeps]. cbn [s_eps s_cfg] in *. destruct oeps as [l|].
    + destruct ocf as [old|]; cbn [fst snd fold_left ctl_handle].
      * destruct Hn as [p [Hp [P1 [P2 P3]]]]. rewrite Hp, Hok.
        apply inv_set_full; [exact HI | split; [exact Hw | exact Hok] | reflexivity | exact P2 | exact P3].
      * rewrite Hn, Hok. destruct (build_hosts l Hw) as [B1 B2].
        apply inv_set_full; [exact HI | split; [exact Hw | exact Hok] | reflexivity | exact B1 | exact B2].
    + cbn [fst snd fold_left]. apply inv_set_partial; [exact HI | | split; [exact I | exact Hok] | right; reflexivity].
      destruct ocf; exact Hn.
  - (* endpoint update *)
    rewrite ep_step_unfold. destruct added as [|a0 at0]; [destruct removed as [|r0 rt0]; [cbn [fst snd fold_left]; exact HI|]|];
      (destruct (s n) as [w|] eqn:En; [apply ep_body_inv; [exact HI | exact En] | cbn [fst snd fold_left]; exact HI]).
Qed.

(* ---------- every history ---------- *)
Fixpoint ops_ok (s : store) (ops : list sop) : Prop :=
  match ops with
  | [] => True
  | o :: t => op_ok s o /\ ops_ok (fst (store_step s o)) t
  end.

Lemma run_inv ops : forall s c, Inv s c -> ops_ok s ops ->
  Inv (fst (run_ops s ops)) (fold_left ctl_handle (snd (run_ops s ops)) c).
Proof.
  induction ops as [|o t IH]; intros s c HI Hok; cbn [run_ops]; [exact HI|].
  destruct Hok as [H1 H2]. pose proof (step_inv s c o HI H1) as Hs.
  destruct (store_step s o) as [s1 e1]. cbn [fst snd] in *.
  specialize (IH s1 (fold_left ctl_handle e1 c) Hs H2).
  destruct (run_ops s1 t) as [s2 e2]. cbn [fst snd] in *. rewrite fold_left_app. exact IH.
Qed.

Lemma inv_empty : Inv empty_store empty_ctl.
Proof. split; [intros n w H; discriminate | intros n; reflexivity]. Qed.

Theorem converge_in_step ops : ops_ok empty_store ops ->
  Inv (fst (converge ops)) (snd (converge ops)).
Proof.
  intros H. pose proof (run_inv ops empty_store empty_ctl inv_empty H) as R. unfold converge.
  destruct (run_ops empty_store ops) as [s evs]. exact R.
Qed.

(* the reading a user relies on, spelled out *)
Corollary converge_spec ops n : ops_ok empty_store ops ->
  let '(s, c) := converge ops in
  match s n with
  | Some {| s_cfg := Some cf; s_eps := Some l |} =>
    exists p, c n = Some p /\ p_cfg p = cf /\ forall a, find_addr a (p_hosts p) = find_addr a l
  | _ => c n = None
  end.
Proof.
  intros H. pose proof (converge_in_step ops H) as [_ I2]. destruct (converge ops) as [s c]. cbn [fst snd] in I2.
  specialize (I2 n). unfold in_step in I2. destruct (s n) as [[[cf|] [l|]]|]; try exact I2.
  destruct I2 as [p [P0 [P1 [P2 P3]]]]. exists p. auto.
Qed.

(* without the validity premise the statement fails: a configuration that does not validate, later corrected,
   leaves the store complete and the controller without a processor (recorded as a known finding) *)
Definition bad_then_good : list sop :=
  [ODep [1] []; OEp 1 [{| eaddr := 7; ebackup := false |}] []; OCfg 1 {| cid := 1; cvalid := false |}; OCfg 1 {| cid := 2; cvalid := true |}].
Example invalid_then_corrected_refuted :
  let '(s, c) := converge bad_then_good in
  s 1 = Some {| s_cfg := Some {| cid := 2; cvalid := true |}; s_eps := Some [{| eaddr := 7; ebackup := false |}] |} /\ c 1 = None.
Proof. vm_compute. split; reflexivity. Qed.

(* the premises are satisfiable by a history that exercises every operation *)
Definition sample_ops : list sop :=
  [OStatic 9 (Some {| cid := 5; cvalid := true |}) (Some [{| eaddr := 1; ebackup := false |}]);
   ODep [1; 2] []; OCfg 1 {| cid := 1; cvalid := true |};
   OEp 1 [{| eaddr := 7; ebackup := false |}; {| eaddr := 8; ebackup := true |}] [];
   OEp 1 [{| eaddr := 9; ebackup := false |}] [{| eaddr := 7; ebackup := false |}];
   OCfg 1 {| cid := 3; cvalid := true |}; ODep [3] [2]].
Example sample_ok : ops_ok empty_store sample_ops.
Proof.
  cbn. repeat split; try (eexists; split; [reflexivity|]); try reflexivity;
    repeat constructor; cbn; intuition discriminate.
Qed.

(* ---------- schedules: the settled state does not depend on when the controller runs ---------- *)
Lemma sched_settle sch : forall s q c,
  let '(s', q', c') := run_sched s q c sch in
  s' = fst (run_ops s (ops_of sch)) /\
  forall x, fold_left ctl_handle q' c' x = fold_left ctl_handle (q ++ snd (run_ops s (ops_of sch))) c x.
Proof.
  induction sch as [|[o|] t IH]; intros s q c; cbn [run_sched ops_of run_ops].
  - cbn [fst snd]. rewrite app_nil_r. auto.
  - destruct (store_step s o) as [s1 e1]. specialize (IH s1 (q ++ e1) c).
    destruct (run_sched s1 (q ++ e1) c t) as [[s' q'] c']. destruct (run_ops s1 (ops_of t)) as [s2 e2]. cbn [fst snd] in *.
    rewrite app_assoc. exact IH.
  - destruct q as [|e q0].
    + apply IH.
    + specialize (IH s q0 (ctl_handle c e)). destruct (run_sched s q0 (ctl_handle c e) t) as [[s' q'] c']. exact IH.
Qed.

Theorem schedule_independent sch :
  fst (settle (run_sched empty_store [] empty_ctl sch)) = fst (converge (ops_of sch)) /\
  forall x, snd (settle (run_sched empty_store [] empty_ctl sch)) x = snd (converge (ops_of sch)) x.
Proof.
  pose proof (sched_settle sch empty_store [] empty_ctl) as H. unfold settle, converge.
  destruct (run_sched empty_store [] empty_ctl sch) as [[s' q'] c']. destruct H as [H1 H2].
  destruct (run_ops empty_store (ops_of sch)) as [s evs]. cbn [fst snd app] in *. auto.
Qed.

Theorem schedule_converges sch : ops_ok empty_store (ops_of sch) ->
  Inv (fst (settle (run_sched empty_store [] empty_ctl sch))) (snd (settle (run_sched empty_store [] empty_ctl sch))).
Proof.
  intros H. destruct (schedule_independent sch) as [E1 E2]. rewrite E1.
  apply (Inv_ext _ (snd (converge (ops_of sch)))); [apply converge_in_step; exact H | exact E2].
Qed.

(* unknown or removed services: an update for a name the store does not hold changes nothing and emits nothing *)
Lemma unknown_ignored s n : s n = None ->
  (forall cf, store_step s (OCfg n cf) = (s, [])) /\ (forall a r, store_step s (OEp n a r) = (s, [])).
Proof.
  intros H. split; [intros cf; cbn [store_step]; rewrite H; reflexivity|].
  intros a r. rewrite ep_step_unfold, H. destruct a, r; reflexivity.
Qed.

(* ... and an update for one service leaves every other service's store entry and processor alone *)
Lemma handle_other c e x : (match e with EAdd n _ _ | ERemove n | EConfig n _ | EEndpoint n _ _ => x <> n end) -> ctl_handle c e x = c x.
Proof.
  destruct e as [n oc eps|n|n cf|n a r]; intros H; cbn [ctl_handle].
  - destruct (c n); [reflexivity|]. destruct oc as [cf|]; [|reflexivity]. destruct (cvalid cf); [apply cset_other; exact H | reflexivity].
  - apply cset_other; exact H.
  - destruct (c n); [|reflexivity]. destruct (cvalid cf); [apply cset_other; exact H | reflexivity].
  - destruct (c n); [apply cset_other; exact H | reflexivity].
Qed.

Lemma update_local s c n x : x <> n ->
  (forall cf, fst (store_step s (OCfg n cf)) x = s x /\ fold_left ctl_handle (snd (store_step s (OCfg n cf))) c x = c x) /\
  (forall a r, fst (store_step s (OEp n a r)) x = s x /\ fold_left ctl_handle (snd (store_step s (OEp n a r))) c x = c x).
Proof.
  intros Hx. split.
  - intros cf. cbn [store_step]. destruct (s n) as [[ocf [l|]]|]; cbn [s_eps s_cfg fst snd fold_left]; auto.
    + destruct ocf; cbn [fst snd fold_left]; (split; [apply sset_other; exact Hx | apply handle_other; exact Hx]).
    + split; [apply sset_other; exact Hx | reflexivity].
  - intros a r. rewrite ep_step_unfold.
    assert (B : forall w, fst (ep_body s n w a r) x = s x /\ fold_left ctl_handle (snd (ep_body s n w a r)) c x = c x).
    { intros w. unfold ep_body. destruct (ep_removals _ r) as [c1 vrem]. destruct (ep_additions c1 a) as [c2 vadd].
      destruct (s_cfg w); [destruct (s_eps w)|]; cbn [fst snd fold_left].
      - split; [apply sset_other; exact Hx|]. destruct vadd; [destruct vrem|]; cbn [fold_left]; try reflexivity; apply handle_other; exact Hx.
      - split; [apply sset_other; exact Hx | apply handle_other; exact Hx].
      - split; [apply sset_other; exact Hx | reflexivity]. }
    destruct a; [destruct r|]; try (cbn [fst snd fold_left]; auto; fail); destruct (s n); try apply B; cbn [fst snd fold_left]; auto.
Qed.
