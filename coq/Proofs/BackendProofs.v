(* Proofs about Model/Backend.v: with the repaired code every request that was sent is completed, exactly once, when
   the connection's threads have run to completion; the code as it was loses requests (two witnesses). *)
From Coq Require Import List Arith Bool Lia.
From Sam Require Import Model.Backend.
Import ListNotations.

Lemma is_loc_eq a b : is_loc a b = true <-> a = b.
Proof. split; [destruct a, b; cbn; congruence | intros ->; destruct b; reflexivity]. Qed.
Lemma is_loc_neq a b : is_loc a b = false <-> a <> b.
Proof. split; [intros H E; subst; destruct b; discriminate | intros H; destruct (is_loc a b) eqn:E; [apply is_loc_eq in E; contradiction | reflexivity]]. Qed.

Lemma setp_same f i l : setp f i l i = l.
Proof. unfold setp. rewrite Nat.eqb_refl. reflexivity. Qed.
Lemma setp_other f i l x : x <> i -> setp f i l x = f x.
Proof. intros H. unfold setp. destruct (Nat.eqb_spec x i); [contradiction | reflexivity]. Qed.
Lemma setb_same f i l : setb f i l i = l.
Proof. unfold setb. rewrite Nat.eqb_refl. reflexivity. Qed.
Lemma setb_other f i l x : x <> i -> setb f i l x = f x.
Proof. intros H. unfold setb. destruct (Nat.eqb_spec x i); [contradiction | reflexivity]. Qed.

Section Fixed.
  Variable ids : list nat.

  Definition mem (i : nat) : bool := existsb (Nat.eqb i) ids.
  Lemma mem_In i : mem i = true <-> In i ids.
  Proof.
    unfold mem. rewrite existsb_exists. split; [intros [x [H1 H2]]; apply Nat.eqb_eq in H2; subst; exact H1 | intros H; exists i; split; [exact H | apply Nat.eqb_refl]].
  Qed.

  Record BI (s : bstate) : Prop := {
    b0 : forall i, mem i = false -> place s i = LNew /\ recheck s i = false;
    b1 : forall i, place s i <> LLost;
    b2 : wrun s = false -> forall i, place s i <> LHeld;
    b3 : drained s = true -> quit s = true /\ wrun s = false /\ rrun s = false;
    b4 : rrun s = false -> quit s = true;
    b5 : drained s = true -> forall i, place s i = LPending -> exists j, recheck s j = true;
    b7 : drained s = true -> forall i, place s i <> LProcessing;
    b6 : forall i j, place s i = LHeld -> place s j = LHeld -> i = j }.

  Lemma holds_false s : holds ids s = false -> forall i, mem i = true -> place s i <> LHeld.
  Proof.
    unfold holds. intros H i Hi E. apply mem_In in Hi.
    assert (existsb (fun i => is_loc (place s i) LHeld) ids = true) by (apply existsb_exists; exists i; split; [exact Hi | apply is_loc_eq; exact E]).
    congruence.
  Qed.

  Lemma drain_cases f x : drain f x = LDone /\ (f x = LPending \/ f x = LProcessing \/ f x = LDone) \/ (drain f x = f x /\ f x <> LPending /\ f x <> LProcessing).
  Proof. unfold drain. destruct (f x); auto; right; repeat split; discriminate. Qed.

  Lemma binit_inv : BI binit.
  Proof. constructor; cbn; intros; try discriminate; auto. Qed.

  (* turn the guard of a step into hypotheses *)
  Ltac guards :=
    repeat match goal with
           | H : _ && _ = true |- _ => apply andb_true_iff in H; destruct H
           | H : negb _ = true |- _ => apply negb_true_iff in H
           | H : is_loc _ _ = true |- _ => apply is_loc_eq in H
           end.
  Ltac pcase x i := destruct (Nat.eq_dec x i) as [->|?]; [rewrite ?setp_same, ?setb_same in * | rewrite ?setp_other, ?setb_other in * by assumption].

  Lemma no_held s : BI s -> holds ids s = false -> forall j, place s j <> LHeld.
  Proof.
    intros I H j E. destruct (mem j) eqn:Mj; [exact (holds_false s H j Mj E) | destruct (b0 _ I j Mj); congruence].
  Qed.

  (* one request object moves to another place; the flags stay *)
  Lemma move_inv s i l' : BI s -> mem i = true -> l' <> LLost ->
    (l' = LHeld -> wrun s = true /\ forall j, place s j <> LHeld) ->
    (l' = LPending \/ l' = LProcessing -> drained s = false) ->
    BI (upd s (setp (place s) i l') (recheck s) (quit s) (conn_ok s) (wrun s) (rrun s) (drained s)).
  Proof.
    intros I Mi Nl Hh Hp. constructor; cbn [upd place recheck quit conn_ok wrun rrun drained].
    - intros x Hx. assert (x <> i) by congruence. rewrite setp_other by assumption. exact (b0 _ I x Hx).
    - intros x. pcase x i; [exact Nl | exact (b1 _ I x)].
    - intros W x. pcase x i; [intros E; destruct (Hh E) as [W' _]; congruence | exact (b2 _ I W x)].
    - exact (b3 _ I).
    - exact (b4 _ I).
    - intros D x Hx. pcase x i; [rewrite (Hp (or_introl Hx)) in D; discriminate | exact (b5 _ I D x Hx)].
    - intros D x. pcase x i; [intros Hx; rewrite (Hp (or_intror Hx)) in D; discriminate | exact (b7 _ I D x)].
    - intros a b Ha Hb. pcase a i; pcase b i; try reflexivity.
      + exfalso. destruct (Hh Ha) as [_ N]. exact (N b Hb).
      + exfalso. destruct (Hh Hb) as [_ N]. exact (N a Ha).
      + exact (b6 _ I a b Ha Hb).
  Qed.

  (* only the flags change *)
  Lemma flags_inv s q' c' w' r' d' : BI s ->
    (w' = false -> forall j, place s j <> LHeld) ->
    (d' = true -> q' = true /\ w' = false /\ r' = false) -> (r' = false -> q' = true) -> (d' = true -> drained s = true) ->
    BI (upd s (place s) (recheck s) q' c' w' r' d').
  Proof.
    intros I Hw Hd Hr Hdd. constructor; cbn [upd place recheck quit conn_ok wrun rrun drained].
    - exact (b0 _ I).
    - exact (b1 _ I).
    - exact Hw.
    - exact Hd.
    - exact Hr.
    - intros D. exact (b5 _ I (Hdd D)).
    - intros D. exact (b7 _ I (Hdd D)).
    - exact (b6 _ I).
  Qed.

  (* both channels are emptied *)
  Lemma drain_inv s rc' d' : BI s -> (forall x, mem x = false -> rc' x = false) ->
    (d' = true -> quit s = true /\ wrun s = false /\ rrun s = false) ->
    BI (upd s (drain (place s)) rc' (quit s) (conn_ok s) (wrun s) (rrun s) d').
  Proof.
    intros I Hrc Hd. constructor; cbn [upd place recheck quit conn_ok wrun rrun drained].
    - intros x Hx. destruct (b0 _ I x Hx) as [P _]. split; [unfold drain; rewrite P; reflexivity | exact (Hrc x Hx)].
    - intros x. destruct (drain_cases (place s) x) as [[E _]|[E _]]; rewrite E; [discriminate | exact (b1 _ I x)].
    - intros W x. destruct (drain_cases (place s) x) as [[E _]|[E _]]; rewrite E; [discriminate | exact (b2 _ I W x)].
    - exact Hd.
    - exact (b4 _ I).
    - intros _ x Hx. exfalso. destruct (drain_cases (place s) x) as [[E _]|[E [N1 N2]]]; rewrite E in Hx; try discriminate; contradiction.
    - intros _ x Hx. destruct (drain_cases (place s) x) as [[E _]|[E [N1 N2]]]; rewrite E in Hx; try discriminate; contradiction.
    - intros a b Ha Hb. destruct (drain_cases (place s) a) as [[E _]|[E _]]; rewrite E in Ha; [discriminate|].
      destruct (drain_cases (place s) b) as [[E' _]|[E' _]]; rewrite E' in Hb; [discriminate | exact (b6 _ I a b Ha Hb)].
  Qed.

  Lemma dp_cases f x : drain_pending f x = LDone /\ (f x = LPending \/ f x = LDone) \/ (drain_pending f x = f x /\ f x <> LPending).
  Proof. unfold drain_pending. destruct (f x); auto; right; split; try reflexivity; discriminate. Qed.

  (* a sender that finds the latch closed after enqueueing answers what is still in pendingReqs *)
  Lemma drain_pending_inv s rc' : BI s -> (forall x, mem x = false -> rc' x = false) ->
    BI (upd s (drain_pending (place s)) rc' (quit s) (conn_ok s) (wrun s) (rrun s) (drained s)).
  Proof.
    intros I Hrc. constructor; cbn [upd place recheck quit conn_ok wrun rrun drained].
    - intros x Hx. destruct (b0 _ I x Hx) as [P _]. split; [unfold drain_pending; rewrite P; reflexivity | exact (Hrc x Hx)].
    - intros x. destruct (dp_cases (place s) x) as [[E _]|[E _]]; rewrite E; [discriminate | exact (b1 _ I x)].
    - intros W x. destruct (dp_cases (place s) x) as [[E _]|[E _]]; rewrite E; [discriminate | exact (b2 _ I W x)].
    - exact (b3 _ I).
    - exact (b4 _ I).
    - intros _ x Hx. exfalso. destruct (dp_cases (place s) x) as [[E _]|[E N]]; rewrite E in Hx; [discriminate | contradiction].
    - intros D x. destruct (dp_cases (place s) x) as [[E _]|[E _]]; rewrite E; [discriminate | exact (b7 _ I D x)].
    - intros a b Ha Hb. destruct (dp_cases (place s) a) as [[E _]|[E _]]; rewrite E in Ha; [discriminate|].
      destruct (dp_cases (place s) b) as [[E' _]|[E' _]]; rewrite E' in Hb; [discriminate | exact (b6 _ I a b Ha Hb)].
  Qed.

  Lemma bnext0_inv s x : BI s -> (forall i, step_id x = Some i -> mem i = true) -> BI (bnext0 true ids s x).
  Proof.
    intros I Hm.
    destruct x as [i|i|i|i| |i|i|i|i| | | | |]; cbn [bnext0]; try (specialize (Hm i eq_refl)).
    - (* SCheck *)
      destruct (is_loc (place s i) LNew) eqn:G; [|exact I].
      assert (A : BI (upd s (setp (place s) i LDone) (recheck s) (quit s) (conn_ok s) (wrun s) (rrun s) (drained s)))
        by (apply move_inv; try assumption; try discriminate; intros [E|E]; discriminate).
      assert (B : BI (upd s (setp (place s) i LChecked) (recheck s) (quit s) (conn_ok s) (wrun s) (rrun s) (drained s)))
        by (apply move_inv; try assumption; try discriminate; intros [E|E]; discriminate).
      destruct (quit s); assumption.
    - (* SEnq: into pendingReqs, and the sender will look at the latch again *)
      destruct (is_loc (place s i) LChecked) eqn:G; [|exact I]. guards.
      constructor; cbn [upd place recheck quit conn_ok wrun rrun drained].
      + intros x Hx. assert (x <> i) by congruence. rewrite setp_other, setb_other by assumption. exact (b0 _ I x Hx).
      + intros x. pcase x i; [discriminate | exact (b1 _ I x)].
      + intros W x. pcase x i; [discriminate | exact (b2 _ I W x)].
      + exact (b3 _ I).
      + exact (b4 _ I).
      + intros _ x _. exists i. apply setb_same.
      + intros D x. pcase x i; [discriminate | exact (b7 _ I D x)].
      + intros a b Ha Hb. pcase a i; [discriminate|]. pcase b i; [discriminate | exact (b6 _ I a b Ha Hb)].
    - (* SRecheck *)
      destruct (recheck s i) eqn:G; [|exact I].
      assert (Hrc : forall x, mem x = false -> setb (recheck s) i false x = false).
      { intros x Hx. assert (x <> i) by (intros ->; destruct (b0 _ I i Hx); congruence). rewrite setb_other by assumption. exact (proj2 (b0 _ I x Hx)). }
      destruct (quit s) eqn:Q.
      + rewrite <- Q. apply drain_pending_inv; [exact I | exact Hrc].
      + constructor; cbn [upd place recheck quit conn_ok wrun rrun drained].
        * intros x Hx. split; [exact (proj1 (b0 _ I x Hx)) | exact (Hrc x Hx)].
        * exact (b1 _ I).
        * exact (b2 _ I).
        * intros D. destruct (b3 _ I D) as [Q' _]. congruence.
        * intros R. pose proof (b4 _ I R). congruence.
        * intros D. destruct (b3 _ I D) as [Q' _]. congruence.
        * exact (b7 _ I).
        * exact (b6 _ I).
    - (* WTake *)
      destruct (wrun s && negb (holds ids s) && is_loc (place s i) LPending) eqn:G; [|exact I]. guards.
      apply move_inv; try assumption; try discriminate.
      + intros _. split; [assumption | apply no_held; assumption].
      + intros [E|E]; discriminate.
    - (* WQuit *)
      destruct (wrun s && negb (holds ids s) && quit s) eqn:G; [|exact I]. guards.
      apply flags_inv; try assumption.
      + intros _. apply no_held; assumption.
      + intros D. destruct (b3 _ I D) as [Q [W R]]. congruence.
      + exact (b4 _ I).
      + auto.
    - (* WHandOver *)
      destruct (wrun s && is_loc (place s i) LHeld && conn_ok s) eqn:G; [|exact I]. guards.
      apply move_inv; try assumption; try discriminate.
      intros _. destruct (drained s) eqn:D; [|reflexivity]. destruct (b3 _ I D) as [_ [W _]]. congruence.
    - (* WHandOverQuit: the repaired writer completes the request it holds *)
      destruct (wrun s && is_loc (place s i) LHeld && conn_ok s && quit s) eqn:G; [|exact I]. guards.
      assert (M : BI (upd s (setp (place s) i LDone) (recheck s) (quit s) (conn_ok s) (wrun s) (rrun s) (drained s)))
        by (apply move_inv; try assumption; try discriminate; intros [E|E]; discriminate).
      apply (flags_inv _ (quit s) false false (rrun s) (drained s)) in M; [exact M | | | |]; cbn [upd place recheck quit conn_ok wrun rrun drained].
      + intros _ j. pcase j i; [discriminate|]. intros E. apply n. exact (b6 _ I j i E ltac:(assumption)).
      + intros D. destruct (b3 _ I D) as [Q [W R]]. congruence.
      + exact (b4 _ I).
      + auto.
    - (* WWriteFail *)
      destruct (wrun s && is_loc (place s i) LHeld && negb (conn_ok s)) eqn:G; [|exact I]. guards.
      assert (M : BI (upd s (setp (place s) i LDone) (recheck s) (quit s) (conn_ok s) (wrun s) (rrun s) (drained s)))
        by (apply move_inv; try assumption; try discriminate; intros [E|E]; discriminate).
      apply (flags_inv _ (quit s) false false (rrun s) (drained s)) in M; [exact M | | | |]; cbn [upd place recheck quit conn_ok wrun rrun drained].
      + intros _ j. pcase j i; [discriminate|]. intros E. apply n. exact (b6 _ I j i E ltac:(assumption)).
      + intros D. destruct (b3 _ I D) as [Q [W R]]. congruence.
      + exact (b4 _ I).
      + auto.
    - (* RReply *)
      destruct (rrun s && conn_ok s && is_loc (place s i) LProcessing) eqn:G; [|exact I]. guards.
      apply move_inv; try assumption; try discriminate. intros [E|E]; discriminate.
    - (* RExit *)
      destruct (rrun s && negb (conn_ok s)) eqn:G; [|exact I]. guards.
      apply flags_inv; try assumption.
      + exact (b2 _ I).
      + intros D. destruct (b3 _ I D) as [Q [W R]]. congruence.
      + auto.
      + auto.
    - (* RQuit *)
      destruct (rrun s && quit s && true) eqn:G; [|exact I]. guards.
      apply flags_inv; try assumption.
      + exact (b2 _ I).
      + intros D. destruct (b3 _ I D) as [Q [W R]]. congruence.
      + auto.
      + auto.
    - (* EConnLost *)
      apply flags_inv; try assumption; [exact (b2 _ I) | exact (b3 _ I) | exact (b4 _ I) | auto].
    - (* EStopQuit *)
      apply flags_inv; try assumption; [exact (b2 _ I) | | auto | auto].
      intros D. destruct (b3 _ I D) as [Q [W R]]. auto.
    - (* DDrain *)
      destruct (negb (wrun s) && negb (rrun s) && negb (drained s)) eqn:G; [|exact I]. guards.
      apply drain_inv; [exact I | intros x Hx; exact (proj2 (b0 _ I x Hx)) |].
      intros _. split; [apply (b4 _ I); assumption | split; assumption].
  Qed.

  Lemma bnext_inv s x : BI s -> BI (bnext true ids s x).
  Proof.
    intros I. unfold bnext. destruct (step_id x) as [i|] eqn:E.
    - destruct (existsb (Nat.eqb i) ids) eqn:M; [|exact I]. apply bnext0_inv; [exact I|]. intros j Hj. rewrite E in Hj. inversion Hj; subst. exact M.
    - apply bnext0_inv; [exact I|]. intros j Hj. rewrite E in Hj. discriminate.
  Qed.

  Theorem brun_inv l : BI (brun true ids l).
  Proof.
    unfold brun. generalize binit_inv. generalize binit. induction l as [|x t IH]; intros s I; cbn [fold_left]; [exact I|].
    apply IH. apply bnext_inv. exact I.
  Qed.

  (* when every thread has run to completion, every request that exists has been completed *)
  Theorem finished_all_done l : finished ids (brun true ids l) = true -> all_done ids (brun true ids l) = true.
  Proof.
    pose proof (brun_inv l) as I. set (s := brun true ids l) in *. unfold finished, all_done. intros F.
    apply andb_true_iff in F. destruct F as [F F4]. apply andb_true_iff in F. destruct F as [F F3]. apply andb_true_iff in F. destruct F as [F1 F2].
    apply negb_true_iff in F1. apply negb_true_iff in F2. rewrite forallb_forall in F4.
    assert (Hno : forall j, recheck s j = false).
    { intros j. destruct (mem j) eqn:Mj; [|exact (proj2 (b0 _ I j Mj))]. apply mem_In in Mj. specialize (F4 j Mj).
      apply andb_true_iff in F4. destruct F4 as [F4 _]. apply andb_true_iff in F4. destruct F4 as [_ F6]. apply negb_true_iff in F6. exact F6. }
    apply forallb_forall. intros i Hi. specialize (F4 i Hi).
    apply andb_true_iff in F4. destruct F4 as [F4 F7]. apply andb_true_iff in F4. destruct F4 as [F5 _].
    apply negb_true_iff in F5. apply negb_true_iff in F7. apply is_loc_neq in F5. apply is_loc_neq in F7.
    apply is_loc_eq. destruct (place s i) eqn:P; try contradiction; try reflexivity; exfalso.
    - destruct (b5 _ I F3 i P) as [j Hj]. rewrite Hno in Hj. discriminate.
    - exact (b2 _ I F1 i P).
    - exact (b7 _ I F3 i P).
    - exact (b1 _ I i P).
  Qed.

  (* exactly once: a completed request stays completed - no step completes it again (a second completion would close a
     closed channel and crash the process) *)
  Lemma done_stable fixed s x i : place s i = LDone -> place (bnext fixed ids s x) i = LDone.
  Proof.
    intros P. unfold bnext. assert (H0 : place (bnext0 fixed ids s x) i = LDone).
    { destruct x as [j|j|j|j| |j|j|j|j| | | | |]; cbn [bnext0];
        repeat match goal with |- context [if ?b then _ else _] => destruct b eqn:? end;
        cbn [upd place]; try exact P;
        try (guards; destruct (Nat.eq_dec i j) as [->|Hn]; [congruence | rewrite setp_other by exact Hn; exact P]);
        try (unfold drain; rewrite P; reflexivity); try (unfold drain_pending; rewrite P; reflexivity). }
    destruct (step_id x); [destruct (existsb _ ids)|]; assumption.
  Qed.
End Fixed.

(* ---------- the code as it was ---------- *)
(* the writer takes the quit branch with a request in its hands: the request is never completed *)
Example writer_drops_request_refuted :
  let s := brun false [0] [SCheck 0; SEnq 0; WTake 0; EStopQuit; WHandOverQuit 0; EConnLost; RExit; DDrain] in
  finished [0] s = true /\ place s 0 = LLost.
Proof. vm_compute. split; reflexivity. Qed.

(* Send has seen the latch open, the connection finishes and is drained, then Send enqueues: nobody is left to answer *)
Example send_after_drain_refuted :
  let s := brun false [0] [SCheck 0; EStopQuit; EConnLost; WQuit; RExit; DDrain; SEnq 0] in
  finished [0] s = true /\ place s 0 = LPending.
Proof. vm_compute. split; reflexivity. Qed.

(* the same schedules with the repaired code *)
Example writer_completes_request :
  place (brun true [0] [SCheck 0; SEnq 0; WTake 0; EStopQuit; WHandOverQuit 0; EConnLost; RExit; DDrain]) 0 = LDone.
Proof. vm_compute. reflexivity. Qed.
Example send_after_drain_rechecks :
  place (brun true [0] [SCheck 0; EStopQuit; EConnLost; WQuit; RExit; DDrain; SEnq 0; SRecheck 0]) 0 = LDone.
Proof. vm_compute. reflexivity. Qed.
