(* Proofs about Model/Cluster.v: every schedule of the proxy/cluster transition system gives each connection
   the replies of the single server executing the children in the order they were sent. *)
From Coq Require Import List NArith Bool Arith Lia.
From Sam Require Import Model.Bytes Model.Resp Model.Dispatch Model.Cluster.
Import ListNotations.
Open Scope nat_scope.

Lemma bytes_eqb_refl a : bytes_eqb a a = true.
Proof. induction a as [|x a IH]; cbn [bytes_eqb]; [reflexivity|]. rewrite N.eqb_refl, IH. reflexivity. Qed.
Lemma bytes_eqb_true a : forall b, bytes_eqb a b = true -> a = b.
Proof.
  induction a as [|x a IH]; intros [|y b] H; cbn [bytes_eqb] in H; try discriminate; [reflexivity|].
  apply andb_true_iff in H. destruct H as [H1 H2]. apply N.eqb_eq in H1. apply IH in H2. subst. reflexivity.
Qed.
Lemma bytes_eqb_neq a b : a <> b -> bytes_eqb a b = false.
Proof. intros H. destruct (bytes_eqb a b) eqn:E; [apply bytes_eqb_true in E; contradiction | reflexivity]. Qed.

Lemma filter_all {A} (f : A -> bool) l : forallb f l = true -> filter f l = l.
Proof.
  induction l as [|a l IH]; cbn [forallb filter]; [reflexivity|]. intros H. apply andb_true_iff in H. destruct H as [H1 H2].
  rewrite H1, IH by exact H2. reflexivity.
Qed.

Lemma firstn_seq n : forall s m, firstn n (seq s m) = seq s (Nat.min n m).
Proof.
  induction n as [|n IH]; intros s m; [reflexivity|]. destruct m as [|m]; [reflexivity|].
  cbn [seq firstn Nat.min]. rewrite IH. reflexivity.
Qed.

Definition slice {A} (l : list A) (o n : nat) : list A := firstn n (skipn o l).

Lemma slice_app_stable {A} (l x : list A) o n : o + n <= length l -> slice (l ++ x) o n = slice l o n.
Proof.
  intros H. unfold slice. rewrite skipn_app. rewrite firstn_app. rewrite skipn_length.
  replace (n - (length l - o)) with 0 by lia. rewrite firstn_O, app_nil_r. reflexivity.
Qed.

Lemma slice_nth {A} (l : list A) o n (f : nat -> option A) :
  (forall i, i < n -> nth_error l (o + i) = f i) -> (forall i, i < n -> f i <> None) ->
  map Some (slice l o n) = map f (seq 0 n).
Proof.
  revert l o f. induction n as [|n IH]; intros l o f H1 H2; [unfold slice; rewrite firstn_O; reflexivity|].
  unfold slice. pose proof (H1 0 ltac:(lia)) as H0. rewrite Nat.add_0_r in H0.
  destruct (nth_error l o) as [a|] eqn:E; [|exfalso; apply (H2 0 ltac:(lia)); symmetry; exact H0].
  apply nth_error_split in E. destruct E as [l1 [l2 [-> L]]]. subst o.
  rewrite skipn_app, skipn_all, Nat.sub_diag. cbn [app skipn firstn map seq]. f_equal; [exact H0|].
  rewrite <- seq_shift, map_map.
  specialize (IH (l1 ++ a :: l2) (S (length l1)) (fun i => f (S i))).
  unfold slice in IH. rewrite skipn_app, skipn_all2 in IH by lia.
  replace (S (length l1) - length l1) with 1 in IH by lia. cbn [skipn app] in IH. apply IH.
  - intros i Hi. rewrite <- (H1 (S i) ltac:(lia)). f_equal. lia.
  - intros i Hi. apply H2. lia.
Qed.

Section P.
  Variable V : Type.
  Variable sem : list resp -> option V -> option V * resp.
  Variable owner : bytes -> N.
  Variable asm : assemble -> list resp -> resp.

  Notation db := (db V).
  Notation state := (state V).
  Notation exec_sub := (exec_sub V sem).
  Notation ss_subs := (ss_subs V sem).
  Notation ss_req := (ss_req V sem asm).
  Notation ss_run := (ss_run V sem asm).
  Notation do_step := (do_step V sem owner asm).
  Notation run := (run V sem owner asm).
  Notation init := (init V owner).
  Notation abs_db := (abs_db V owner).

  (* ---------- the store ---------- *)
  Lemma upd_same (d : db) k v : upd V d k v k = v.
  Proof. unfold upd. rewrite bytes_eqb_refl. reflexivity. Qed.
  Lemma upd_other (d : db) k v x : x <> k -> upd V d k v x = d x.
  Proof. intros H. unfold upd. rewrite bytes_eqb_neq by exact H. reflexivity. Qed.

  (* a command reads and writes its own key only *)
  Lemma exec_sub_local (d d' : db) s : d (sk s) = d' (sk s) ->
    snd (exec_sub d s) = snd (exec_sub d' s) /\
    fst (exec_sub d s) (sk s) = fst (exec_sub d' s) (sk s) /\
    (forall x, x <> sk s -> fst (exec_sub d s) x = d x).
  Proof.
    intros H. unfold Cluster.exec_sub. rewrite H. destruct (sem (sb s) (d' (sk s))) as [v r]. cbn [fst snd].
    rewrite !upd_same. split; [reflexivity|]. split; [reflexivity|]. intros x Hx. apply upd_other. exact Hx.
  Qed.

  Lemma ss_subs_app l1 : forall d l2,
    ss_subs d (l1 ++ l2) = let '(d1, r1) := ss_subs d l1 in let '(d2, r2) := ss_subs d1 l2 in (d2, r1 ++ r2).
  Proof.
    induction l1 as [|s t IH]; intros d l2; cbn [app Cluster.ss_subs].
    - destruct (ss_subs d l2). reflexivity.
    - destruct (exec_sub d s) as [d1 r]. rewrite IH. destruct (ss_subs d1 t) as [d2 r2]. destruct (ss_subs d2 l2). reflexivity.
  Qed.

  Lemma ss_subs_length l : forall d, length (snd (ss_subs d l)) = length l.
  Proof.
    induction l as [|s t IH]; intros d; cbn [Cluster.ss_subs]; [reflexivity|].
    destruct (exec_sub d s) as [d1 r]. specialize (IH d1). destruct (ss_subs d1 t). cbn [snd length] in *. lia.
  Qed.

  (* ---------- bookkeeping of children positions ---------- *)
  Definition kids (rs : list request) : list (sub) := flat_map (subs_of) rs.
  Definition offset (rs : list request) (j : nat) : nat := length (kids (firstn j rs)).

  Lemma offset_app rs r j : j <= length rs -> offset (rs ++ [r]) j = offset rs j.
  Proof. intros H. unfold offset. rewrite firstn_app. replace (j - length rs) with 0 by lia. rewrite firstn_O, app_nil_r. reflexivity. Qed.

  Lemma kids_app a b : kids (a ++ b) = kids a ++ kids b.
  Proof. unfold kids. apply flat_map_app. Qed.

  Lemma offset_S rs j r : nth_error rs j = Some r -> offset rs (S j) = offset rs j + nchildren r.
  Proof.
    intros H. unfold offset. apply nth_error_split in H. destruct H as [l1 [l2 [-> L]]]. subst j.
    assert (E1 : firstn (S (length l1)) (l1 ++ r :: l2) = l1 ++ [r])
      by (replace (S (length l1)) with (length l1 + 1) by lia; rewrite firstn_app_2; reflexivity).
    assert (E2 : firstn (length l1) (l1 ++ r :: l2) = l1)
      by (rewrite <- (Nat.add_0_r (length l1)) at 1; rewrite firstn_app_2; cbn [firstn]; apply app_nil_r).
    rewrite E1, E2.
    rewrite kids_app, app_length. unfold kids at 2. cbn [flat_map]. rewrite app_nil_r. reflexivity.
  Qed.

  Lemma offset_mono rs j j' : j <= j' -> offset rs j <= offset rs j'.
  Proof.
    intros H. unfold offset. replace j' with (j + (j' - j)) by lia.
    rewrite <- (firstn_skipn j (firstn (j + (j' - j)) rs)). rewrite kids_app, app_length.
    rewrite firstn_firstn. replace (Nat.min j (j + (j' - j))) with j by lia. lia.
  Qed.

  Lemma offset_all rs : offset rs (length rs) = length (kids rs).
  Proof. unfold offset. rewrite firstn_all. reflexivity. Qed.

  Lemma last_snoc (l : list request) r : last_req (l ++ [r]) = r.
  Proof. unfold last_req. apply last_last. Qed.

  Lemma nth_error_last (l : list request) : l <> [] -> nth_error l (length l - 1) = Some (last_req l).
  Proof.
    intros H. destruct (exists_last H) as [l' [r ->]]. rewrite last_snoc, app_length. cbn [length].
    replace (length l' + 1 - 1) with (length l') by lia. rewrite nth_error_app2, Nat.sub_diag by lia. reflexivity.
  Qed.

  Definition cl (st : state) (c : N) : list entry := filter (fun e => (e_c e =? c)%N) (lin V st).

  Definition reply_of (st : state) (c : N) (j : nat) : resp :=
    match nth j (reqs (conns V st c)) (RLocal (Bulk None)) with
    | RLocal x => x
    | RFwd a l => asm a (slice (map (e_x) (cl st c)) (offset (reqs (conns V st c)) j) (length l))
    end.

  Record Inv (nd0 : N -> db) (progs : N -> list request) (st : state) : Prop := {
    iA : ss_subs (abs_db nd0) (map (e_s) (lin V st)) = (gdb V st, map (e_x) (lin V st));
    iB : forall n, exists dF, ss_subs (nodes V st n) (map (e_s) (nq V st n)) = (dF, map (e_x) (nq V st n)) /\
                              forall k, owner k = n -> dF k = gdb V st k;
    iC : forall c, map (e_s) (cl st c) ++ sending (conns V st c) = kids (reqs (conns V st c));
    iD : forall n e, In e (nq V st n) ->
           e_r e < length (reqs (conns V st (e_c e))) /\
           nth_error (cl st (e_c e)) (offset (reqs (conns V st (e_c e))) (e_r e) + e_i e) = Some e;
    iE : forall c j i r, slots V st c j i = Some r ->
           j < length (reqs (conns V st c)) /\
           nth_error (map (e_x) (cl st c)) (offset (reqs (conns V st c)) j + i) = Some r;
    iF : forall c, reqs (conns V st c) ++ todo (conns V st c) = progs c;
    iG : forall c, out (conns V st c) = map (reply_of st c) (seq 0 (nwritten (conns V st c))) /\
                   nwritten (conns V st c) <= length (reqs (conns V st c)) /\
                   offset (reqs (conns V st c)) (nwritten (conns V st c)) <= length (cl st c);
    iH : forall c, exists pre, subs_of (last_req (reqs (conns V st c))) = pre ++ sending (conns V st c)
  }.

  Lemma fset_same {A} (f : N -> A) n v : fset f n v n = v.
  Proof. unfold fset. rewrite N.eqb_refl. reflexivity. Qed.
  Lemma fset_other {A} (f : N -> A) n v x : x <> n -> fset f n v x = f x.
  Proof. intros H. unfold fset. destruct (N.eqb_spec x n); [contradiction | reflexivity]. Qed.

  Lemma inv_init nd0 progs : Inv nd0 progs (init nd0 progs).
  Proof.
    constructor; cbn [Cluster.init lin nq nodes conns slots gdb reqs todo sending nwritten out map].
    - reflexivity.
    - intros n. exists (nd0 n). split; [reflexivity|]. intros k Hk. unfold Cluster.abs_db. rewrite Hk. reflexivity.
    - intros c. reflexivity.
    - intros n e [].
    - intros c j i r H. discriminate.
    - intros c. reflexivity.
    - intros c. cbn. split; [reflexivity|]. split; [lia|]. unfold offset. cbn. lia.
    - intros c. exists []. reflexivity.
  Qed.

  Ltac cases_c x c := destruct (N.eq_dec x c) as [->|?]; [rewrite ?fset_same | rewrite ?fset_other by assumption].

  Lemma nth_error_app_stable {A} (l x : list A) i a : nth_error l i = Some a -> nth_error (l ++ x) i = Some a.
  Proof. intros H. rewrite nth_error_app1; [exact H|]. apply nth_error_Some. rewrite H. discriminate. Qed.

  Lemma reply_of_ext st st' c j :
    reqs (conns V st' c) = reqs (conns V st c) -> cl st' c = cl st c -> reply_of st' c j = reply_of st c j.
  Proof. intros E1 E2. unfold reply_of. rewrite E1, E2. reflexivity. Qed.

  Lemma nth_of_nth_error (l : list request) j r d : nth_error l j = Some r -> nth j l d = r.
  Proof. intros H. apply nth_error_nth. exact H. Qed.

  (* replies of already written requests do not move when the history grows *)
  Lemma reply_of_grow st c j x y :
    j < nwritten (conns V st c) -> nwritten (conns V st c) <= length (reqs (conns V st c)) ->
    offset (reqs (conns V st c)) (nwritten (conns V st c)) <= length (cl st c) ->
    match nth j (reqs (conns V st c) ++ x) (RLocal (Bulk None)) with
    | RLocal r => r
    | RFwd a l => asm a (slice (map e_x (cl st c ++ y)) (offset (reqs (conns V st c) ++ x) j) (length l))
    end = reply_of st c j.
  Proof.
    intros Hj Hn Ho. unfold reply_of. set (rs := reqs (conns V st c)) in *.
    rewrite app_nth1 by lia.
    assert (Eo : forall k, k <= length rs -> offset (rs ++ x) k = offset rs k).
    { intros k Hk. unfold offset. rewrite firstn_app. replace (k - length rs) with 0 by lia. rewrite firstn_O, app_nil_r. reflexivity. }
    destruct (nth_error rs j) as [r|] eqn:E; [|apply nth_error_None in E; lia].
    rewrite (nth_of_nth_error rs j r _ E). destruct r as [r|a l]; [reflexivity|].
    rewrite Eo by lia. rewrite map_app. rewrite slice_app_stable; [reflexivity|].
    rewrite map_length. pose proof (offset_S rs j _ E) as HS. unfold nchildren in HS. cbn [subs_of] in HS.
    pose proof (offset_mono rs (S j) (nwritten (conns V st c)) ltac:(lia)). lia.
  Qed.

  Lemma vals_map_Some l : vals (map Some l) = l.
  Proof. unfold vals. rewrite map_map. cbn. apply map_id. Qed.

  Lemma all_some_seq (f : nat -> option resp) n : all_some (map f (seq 0 n)) = true -> forall i, i < n -> f i <> None.
  Proof.
    intros H i Hi E. unfold all_some in H. rewrite forallb_forall in H.
    assert (In (@None resp) (map f (seq 0 n))) as Hin.
    { apply in_map_iff. exists i. split; [exact E | apply in_seq; lia]. }
    specialize (H _ Hin). discriminate.
  Qed.

  Lemma step_inv nd0 progs st x : Inv nd0 progs st -> Inv nd0 progs (do_step st x).
  Proof.
    intros I. destruct x as [c|c|n|c]; cbn [Cluster.do_step].
    - (* a connection reads its next request *)
      destruct (sending (conns V st c)) as [|s0 rest0] eqn:Es; [|exact I].
      destruct (todo (conns V st c)) as [|r t] eqn:Et; [exact I|].
      constructor; cbn [lin nq nodes conns slots gdb].
      + exact (iA _ _ _ I).
      + exact (iB _ _ _ I).
      + intros x. unfold cl. cbn [lin]. fold (cl st x). cases_c x c; cbn [reqs sending].
        * rewrite kids_app. unfold kids at 2. cbn [flat_map]. rewrite app_nil_r.
          pose proof (iC _ _ _ I c) as H. rewrite Es, app_nil_r in H. rewrite H. reflexivity.
        * exact (iC _ _ _ I x).
      + intros n e He. destruct (iD _ _ _ I n e He) as [H1 H2]. unfold cl. cbn [lin]. fold (cl st (e_c e)).
        set (x := e_c e) in *. clearbody x.
        cases_c x c; cbn [reqs]; [|split; assumption].
        rewrite app_length. split; [lia|]. rewrite offset_app by lia. exact H2.
      + intros x j i r0 Hs. destruct (iE _ _ _ I x j i r0 Hs) as [H1 H2]. unfold cl. cbn [lin]. fold (cl st x).
        cases_c x c; cbn [reqs]; [|split; assumption].
        rewrite app_length. split; [lia|]. rewrite offset_app by lia. exact H2.
      + intros x. cases_c x c; cbn [reqs todo]; [|exact (iF _ _ _ I x)].
        rewrite <- app_assoc. cbn [app]. rewrite <- Et. exact (iF _ _ _ I c).
      + intros x. destruct (iG _ _ _ I x) as [G1 [G2 G3]]. unfold cl. cbn [lin]. fold (cl st x).
        cases_c x c; cbn [reqs out nwritten].
        * split; [|split].
          -- rewrite G1. apply map_ext_in. intros j Hj. apply in_seq in Hj. symmetry. unfold reply_of at 1. cbn [conns].
             rewrite fset_same. cbn [reqs]. unfold cl at 1. cbn [lin]. fold (cl st c).
             pose proof (reply_of_grow st c j [r] [] ltac:(lia) ltac:(lia) ltac:(lia)) as HG. rewrite app_nil_r in HG. exact HG.
          -- rewrite app_length. lia.
          -- rewrite offset_app by lia. exact G3.
        * split; [|split; assumption]. rewrite G1. apply map_ext. intros j. symmetry. apply reply_of_ext; cbn [conns lin].
          -- rewrite fset_other by assumption. reflexivity.
          -- reflexivity.
      + intros x. cases_c x c; cbn [reqs sending]; [|exact (iH _ _ _ I x)].
        exists []. rewrite last_snoc. reflexivity.
    - (* the handler sends the next child *)
      destruct (sending (conns V st c)) as [|s rest] eqn:Es; [exact I|].
      destruct (exec_sub (gdb V st) s) as [g' r] eqn:Eg.
      set (e := {| e_c := c; e_r := length (reqs (conns V st c)) - 1;
                   e_i := nchildren (last_req (reqs (conns V st c))) - length (s :: rest); e_s := s; e_x := r |}).
      assert (Hcl : forall x, cl {| nodes := nodes V st; nq := fset (nq V st) (owner (sk s)) (nq V st (owner (sk s)) ++ [e]);
                                     conns := fset (conns V st) c {| todo := todo (conns V st c); sending := rest; reqs := reqs (conns V st c);
                                                                      nwritten := nwritten (conns V st c); out := out (conns V st c) |};
                                     slots := slots V st; lin := lin V st ++ [e]; gdb := g' |} x
                             = cl st x ++ (if (c =? x)%N then [e] else [])).
      { intros x. unfold cl. cbn [lin]. rewrite filter_app. cbn [filter e_c e]. destruct (c =? x)%N; reflexivity. }
      pose proof (iC _ _ _ I c) as HC. rewrite Es in HC.
      pose proof (iH _ _ _ I c) as [pre HH]. rewrite Es in HH.
      assert (Hne : reqs (conns V st c) <> []).
      { intros E0. rewrite E0 in HC. cbn in HC. destruct (map e_s (cl st c)); discriminate. }
      assert (Hpos : offset (reqs (conns V st c)) (length (reqs (conns V st c)) - 1) + e_i e = length (cl st c)).
      { pose proof (nth_error_last _ Hne) as HL. pose proof (offset_S _ _ _ HL) as HS.
        replace (S (length (reqs (conns V st c)) - 1)) with (length (reqs (conns V st c))) in HS
          by (destruct (reqs (conns V st c)); [contradiction | cbn [length]; lia]).
        rewrite offset_all in HS. apply (f_equal (@length _)) in HC. rewrite app_length, map_length in HC.
        unfold nchildren in *. rewrite HH in *. rewrite app_length in *. cbn [e_i e]. rewrite HH, app_length. lia. }
      constructor; cbn [lin nq nodes conns slots gdb].
      + rewrite !map_app. rewrite ss_subs_app. rewrite (iA _ _ _ I). cbn [map Cluster.ss_subs e_s e_x e].
        rewrite Eg. reflexivity.
      + intros n. destruct (iB _ _ _ I n) as [dF [B1 B2]]. cases_c n (owner (sk s)).
        * rewrite !map_app, ss_subs_app, B1. cbn [map Cluster.ss_subs e_s e_x e].
          destruct (exec_sub_local dF (gdb V st) s (B2 _ eq_refl)) as [L1 [L2 L3]].
          destruct (exec_sub_local (gdb V st) (gdb V st) s eq_refl) as [_ [_ M3]].
          rewrite Eg in *. destruct (exec_sub dF s) as [dF' r'] eqn:Ed. cbn [fst snd] in *. subst r'.
          exists dF'. split; [reflexivity|]. intros k Hk.
          destruct (list_eq_dec N.eq_dec k (sk s)) as [->|Hks]; [exact L2|].
          rewrite L3, M3 by exact Hks. apply B2. exact Hk.
        * exists dF. split; [exact B1|]. intros k Hk.
          destruct (exec_sub_local (gdb V st) (gdb V st) s eq_refl) as [_ [_ M3]]. rewrite Eg in M3. cbn [fst] in M3.
          rewrite M3; [apply B2; exact Hk|]. intros ->. congruence.
      + intros x. rewrite Hcl. cases_c x c; cbn [reqs sending].
        * rewrite N.eqb_refl, map_app. cbn [map e_s e]. rewrite <- app_assoc. exact HC.
        * destruct (N.eqb_spec c x); [congruence|]. rewrite app_nil_r. exact (iC _ _ _ I x).
      + intros n e0 He0.
        assert (Hold : forall n', In e0 (nq V st n') ->
                  e_r e0 < length (reqs (fset (conns V st) c {| todo := todo (conns V st c); sending := rest; reqs := reqs (conns V st c);
                       nwritten := nwritten (conns V st c); out := out (conns V st c) |} (e_c e0))) /\
                  nth_error (cl st (e_c e0) ++ (if (c =? e_c e0)%N then [e] else []))
                     (offset (reqs (fset (conns V st) c {| todo := todo (conns V st c); sending := rest; reqs := reqs (conns V st c);
                       nwritten := nwritten (conns V st c); out := out (conns V st c) |} (e_c e0))) (e_r e0) + e_i e0) = Some e0).
        { intros n' Hin. destruct (iD _ _ _ I n' e0 Hin) as [D1 D2]. set (x := e_c e0) in *. clearbody x.
          cases_c x c; cbn [reqs]; (split; [exact D1 | apply nth_error_app_stable; exact D2]). }
        rewrite Hcl. destruct (N.eq_dec n (owner (sk s))) as [->|Hn];
          [rewrite fset_same in He0 | rewrite fset_other in He0 by exact Hn; exact (Hold _ He0)].
        apply in_app_or in He0. destruct He0 as [He0|[<-|[]]]; [exact (Hold _ He0)|].
        cbn [e_c e_r e_i e]. rewrite fset_same. cbn [reqs]. rewrite N.eqb_refl. split.
        * destruct (reqs (conns V st c)); [contradiction | cbn [length]; lia].
        * fold e. change (length (s :: rest)) with (length (s :: rest)) in *. cbn [e_i e] in Hpos. rewrite Hpos.
          rewrite nth_error_app2, Nat.sub_diag by lia. reflexivity.
      + intros x j i r0 Hs. destruct (iE _ _ _ I x j i r0 Hs) as [E1 E2]. rewrite Hcl, map_app.
        cases_c x c; cbn [reqs]; (split; [exact E1 | apply nth_error_app_stable; exact E2]).
      + intros x. cases_c x c; cbn [reqs todo]; exact (iF _ _ _ I _).
      + intros x. destruct (iG _ _ _ I x) as [G1 [G2 G3]]. rewrite Hcl.
        assert (Hr : forall j, j < nwritten (conns V st x) ->
                 reply_of {| nodes := nodes V st; nq := fset (nq V st) (owner (sk s)) (nq V st (owner (sk s)) ++ [e]);
                             conns := fset (conns V st) c {| todo := todo (conns V st c); sending := rest; reqs := reqs (conns V st c);
                                                              nwritten := nwritten (conns V st c); out := out (conns V st c) |};
                             slots := slots V st; lin := lin V st ++ [e]; gdb := g' |} x j = reply_of st x j).
        { intros j Hj. unfold reply_of at 1. rewrite Hcl. cbn [conns].
          assert (Er : reqs (fset (conns V st) c {| todo := todo (conns V st c); sending := rest; reqs := reqs (conns V st c);
                                nwritten := nwritten (conns V st c); out := out (conns V st c) |} x) = reqs (conns V st x))
            by (cases_c x c; reflexivity).
          rewrite Er. pose proof (reply_of_grow st x j [] (if (c =? x)%N then [e] else []) Hj G2 G3) as HG.
          rewrite !app_nil_r in HG. exact HG. }
        cases_c x c; cbn [reqs out nwritten]; (split; [|split; [exact G2 | rewrite app_length; lia]]).
        * etransitivity; [exact G1|]. apply map_ext_in. intros j Hj. apply in_seq in Hj. symmetry. apply Hr. lia.
        * etransitivity; [exact G1|]. apply map_ext_in. intros j Hj. apply in_seq in Hj. symmetry. apply Hr. lia.
      + intros x. cases_c x c; cbn [reqs sending]; [|exact (iH _ _ _ I x)].
        exists (pre ++ [s]). rewrite <- app_assoc. exact HH.
    - (* a node executes the oldest command queued on its connection and answers *)
      destruct (nq V st n) as [|e t] eqn:En; [exact I|].
      destruct (exec_sub (nodes V st n) (e_s e)) as [d' r] eqn:Ed.
      assert (Hr : r = e_x e /\ exists dF, ss_subs d' (map e_s t) = (dF, map e_x t) /\ forall k, owner k = n -> dF k = gdb V st k).
      { destruct (iB _ _ _ I n) as [dF [B1 B2]]. rewrite En in B1. cbn [map Cluster.ss_subs] in B1. rewrite Ed in B1.
        destruct (ss_subs d' (map e_s t)) as [d2 rs]. inversion B1; subst. split; [reflexivity|]. exists dF. auto. }
      destruct Hr as [-> [dF [F1 F2]]].
      constructor; cbn [lin nq nodes conns slots gdb].
      + exact (iA _ _ _ I).
      + intros m. cases_c m n; [exists dF; split; assumption | exact (iB _ _ _ I m)].
      + exact (iC _ _ _ I).
      + intros m e0 He0. destruct (N.eq_dec m n) as [->|Hm].
        * rewrite fset_same in He0. apply (iD _ _ _ I n e0). rewrite En. right. exact He0.
        * rewrite fset_other in He0 by exact Hm. exact (iD _ _ _ I m e0 He0).
      + intros x j i r0 Hs.
        destruct ((x =? e_c e)%N && Nat.eqb j (e_r e) && Nat.eqb i (e_i e)) eqn:Eb.
        * apply andb_true_iff in Eb. destruct Eb as [Eb E3]. apply andb_true_iff in Eb. destruct Eb as [E1 E2].
          apply N.eqb_eq in E1. apply Nat.eqb_eq in E2. apply Nat.eqb_eq in E3. subst x j i. inversion Hs; subst r0.
          destruct (iD _ _ _ I n e ltac:(rewrite En; left; reflexivity)) as [D1 D2]. split; [exact D1|].
          apply map_nth_error. exact D2.
        * exact (iE _ _ _ I x j i r0 Hs).
      + exact (iF _ _ _ I).
      + exact (iG _ _ _ I).
      + exact (iH _ _ _ I).
    - (* the connection's writer emits the reply of the oldest unanswered request *)
      destruct (nth_error (reqs (conns V st c)) (nwritten (conns V st c))) as [rq|] eqn:Eq; [|exact I].
      destruct (all_some (slot_vals (slots V st c (nwritten (conns V st c))) (nchildren rq))) eqn:Ea; [|exact I].
      set (reply := match rq with RLocal x => x | RFwd a _ => asm a (vals (slot_vals (slots V st c (nwritten (conns V st c))) (nchildren rq))) end).
      assert (Hlt : nwritten (conns V st c) < length (reqs (conns V st c))) by (apply nth_error_Some; rewrite Eq; discriminate).
      destruct (iG _ _ _ I c) as [G1 [G2 G3]].
      assert (Hsl : forall i, i < nchildren rq -> nth_error (map e_x (cl st c)) (offset (reqs (conns V st c)) (nwritten (conns V st c)) + i)
                                                  = slots V st c (nwritten (conns V st c)) i).
      { intros i Hi. pose proof (all_some_seq _ _ Ea i Hi) as Hs.
        destruct (slots V st c (nwritten (conns V st c)) i) as [ri|] eqn:Esl; [|contradiction].
        exact (proj2 (iE _ _ _ I c _ i ri Esl)). }
      assert (Hrep : reply = reply_of st c (nwritten (conns V st c))).
      { unfold reply_of. rewrite (nth_of_nth_error _ _ _ _ Eq). unfold reply. destruct rq as [x|a l]; [reflexivity|].
        f_equal. unfold nchildren in *. cbn [subs_of] in *.
        pose proof (slice_nth (map e_x (cl st c)) (offset (reqs (conns V st c)) (nwritten (conns V st c))) (length l)
                              (slots V st c (nwritten (conns V st c))) Hsl (all_some_seq _ _ Ea)) as HS.
        unfold slot_vals. rewrite <- HS. apply vals_map_Some. }
      assert (Hoff : offset (reqs (conns V st c)) (S (nwritten (conns V st c))) <= length (cl st c)).
      { rewrite (offset_S _ _ _ Eq). destruct (nchildren rq) as [|k] eqn:Ek; [lia|].
        pose proof (Hsl k ltac:(lia)) as Hk. pose proof (all_some_seq _ _ Ea k ltac:(lia)) as Hk2.
        assert (offset (reqs (conns V st c)) (nwritten (conns V st c)) + k < length (map e_x (cl st c)))
          by (apply nth_error_Some; rewrite Hk; exact Hk2).
        rewrite map_length in *. lia. }
      constructor; cbn [lin nq nodes conns slots gdb].
      + exact (iA _ _ _ I).
      + exact (iB _ _ _ I).
      + intros x. unfold cl. cbn [lin]. fold (cl st x). cases_c x c; cbn [reqs sending]; exact (iC _ _ _ I _).
      + intros m e0 He0. destruct (iD _ _ _ I m e0 He0) as [D1 D2]. unfold cl. cbn [lin]. fold (cl st (e_c e0)).
        set (x := e_c e0) in *. clearbody x. cases_c x c; cbn [reqs]; split; assumption.
      + intros x j i r0 Hs. destruct (iE _ _ _ I x j i r0 Hs) as [E1 E2]. unfold cl. cbn [lin]. fold (cl st x).
        cases_c x c; cbn [reqs]; split; assumption.
      + intros x. cases_c x c; cbn [reqs todo]; exact (iF _ _ _ I _).
      + intros x.
        assert (Hro : forall j, reply_of {| nodes := nodes V st; nq := nq V st;
                        conns := fset (conns V st) c {| todo := todo (conns V st c); sending := sending (conns V st c); reqs := reqs (conns V st c);
                                                         nwritten := S (nwritten (conns V st c)); out := out (conns V st c) ++ [reply] |};
                        slots := slots V st; lin := lin V st; gdb := gdb V st |} x j = reply_of st x j).
        { intros j. apply reply_of_ext; cbn [conns lin]; [|reflexivity]. cases_c x c; reflexivity. }
        unfold cl. cbn [lin]. fold (cl st x). cases_c x c; cbn [reqs out nwritten].
        * split; [|split; [lia | exact Hoff]].
          rewrite seq_S, map_app. cbn [map plus]. f_equal.
          -- etransitivity; [exact G1|]. apply map_ext. intros j. symmetry. apply Hro.
          -- f_equal. rewrite Hro. exact Hrep.
        * destruct (iG _ _ _ I x) as [X1 [X2 X3]]. split; [|split; assumption].
          etransitivity; [exact X1|]. apply map_ext. intros j. symmetry. apply Hro.
      + intros x. cases_c x c; cbn [reqs sending]; exact (iH _ _ _ I _).
  Qed.

  Theorem run_inv nd0 progs sch : Inv nd0 progs (run (init nd0 progs) sch).
  Proof.
    unfold Cluster.run. generalize (inv_init nd0 progs). generalize (init nd0 progs).
    induction sch as [|x t IH]; intros st I; cbn [fold_left]; [exact I|]. apply IH. apply step_inv. exact I.
  Qed.

  (* every command queued on a node's connection is for a key that node owns: no redirection on a stable cluster *)
  Lemma routed_to_owner nd0 progs sch n e : In e (nq V (run (init nd0 progs) sch) n) -> owner (sk (e_s e)) = n.
  Proof.
    unfold Cluster.run. assert (H0 : forall n e, In e (nq V (init nd0 progs) n) -> owner (sk (e_s e)) = n) by (intros ? ? []).
    revert n e. generalize dependent (init nd0 progs). induction sch as [|x t IH]; intros st H0 n e; cbn [fold_left]; [apply H0|].
    apply IH. clear IH n e. intros n e. destruct x as [c|c|m|c]; cbn [Cluster.do_step].
    - destruct (sending (conns V st c)); [destruct (todo (conns V st c))|]; cbn [nq]; apply H0.
    - destruct (sending (conns V st c)) as [|s rest]; [apply H0|]. destruct (exec_sub (gdb V st) s) as [g' r]. cbn [nq].
      destruct (N.eq_dec n (owner (sk s))) as [->|Hn]; [rewrite fset_same | rewrite fset_other by exact Hn; apply H0].
      intros Hin. apply in_app_or in Hin. destruct Hin as [Hin|[<-|[]]]; [apply H0; exact Hin | reflexivity].
    - destruct (nq V st m) as [|e0 t0] eqn:Em; [apply H0|]. destruct (exec_sub (nodes V st m) (e_s e0)). cbn [nq].
      destruct (N.eq_dec n m) as [->|Hn]; [rewrite fset_same | rewrite fset_other by exact Hn; apply H0].
      intros Hin. apply H0. rewrite Em. right. exact Hin.
    - destruct (nth_error (reqs (conns V st c)) (nwritten (conns V st c))); [|apply H0].
      destruct (all_some _); cbn [nq]; apply H0.
  Qed.

  (* ---------- the single server, request by request, against its children ---------- *)
  Lemma ss_run_app l1 : forall d l2,
    ss_run d (l1 ++ l2) = let '(d1, r1) := ss_run d l1 in let '(d2, r2) := ss_run d1 l2 in (d2, r1 ++ r2).
  Proof.
    induction l1 as [|r t IH]; intros d l2; cbn [app Cluster.ss_run].
    - destruct (ss_run d l2). reflexivity.
    - destruct (ss_req d r) as [d1 x]. rewrite IH. destruct (ss_run d1 t) as [d2 r2]. destruct (ss_run d2 l2). reflexivity.
  Qed.

  Definition req_reply (rs : list request) (xs : list resp) (j : nat) : resp :=
    match nth j rs (RLocal (Bulk None)) with
    | RLocal x => x
    | RFwd a l => asm a (slice xs (offset rs j) (length l))
    end.

  Lemma slice_exact {A} (x y z : list A) : slice (x ++ y ++ z) (length x) (length y) = y.
  Proof. unfold slice. rewrite skipn_app, skipn_all, Nat.sub_diag. cbn [app skipn]. rewrite firstn_app, firstn_all, Nat.sub_diag, firstn_O. apply app_nil_r. Qed.

  Lemma ss_run_slices rs : forall d,
    fst (ss_run d rs) = fst (ss_subs d (kids rs)) /\
    snd (ss_run d rs) = map (req_reply rs (snd (ss_subs d (kids rs)))) (seq 0 (length rs)).
  Proof.
    induction rs as [|r rs IH] using rev_ind; intros d; [split; reflexivity|].
    destruct (IH d) as [I1 I2]. rewrite ss_run_app, kids_app, ss_subs_app.
    pose proof (ss_subs_length (kids rs) d) as HL.
    destruct (ss_run d rs) as [d1 r1]. destruct (ss_subs d (kids rs)) as [d1' x1]. cbn [fst snd] in *. subst d1'.
    assert (Ek : kids [r] = subs_of r) by (unfold kids; cbn [flat_map]; apply app_nil_r). rewrite !Ek. cbn [Cluster.ss_run].
    pose proof (ss_subs_length (subs_of r) d1) as HL2.
    destruct r as [x|a l]; cbn [Cluster.ss_req subs_of] in *.
    - cbn [Cluster.ss_subs fst snd]. rewrite app_nil_r. split; [reflexivity|].
      rewrite app_length. cbn [length]. rewrite Nat.add_1_r, seq_S, map_app. cbn [map plus]. f_equal.
      + rewrite I2. apply map_ext_in. intros j Hj. apply in_seq in Hj. unfold req_reply. rewrite app_nth1 by lia.
        rewrite offset_app by lia. reflexivity.
      + unfold req_reply. rewrite app_nth2, Nat.sub_diag by lia. reflexivity.
    - destruct (ss_subs d1 l) as [d2 x2]. cbn [fst snd] in *. split; [reflexivity|].
      rewrite app_length. cbn [length]. rewrite Nat.add_1_r, seq_S, map_app. cbn [map plus]. f_equal.
      + rewrite I2. apply map_ext_in. intros j Hj. apply in_seq in Hj. unfold req_reply. rewrite app_nth1 by lia.
        rewrite offset_app by lia.
        destruct (nth_error rs j) as [rq|] eqn:E; [|apply nth_error_None in E; lia].
        rewrite (nth_of_nth_error rs j rq _ E). destruct rq as [y|a' l']; [reflexivity|]. f_equal.
        symmetry. apply slice_app_stable. rewrite HL.
        pose proof (offset_S rs j _ E) as HS. unfold nchildren in HS. cbn [subs_of] in HS.
        pose proof (offset_mono rs (S j) (length rs) ltac:(lia)) as HM. rewrite offset_all in HM. lia.
      + unfold req_reply. rewrite app_nth2, Nat.sub_diag by lia. cbn [nth]. f_equal.
        assert (Eo : offset (rs ++ [RFwd a l]) (length rs) = length x1).
        { rewrite offset_app by lia. rewrite offset_all. lia. }
        rewrite Eo, <- HL2. pose proof (slice_exact x1 x2 []) as SE. rewrite app_nil_r in SE. rewrite SE. reflexivity.
  Qed.

  (* ---------- one connection: the k-th reply is the single server's reply to the k-th request ---------- *)
  Theorem single_connection nd0 progs c sch : (forall c', c' <> c -> progs c' = []) ->
    let st := run (init nd0 progs) sch in
    out (conns V st c) = firstn (nwritten (conns V st c)) (snd (ss_run (abs_db nd0) (progs c))).
  Proof.
    intros Hp st. pose proof (run_inv nd0 progs sch) as I. fold st in I.
    assert (Hall : cl st c = lin V st).
    { unfold cl. apply filter_all. apply forallb_forall. intros e He.
      destruct (N.eqb_spec (e_c e) c) as [|Hne]; [reflexivity|]. exfalso.
      pose proof (iF _ _ _ I (e_c e)) as F. rewrite (Hp _ Hne) in F. apply app_eq_nil in F. destruct F as [F1 F2].
      pose proof (iC _ _ _ I (e_c e)) as C. rewrite F1 in C. cbn in C. apply app_eq_nil in C. destruct C as [C1 _].
      assert (In e (cl st (e_c e))) as Hin by (unfold cl; apply filter_In; split; [exact He | apply N.eqb_refl]).
      destruct (cl st (e_c e)); [exact Hin | discriminate]. }
    destruct (iG _ _ _ I c) as [G1 [G2 G3]]. pose proof (iC _ _ _ I c) as C. pose proof (iF _ _ _ I c) as F.
    pose proof (iA _ _ _ I) as A. rewrite Hall in *.
    set (rs := reqs (conns V st c)) in *. set (nw := nwritten (conns V st c)) in *.
    rewrite <- F, ss_run_app. destruct (ss_run_slices rs (abs_db nd0)) as [_ S2].
    destruct (ss_run (abs_db nd0) rs) as [d1 r1] eqn:E1. destruct (ss_run d1 (todo (conns V st c))) as [d2 r2]. cbn [snd] in *.
    assert (Hlen : length r1 = length rs) by (rewrite S2, map_length, seq_length; reflexivity).
    rewrite firstn_app. replace (nw - length r1) with 0 by lia. rewrite firstn_O, app_nil_r.
    rewrite S2, firstn_map, firstn_seq. replace (Nat.min nw (length rs)) with nw by lia.
    rewrite G1. apply map_ext_in. intros j Hj. apply in_seq in Hj. unfold reply_of, req_reply. fold rs. rewrite Hall.
    destruct (nth_error rs j) as [rq|] eqn:E; [|apply nth_error_None in E; lia].
    rewrite (nth_of_nth_error rs j rq _ E). destruct rq as [y|a l]; [reflexivity|]. f_equal.
    rewrite <- C, ss_subs_app, A. destruct (ss_subs (gdb V st) (sending (conns V st c))) as [d3 r3]. cbn [snd].
    symmetry. apply slice_app_stable. rewrite map_length.
    pose proof (offset_S rs j _ E) as HS. unfold nchildren in HS. cbn [subs_of] in HS.
    pose proof (offset_mono rs (S j) nw ltac:(lia)). lia.
  Qed.

  Corollary single_connection_quiescent nd0 progs c sch : (forall c', c' <> c -> progs c' = []) ->
    quiescent V (run (init nd0 progs) sch) c ->
    out (conns V (run (init nd0 progs) sch) c) = snd (ss_run (abs_db nd0) (progs c)).
  Proof.
    intros Hp [Q1 [Q2 Q3]]. rewrite (single_connection nd0 progs c sch Hp).
    pose proof (run_inv nd0 progs sch) as I. pose proof (iF _ _ _ I c) as F. rewrite Q1, app_nil_r in F.
    rewrite Q3, F. destruct (ss_run_slices (progs c) (abs_db nd0)) as [_ S2].
    apply firstn_all2. rewrite S2, map_length, seq_length. lia.
  Qed.

  (* ---------- any number of connections: the replies are those of the single server executing the children in
     the order they were sent (lin), and that order contains every connection's children in program order ---------- *)
  Theorem linearizable nd0 progs sch :
    let st := run (init nd0 progs) sch in
    ss_subs (abs_db nd0) (map e_s (lin V st)) = (gdb V st, map e_x (lin V st)) /\
    forall c,
      reqs (conns V st c) ++ todo (conns V st c) = progs c /\
      map e_s (cl st c) ++ sending (conns V st c) = kids (reqs (conns V st c)) /\
      out (conns V st c) = map (req_reply (reqs (conns V st c)) (map e_x (cl st c))) (seq 0 (nwritten (conns V st c))) /\
      nwritten (conns V st c) <= length (reqs (conns V st c)).
  Proof.
    intros st. pose proof (run_inv nd0 progs sch) as I. fold st in I. split; [exact (iA _ _ _ I)|].
    intros c. destruct (iG _ _ _ I c) as [G1 [G2 _]]. split; [exact (iF _ _ _ I c)|]. split; [exact (iC _ _ _ I c)|].
    split; [exact G1 | exact G2].
  Qed.

  (* never more replies than requests read, never fewer than requests answered: exactly one each *)
  Lemma one_reply_each nd0 progs sch c :
    let cn := conns V (run (init nd0 progs) sch) c in
    length (out cn) = nwritten cn /\ nwritten cn <= length (reqs cn) /\ reqs cn ++ todo cn = progs c.
  Proof.
    intros cn. pose proof (run_inv nd0 progs sch) as I. destruct (iG _ _ _ I c) as [G1 [G2 _]]. fold cn in G1, G2.
    split; [rewrite G1, map_length, seq_length; reflexivity|]. split; [exact G2 | exact (iF _ _ _ I c)].
  Qed.
End P.
