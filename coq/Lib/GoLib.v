(* What the generated functions of Gen/Funcs.v are written with (gen/trans.go): Go's fixed-width unsigned arithmetic,
   indexing and slicing of byte slices, and the two loop shapes the translator accepts.  Definitions only. *)
From Coq Require Import List NArith Bool.
From Sam Require Export Model.Bytes.
Import ListNotations.
Open Scope N_scope.

(* the value of an unsigned integer expression of width w *)
Definition wrap (w x : N) : N := x mod 2 ^ w.

(* x[i]; a run-time panic (index out of range) is not modelled: the accessor is total *)
Definition idxN (l : list N) (i : N) : N := nth (N.to_nat i) l 0.

(* x[lo:hi] *)
Definition sliceN (l : list N) (lo hi : N) : list N := firstn (N.to_nat (hi - lo)) (skipn (N.to_nat lo) l).

(* for i = a; i < n; i++ { if p(i) { break } }  - the value of i afterwards *)
Fixpoint search (fuel : nat) (i : N) (p : N -> bool) : N :=
  match fuel with
  | O => i
  | S f => if p i then i else search f (i + 1) p
  end.
Definition find_from (a n : N) (p : N -> bool) : N := if n <=? a then a else search (N.to_nat (n - a)) a p.

(* for i := a; i < n; i++ { acc = f(i, acc) }  - the value of acc afterwards *)
Fixpoint iter {A} (fuel : nat) (i : N) (f : N -> A -> A) (acc : A) : A :=
  match fuel with
  | O => acc
  | S k => iter k (i + 1) f (f i acc)
  end.
Definition for_range {A} (a n : N) (f : N -> A -> A) (acc : A) : A := iter (N.to_nat (n - a)) a f acc.
