(* Finite sweeps: a boolean check over all N below a bound, lifted to a Prop.
   The counter is carried in N (N.of_nat on each element would make the sweep quadratic). *)
From Coq Require Import List NArith Lia Bool.
Import ListNotations.

Fixpoint all_from (f : N -> bool) (start : N) (k : nat) : bool :=
  match k with
  | O => true
  | S k' => f start && all_from f (N.succ start) k'
  end.

Definition all_below (n : N) (f : N -> bool) : bool := all_from f 0%N (N.to_nat n).

Lemma all_from_spec f k : forall start, all_from f start k = true ->
  forall x, (start <= x)%N -> (x < start + N.of_nat k)%N -> f x = true.
Proof.
  induction k as [|k IH]; intros start H x Hlo Hhi.
  - lia.
  - cbn [all_from] in H. apply andb_true_iff in H. destruct H as [H0 H1].
    destruct (N.eq_dec x start) as [E|E]; [subst; exact H0|].
    apply (IH (N.succ start) H1); lia.
Qed.

Lemma sweep (n : N) (f : N -> bool) :
  all_below n f = true -> forall x, (x < n)%N -> f x = true.
Proof.
  intros H x Hx. unfold all_below in H.
  apply (all_from_spec f _ 0%N H); lia.
Qed.
