(* Everything the extracted runner needs: generated tables and models only (no proofs),
   so the runner still builds, and can search for a counter-example, when a proof breaks. *)
From Sam Require Export Gen.Tables Model.Slot Model.Bytes Model.Resp Model.Reader Model.Codec Model.Frame Model.Text Model.Dispatch Model.RedisFlags Model.Scan Model.Compress Model.Redirect Model.HostSet Model.Counter Model.ConfigStore Model.Cluster Model.RedisSem Model.Migrate Model.Gossip Model.Heal Model.Stats Model.Backend Model.Discovery Model.Lifecycle Model.Relay.
