(* Extraction of the executable models for the correspondence runner.
   ExtrOcamlBasic only; N, Z, nat, positive stay inductive. Compiled from the output
   directory (coqc writes the .ml files into the current directory). *)
From Coq Require Import Extraction ExtrOcamlBasic List NArith ZArith.
From Sam Require Import Run.ExtractDeps.
Extraction Language OCaml.
Separate Extraction
  Coq.Strings.String.string Coq.Strings.Ascii.ascii BinNums.Z BinNat.N.add BinNat.N.mul BinNat.N.div_eucl BinInt.Z.add BinInt.Z.opp
  Sam.Gen.Tables
  Sam.Model.Slot Sam.Model.Bytes Sam.Model.Resp Sam.Model.Reader Sam.Model.Codec Sam.Model.Frame Sam.Model.Text Sam.Model.Dispatch Sam.Model.RedisFlags Sam.Model.Scan Sam.Model.Compress Sam.Model.Redirect Sam.Model.HostSet Sam.Model.Counter Sam.Model.ConfigStore Sam.Model.Cluster Sam.Model.RedisSem Sam.Model.Migrate Sam.Model.Gossip Sam.Model.Heal Sam.Model.Stats Sam.Model.Backend Sam.Model.Discovery Sam.Model.Lifecycle Sam.Model.Relay.
