package main

// A simulated Redis cluster over real TCP (127.0.0.1), a launcher for the real Redis processor of the
// repository under test (proc.New + Start, real listener, real upstream connections) and a scripted client.
// The nodes implement the command table of coq/Model/RedisSem.v, the cluster redirection rules of
// coq/Model/Migrate.v (MOVED / ASK / ASKING / importing / migrating) and fault injection.

import (
	"bufio"
	"bytes"
	"encoding/hex"
	"errors"
	"fmt"
	"io"
	"net"
	"os"
	"path/filepath"
	"sort"
	"strconv"
	"strings"
	"sync"
	"syscall"
	"time"

	"github.com/samaritan-proxy/samaritan/host"
	"github.com/samaritan-proxy/samaritan/pb/common"
	"github.com/samaritan-proxy/samaritan/pb/config/hc"
	"github.com/samaritan-proxy/samaritan/pb/config/protocol"
	predis "github.com/samaritan-proxy/samaritan/pb/config/protocol/redis"
	"github.com/samaritan-proxy/samaritan/pb/config/service"
	"github.com/samaritan-proxy/samaritan/proc"
	redis "github.com/samaritan-proxy/samaritan/proc/redis"
	"github.com/samaritan-proxy/samaritan/stats"
	"github.com/samaritan-proxy/samaritan/utils"
)

// ---------------------------------------------------------------- wire values

type wv struct {
	t    byte // + - : $ *
	s    []byte
	n    int64
	a    []*wv
	null bool
}

func wSimple(s string) *wv { return &wv{t: '+', s: []byte(s)} }
func wErr(s string) *wv {
	// as Redis does: an error reply is one line
	return &wv{t: '-', s: []byte(strings.NewReplacer("\r", " ", "\n", " ").Replace(s))}
}
func wInt(n int64) *wv   { return &wv{t: ':', n: n} }
func wBulk(b []byte) *wv { return &wv{t: '$', s: append([]byte{}, b...)} }
func wNil() *wv          { return &wv{t: '$', null: true} }
func wArr(a []*wv) *wv   { return &wv{t: '*', a: a} }

func (v *wv) encode(b *bytes.Buffer) {
	switch v.t {
	case '+', '-':
		b.WriteByte(v.t)
		b.Write(v.s)
		b.WriteString("\r\n")
	case ':':
		b.WriteByte(':')
		b.WriteString(strconv.FormatInt(v.n, 10))
		b.WriteString("\r\n")
	case '$':
		if v.null {
			b.WriteString("$-1\r\n")
			return
		}
		b.WriteByte('$')
		b.WriteString(strconv.Itoa(len(v.s)))
		b.WriteString("\r\n")
		b.Write(v.s)
		b.WriteString("\r\n")
	case '*':
		if v.null {
			b.WriteString("*-1\r\n")
			return
		}
		b.WriteByte('*')
		b.WriteString(strconv.Itoa(len(v.a)))
		b.WriteString("\r\n")
		for _, x := range v.a {
			x.encode(b)
		}
	}
}

func (v *wv) bytes() []byte {
	var b bytes.Buffer
	v.encode(&b)
	return b.Bytes()
}

// canonical token form shared with resp.go / run/driver.ml
func (v *wv) tokens(b *strings.Builder) {
	switch v.t {
	case '+':
		b.WriteString("S" + hex.EncodeToString(v.s))
	case '-':
		b.WriteString("E" + hex.EncodeToString(v.s))
	case ':':
		b.WriteString("I" + strconv.FormatInt(v.n, 10))
	case '$':
		if v.null {
			b.WriteString("Bn")
		} else {
			b.WriteString("B" + hex.EncodeToString(v.s))
		}
	case '*':
		if v.null {
			b.WriteString("An")
		} else {
			b.WriteString("A" + strconv.Itoa(len(v.a)))
			for _, x := range v.a {
				b.WriteByte(' ')
				x.tokens(b)
			}
		}
	}
}

func (v *wv) String() string {
	var b strings.Builder
	v.tokens(&b)
	return b.String()
}

func wvOfTokens(toks []string, pos *int) *wv {
	t := toks[*pos]
	*pos++
	unhex := func(s string) []byte {
		b, err := hex.DecodeString(s)
		if err != nil {
			die("bad hex token %q", t)
		}
		return b
	}
	switch t[0] {
	case 'S':
		return &wv{t: '+', s: unhex(t[1:])}
	case 'E':
		return &wv{t: '-', s: unhex(t[1:])}
	case 'I':
		n, _ := strconv.ParseInt(t[1:], 10, 64)
		return wInt(n)
	case 'B':
		if t == "Bn" {
			return wNil()
		}
		return &wv{t: '$', s: unhex(t[1:])}
	case 'A':
		if t == "An" {
			return &wv{t: '*', null: true}
		}
		k, _ := strconv.Atoi(t[1:])
		v := &wv{t: '*', a: []*wv{}}
		for i := 0; i < k; i++ {
			v.a = append(v.a, wvOfTokens(toks, pos))
		}
		return v
	}
	die("bad token %q", t)
	return nil
}

func readLine(br *bufio.Reader) ([]byte, error) {
	l, err := br.ReadBytes('\n')
	if err != nil {
		return nil, err
	}
	if len(l) < 2 || l[len(l)-2] != '\r' {
		return nil, errors.New("line without CRLF")
	}
	return l[:len(l)-2], nil
}

// wholeValueBuffered: the bytes already read from the connection contain at least one complete value
func wholeValueBuffered(br *bufio.Reader) bool {
	b, err := br.Peek(br.Buffered())
	if err != nil || len(b) == 0 {
		return false
	}
	_, err = wireRead(bufio.NewReaderSize(bytes.NewReader(b), len(b)+16))
	return err == nil
}

func wireRead(br *bufio.Reader) (*wv, error) {
	t, err := br.ReadByte()
	if err != nil {
		return nil, err
	}
	l, err := readLine(br)
	if err != nil {
		return nil, err
	}
	switch t {
	case '+', '-':
		return &wv{t: t, s: l}, nil
	case ':':
		n, err := strconv.ParseInt(string(l), 10, 64)
		if err != nil {
			return nil, err
		}
		return wInt(n), nil
	case '$':
		n, err := strconv.Atoi(string(l))
		if err != nil {
			return nil, err
		}
		if n < 0 {
			return wNil(), nil
		}
		buf := make([]byte, n+2)
		if _, err := io.ReadFull(br, buf); err != nil {
			return nil, err
		}
		return &wv{t: '$', s: buf[:n]}, nil
	case '*':
		n, err := strconv.Atoi(string(l))
		if err != nil {
			return nil, err
		}
		if n < 0 {
			return &wv{t: '*', null: true}, nil
		}
		v := &wv{t: '*', a: []*wv{}}
		for i := 0; i < n; i++ {
			x, err := wireRead(br)
			if err != nil {
				return nil, err
			}
			v.a = append(v.a, x)
		}
		return v, nil
	}
	return nil, fmt.Errorf("bad type byte %q", t)
}

// ---------------------------------------------------------------- the command table (RedisSem.v)

type sval struct {
	kind byte // s l h S
	str  []byte
	list [][]byte
	hk   [][]byte // hash fields in insertion order
	hv   map[string][]byte
	set  [][]byte
}

const wrongType = "WRONGTYPE Operation against a key holding the wrong kind of value"

func asciiLowerB(b []byte) string {
	c := append([]byte{}, b...)
	for i, x := range c {
		if 'A' <= x && x <= 'Z' {
			c[i] = x + 32
		}
	}
	return string(c)
}

// Go's ParseInt restricted to what Model/Resp.v parse_int64 accepts (ParseInt(s, 10, 64))
func parseI64(b []byte) (int64, bool) {
	n, err := strconv.ParseInt(string(b), 10, 64)
	if err != nil || bytes.ContainsRune(b, '_') {
		return 0, false
	}
	return n, true
}

func simExec(store map[string]*sval, args [][]byte) *wv {
	name := asciiLowerB(args[0])
	if len(args) < 2 {
		return wErr("ERR wrong number of arguments for '" + name + "' command")
	}
	key := string(args[1])
	rest := args[2:]
	old := store[key]
	argErr := wErr("ERR wrong number of arguments for '" + name + "' command")
	incr := func(d int64) *wv {
		if old == nil {
			store[key] = &sval{kind: 's', str: []byte(strconv.FormatInt(d, 10))}
			return wInt(d)
		}
		if old.kind != 's' {
			return wErr(wrongType)
		}
		z, ok := parseI64(old.str)
		if !ok {
			return wErr("ERR value is not an integer or out of range")
		}
		if (d > 0 && z > (1<<63-1)-d) || (d < 0 && z < (-1<<63)-d) {
			return wErr("ERR increment or decrement would overflow")
		}
		old.str = []byte(strconv.FormatInt(z+d, 10))
		return wInt(z + d)
	}
	switch name {
	case "get":
		if len(rest) != 0 {
			return argErr
		}
		if old == nil {
			return wNil()
		}
		if old.kind != 's' {
			return wErr(wrongType)
		}
		return wBulk(old.str)
	case "set":
		if len(rest) != 1 {
			return wErr("ERR syntax error")
		}
		store[key] = &sval{kind: 's', str: append([]byte{}, rest[0]...)}
		return wSimple("OK")
	case "getset":
		if len(rest) != 1 {
			return argErr
		}
		if old != nil && old.kind != 's' {
			return wErr(wrongType)
		}
		store[key] = &sval{kind: 's', str: append([]byte{}, rest[0]...)}
		if old == nil {
			return wNil()
		}
		return wBulk(old.str)
	case "setnx":
		if len(rest) != 1 {
			return argErr
		}
		if old != nil {
			return wInt(0)
		}
		store[key] = &sval{kind: 's', str: append([]byte{}, rest[0]...)}
		return wInt(1)
	case "append":
		if len(rest) != 1 {
			return argErr
		}
		if old == nil {
			store[key] = &sval{kind: 's', str: append([]byte{}, rest[0]...)}
			return wInt(int64(len(rest[0])))
		}
		if old.kind != 's' {
			return wErr(wrongType)
		}
		old.str = append(old.str, rest[0]...)
		return wInt(int64(len(old.str)))
	case "strlen":
		if len(rest) != 0 {
			return argErr
		}
		if old == nil {
			return wInt(0)
		}
		if old.kind != 's' {
			return wErr(wrongType)
		}
		return wInt(int64(len(old.str)))
	case "incr":
		if len(rest) != 0 {
			return argErr
		}
		return incr(1)
	case "decr":
		if len(rest) != 0 {
			return argErr
		}
		return incr(-1)
	case "incrby":
		if len(rest) != 1 {
			return argErr
		}
		d, ok := parseI64(rest[0])
		if !ok {
			return wErr("ERR value is not an integer or out of range")
		}
		return incr(d)
	case "del", "unlink":
		if len(rest) != 0 {
			return argErr
		}
		if old == nil {
			return wInt(0)
		}
		delete(store, key)
		return wInt(1)
	case "exists", "touch":
		if len(rest) != 0 {
			return argErr
		}
		if old == nil {
			return wInt(0)
		}
		return wInt(1)
	case "lpush", "rpush":
		if len(rest) == 0 {
			return argErr
		}
		if old != nil && old.kind != 'l' {
			return wErr(wrongType)
		}
		if old == nil {
			old = &sval{kind: 'l'}
			store[key] = old
		}
		for _, v := range rest {
			c := append([]byte{}, v...)
			if name == "lpush" {
				old.list = append([][]byte{c}, old.list...)
			} else {
				old.list = append(old.list, c)
			}
		}
		return wInt(int64(len(old.list)))
	case "lpop", "rpop":
		if len(rest) != 0 {
			return argErr
		}
		if old == nil {
			return wNil()
		}
		if old.kind != 'l' {
			return wErr(wrongType)
		}
		var x []byte
		if name == "lpop" {
			x, old.list = old.list[0], old.list[1:]
		} else {
			x, old.list = old.list[len(old.list)-1], old.list[:len(old.list)-1]
		}
		if len(old.list) == 0 {
			delete(store, key)
		}
		return wBulk(x)
	case "llen":
		if len(rest) != 0 {
			return argErr
		}
		if old == nil {
			return wInt(0)
		}
		if old.kind != 'l' {
			return wErr(wrongType)
		}
		return wInt(int64(len(old.list)))
	case "lrange":
		if len(rest) != 2 {
			return argErr
		}
		a, ok1 := parseI64(rest[0])
		b, ok2 := parseI64(rest[1])
		if !ok1 || !ok2 {
			return wErr("ERR value is not an integer or out of range")
		}
		if old == nil {
			return wArr([]*wv{})
		}
		if old.kind != 'l' {
			return wErr(wrongType)
		}
		n := int64(len(old.list))
		if a < 0 {
			a = n + a
			if a < 0 {
				a = 0
			}
		}
		if b < 0 {
			b = n + b
		}
		if b > n-1 {
			b = n - 1
		}
		out := []*wv{}
		if b >= a {
			for i := a; i <= b && i < n; i++ {
				out = append(out, wBulk(old.list[i]))
			}
		}
		return wArr(out)
	case "hset":
		if len(rest) != 2 {
			return argErr
		}
		if old != nil && old.kind != 'h' {
			return wErr(wrongType)
		}
		if old == nil {
			old = &sval{kind: 'h', hv: map[string][]byte{}}
			store[key] = old
		}
		_, had := old.hv[string(rest[0])]
		old.hv[string(rest[0])] = append([]byte{}, rest[1]...)
		if had {
			return wInt(0)
		}
		return wInt(1)
	case "hget":
		if len(rest) != 1 {
			return argErr
		}
		if old == nil {
			return wNil()
		}
		if old.kind != 'h' {
			return wErr(wrongType)
		}
		if v, ok := old.hv[string(rest[0])]; ok {
			return wBulk(v)
		}
		return wNil()
	case "hdel":
		if len(rest) != 1 {
			return argErr
		}
		if old == nil {
			return wInt(0)
		}
		if old.kind != 'h' {
			return wErr(wrongType)
		}
		if _, ok := old.hv[string(rest[0])]; !ok {
			return wInt(0)
		}
		delete(old.hv, string(rest[0]))
		if len(old.hv) == 0 {
			delete(store, key)
		}
		return wInt(1)
	case "hlen":
		if len(rest) != 0 {
			return argErr
		}
		if old == nil {
			return wInt(0)
		}
		if old.kind != 'h' {
			return wErr(wrongType)
		}
		return wInt(int64(len(old.hv)))
	case "sadd", "srem", "sismember":
		if len(rest) != 1 {
			return argErr
		}
		if old != nil && old.kind != 'S' {
			return wErr(wrongType)
		}
		if old == nil {
			if name != "sadd" {
				return wInt(0)
			}
			store[key] = &sval{kind: 'S', hv: map[string][]byte{string(rest[0]): nil}}
			return wInt(1)
		}
		_, has := old.hv[string(rest[0])]
		switch name {
		case "sadd":
			if has {
				return wInt(0)
			}
			old.hv[string(rest[0])] = nil
			return wInt(1)
		case "srem":
			if !has {
				return wInt(0)
			}
			delete(old.hv, string(rest[0]))
			if len(old.hv) == 0 {
				delete(store, key)
			}
			return wInt(1)
		default:
			if has {
				return wInt(1)
			}
			return wInt(0)
		}
	case "scard":
		if len(rest) != 0 {
			return argErr
		}
		if old == nil {
			return wInt(0)
		}
		if old.kind != 'S' {
			return wErr(wrongType)
		}
		return wInt(int64(len(old.hv)))
	}
	return wErr("ERR unknown command '" + string(args[0]) + "'")
}

// ---------------------------------------------------------------- key -> slot, as the Redis Cluster specification defines it
// (independent of the code under test: bitwise CRC16/XMODEM over the hash tag)

func simSlot(key []byte) int {
	if i := bytes.IndexByte(key, '{'); i >= 0 {
		if j := bytes.IndexByte(key[i+1:], '}'); j > 0 {
			key = key[i+1 : i+1+j]
		}
	}
	var crc uint16
	for _, b := range key {
		crc ^= uint16(b) << 8
		for k := 0; k < 8; k++ {
			if crc&0x8000 != 0 {
				crc = crc<<1 ^ 0x1021
			} else {
				crc <<= 1
			}
		}
	}
	return int(crc & 16383)
}

// ---------------------------------------------------------------- the cluster

type simLog struct {
	conn   int // serial number of the connection the command arrived on (per cluster)
	asking bool
	cmd    string // canonical tokens of the request array
	result string // "exec" | "moved" | "ask" | "down" | "local"
	seq    int    // order of arrival over the whole cluster
}

type simNode struct {
	cl          *simCluster
	idx         int
	id          string
	addr        string
	ln          net.Listener
	store       map[string]*sval // shared with replicas of this master
	conns       map[net.Conn]struct{}
	log         []simLog
	accepts     int
	delayMs     int
	silent      bool // accepts and reads but never answers
	up          bool
	master      int         // -1 for a master, else index of its master
	migrate     map[int]int // slot -> target node (this node is the source)
	importF     map[int]int // slot -> source node (this node is the target)
	nodesServed int
	gone        bool // not part of the cluster any more (not listed by CLUSTER NODES)
	heldFd      int  // 0, or 1 + the descriptor of the socket that keeps a stopped node's port taken
}

type simCluster struct {
	mu           sync.Mutex
	nodes        []*simNode
	owner        [16384]int
	down         bool // every keyed command answers CLUSTERDOWN
	moved        int
	asks         int
	wg           sync.WaitGroup
	closed       bool
	onAsk        func() // called (under mu) when a node emits ASK
	connSeq      int
	nodesDelayMs int // CLUSTER NODES answers this late (the text is the layout at the time the command arrived)
	// masters that exist only in the CLUSTER NODES text (address, slot range): e.g. a node whose connects hang
	extra []simExtraMaster
	// gossip lag (Model/Gossip.v): slot -> the finalisation of its migration has reached the old owner but not yet the
	// new one, which - still "importing, not owner" in its own view - sends commands without ASKING back to the old owner
	lag    map[int]*simLag
	logSeq int
	// the next keyed command that is executed loses its reply: the node closes the connection instead of answering
	dropNextExec bool
	// nodes the others merely suspect (they were slow to answer a ping): listed with the flag "fail?" by every other node,
	// up and serving all the same
	suspect map[int]bool
}

type simExtraMaster struct {
	addr   string
	lo, hi int
}

type simLag struct {
	old  int // the old owner
	left int // MOVED answers the new owner still gives before it has learned
}

func newSimCluster(n int) *simCluster {
	cl := &simCluster{lag: map[int]*simLag{}}
	for i := 0; i < n; i++ {
		cl.addNode(-1)
	}
	return cl
}

func (cl *simCluster) addNode(master int) *simNode {
	nd := &simNode{cl: cl, idx: len(cl.nodes), master: master, conns: map[net.Conn]struct{}{}, migrate: map[int]int{}, importF: map[int]int{}}
	nd.id = fmt.Sprintf("%040x", 0xabc000+nd.idx)
	if master >= 0 {
		nd.store = cl.nodes[master].store
	} else {
		nd.store = map[string]*sval{}
	}
	cl.nodes = append(cl.nodes, nd)
	nd.listen("127.0.0.1:0")
	return nd
}

func (nd *simNode) listen(addr string) {
	var ln net.Listener
	var err error
	for try := 0; try < 50; try++ {
		ln, err = net.Listen("tcp", addr)
		if err == nil {
			break
		}
		time.Sleep(20 * time.Millisecond)
	}
	if err != nil {
		die("sim listen %s: %v", addr, err)
	}
	nd.ln = ln
	nd.addr = ln.Addr().String()
	nd.up = true
	nd.cl.wg.Add(1)
	go nd.acceptLoop(ln)
}

func (nd *simNode) acceptLoop(ln net.Listener) {
	defer nd.cl.wg.Done()
	for {
		c, err := ln.Accept()
		if err != nil {
			return
		}
		nd.cl.mu.Lock()
		if !nd.up {
			nd.cl.mu.Unlock()
			c.Close()
			continue
		}
		nd.accepts++
		nd.conns[c] = struct{}{}
		nd.cl.connSeq++
		serial := nd.cl.connSeq
		nd.cl.mu.Unlock()
		nd.cl.wg.Add(1)
		go nd.serve(c, serial)
	}
}

// stop closes the listener and every connection (a crashed node); start listens again on the same address.
func (nd *simNode) stop() {
	nd.cl.mu.Lock()
	nd.up = false
	ln := nd.ln
	var cs []net.Conn
	for c := range nd.conns {
		cs = append(cs, c)
	}
	closing := nd.cl.closed
	nd.cl.mu.Unlock()
	ln.Close()
	if !closing {
		nd.holdPort()
	}
	for _, c := range cs {
		c.Close()
	}
}

// holdPort keeps the address of a stopped node out of everybody's reach (a socket bound to it that does not listen:
// connects are refused), so that no other process on the machine - another harness, say - gets the port assigned and
// answers the proxy's connection attempts in the dead node's place.
func (nd *simNode) holdPort() {
	host, portStr, err := net.SplitHostPort(nd.addr)
	if err != nil || host != "127.0.0.1" {
		return
	}
	port, _ := strconv.Atoi(portStr)
	fd, err := syscall.Socket(syscall.AF_INET, syscall.SOCK_STREAM, 0)
	if err != nil {
		return
	}
	syscall.SetsockoptInt(fd, syscall.SOL_SOCKET, syscall.SO_REUSEADDR, 1)
	if err := syscall.Bind(fd, &syscall.SockaddrInet4{Port: port, Addr: [4]byte{127, 0, 0, 1}}); err != nil {
		syscall.Close(fd)
		return
	}
	nd.cl.mu.Lock()
	nd.heldFd = fd + 1
	nd.cl.mu.Unlock()
}

func (nd *simNode) releasePort() {
	nd.cl.mu.Lock()
	fd := nd.heldFd
	nd.heldFd = 0
	nd.cl.mu.Unlock()
	if fd > 0 {
		syscall.Close(fd - 1)
	}
}

func (nd *simNode) start() {
	nd.releasePort()
	nd.listen(nd.addr)
}

// killConns resets the established connections only (the node keeps listening).
func (nd *simNode) killConns() {
	nd.cl.mu.Lock()
	var cs []net.Conn
	for c := range nd.conns {
		cs = append(cs, c)
	}
	nd.cl.mu.Unlock()
	for _, c := range cs {
		c.Close()
	}
}

func (cl *simCluster) close() {
	cl.mu.Lock()
	cl.closed = true
	cl.mu.Unlock()
	for _, nd := range cl.nodes {
		nd.releasePort()
		if nd.up {
			nd.stop()
		}
	}
	cl.wg.Wait()
}

func (cl *simCluster) setLayout(ranges [][3]int) { // lo, hi, node
	cl.mu.Lock()
	defer cl.mu.Unlock()
	for _, r := range ranges {
		for s := r[0]; s <= r[1]; s++ {
			cl.owner[s] = r[2]
		}
	}
}

// clusterNodesText: the truth as CLUSTER NODES prints it (masters with slot ranges, replicas after them)
func (cl *simCluster) clusterNodesText(me int) string {
	var b strings.Builder
	// the view of the node asked: a new owner that has not learned yet still lists the slot under the old owner
	viewOwner := func(s int) int {
		if lg, ok := cl.lag[s]; ok && cl.owner[s] == me {
			return lg.old
		}
		return cl.owner[s]
	}
	for _, nd := range cl.nodes {
		if nd.gone {
			continue
		}
		flags := "master"
		masterID := "-"
		if nd.master >= 0 {
			flags = "slave"
			masterID = cl.nodes[nd.master].id
		}
		if nd.idx == me {
			flags = "myself," + flags
		}
		if !nd.up {
			flags += ",fail"
		} else if cl.suspect[nd.idx] && nd.idx != me {
			flags += ",fail?"
		}
		port := nd.addr[strings.LastIndex(nd.addr, ":")+1:]
		fmt.Fprintf(&b, "%s %s@1%s %s %s 0 0 %d connected", nd.id, nd.addr, port, flags, masterID, nd.idx)
		if nd.master < 0 {
			lo := -1
			for s := 0; s <= 16384; s++ {
				mine := s < 16384 && viewOwner(s) == nd.idx
				if mine && lo < 0 {
					lo = s
				}
				if !mine && lo >= 0 {
					if lo == s-1 {
						fmt.Fprintf(&b, " %d", lo)
					} else {
						fmt.Fprintf(&b, " %d-%d", lo, s-1)
					}
					lo = -1
				}
			}
			var ms []int
			for s := range nd.migrate {
				ms = append(ms, s)
			}
			sort.Ints(ms)
			for _, s := range ms {
				fmt.Fprintf(&b, " [%d->-%s]", s, cl.nodes[nd.migrate[s]].id)
			}
			ms = ms[:0]
			for s := range nd.importF {
				ms = append(ms, s)
			}
			sort.Ints(ms)
			for _, s := range ms {
				fmt.Fprintf(&b, " [%d-<-%s]", s, cl.nodes[nd.importF[s]].id)
			}
		}
		b.WriteString("\n")
	}
	for i, x := range cl.extra {
		port := x.addr[strings.LastIndex(x.addr, ":")+1:]
		fmt.Fprintf(&b, "%040x %s@1%s master - 0 0 %d connected %d-%d\n", 0xeee000+i, x.addr, port, 900+i, x.lo, x.hi)
	}
	return b.String()
}

func (nd *simNode) serve(c net.Conn, serial int) {
	defer nd.cl.wg.Done()
	defer func() {
		nd.cl.mu.Lock()
		delete(nd.conns, c)
		nd.cl.mu.Unlock()
		c.Close()
	}()
	br := bufio.NewReaderSize(c, 64<<10)
	bw := bufio.NewWriterSize(c, 64<<10)
	asking := false
	for {
		v, err := wireRead(br)
		if err != nil {
			return
		}
		reply := nd.handle(v, &asking, serial)
		if reply == nil {
			bw.Flush()
			return // the deferred Close drops the connection without a reply
		}
		nd.cl.mu.Lock()
		d, silent := nd.delayMs, nd.silent
		if nd.cl.nodesDelayMs > 0 && v.t == '*' && len(v.a) > 0 && asciiLowerB(v.a[0].s) == "cluster" {
			d = nd.cl.nodesDelayMs
		}
		nd.cl.mu.Unlock()
		if silent {
			continue
		}
		if d > 0 && (br.Buffered() == 0 || d >= 20) {
			time.Sleep(time.Duration(d) * time.Millisecond)
		}
		reply.encode2(bw)
		// as Redis: what has been answered goes out before the node waits for more input - also when the input ends in
		// the middle of a command (otherwise a client that holds back the rest of that command until it has seen
		// replies and this node would wait for each other)
		if br.Buffered() == 0 || !wholeValueBuffered(br) {
			if bw.Flush() != nil {
				return
			}
		}
	}
}

func (v *wv) encode2(w *bufio.Writer) {
	var b bytes.Buffer
	v.encode(&b)
	w.Write(b.Bytes())
}

func (nd *simNode) handle(v *wv, asking *bool, serial int) *wv {
	cl := nd.cl
	cl.mu.Lock()
	defer cl.mu.Unlock()
	wasAsking := *asking
	*asking = false
	cl.logSeq++
	entry := simLog{conn: serial, asking: wasAsking, cmd: v.String(), result: "local", seq: cl.logSeq}
	defer func() { nd.log = append(nd.log, entry) }()
	if v.t != '*' || v.null || len(v.a) == 0 {
		return wErr("ERR protocol error")
	}
	var args [][]byte
	for _, x := range v.a {
		if x.t != '$' || x.null {
			return wErr("ERR protocol error")
		}
		args = append(args, x.s)
	}
	name := asciiLowerB(args[0])
	switch name {
	case "cluster":
		if len(args) >= 2 && asciiLowerB(args[1]) == "nodes" {
			nd.nodesServed++
			return wBulk([]byte(cl.clusterNodesText(nd.idx)))
		}
		return wErr("ERR unknown subcommand")
	case "asking":
		*asking = true
		return wSimple("OK")
	case "ping":
		return wSimple("PONG")
	case "readonly":
		return wSimple("OK")
	}
	if len(args) < 2 {
		return wErr("ERR wrong number of arguments for '" + name + "' command")
	}
	if cl.down {
		entry.result = "down"
		return wErr("CLUSTERDOWN The cluster is down")
	}
	key := args[1]
	if name == "eval" || name == "evalsha" {
		if len(args) < 4 {
			return wErr("ERR wrong number of arguments for 'eval' command")
		}
		key = args[3]
	}
	slot := simSlot(key)
	own := cl.owner[slot]
	me := nd.idx
	if nd.master >= 0 {
		me = nd.master // a replica serves its master's slots (READONLY semantics are not modelled)
	}
	if own == me {
		if lg, ok := cl.lag[slot]; ok && !wasAsking {
			if lg.left > 0 {
				lg.left--
				cl.moved++
				entry.result = "moved"
				return wErr(fmt.Sprintf("MOVED %d %s", slot, cl.nodes[lg.old].addr))
			}
			delete(cl.lag, slot) // it has learned by now
		}
		if tgt, mig := cl.nodes[me].migrate[slot]; mig {
			if _, has := nd.store[string(key)]; !has {
				cl.asks++
				entry.result = "ask"
				if cl.onAsk != nil {
					cl.onAsk()
				}
				return wErr(fmt.Sprintf("ASK %d %s", slot, cl.nodes[tgt].addr))
			}
		}
	} else {
		_, imp := nd.importF[slot]
		if !(imp && wasAsking) {
			cl.moved++
			entry.result = "moved"
			return wErr(fmt.Sprintf("MOVED %d %s", slot, cl.nodes[own].addr))
		}
	}
	entry.result = "exec"
	if cl.dropNextExec && !bytes.Contains(key, []byte("bg:key")) && !bytes.HasPrefix(key, []byte("probe")) {
		// the command is executed, the connection dies before the reply is written
		cl.dropNextExec = false
		simExec(nd.store, args)
		entry.result = "exec-reply-lost"
		return nil
	}
	return simExec(nd.store, args)
}

// migration steps (Model/Migrate.v)
func (cl *simCluster) beginMigration(slot, from, to int) {
	cl.mu.Lock()
	defer cl.mu.Unlock()
	cl.nodes[from].migrate[slot] = to
	cl.nodes[to].importF[slot] = from
}

func (cl *simCluster) moveKey(key string, from, to int) {
	cl.mu.Lock()
	defer cl.mu.Unlock()
	if v, ok := cl.nodes[from].store[key]; ok {
		cl.nodes[to].store[key] = v
		delete(cl.nodes[from].store, key)
	}
}

func (cl *simCluster) finishMigration(slot, from, to int) {
	cl.mu.Lock()
	defer cl.mu.Unlock()
	for k, v := range cl.nodes[from].store {
		if simSlot([]byte(k)) == slot {
			cl.nodes[to].store[k] = v
			delete(cl.nodes[from].store, k)
		}
	}
	delete(cl.nodes[from].migrate, slot)
	delete(cl.nodes[to].importF, slot)
	cl.owner[slot] = to
}

func (cl *simCluster) takeLogs() [][]simLog {
	cl.mu.Lock()
	defer cl.mu.Unlock()
	out := make([][]simLog, len(cl.nodes))
	for i, nd := range cl.nodes {
		out[i] = nd.log
		nd.log = nil
	}
	return out
}

func (cl *simCluster) counters() (moved, asks int) {
	cl.mu.Lock()
	defer cl.mu.Unlock()
	return cl.moved, cl.asks
}

// ---------------------------------------------------------------- the processor under test

var simProxySeq int
var simProxyLimit uint32 // connection limit of the next processor started
var simTimersOnce sync.Once

type simProxy struct {
	p    proc.Proc
	name string
	addr string
}

// freePort picks a port for a processor under test. The processors bind with SO_REUSEPORT, so two harness processes
// running at the same time (two checks side by side) could otherwise end up sharing one port, and the kernel would spread a
// client's connections over both processors. A port is therefore claimed machine-wide with an advisory lock that this
// process keeps until it exits.
var portLocks []*os.File

func freePort() int {
	dir := filepath.Join(os.TempDir(), "verif-harness-ports")
	os.MkdirAll(dir, 0777)
	for try := 0; try < 200; try++ {
		l, err := net.Listen("tcp", "127.0.0.1:0")
		if err != nil {
			die("free port: %v", err)
		}
		p := l.Addr().(*net.TCPAddr).Port
		l.Close()
		f, err := os.OpenFile(filepath.Join(dir, strconv.Itoa(p)), os.O_CREATE|os.O_RDWR, 0666)
		if err != nil {
			return p // no lock directory: fall back to the plain choice
		}
		if syscall.Flock(int(f.Fd()), syscall.LOCK_EX|syscall.LOCK_NB) == nil {
			portLocks = append(portLocks, f)
			return p
		}
		f.Close()
	}
	die("free port: every candidate is claimed by another harness")
	return 0
}

func redisConfig(port int, strategy int32, connectTimeout time.Duration) *service.Config {
	return &service.Config{
		HealthCheck: &hc.HealthCheck{
			Interval: 10 * time.Second, Timeout: 3 * time.Second, FallThreshold: 3, RiseThreshold: 3,
			Checker: &hc.HealthCheck_TcpChecker{TcpChecker: &hc.TCPChecker{}},
		},
		Listener:        &service.Listener{Address: &common.Address{Ip: "127.0.0.1", Port: uint32(port)}},
		ConnectTimeout:  utils.DurationPtr(connectTimeout),
		IdleTimeout:     utils.DurationPtr(10 * time.Minute),
		LbPolicy:        service.LoadBalancePolicy_ROUND_ROBIN,
		Protocol:        protocol.Redis,
		ProtocolOptions: &service.Config_RedisOption{RedisOption: &protocol.RedisOption{ReadStrategy: predis.ReadStrategy(strategy)}},
	}
}

var simProxyName string        // when set: the name of the next service started
var simProxyIdle time.Duration // when set: the idle timeout of the next service started
var simProxyCompress uint32    // when set: the next service started compresses values of at least this many bytes

func startRedisProxy(seeds []string, strategy int32) *simProxy {
	// no periodic refresh: the routing table only follows triggers (start, redirections, unreachable nodes)
	simTimersOnce.Do(func() { redis.VerifSetSlotsRefresh(time.Hour, 15*time.Millisecond) })
	simProxySeq++
	name := fmt.Sprintf("sim%d", simProxySeq)
	if simProxyName != "" {
		name = simProxyName
	}
	port := freePort()
	cfg := redisConfig(port, strategy, 300*time.Millisecond)
	cfg.Listener.ConnectionLimit = simProxyLimit
	if simProxyIdle > 0 {
		cfg.IdleTimeout = utils.DurationPtr(simProxyIdle)
	}
	if simProxyCompress > 0 {
		cfg.GetRedisOption().Compression = &predis.Compression{Enable: true, Algorithm: predis.Compression_SNAPPY, Threshold: simProxyCompress}
	}
	if err := cfg.Validate(); err != nil {
		die("sim config: %v", err)
	}
	var hosts []*host.Host
	for _, s := range seeds {
		hosts = append(hosts, host.New(s))
	}
	p, err := proc.New(name, cfg, hosts)
	if err != nil {
		die("proc.New: %v", err)
	}
	if err := p.Start(); err != nil {
		die("proc.Start: %v", err)
	}
	// the statistics scope of a service is its name with every '.' replaced by '_'
	sp := &simProxy{p: p, name: strings.Replace(name, ".", "_", -1), addr: fmt.Sprintf("127.0.0.1:%d", port)}
	// the listener binds asynchronously
	for t := 0; t < 400; t++ {
		c, err := net.DialTimeout("tcp", sp.addr, 100*time.Millisecond)
		if err == nil {
			c.Close()
			return sp
		}
		time.Sleep(5 * time.Millisecond)
	}
	die("proxy did not start listening on %s", sp.addr)
	return nil
}

// counter reads a counter of this processor from the public stats package by suffix.
func (sp *simProxy) counter(suffix string) uint64 {
	want := "service." + sp.name + "." + suffix
	for _, c := range stats.Counters() {
		if c.Name() == want {
			return c.Value()
		}
	}
	return 0
}

func (sp *simProxy) gauge(suffix string) uint64 {
	want := "service." + sp.name + "." + suffix
	for _, g := range stats.Gauges() {
		if g.Name() == want {
			return g.Value()
		}
	}
	return 0
}

func (sp *simProxy) waitSlotsLoaded(rounds uint64) bool {
	for t := 0; t < 3500; t++ { // about ten seconds at most: only a very busy machine needs more than a few milliseconds
		if sp.counter("upstream.slots_refresh.success_total") >= rounds {
			return true
		}
		time.Sleep(3 * time.Millisecond)
	}
	return false
}

// ---------------------------------------------------------------- the scripted client

type simClient struct {
	c  net.Conn
	br *bufio.Reader
}

func dialProxy(addr string) *simClient {
	// the processor is known to be listening; on a very busy machine a connect may still take longer than a second
	var c net.Conn
	var err error
	for try := 0; try < 6; try++ {
		c, err = net.DialTimeout("tcp", addr, 2*time.Second)
		if err == nil {
			return &simClient{c: c, br: bufio.NewReaderSize(c, 64<<10)}
		}
		time.Sleep(50 * time.Millisecond)
	}
	die("dial proxy: %v", err)
	return nil
}

// send writes the bytes in the given fragment sizes (nil: one write).
func (sc *simClient) send(b []byte, frags []int) error {
	if len(frags) == 0 {
		_, err := sc.c.Write(b)
		return err
	}
	for _, f := range frags {
		if len(b) == 0 {
			break
		}
		if f > len(b) {
			f = len(b)
		}
		if _, err := sc.c.Write(b[:f]); err != nil {
			return err
		}
		b = b[f:]
		if f < 64 {
			time.Sleep(50 * time.Microsecond)
		}
	}
	if len(b) > 0 {
		_, err := sc.c.Write(b)
		return err
	}
	return nil
}

func (sc *simClient) recv(timeout time.Duration) (*wv, error) {
	sc.c.SetReadDeadline(time.Now().Add(timeout))
	return wireRead(sc.br)
}

func (sc *simClient) close() { sc.c.Close() }

// recvPatient: a reply that has not come within the deadline (scaled by the machine's load) is waited for three times as long
// again before it is given up: the properties checked bound no reply time, a hang is what must be told from a stall
func (sc *simClient) recvPatient(d time.Duration) (*wv, error) {
	v, err := sc.recv(time.Duration(float64(d) * loadFactor))
	if ne, ok := err.(net.Error); ok && ne.Timeout() {
		return sc.recv(3 * time.Duration(float64(d)*loadFactor))
	}
	return v, err
}

// failover: node idx crashes; a replica with the same data takes over its slots under a new address.
func (cl *simCluster) failover(idx int) *simNode { return cl.replaceNode(idx, false) }

// replaceNode: keepID = the same cluster node comes back under a new address (restart with another port)
func (cl *simCluster) replaceNode(idx int, keepID bool) *simNode {
	old := cl.nodes[idx]
	old.stop()
	cl.mu.Lock()
	nd := &simNode{cl: cl, idx: len(cl.nodes), master: -1, conns: map[net.Conn]struct{}{}, migrate: old.migrate, importF: old.importF, store: old.store}
	nd.id = fmt.Sprintf("%040x", 0xabc000+nd.idx)
	if keepID {
		nd.id = old.id
		old.id = fmt.Sprintf("%040x", 0xdead000+old.idx)
		old.gone = true
	}
	old.migrate, old.importF, old.store = map[int]int{}, map[int]int{}, map[string]*sval{}
	cl.nodes = append(cl.nodes, nd)
	for s := range cl.owner {
		if cl.owner[s] == idx {
			cl.owner[s] = nd.idx
		}
	}
	for _, x := range cl.nodes {
		for s, t := range x.migrate {
			if t == idx {
				x.migrate[s] = nd.idx
			}
		}
		for s, f := range x.importF {
			if f == idx {
				x.importF[s] = nd.idx
			}
		}
	}
	cl.mu.Unlock()
	nd.listen("127.0.0.1:0")
	return nd
}
