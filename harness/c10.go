package main

import (
	"encoding/hex"
	"fmt"
	"strconv"
	"strings"

	redis "github.com/samaritan-proxy/samaritan/proc/redis"
)

var boundaryLens = []int{0, 1, 2, 3, 7, 20, 21, 22, 23, 31, 32, 33, 100, 510, 511, 512, 513, 4093, 4094, 4095, 4096, 4097, 4098, 8190, 8191, 8192, 8193, 8194, 16384, 20000}

func genText(r *rng, allowLF bool, big bool) []byte {
	n := 0
	switch r.intn(10) {
	case 0, 1, 2, 3, 4:
		n = r.intn(12)
	case 5, 6:
		n = r.intn(80)
	case 7, 8:
		n = boundaryLens[r.intn(len(boundaryLens))]
		if !big && n > 600 {
			n = n % 600
		}
	default:
		n = r.intn(600)
	}
	b := make([]byte, n)
	alpha := []byte("abc xyz019\r\x00\xff*$+-:{}")
	if allowLF {
		alpha = append(alpha, '\n', '\n')
	}
	mode := r.intn(3)
	for i := range b {
		switch mode {
		case 0:
			b[i] = alpha[r.intn(len(alpha))]
		case 1:
			b[i] = byte(r.u64())
			if !allowLF && b[i] == '\n' {
				b[i] = 'n'
			}
		default:
			b[i] = byte('a' + r.intn(26))
		}
	}
	return b
}

var intBoundaries = []int64{0, 1, -1, 9, 10, -9, -10, 99, 100, -127, -128, -129, 32767, 32768, 32769, 999999999, 1000000000, -999999999, -1000000000,
	4294967295, 4294967296, 9223372036854775807, -9223372036854775808, 9223372036854775806, -9223372036854775807}

func genInt(r *rng) int64 {
	switch r.intn(4) {
	case 0:
		return intBoundaries[r.intn(len(intBoundaries))]
	case 1:
		return int64(r.intn(40000)) - 200
	case 2:
		return int64(r.u64())
	default:
		return int64(r.u64()) >> uint(r.intn(64))
	}
}

func genVal(r *rng, depth int, big bool) *redis.RespValue {
	k := r.intn(12)
	if depth <= 0 && k >= 9 {
		k = r.intn(9)
	}
	switch {
	case k < 2:
		return &redis.RespValue{Type: redis.SimpleString, Text: genText(r, false, big)}
	case k < 3:
		return &redis.RespValue{Type: redis.Error, Text: genText(r, false, false)}
	case k < 5:
		return &redis.RespValue{Type: redis.Integer, Int: genInt(r)}
	case k < 8:
		return &redis.RespValue{Type: redis.BulkString, Text: genText(r, true, big)}
	case k < 9:
		return &redis.RespValue{Type: redis.BulkString}
	case k < 10 && r.chance(1, 3):
		return &redis.RespValue{Type: redis.Array}
	default:
		n := r.intn(5)
		if r.chance(1, 20) {
			n = 5 + r.intn(40)
		}
		arr := make([]redis.RespValue, n)
		for i := range arr {
			arr[i] = *genVal(r, depth-1, false)
		}
		return &redis.RespValue{Type: redis.Array, Array: arr}
	}
}

var malformed = []string{
	"$-2\r\n", "*-2\r\n", "$-1\r\n", "*-1\r\n", "$536870912\r\n", "$536870913\r\n", "*1048576\r\n", "*1048577\r\n:1\r\n",
	":+5\r\n", ":-0\r\n", ":007\r\n", "$+3\r\nabc\r\n", "$03\r\nabc\r\n", ":9223372036854775807\r\n", ":9223372036854775808\r\n",
	":-9223372036854775808\r\n", ":-9223372036854775809\r\n", ": 1\r\n", ":\r\n", ":-\r\n", ":+\r\n", ":1_0\r\n", ":0x10\r\n", ":1e3\r\n",
	"+\r\n", "-\r\n", "\r\n", "\n", " \r\n", "   \r\n", "$3\r\nabcXY", "$3\r\nabc\rX", "$3\r\nabc\n\n", "$0\r\n\r\n", "$0\r\n", "*0\r\n",
	"*1\r\n*1\r\n*1\r\n*1\r\n*1\r\n:1\r\n", strings.Repeat("*1\r\n", 31) + ":1\r\n", strings.Repeat("*1\r\n", 32) + ":1\r\n", strings.Repeat("*1\r\n", 33) + ":1\r\n",
	strings.Repeat("*1\r\n", 32) + "*0\r\n", strings.Repeat("*1\r\n", 32) + "*-1\r\n", strings.Repeat("*2\r\n", 40), strings.Repeat("*1\r\n", 5000), "*2\r\n:1\r\n", "*1\r\nPING\r\n", "PING\r\n", "PING\n", "GET  a   b \r\n", "get a\r\nget b\r\n",
	"+OK\n", "+OK\r", "+OK", "$", "*", ":", "*1", "$1\r", ":12345678\r\n", ":123456789\r\n", ":1234567890\r\n", ":-12345678\r\n", ":-123456789\r\n",
	":99999999999999999999\r\n", "$99999999999999999999\r\n", "*99999999999999999999\r\n", "+a\rb\r\n", "+a\r\r\n", "$2\r\n\r\n\r\n",
	"\x00\r\n", "\xff\xfe\r\n", "*3\r\n$3\r\nSET\r\n$1\r\nk\r\n$1\r\nv\r\n", "*1\r\n$4\r\na\r\nb\r\n",
}

func genStream(r *rng, hist map[string]int) []byte {
	var s []byte
	kind := ""
	switch k := r.intn(20); {
	case k < 9:
		kind = "valid"
		for i, n := 0, 1+r.intn(4); i < n; i++ {
			s = refEncode(s, genVal(r, 3, r.chance(1, 6)))
		}
	case k < 11:
		kind = "inline"
		for i, n := 0, 1+r.intn(3); i < n; i++ {
			for w, nw := 0, r.intn(5); w < nw; w++ {
				s = append(s, strings.Repeat(" ", r.intn(3))...)
				for c, nc := 0, 1+r.intn(6); c < nc; c++ {
					s = append(s, "abcGETset019\r\t{}"[r.intn(16)])
				}
				s = append(s, ' ')
			}
			if r.chance(1, 6) {
				s = append(s, '\n')
			} else {
				s = append(s, '\r', '\n')
			}
		}
		if r.chance(1, 3) {
			s = refEncode(s, genVal(r, 2, false))
		}
	case k < 15:
		kind = "mutated"
		for i, n := 0, 1+r.intn(3); i < n; i++ {
			s = refEncode(s, genVal(r, 3, false))
		}
		for m, nm := 0, 1+r.intn(2); m < nm && len(s) > 0; m++ {
			p := r.intn(len(s))
			switch r.intn(5) {
			case 0:
				s = s[:p]
			case 1:
				s[p] = "\r\n*$+-:019 "[r.intn(11)]
			case 2:
				s = append(s[:p], s[p+1:]...)
			case 3:
				s = append(s[:p], append([]byte{"\r\n*$+-:019 "[r.intn(11)]}, s[p:]...)...)
			case 4:
				s[p] ^= byte(1 << uint(r.intn(8)))
			}
		}
	case k < 18:
		kind = "malformed-corpus"
		for i, n := 0, 1+r.intn(2); i < n; i++ {
			s = append(s, malformed[r.intn(len(malformed))]...)
		}
		if r.chance(1, 3) {
			s = refEncode(s, genVal(r, 2, false))
		}
	default:
		kind = "alphabet"
		n := r.intn(40)
		for i := 0; i < n; i++ {
			s = append(s, "*$+-:\r\n\r\n0123-a "[r.intn(16)])
		}
	}
	hist["stream:"+kind]++
	return s
}

var bufSizes = []int{1, 2, 3, 5, 16, 21, 22, 23, 32, 33, 64, 4096, 8192}

func genSizes(r *rng, n int) []int {
	switch r.intn(6) {
	case 0:
		return nil
	case 1:
		s := make([]int, n)
		for i := range s {
			s[i] = 1
		}
		return s
	case 2:
		var s []int
		for t := 0; t < n; {
			k := 1 + r.intn(7)
			s = append(s, k)
			t += k
		}
		return s
	case 3:
		var s []int
		for t := 0; t < n; {
			k := 1 + r.intn(5000)
			s = append(s, k)
			t += k
		}
		return s
	case 4:
		if n > 0 {
			return []int{1 + r.intn(n)}
		}
		return nil
	default:
		var s []int
		for t := 0; t < n; {
			k := 1 + r.intn(64)
			if r.chance(1, 4) {
				k = 1
			}
			s = append(s, k)
			t += k
		}
		return s
	}
}

func endOf(e string) error {
	if e == "S" {
		return errSrc
	}
	return nilEOF
}

func decodeCase(B int, end string, sizes []int, data []byte) (out string) {
	defer func() {
		if r := recover(); r != nil {
			out = "PANIC"
		}
	}()
	rd := &oracleReader{data: data, sizes: sizes, endErr: endOf(end)}
	vs, err := redis.VerifDecodeAll(rd, B, 1<<30)
	var b strings.Builder
	for i, v := range vs {
		if i > 0 {
			b.WriteByte('|')
		}
		fmtVal(&b, v)
	}
	b.WriteString("!" + errClass(err))
	return b.String()
}

func init() {
	// ---- decoder: values and first error from a chunked stream -------------------
	register("c10dec", func() {
		cases, impl := create("cases.txt"), create("impl.txt")
		hist := map[string]int{}
		emit := func(B int, end string, sizes []int, data []byte) {
			hist[fmt.Sprintf("B=%d", B)]++
			hist["len<="+strconv.Itoa(bucket(len(data)))]++
			fmt.Fprintf(cases, "%d %s %s %s\n", B, end, sizesString(sizes), hex.EncodeToString(data))
			out := decodeCase(B, end, sizes, data)
			hist["err:"+out[strings.LastIndex(out, "!")+1:]]++
			fmt.Fprintln(impl, out)
		}
		if *fIn != "" {
			for _, l := range readLines(*fIn) {
				f := strings.Split(l, " ")
				B, _ := strconv.Atoi(f[0])
				data, _ := hex.DecodeString(f[3])
				emit(B, f[1], parseSizes(f[2]), data)
			}
			writeHist(hist)
			return
		}
		r := newRng(*fSeed)
		// the malformed corpus under every buffer size, whole and byte-by-byte
		for _, m := range malformed {
			for _, B := range bufSizes {
				emit(B, "E", nil, []byte(m))
				emit(B, "E", genSizes(r, len(m)), []byte(m))
			}
		}
		for i := 0; i < *fN; i++ {
			s := genStream(r, hist)
			B := bufSizes[r.intn(len(bufSizes))]
			end := "E"
			if r.chance(1, 12) {
				end = "S"
			}
			emit(B, end, genSizes(r, len(s)), s)
			// short streams: split in two at every position
			if len(s) <= 24 && r.chance(1, 3) {
				for p := 1; p < len(s); p++ {
					emit(B, end, []int{p}, s)
				}
			}
		}
		writeHist(hist)
	})

	// ---- encoder ------------------------------------------------------------------
	register("c10enc", func() {
		cases, impl := create("cases.txt"), create("impl.txt")
		hist := map[string]int{}
		emit := func(v *redis.RespValue) {
			fmt.Fprintln(cases, valString(v))
			b, err := redis.VerifEncode(v)
			if err != nil {
				fmt.Fprintln(impl, "!"+errClass(err))
				return
			}
			// and what the implementation's own decoder makes of it (round trip), whole and byte by byte
			rt := decodeCase(4096, "E", nil, b) + " " + decodeCase(32, "E", []int{1, 1, 1, 1, 1, 1, 1, 1, 1, 1, 1, 1, 1, 1, 1, 1, 1, 1, 1, 1, 1, 1, 1, 1, 1, 1, 1, 1, 1, 1, 1, 1, 1, 1, 1, 1, 1, 3, 5, 7}, b)
			fmt.Fprintln(impl, hex.EncodeToString(b)+" "+rt)
			hist["len<="+strconv.Itoa(bucket(len(b)))]++
		}
		if *fIn != "" {
			for _, l := range readLines(*fIn) {
				p := 0
				emit(parseVal(strings.Split(l, " "), &p))
			}
			writeHist(hist)
			return
		}
		r := newRng(*fSeed)
		for _, n := range intBoundaries {
			emit(&redis.RespValue{Type: redis.Integer, Int: n})
		}
		emit(&redis.RespValue{Type: redis.BulkString})
		emit(&redis.RespValue{Type: redis.BulkString, Text: []byte{}})
		emit(&redis.RespValue{Type: redis.Array})
		emit(&redis.RespValue{Type: redis.Array, Array: []redis.RespValue{}})
		for i := 0; i < *fN; i++ {
			emit(genVal(r, 4, r.chance(1, 5)))
		}
		writeHist(hist)
	})

	// ---- integer conversions --------------------------------------------------------
	register("c10int", func() {
		cases, impl := create("cases.txt"), create("impl.txt")
		hist := map[string]int{}
		btoi := func(b []byte) {
			hist["btoi64"]++
			fmt.Fprintln(cases, "b "+hex.EncodeToString(b))
			n, err := redis.VerifBtoi64(b)
			if err != nil {
				fmt.Fprintln(impl, "err "+errClass(err))
			} else {
				fmt.Fprintln(impl, "ok "+strconv.FormatInt(n, 10))
			}
		}
		itoa := func(i int64) {
			hist["itoa"]++
			fmt.Fprintln(cases, "i "+strconv.FormatInt(i, 10))
			fmt.Fprintln(impl, hex.EncodeToString([]byte(redis.VerifItoa(i))))
		}
		if *fIn != "" {
			for _, l := range readLines(*fIn) {
				if l[0] == 'b' {
					b, _ := hex.DecodeString(l[2:])
					btoi(b)
				} else {
					n, _ := strconv.ParseInt(l[2:], 10, 64)
					itoa(n)
				}
			}
			writeHist(hist)
			return
		}
		r := newRng(*fSeed)
		for i := int64(-300); i <= 33000; i++ {
			// the table path of itoa: every entry in the thorough tier, a stride in the quick tier
			if *fTier == "thorough" || i < 1200 || i > 32700 || i%13 == 0 {
				itoa(i)
			}
			btoi([]byte(strconv.FormatInt(i, 10)))
		}
		for _, n := range intBoundaries {
			itoa(n)
			btoi([]byte(strconv.FormatInt(n, 10)))
			btoi([]byte("+" + strconv.FormatInt(n, 10)))
		}
		// every string of length <= 2 over the interesting alphabet, and all 1-byte strings
		btoi(nil)
		for a := 0; a < 256; a++ {
			btoi([]byte{byte(a)})
		}
		al := []byte("+-0123456789 _ax\r")
		for _, a := range al {
			for _, b := range al {
				btoi([]byte{a, b})
				for _, c := range al {
					btoi([]byte{a, b, c})
				}
			}
		}
		for i := 0; i < *fN; i++ {
			itoa(genInt(r))
			// digit strings of length 0..22 with optional sign, occasionally polluted
			var b []byte
			switch r.intn(4) {
			case 0:
				b = append(b, '-')
			case 1:
				b = append(b, '+')
			}
			for j, n := 0, r.intn(23); j < n; j++ {
				b = append(b, byte('0'+r.intn(10)))
			}
			if r.chance(1, 5) && len(b) > 0 {
				b[r.intn(len(b))] = "+- _a\r9"[r.intn(7)]
			}
			btoi(b)
		}
		writeHist(hist)
	})

	// ---- Reader operations on a chunked source -----------------------------------------
	register("c10rd", func() {
		cases, impl := create("cases.txt"), create("impl.txt")
		hist := map[string]int{}
		emit := func(B int, end string, sizes []int, data []byte, ops []string) {
			hist[fmt.Sprintf("B=%d", B)]++
			fmt.Fprintf(cases, "%d %s %s %s %s\n", B, end, sizesString(sizes), hex.EncodeToString(data), strings.Join(ops, ","))
			rd := redis.NewReaderSize(&oracleReader{data: data, sizes: sizes, endErr: endOf(end)}, B)
			type held struct {
				tag string
				b   []byte
				err error
			}
			var hs []held
			for _, op := range ops {
				hist["op:"+op[:1]]++
				switch op[0] {
				case 'P':
					c, err := rd.PeekByte()
					hs = append(hs, held{"p", []byte{c}, err})
				case 'Y':
					c, err := rd.ReadByte()
					hs = append(hs, held{"y", []byte{c}, err})
				case 'S':
					b, err := rd.ReadSlice('\n')
					hs = append(hs, held{"s", append([]byte{}, b...), err}) // valid only until the next read
				case 'L':
					b, err := rd.ReadBytes('\n')
					hs = append(hs, held{"l", b, err}) // a copy: held to the end (aliasing would show)
				case 'F':
					n, _ := strconv.Atoi(op[1:])
					b, err := rd.ReadFull(n)
					hs = append(hs, held{"f", b, err})
				}
			}
			var out []string
			for _, h := range hs {
				switch {
				case h.err == nil:
					out = append(out, h.tag+":"+hex.EncodeToString(h.b))
				case h.tag == "s" && errClass(h.err) == "BufferFull":
					out = append(out, "s!BufferFull:"+hex.EncodeToString(h.b))
				default:
					out = append(out, h.tag+"!"+errClass(h.err))
				}
			}
			fmt.Fprintln(impl, strings.Join(out, ";"))
		}
		if *fIn != "" {
			for _, l := range readLines(*fIn) {
				f := strings.Split(l, " ")
				B, _ := strconv.Atoi(f[0])
				data, _ := hex.DecodeString(f[3])
				emit(B, f[1], parseSizes(f[2]), data, strings.Split(f[4], ","))
			}
			writeHist(hist)
			return
		}
		r := newRng(*fSeed)
		for i := 0; i < *fN; i++ {
			B := 1 + r.intn(9)
			if r.chance(1, 4) {
				B = []int{16, 32, 64}[r.intn(3)]
			}
			n := r.intn(60)
			data := make([]byte, n)
			for j := range data {
				data[j] = "ab\n\nc\r"[r.intn(6)]
				if r.chance(1, 8) {
					data[j] = '\n'
				}
			}
			var ops []string
			for j, no := 0, 1+r.intn(8); j < no; j++ {
				switch r.intn(6) {
				case 0:
					ops = append(ops, "P")
				case 1:
					ops = append(ops, "Y")
				case 2:
					ops = append(ops, "S")
				case 3:
					ops = append(ops, "L")
				default:
					ops = append(ops, "F"+strconv.Itoa(r.intn(2*B+4)))
				}
			}
			end := "E"
			if r.chance(1, 10) {
				end = "S"
			}
			emit(B, end, genSizes(r, n), data, ops)
		}
		writeHist(hist)
	})
}

func bucket(n int) int {
	b := 1
	for b < n {
		b *= 4
	}
	return b
}
