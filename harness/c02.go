package main

// C02: stress. Several connections pipeline requests through the real processor while backend connections are reset,
// backends stop and restart, the host list is replaced (which stops every backend connection) and finally the
// processor is stopped. Every request written must get exactly one reply while its connection stays open; a reply
// missing after a generous deadline on an open connection is a hang.
//   case line:  <seed> <nconn> <rounds>   (everything else derives from the seed)
//   output:     sent=<n> answered=<n> closed-by-proxy=<n> hung=<n> extra=<n> wrong-order=<n>

import (
	"fmt"
	"strconv"
	"strings"
	"sync"
	"sync/atomic"
	"time"

	"github.com/samaritan-proxy/samaritan/host"
)

func runC02(seed int64, nconn, rounds int) string {
	r := newRng(seed)
	n := 3
	cl := newSimCluster(n)
	defer cl.close()
	cl.setLayout([][3]int{{0, 5000, 0}, {5001, 11000, 1}, {11001, 16383, 2}})
	var seeds []string
	for _, nd := range cl.nodes {
		seeds = append(seeds, nd.addr)
	}
	sp := startRedisProxy(seeds, 0)
	sp.waitSlotsLoaded(1)
	var sent, answered, closed, hung, extra, wrong int64
	var wg sync.WaitGroup
	stopTraffic := make(chan struct{})
	for c := 0; c < nconn; c++ {
		wg.Add(1)
		go func(c int) {
			defer wg.Done()
			rr := newRng(seed*131 + int64(c))
			seq := 0
			for {
				select {
				case <-stopTraffic:
					return
				default:
				}
				sc := dialProxy(sp.addr)
				alive := true
				for alive {
					select {
					case <-stopTraffic:
						sc.close()
						return
					default:
					}
					// one pipeline: k requests; each SET carries a sequence number that the reply order can be checked with
					k := 1 + rr.intn(8)
					var buf []byte
					var want []string
					for j := 0; j < k; j++ {
						seq++
						key := []byte(fmt.Sprintf("c%d:k%d", c, rr.intn(6)))
						if rr.chance(1, 4) {
							// a split request: its parent is completed once, whatever happens to the children
							k2, k3 := []byte(fmt.Sprintf("c%d:m%d", c, rr.intn(9))), []byte(fmt.Sprintf("c%d:n%d", c, rr.intn(9)))
							switch rr.intn(3) {
							case 0:
								buf = append(buf, bulkArr([]byte("mset"), key, []byte("1"), k2, []byte("2"), k3, []byte("3")).bytes()...)
							case 1:
								buf = append(buf, bulkArr([]byte("mget"), key, k2, k3).bytes()...)
							default:
								buf = append(buf, bulkArr([]byte("del"), key, k2, k3).bytes()...)
							}
							want = append(want, "getset")
						} else if rr.chance(1, 2) {
							buf = append(buf, bulkArr([]byte("getset"), key, []byte(strconv.Itoa(seq))).bytes()...)
							want = append(want, "getset")
						} else {
							buf = append(buf, bulkArr([]byte("echoseq"), []byte(strconv.Itoa(seq))).bytes()...) // unsupported: answered by the proxy, carries seq
							want = append(want, strconv.Itoa(seq))
						}
					}
					if sc.send(buf, nil) != nil {
						atomic.AddInt64(&closed, 1)
						break
					}
					atomic.AddInt64(&sent, int64(k))
					for j := 0; j < k; j++ {
						v, err := sc.recv(time.Duration(float64(6*time.Second) * loadFactor))
						if err != nil {
							if ne, ok := err.(interface{ Timeout() bool }); ok && ne.Timeout() {
								atomic.AddInt64(&hung, 1)
							} else {
								atomic.AddInt64(&closed, 1)
							}
							alive = false
							break
						}
						atomic.AddInt64(&answered, 1)
						if want[j] != "getset" && !strings.Contains(string(v.s), "'echoseq'") {
							atomic.AddInt64(&wrong, 1)
						}
					}
				}
				sc.close()
			}
		}(c)
	}
	// faults
	hosts := func() []*host.Host {
		var hs []*host.Host
		for _, s := range seeds {
			hs = append(hs, host.New(s))
		}
		return hs
	}
	for i := 0; i < rounds; i++ {
		time.Sleep(time.Duration(5+r.intn(25)) * time.Millisecond)
		switch r.intn(7) {
		case 6:
			// the layout rotates under the proxy's table - requests in flight are redirected, to nodes it may have no
			// connection to - and at that moment the host list is replaced
			rot := 1 + r.intn(2)
			cl.setLayout([][3]int{{0, 5000, rot % 3}, {5001, 11000, (1 + rot) % 3}, {11001, 16383, (2 + rot) % 3}})
			time.Sleep(time.Duration(r.intn(3)) * time.Millisecond)
			sp.p.OnSvcAllHostReplace(hosts())
		case 0:
			cl.nodes[r.intn(n)].killConns()
		case 1:
			x := r.intn(n)
			cl.nodes[x].stop()
			time.Sleep(time.Duration(5+r.intn(20)) * time.Millisecond)
			cl.nodes[x].start()
		case 2, 3:
			sp.p.OnSvcAllHostReplace(hosts()) // stops every backend connection
		case 4:
			x := r.intn(n)
			sp.p.OnSvcHostRemove([]*host.Host{host.New(seeds[x])})
			time.Sleep(5 * time.Millisecond)
			sp.p.OnSvcHostAdd([]*host.Host{host.New(seeds[x])})
		default:
			cl.nodes[r.intn(n)].killConns()
			sp.p.OnSvcAllHostReplace(hosts())
		}
	}
	time.Sleep(30 * time.Millisecond)
	close(stopTraffic)
	done := make(chan struct{})
	go func() { wg.Wait(); close(done) }()
	select {
	case <-done:
	case <-time.After(15 * time.Second):
	}
	stopped := stopProxy(sp)
	res := fmt.Sprintf("sent=%d answered=%d hung=%d wrong-reply=%d", atomic.LoadInt64(&sent), atomic.LoadInt64(&answered), atomic.LoadInt64(&hung), atomic.LoadInt64(&wrong))
	_ = extra
	if !stopped {
		res += " stop-hung"
	}
	return res
}

func init() {
	register("c02", func() {
		cases, impl := create("cases.txt"), create("impl.txt")
		hist := map[string]int{}
		r := newRng(*fSeed)
		run := func(seed int64, nconn, rounds int) {
			fmt.Fprintf(cases, "%d %d %d\n", seed, nconn, rounds)
			out := runC02(seed, nconn, rounds)
			fmt.Fprintln(impl, out)
			var s, a int
			fmt.Sscanf(out, "sent=%d answered=%d", &s, &a)
			hist["requests sent"] += s
			hist["requests answered"] += a
		}
		if *fIn != "" {
			for _, l := range readLines(*fIn) {
				var seed int64
				var nc, rd int
				fmt.Sscanf(l, "%d %d %d", &seed, &nc, &rd)
				run(seed, nc, rd)
			}
			writeHist(hist)
			return
		}
		for i := 0; i < *fN; i++ {
			if expired() {
				hist["stopped at the deadline"] = 1
				break
			}
			run(int64(r.u64()>>1), 2+r.intn(6), 10+r.intn(30))
		}
		writeHist(hist)
	})
}
