package main

// C03 / C01: programs of keyed commands against a stable simulated cluster through the real processor over TCP.
//   case line:  <mode> <nnodes> <layout> <delays> # <conn>:<request tokens> ; <conn>:<request tokens> ; ...
//   mode  seq   one request at a time (possibly over several connections), reply awaited before the next
//         pipe  connection 0 writes all its requests at once, fragmented, then reads all replies
//         conc  every connection pipelines its own requests concurrently (key spaces are disjoint by construction)
//   layout  lo-hi=node,...      delays  per-node milliseconds before each answer
//   output: replies in listing order joined by " ; ", then " || " per-node executed commands (seq, pipe), then
//           " || moved=<n> ask=<n>"

import (
	"bytes"
	"fmt"
	"strconv"
	"strings"
	"sync"
	"time"
)

type c03Req struct {
	conn int
	v    *wv
}

type c03Case struct {
	mode   string
	nnodes int
	layout [][3]int
	delays []int
	reqs   []c03Req
}

func parseC03(line string) *c03Case {
	hd := strings.SplitN(line, " # ", 2)
	f := strings.Fields(hd[0])
	c := &c03Case{mode: f[0]}
	c.nnodes, _ = strconv.Atoi(f[1])
	for _, r := range strings.Split(f[2], ",") {
		var lo, hi, n int
		fmt.Sscanf(r, "%d-%d=%d", &lo, &hi, &n)
		c.layout = append(c.layout, [3]int{lo, hi, n})
	}
	for _, d := range strings.Split(f[3], ",") {
		x, _ := strconv.Atoi(d)
		c.delays = append(c.delays, x)
	}
	if len(hd) > 1 {
		for _, rq := range strings.Split(hd[1], " ; ") {
			rq = strings.TrimSpace(rq)
			if rq == "" {
				continue
			}
			i := strings.Index(rq, ":")
			cn, _ := strconv.Atoi(rq[:i])
			toks := strings.Fields(rq[i+1:])
			pos := 0
			c.reqs = append(c.reqs, c03Req{cn, wvOfTokens(toks, &pos)})
		}
	}
	return c
}

func stopProxy(sp *simProxy) bool {
	done := make(chan struct{})
	go func() { sp.p.Stop(); close(done) }()
	select {
	case <-done:
		return true
	case <-time.After(3 * time.Second):
		return false
	}
}

func fragsFor(r *rng, n int) []int {
	var fr []int
	mode := r.intn(4)
	if n > 200000 && (mode == 1 || mode == 3) {
		mode = 2 // megabytes in pieces of a few bytes take longer to write than the reply is waited for
	}
	switch mode {
	case 0:
		return nil
	case 1:
		for s := 0; s < n; {
			k := 1 + r.intn(7)
			fr = append(fr, k)
			s += k
		}
	case 2:
		for s := 0; s < n; {
			k := 1 + r.intn(4096)
			fr = append(fr, k)
			s += k
		}
	default:
		for s := 0; s < n; {
			k := 1 + r.intn(64)
			if r.chance(1, 8) {
				k = 1
			}
			fr = append(fr, k)
			s += k
		}
	}
	return fr
}

func runC03(c *c03Case, r *rng) string {
	cl := newSimCluster(c.nnodes)
	defer cl.close()
	cl.setLayout(c.layout)
	if c.nnodes > 1 && r.chance(1, 3) {
		// one node is merely suspected by the others ("fail?" in their CLUSTER NODES): it owns and serves its slots all the same
		cl.mu.Lock()
		cl.suspect = map[int]bool{r.intn(c.nnodes): true}
		cl.mu.Unlock()
	}
	for i, d := range c.delays {
		if i < len(cl.nodes) {
			cl.nodes[i].delayMs = d
		}
	}
	var seeds []string
	for _, nd := range cl.nodes {
		seeds = append(seeds, nd.addr)
	}
	sp := startRedisProxy(seeds, 0)
	defer stopProxy(sp)
	if !sp.waitSlotsLoaded(1) {
		return "SLOTS-NOT-LOADED"
	}
	cl.takeLogs()
	nconn := 1
	for _, q := range c.reqs {
		if q.conn+1 > nconn {
			nconn = q.conn + 1
		}
	}
	clients := make([]*simClient, nconn)
	for i := range clients {
		clients[i] = dialProxy(sp.addr)
		defer clients[i].close()
	}
	replies := make([]string, len(c.reqs))
	get := func(sc *simClient) string {
		v, err := sc.recvPatient(4 * time.Second)
		if err != nil {
			return "TIMEOUT"
		}
		return v.String()
	}
	switch c.mode {
	case "seq":
		for i, q := range c.reqs {
			b := q.v.bytes()
			clients[q.conn].send(b, fragsFor(r, len(b)))
			replies[i] = get(clients[q.conn])
		}
	default: // pipe, conc
		var wg sync.WaitGroup
		for cn := 0; cn < nconn; cn++ {
			var idx []int
			var buf bytes.Buffer
			for i, q := range c.reqs {
				if q.conn == cn {
					idx = append(idx, i)
					buf.Write(q.v.bytes())
				}
			}
			frags := fragsFor(r, buf.Len())
			wg.Add(1)
			go func(cn int, idx []int, b []byte, frags []int) {
				defer wg.Done()
				done := make(chan struct{})
				go func() { clients[cn].send(b, frags); close(done) }()
				dead := false
				for _, i := range idx {
					if dead {
						replies[i] = "TIMEOUT"
						continue
					}
					replies[i] = get(clients[cn])
					dead = replies[i] == "TIMEOUT"
				}
				if dead {
					clients[cn].close()
				}
				<-done
			}(cn, idx, buf.Bytes(), frags)
		}
		wg.Wait()
	}
	// nothing more may arrive on any connection (exactly one reply per request)
	extra := ""
	for i, sc := range clients {
		sc.c.SetReadDeadline(time.Now().Add(15 * time.Millisecond))
		if b, err := sc.br.Peek(1); err == nil {
			extra = fmt.Sprintf(" EXTRA-BYTES-ON-%d:%x", i, b)
		}
	}
	out := strings.Join(replies, " ; ") + extra
	logs := cl.takeLogs()
	if c.mode == "conc" {
		out += " || -"
	} else {
		var per []string
		for _, l := range logs {
			var cmds []string
			for _, e := range l {
				if e.result == "exec" {
					cmds = append(cmds, e.cmd)
				}
			}
			per = append(per, strings.Join(cmds, " , "))
		}
		out += " || " + strings.Join(per, " | ")
	}
	mv, ak := cl.counters()
	out += fmt.Sprintf(" || moved=%d ask=%d", mv, ak)
	return out
}

// ---- generation

func c03Key(r *rng, ns string) []byte {
	switch r.intn(12) {
	case 0:
		return []byte(ns + "{t" + strconv.Itoa(r.intn(3)) + "}" + strconv.Itoa(r.intn(4)))
	case 1:
		return append([]byte(ns+"b"), []byte{0, '\r', '\n', byte(r.intn(256))}...)
	case 2:
		if ns == "" {
			return []byte{}
		}
		return []byte(ns)
	case 4:
		return []byte(ns + []string{"}x{t1}", "{}{t2}", "a{t1}{t2}", "{{t1}}", "{t1", "x}y", "{t2}}", "}{"}[r.intn(8)] + strconv.Itoa(r.intn(2)))
	case 3:
		return append([]byte(ns), bytes.Repeat([]byte{byte('a' + r.intn(3))}, 1+r.intn(300))...)
	default:
		return []byte(ns + "k" + strconv.Itoa(r.intn(12)))
	}
}

func c03Val(r *rng, big int) []byte {
	switch r.intn(10) {
	case 0:
		return []byte{}
	case 1:
		return []byte("\r\n")
	case 2:
		return r.bytes(1 + r.intn(40))
	case 3:
		return []byte(strconv.FormatInt(int64(r.intn(2000))-1000, 10))
	case 4:
		return []byte("9223372036854775807")
	case 5:
		if big > 0 {
			return r.bytes(big/2 + r.intn(big))
		}
		return r.bytes(200)
	default:
		return []byte("v" + strconv.Itoa(r.intn(50)))
	}
}

func bulkArr(args ...[]byte) *wv {
	v := &wv{t: '*', a: []*wv{}}
	for _, a := range args {
		v.a = append(v.a, wBulk(a))
	}
	return v
}

func mixCase(r *rng, s string) []byte {
	b := []byte(s)
	if r.chance(1, 3) {
		for i := range b {
			if r.chance(1, 2) {
				b[i] -= 32
			}
		}
	}
	return b
}

func c03Request(r *rng, ns string, big int) *wv {
	k := c03Key(r, ns)
	val := func() []byte { return c03Val(r, big) }
	switch r.intn(34) {
	case 0, 1, 2:
		return bulkArr(mixCase(r, "set"), k, val())
	case 3, 4, 5:
		return bulkArr(mixCase(r, "get"), k)
	case 6:
		return bulkArr(mixCase(r, "getset"), k, val())
	case 7:
		return bulkArr(mixCase(r, "append"), k, val())
	case 8:
		return bulkArr(mixCase(r, "strlen"), k)
	case 9:
		return bulkArr(mixCase(r, "incr"), k)
	case 10:
		return bulkArr(mixCase(r, "decr"), k)
	case 11:
		return bulkArr(mixCase(r, "incrby"), k, []byte(strconv.Itoa(r.intn(100)-50)))
	case 12:
		return bulkArr(mixCase(r, "setnx"), k, val())
	case 13, 14: // multi-key, possibly with repeated keys
		args := [][]byte{mixCase(r, []string{"del", "exists", "touch", "unlink"}[r.intn(4)])}
		for i, n := 0, 1+r.intn(4); i < n; i++ {
			args = append(args, c03Key(r, ns))
		}
		return bulkArr(args...)
	case 15, 16:
		args := [][]byte{mixCase(r, "mget")}
		for i, n := 0, 1+r.intn(5); i < n; i++ {
			args = append(args, c03Key(r, ns))
		}
		return bulkArr(args...)
	case 17, 18:
		args := [][]byte{mixCase(r, "mset")}
		for i, n := 0, 1+r.intn(4); i < n; i++ {
			args = append(args, c03Key(r, ns), val())
		}
		if r.chance(1, 10) {
			args = args[:len(args)-1] // odd: rejected locally
		}
		return bulkArr(args...)
	case 19:
		return bulkArr(mixCase(r, "lpush"), k, val(), val())
	case 20:
		return bulkArr(mixCase(r, "rpush"), k, val())
	case 21:
		return bulkArr(mixCase(r, []string{"lpop", "rpop", "llen"}[r.intn(3)]), k)
	case 22:
		return bulkArr(mixCase(r, "lrange"), k, []byte(strconv.Itoa(r.intn(5)-2)), []byte(strconv.Itoa(r.intn(6)-3)))
	case 23:
		return bulkArr(mixCase(r, "hset"), k, []byte("f"+strconv.Itoa(r.intn(3))), val())
	case 24:
		return bulkArr(mixCase(r, "hget"), k, []byte("f"+strconv.Itoa(r.intn(3))))
	case 25:
		return bulkArr(mixCase(r, []string{"hdel", "hlen"}[r.intn(2)]), k, []byte("f"+strconv.Itoa(r.intn(3))))
	case 26:
		return bulkArr(mixCase(r, "sadd"), k, []byte("m"+strconv.Itoa(r.intn(3))))
	case 27:
		return bulkArr(mixCase(r, []string{"srem", "sismember"}[r.intn(2)]), k, []byte("m"+strconv.Itoa(r.intn(3))))
	case 28:
		return bulkArr(mixCase(r, "scard"), k)
	case 29:
		return bulkArr(mixCase(r, "ping"))
	case 30: // unsupported by the proxy, with hostile bytes in the name
		return bulkArr([]byte([]string{"keys", "flushall", "foo\r\n+OK", "sub\nscribe", "\r\n"}[r.intn(5)]), k)
	case 31: // malformed requests: the proxy answers locally
		switch r.intn(3) {
		case 0:
			return &wv{t: '*', a: []*wv{wBulk([]byte("get")), wInt(5)}}
		case 1:
			return bulkArr(mixCase(r, "get"))
		default:
			return bulkArr(mixCase(r, "select"), []byte("0"))
		}
	case 32:
		return bulkArr(mixCase(r, "hlen"), k)
	default:
		return bulkArr(mixCase(r, "get"), k, k) // wrong arity: the node answers
	}
}

func c03Layout(r *rng, n int) string {
	// 1..3 ranges per node, assigned round robin over shuffled cut points
	parts := n * (1 + r.intn(3))
	cuts := map[int]bool{}
	for len(cuts) < parts-1 {
		cuts[1+r.intn(16383)] = true
	}
	var cs []int
	for s := 1; s < 16384; s++ {
		if cuts[s] {
			cs = append(cs, s)
		}
	}
	cs = append(cs, 16384)
	lo := 0
	off := r.intn(n)
	var out []string
	for i, c := range cs {
		out = append(out, fmt.Sprintf("%d-%d=%d", lo, c-1, (i+off)%n))
		lo = c
	}
	return strings.Join(out, ",")
}

func init() {
	register("c03", func() { c03Main("c03") })
	register("c01", func() { c03Main("c01") })
}

func c03Main(flavor string) {
	func() {
		cases, impl := create("cases.txt"), create("impl.txt")
		hist := map[string]int{}
		r := newRng(*fSeed)
		runLine := func(line string) {
			c := parseC03(line)
			fmt.Fprintln(cases, line)
			fmt.Fprintln(impl, runC03(c, r))
			hist["mode="+c.mode]++
			hist[fmt.Sprintf("nodes=%d", c.nnodes)]++
			hist[fmt.Sprintf("requests<=%d", bucket(len(c.reqs)))]++
		}
		if *fIn != "" {
			for _, l := range readLines(*fIn) {
				runLine(l)
			}
			writeHist(hist)
			return
		}
		// commands over thousands of keys: more children in flight to one node than its request queue (1024) holds
		for _, name := range []string{"mget", "del", "mset"} {
			args := [][]byte{[]byte(name)}
			for k := 0; k < 3000; k++ {
				args = append(args, []byte("bulk"+strconv.Itoa(k)))
				if name == "mset" {
					args = append(args, []byte("v"+strconv.Itoa(k%7)))
				}
			}
			layout := "0-16383=0"
			nn := 1
			if name != "mget" {
				layout, nn = "0-8000=0,8001-16383=1", 2
			}
			ds := strings.TrimSuffix(strings.Repeat("0,", nn), ",")
			runLine(fmt.Sprintf("seq %d %s %s # 0:%s ; 0:%s", nn, layout, ds, bulkArr(args...).String(), bulkArr([]byte("get"), []byte("bulk7")).String()))
			hist["commands over 3000 keys"]++
		}
		big := 0
		for i := 0; i < *fN; i++ {
			if expired() {
				hist["stopped at the deadline"] = 1
				break
			}
			n := 1 + r.intn(5)
			mode := []string{"seq", "seq", "pipe", "pipe", "conc"}[r.intn(5)]
			if flavor == "c01" { // pipelines and concurrent connections only, nodes answering at different speeds
				mode = []string{"pipe", "pipe", "conc"}[r.intn(3)]
			}
			var delays []string
			for j := 0; j < n; j++ {
				d := 0
				if mode != "seq" && r.chance(1, 2) {
					d = r.intn(6)
				}
				if flavor == "c01" && r.chance(1, 2) {
					d = r.intn(12)
				}
				delays = append(delays, strconv.Itoa(d))
			}
			big = 0
			if r.chance(1, 12) {
				big = 70000
				if *fTier == "thorough" && r.chance(1, 4) {
					big = 3 << 20
				}
			}
			nreq := 1 + r.intn(30)
			nconn := 1
			if mode == "seq" {
				nconn = 1 + r.intn(3)
			} else if mode == "conc" {
				nconn = 2 + r.intn(3)
			}
			var rs []string
			if mode == "conc" {
				for cn := 0; cn < nconn; cn++ {
					for j := 0; j < nreq; j++ {
						rs = append(rs, fmt.Sprintf("%d:%s", cn, c03Request(r, fmt.Sprintf("c%d:", cn), 0).String()))
					}
				}
			} else {
				for j := 0; j < nreq; j++ {
					rs = append(rs, fmt.Sprintf("%d:%s", r.intn(nconn), c03Request(r, "", big).String()))
					big = 0
				}
			}
			runLine(fmt.Sprintf("%s %d %s %s # %s", mode, n, c03Layout(r, n), strings.Join(delays, ","), strings.Join(rs, " ; ")))
		}
		writeHist(hist)
	}()
}
