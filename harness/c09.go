package main

// C09: stop and drain at every point of a service's life, both protocols.
//   case line:  <proto> <scenario> [params]
//   scenarios:  stop-at-once | stop-while-binding | stop-before-start | stop-active <nconn> | stop-silent-backend |
//               stop-backend-down | drain-then-stop <nconn> | stop-twice | stop-stubborn-backend <nconn> (tcp: the backends
//               say nothing and do not close when their peer has finished) | stop-after-conn-loss <nconn> (redis) | accept-emfile
//   output:     stop=<ok|HUNG> [drain=<ok|HUNG>] port=<closed|OPEN> clients=<closed|OPEN:n> backends=<closed|OPEN:n>
//               goroutines=<ok|LEAK:+n> [established=<kept|BROKEN> new=<refused|SERVED>]

import (
	"fmt"
	"io"
	"net"
	"os"
	"runtime"
	"runtime/pprof"
	"strconv"
	"strings"
	"sync"
	"sync/atomic"
	"syscall"
	"time"

	"github.com/samaritan-proxy/samaritan/host"
	"github.com/samaritan-proxy/samaritan/pb/config/protocol"
	"github.com/samaritan-proxy/samaritan/pb/config/service"
	"github.com/samaritan-proxy/samaritan/proc"
	_ "github.com/samaritan-proxy/samaritan/proc/tcp"
	"github.com/samaritan-proxy/samaritan/utils"
)

func tcpConfig(port int) *service.Config {
	c := redisConfig(port, 0, 300*time.Millisecond)
	c.Protocol = protocol.TCP
	c.ProtocolOptions = &service.Config_TcpOption{TcpOption: &protocol.TCPOption{}}
	return c
}

func within(d time.Duration, f func()) bool {
	done := make(chan struct{})
	go func() { f(); close(done) }()
	select {
	case <-done:
		return true
	case <-time.After(d):
		return false
	}
}

func portOpen(addr string) bool {
	c, err := net.DialTimeout("tcp", addr, 200*time.Millisecond)
	if err != nil {
		return false
	}
	// a drained/stopped redis listener may still accept from the backlog for an instant; see whether it talks
	c.Close()
	return true
}

// echoBackend: a TCP backend that echoes; counts open connections
type echoBackend struct {
	ln    net.Listener
	open  int32
	conns chan net.Conn
}

func runC09(line string) string {
	loadFactor = measureLoad() // the machine's load may have changed since the process started
	f := strings.Fields(line)
	proto, sc := f[0], f[1]
	argn := func(i, d int) int {
		if len(f) > i {
			x, _ := strconv.Atoi(f[i])
			return x
		}
		return d
	}
	if sc == "stop-hc-probing" {
		return runStopHcProbing()
	}
	if sc == "limit-burst" {
		return runLimitBurst(argn(2, 2), argn(3, 8))
	}
	if sc == "drain-during-bind" || sc == "stop-during-bind" {
		c09Burst++
		ret, open := proc.VerifDuringBind(uint32(freePort()), sc == "stop-during-bind", fmt.Sprintf("c09bind%d", c09Burst),
			func(cond func() bool) bool { return waitFor(2*time.Second, cond) })
		return fmt.Sprintf("serve-returned=%v port-open=%v", ret, open)
	}
	if sc == "drain-after-accept" {
		// the drain request falls between Accept returning a connection and the accept loop's next step: that connection
		// is an established one (it is kept and served), the listening socket is closed, Serve returns once it has ended
		c09Burst++
		served, refused, ret := proc.VerifDrainAfterAccept(uint32(freePort()), fmt.Sprintf("c09dacc%d", c09Burst),
			func(cond func() bool) bool { return waitFor(2*time.Second, cond) })
		return fmt.Sprintf("drain=ok established=%s new=%s serve-returned=%v", map[bool]string{true: "kept", false: "BROKEN"}[served],
			map[bool]string{true: "refused", false: "SERVED"}[refused], ret)
	}
	if sc == "register-after-stop" {
		c09Burst++
		if proc.VerifRegisterAfterStop(fmt.Sprintf("c09stop%d", c09Burst)) {
			return "registered=1"
		}
		return "registered=0"
	}
	if sc == "register-burst" {
		// many goroutines register a connection at the same moment, 40 rounds: the registry never exceeds the limit
		worst, wt, wr := 0, uint64(0), uint64(0)
		for round := 0; round < 40; round++ {
			c09Burst++
			reg, tot, res, _ := proc.VerifRegisterBurst(uint32(argn(2, 2)), argn(3, 64), fmt.Sprintf("c09burst%d", c09Burst))
			if reg > worst || round == 0 {
				worst, wt, wr = reg, tot, res
			}
		}
		return fmt.Sprintf("served=%d refused=%d", wt, wr) + map[bool]string{true: "", false: fmt.Sprintf(" registered=%d", worst)}[uint64(worst) == wt]
	}
	cl := newSimCluster(2)
	defer cl.close()
	cl.setLayout([][3]int{{0, 8000, 0}, {8001, 16383, 1}})
	seeds := []string{cl.nodes[0].addr, cl.nodes[1].addr}
	var echoConns int32
	stubbornRelease := make(chan struct{}) // closed once Stop has returned (or hung): the stubborn backends may go then
	if proto == "tcp" {                    // the TCP processor gets echo servers as backends
		seeds = nil
		for i := 0; i < 2; i++ {
			ln, _ := net.Listen("tcp", "127.0.0.1:0")
			defer ln.Close()
			seeds = append(seeds, ln.Addr().String())
			if sc == "stop-backend-down" {
				ln.Close()
				continue
			}
			go func() {
				for {
					c, err := ln.Accept()
					if err != nil {
						return
					}
					atomic.AddInt32(&echoConns, 1)
					go func() {
						defer atomic.AddInt32(&echoConns, -1)
						defer c.Close()
						if sc == "stop-stubborn-backend" {
							// reads what comes, says nothing, and does not close when its peer has finished: only the
							// peer closing the connection for good (a reset or the test's end) ends it
							b := make([]byte, 4096)
							for {
								if _, err := c.Read(b); err != nil {
									if err == io.EOF {
										select {
										case <-stubbornRelease:
										case <-time.After(8 * time.Second):
										}
									}
									return
								}
							}
						}
						io.Copy(c, c)
					}()
				}
			}()
		}
	}
	var releaseBh func()
	if sc == "stop-during-connect" {
		// a third master, known from CLUSTER NODES only, whose connects hang for about a second (full accept queue, freed
		// later: the retransmitted SYN gets through) - slots 0..200 are its own
		addr, release, closeBh := newSlowConnect()
		defer closeBh()
		releaseBh = release
		cl.mu.Lock()
		cl.extra = []simExtraMaster{{addr, 0, 200}}
		for s := 0; s <= 200; s++ {
			cl.owner[s] = 1 << 20 // nobody among the real nodes
		}
		cl.mu.Unlock()
	}
	if sc == "stop-during-redirect" {
		// a third master nobody has a connection to yet; all slots will be moved to it while requests are on their way
		cl.mu.Lock()
		cl.addNode(-1)
		cl.mu.Unlock()
	}
	if sc == "stop-silent-backend" || sc == "stop-halfclosed-silent" {
		cl.nodes[0].silent, cl.nodes[1].silent = true, true
	}
	if sc == "stop-backend-down" {
		cl.nodes[0].stop()
		cl.nodes[1].stop()
	}
	settle(10 * time.Millisecond)
	base := runtime.NumGoroutine()
	port := freePort()
	addr := fmt.Sprintf("127.0.0.1:%d", port)
	var cfg *service.Config
	if proto == "redis" {
		simTimersOnce.Do(func() {})
		cfg = redisConfig(port, 0, 300*time.Millisecond)
		if sc == "stop-during-connect" {
			cfg.ConnectTimeout = utils.DurationPtr(4 * time.Second)
		}
	} else {
		cfg = tcpConfig(port)
	}
	var hosts []*host.Host
	for _, s := range seeds {
		hosts = append(hosts, host.New(s))
	}
	var blocker net.Listener
	if sc == "stop-while-binding" || sc == "drain-while-binding" {
		blocker, _ = net.Listen("tcp", addr) // no SO_REUSEPORT: the processor's bind keeps failing
	}
	p, err := proc.New(fmt.Sprintf("c09x%d", nextProcSeq()), cfg, hosts)
	if err != nil {
		return "NEW-FAILED:" + err.Error()
	}
	out := ""
	switch sc {
	case "stop-before-start":
		// never started
	default:
		p.Start()
	}
	var clients []net.Conn
	waitListening := func() {
		for t := 0; t < 300; t++ {
			c, err := net.DialTimeout("tcp", addr, 100*time.Millisecond)
			if err == nil {
				c.Close()
				return
			}
			time.Sleep(5 * time.Millisecond)
		}
	}
	switch sc {
	case "stop-at-once", "stop-before-start":
	case "stop-random":
		// connections are being opened while Stop comes after a random delay
		go func() {
			for i := 0; i < argn(3, 3); i++ {
				if c, err := net.DialTimeout("tcp", addr, 100*time.Millisecond); err == nil {
					defer c.Close()
					if proto == "redis" {
						c.Write(bulkArr([]byte("get"), []byte("k")).bytes())
					} else {
						c.Write([]byte("hello"))
					}
				}
				time.Sleep(time.Duration(argn(2, 0)/3) * time.Microsecond)
			}
			settle(300 * time.Millisecond)
		}()
		time.Sleep(time.Duration(argn(2, 0)) * time.Microsecond)
	case "stop-while-binding":
		settle(120 * time.Millisecond)
	case "drain-while-binding":
		// Drain arrives while the bind is being retried; then the port becomes free: the service must not begin to serve
		settle(120 * time.Millisecond)
		ok := within(3*time.Second, func() { p.StopListen() })
		out += "drain=" + map[bool]string{true: "ok", false: "HUNG"}[ok] + " "
		blocker.Close()
		blocker = nil
		settle(800 * time.Millisecond) // the bind loop tries again every 500 ms
		nw := "refused"
		if c, err := net.DialTimeout("tcp", addr, 200*time.Millisecond); err == nil {
			c.SetReadDeadline(time.Now().Add(500 * time.Millisecond))
			if proto == "redis" {
				c.Write(bulkArr([]byte("ping")).bytes())
			} else {
				c.Write([]byte("x"))
			}
			b := make([]byte, 16)
			if n, _ := c.Read(b); n > 0 {
				nw = "SERVED"
			}
			c.Close()
		}
		out += "new=" + nw + " "
	case "stop-halfclosed-silent":
		// a client sends a request to a backend that never answers and half-closes; then Stop
		waitListening()
		settle(20 * time.Millisecond)
		if c, err := net.DialTimeout("tcp", addr, time.Second); err == nil {
			clients = append(clients, c)
			c.Write(bulkArr([]byte("get"), []byte("k1")).bytes())
			settle(20 * time.Millisecond)
			c.(*net.TCPConn).CloseWrite()
		}
		settle(40 * time.Millisecond)
	case "stop-during-connect":
		// Stop arrives while a backend connect is in progress (it completes a second later): no connection, no goroutine
		// may be left behind by the connect that finishes after Stop
		waitListening()
		settle(60 * time.Millisecond)
		if c, err := net.DialTimeout("tcp", addr, time.Second); err == nil {
			clients = append(clients, c)
			var pk []byte
			for i := 0; ; i++ {
				pk = []byte("slowkey" + strconv.Itoa(i))
				if simSlot(pk) <= 200 {
					break
				}
			}
			c.Write(bulkArr([]byte("get"), pk).bytes())
		}
		time.Sleep(150 * time.Millisecond) // the processor is dialling
		releaseBh()                        // the next SYN retransmission (about 1 s after the first) will be accepted
		time.Sleep(50 * time.Millisecond)
	case "stop-after-conn-loss":
		// backend connections are lost again and again while requests are outstanding on them and more keep coming;
		// whatever connections the service made in the meantime, Stop closes them all
		waitListening()
		settle(20 * time.Millisecond)
		cl.mu.Lock()
		for _, nd := range cl.nodes {
			nd.delayMs = 10
		}
		cl.mu.Unlock()
		stopLoad := make(chan struct{})
		var lw sync.WaitGroup
		for i := 0; i < argn(2, 3); i++ {
			c, err := net.DialTimeout("tcp", addr, time.Second)
			if err != nil {
				continue
			}
			clients = append(clients, c)
			lw.Add(2)
			go func(c net.Conn, i int) { // writer: batches of pipelined GETs over both nodes' slots
				defer lw.Done()
				var batch []byte
				for k := 0; k < 150; k++ {
					batch = append(batch, bulkArr([]byte("get"), []byte("k"+strconv.Itoa(i*1000+k))).bytes()...)
				}
				for {
					select {
					case <-stopLoad:
						return
					default:
					}
					c.SetWriteDeadline(time.Now().Add(time.Second))
					if _, err := c.Write(batch); err != nil {
						return
					}
					time.Sleep(2 * time.Millisecond)
				}
			}(c, i)
			go func(c net.Conn) { // reader: discards the replies until the load stops
				defer lw.Done()
				b := make([]byte, 64<<10)
				for {
					select {
					case <-stopLoad:
						return
					default:
					}
					c.SetReadDeadline(time.Now().Add(50 * time.Millisecond))
					c.Read(b)
				}
			}(c)
		}
		time.Sleep(25 * time.Millisecond)
		for round := 0; round < 15; round++ {
			cl.nodes[round%2].killConns()
			time.Sleep(25 * time.Millisecond) // the load goes on: requests arrive while the lost connection is being cleaned up
		}
		time.Sleep(40 * time.Millisecond)
		close(stopLoad)
		lw.Wait()
		cl.mu.Lock()
		for _, nd := range cl.nodes {
			nd.delayMs = 0
		}
		cl.mu.Unlock()
		settle(100 * time.Millisecond)
	case "accept-emfile":
		// the process runs out of file descriptors for a moment: accept fails with EMFILE (a temporary error); once
		// descriptors are available again the waiting connection is served
		waitListening()
		settle(20 * time.Millisecond)
		var lim syscall.Rlimit
		syscall.Getrlimit(syscall.RLIMIT_NOFILE, &lim)
		low := lim
		low.Cur = 400
		if low.Cur > lim.Max {
			low.Cur = lim.Max
		}
		syscall.Setrlimit(syscall.RLIMIT_NOFILE, &low)
		var dummies []*os.File
		for {
			fd, err := os.Open("/dev/null")
			if err != nil {
				break
			}
			dummies = append(dummies, fd)
			if len(dummies) > 5000 {
				break
			}
		}
		nw := "UNSERVED"
		if len(dummies) > 0 && len(dummies) <= 5000 {
			dummies[len(dummies)-1].Close() // room for exactly one: our side of the connection
			dummies = dummies[:len(dummies)-1]
			c, err := net.DialTimeout("tcp", addr, time.Second)
			time.Sleep(80 * time.Millisecond) // accept fails meanwhile, and is retried
			for _, d := range dummies {
				d.Close()
			}
			syscall.Setrlimit(syscall.RLIMIT_NOFILE, &lim)
			if err == nil {
				clients = append(clients, c)
				if proto == "redis" {
					c.Write(bulkArr([]byte("ping")).bytes())
				} else {
					c.Write([]byte("hello"))
				}
				c.SetReadDeadline(time.Now().Add(time.Duration(float64(3*time.Second) * loadFactor)))
				b := make([]byte, 16)
				if n, _ := c.Read(b); n > 0 {
					nw = "served"
				}
			} else {
				nw = "NOCONNECT"
			}
		} else {
			for _, d := range dummies {
				d.Close()
			}
			syscall.Setrlimit(syscall.RLIMIT_NOFILE, &lim)
			nw = "served" // descriptors could not be exhausted here: nothing observed
		}
		out += "new=" + nw + " "
	case "stop-active", "drain-then-stop", "stop-silent-backend", "stop-backend-down", "stop-twice", "stop-stubborn-backend", "stop-during-redirect":
		waitListening()
		settle(20 * time.Millisecond)
		for i := 0; i < argn(2, 2); i++ {
			c, err := net.DialTimeout("tcp", addr, time.Second)
			if err == nil {
				clients = append(clients, c)
				if proto == "redis" {
					c.Write(bulkArr([]byte("get"), []byte("k"+strconv.Itoa(i))).bytes())
				} else {
					c.Write([]byte("hello"))
				}
			}
		}
		settle(30 * time.Millisecond)
	}
	if sc == "stop-during-redirect" {
		// every slot now belongs to the third master; the two the proxy knows answer MOVED to a stream of 3000 requests per
		// client: redirections are being followed (also right after Stop has emptied the table of backend connections)
		// while Stop is running
		cl.setLayout([][3]int{{0, 16383, 2}})
		for _, c := range clients {
			var buf []byte
			for i := 0; i < 3000; i++ {
				buf = append(buf, bulkArr([]byte("get"), []byte("k"+strconv.Itoa(i%40))).bytes()...)
			}
			go func(c net.Conn) { c.Write(buf) }(c)
		}
		time.Sleep(time.Duration(2+argn(2, 1)) * time.Millisecond)
	}
	if sc == "drain-then-stop" {
		ok := within(3*time.Second, func() { p.StopListen() })
		out += "drain=" + map[bool]string{true: "ok", false: "HUNG"}[ok] + " "
		settle(30 * time.Millisecond)
		// established connections keep working
		kept := "kept"
		for _, c := range clients {
			var err error
			if proto == "redis" {
				_, err = c.Write(bulkArr([]byte("ping")).bytes())
			} else {
				_, err = c.Write([]byte("x"))
			}
			c.SetReadDeadline(time.Now().Add(time.Second))
			buf := make([]byte, 256)
			n, rerr := c.Read(buf)
			for rerr == nil && proto == "redis" && !strings.Contains(string(buf[:n]), "PONG") {
				var m int
				m, rerr = c.Read(buf)
				n = m
			}
			if err != nil || rerr != nil {
				kept = "BROKEN"
			}
		}
		nw := "refused"
		if c, err := net.DialTimeout("tcp", addr, 200*time.Millisecond); err == nil {
			c.SetReadDeadline(time.Now().Add(300 * time.Millisecond))
			if proto == "redis" {
				c.Write(bulkArr([]byte("ping")).bytes())
			}
			b := make([]byte, 16)
			if n, _ := c.Read(b); n > 0 {
				nw = "SERVED"
			}
			c.Close()
		}
		out += "established=" + kept + " new=" + nw + " "
	}
	ok := within(time.Duration(float64(4*time.Second)*loadFactor), func() { p.Stop() })
	if sc == "stop-twice" && ok {
		ok = within(4*time.Second, func() { p.Stop() })
	}
	out += "stop=" + map[bool]string{true: "ok", false: "HUNG"}[ok]
	close(stubbornRelease)
	if blocker != nil {
		blocker.Close()
	}
	settle(60 * time.Millisecond)
	if portOpen(addr) {
		out += " port=OPEN"
	} else {
		out += " port=closed"
	}
	openClients := 0
	for _, c := range clients {
		c.SetReadDeadline(time.Now().Add(time.Duration(float64(500*time.Millisecond) * loadFactor)))
		b := make([]byte, 4096)
		for {
			_, err := c.Read(b)
			if err != nil {
				if ne, ok := err.(net.Error); ok && ne.Timeout() {
					openClients++
				}
				break
			}
		}
		c.Close()
	}
	if openClients == 0 {
		out += " clients=closed"
	} else {
		out += fmt.Sprintf(" clients=OPEN:%d", openClients)
	}
	settle(40 * time.Millisecond)
	ob := 0
	countBackends := func() bool {
		cl.mu.Lock()
		defer cl.mu.Unlock()
		ob = int(atomic.LoadInt32(&echoConns))
		for _, nd := range cl.nodes {
			ob += len(nd.conns)
		}
		return ob == 0
	}
	if !countBackends() && sc == "stop-during-redirect" {
		// the nodes notice that their peer has gone only after they have answered what was queued
		waitFor(3*time.Second, countBackends)
	}
	if ob == 0 {
		out += " backends=closed"
	} else {
		out += fmt.Sprintf(" backends=OPEN:%d", ob)
	}
	leak := 0
	waitFor(3*time.Second, func() bool {
		leak = runtime.NumGoroutine() - base
		return leak <= 0
	})
	if leak <= 0 {
		out += " goroutines=ok"
	} else {
		out += fmt.Sprintf(" goroutines=LEAK:+%d", leak)
		if os.Getenv("C09_DUMP") != "" {
			pprof.Lookup("goroutine").WriteTo(os.Stderr, 1)
		}
	}
	return out
}

// newSlowConnect: a listening socket whose accept queue is full (connects hang: the SYN is dropped) until release()
// empties it, after which the client's next SYN retransmission completes the connect
func newSlowConnect() (addr string, release func(), closeAll func()) {
	fd, err := syscall.Socket(syscall.AF_INET, syscall.SOCK_STREAM, 0)
	if err != nil {
		die("slow-connect socket: %v", err)
	}
	syscall.SetsockoptInt(fd, syscall.SOL_SOCKET, syscall.SO_REUSEADDR, 1)
	if err := syscall.Bind(fd, &syscall.SockaddrInet4{Port: 0, Addr: [4]byte{127, 0, 0, 1}}); err != nil {
		die("slow-connect bind: %v", err)
	}
	syscall.Listen(fd, 0)
	syscall.SetNonblock(fd, true)
	sa, _ := syscall.Getsockname(fd)
	addr = fmt.Sprintf("127.0.0.1:%d", sa.(*syscall.SockaddrInet4).Port)
	var fill []net.Conn
	for i := 0; i < 4; i++ {
		if c, err := net.DialTimeout("tcp", addr, 150*time.Millisecond); err == nil {
			fill = append(fill, c)
		}
	}
	var accepted []int
	closed := false
	release = func() {
		for {
			nfd, _, err := syscall.Accept(fd)
			if err != nil {
				break
			}
			accepted = append(accepted, nfd)
		}
		// keep accepting for a while: the retransmitted SYN's connection must find room too
		go func() {
			for t := 0; t < 140 && !closed; t++ { // it ends by itself well before goroutines are counted
				if nfd, _, err := syscall.Accept(fd); err == nil {
					_ = nfd // stays open: a backend that accepted and says nothing
				}
				time.Sleep(10 * time.Millisecond)
			}
		}()
	}
	closeAll = func() {
		closed = true
		time.Sleep(15 * time.Millisecond)
		for _, c := range fill {
			c.Close()
		}
		for _, nfd := range accepted {
			syscall.Close(nfd)
		}
		syscall.Close(fd)
	}
	return
}

// runStopHcProbing: a TCP service is stopped while a health-check round is probing a host that does not answer; when
// Stop has returned, the round's goroutines and probe connections are gone
func runStopHcProbing() string {
	addr, _, closeBh := newSlowConnect() // never released: probes hang until the check's timeout
	defer closeBh()
	settle(10 * time.Millisecond)
	base := runtime.NumGoroutine()
	port := freePort()
	cfg := tcpConfig(port)
	cfg.HealthCheck.Interval = 50 * time.Millisecond
	cfg.HealthCheck.Timeout = 1500 * time.Millisecond
	p, err := proc.New(fmt.Sprintf("c09h%d", nextProcSeq()), cfg, []*host.Host{host.New(addr)})
	if err != nil {
		return "NEW-FAILED:" + err.Error()
	}
	p.Start()
	time.Sleep(400 * time.Millisecond) // a round is in progress
	ok := within(time.Duration(float64(4*time.Second)*loadFactor), func() { p.Stop() })
	out := "stop=" + map[bool]string{true: "ok", false: "HUNG"}[ok]
	leak := 0
	waitFor(300*time.Millisecond, func() bool {
		leak = runtime.NumGoroutine() - base
		return leak <= 0
	})
	if leak <= 0 {
		return out + " goroutines=ok"
	}
	return out + fmt.Sprintf(" goroutines=LEAK:+%d", leak)
}

var c09Burst int

// runLimitBurst: n clients connect at the same moment to a TCP service limited to l connections and stay connected
func runLimitBurst(l, n int) string {
	ln, _ := net.Listen("tcp", "127.0.0.1:0")
	defer ln.Close()
	go func() {
		for {
			c, err := ln.Accept()
			if err != nil {
				return
			}
			go func() { defer c.Close(); io.Copy(c, c) }()
		}
	}()
	port := freePort()
	addr := fmt.Sprintf("127.0.0.1:%d", port)
	cfg := tcpConfig(port)
	cfg.Listener.ConnectionLimit = uint32(l)
	p, err := proc.New(fmt.Sprintf("c09l%d", nextProcSeq()), cfg, []*host.Host{host.New(ln.Addr().String())})
	if err != nil {
		return "NEW-FAILED"
	}
	p.Start()
	defer within(3*time.Second, func() { p.Stop() })
	for t := 0; t < 300; t++ {
		c, err := net.DialTimeout("tcp", addr, 100*time.Millisecond)
		if err == nil {
			c.Close()
			break
		}
		time.Sleep(5 * time.Millisecond)
	}
	settle(30 * time.Millisecond)
	var served, refused int32
	var wg sync.WaitGroup
	start := make(chan struct{})
	release := make(chan struct{})
	for i := 0; i < n; i++ {
		wg.Add(1)
		go func() {
			defer wg.Done()
			<-start
			c, err := net.DialTimeout("tcp", addr, time.Second)
			if err != nil {
				atomic.AddInt32(&refused, 1)
				return
			}
			defer c.Close()
			c.Write([]byte("x"))
			c.SetReadDeadline(time.Now().Add(2 * time.Second))
			b := make([]byte, 1)
			if k, _ := c.Read(b); k == 1 {
				atomic.AddInt32(&served, 1)
				<-release
			} else {
				atomic.AddInt32(&refused, 1)
			}
		}()
	}
	close(start)
	settle(400 * time.Millisecond)
	res := fmt.Sprintf("served=%d refused=%d", atomic.LoadInt32(&served), atomic.LoadInt32(&refused))
	close(release)
	wg.Wait()
	return res
}

func init() {
	register("c09", func() {
		cases, impl := create("cases.txt"), create("impl.txt")
		hist := map[string]int{}
		var lines []string
		// the TCP health checker is one process-wide goroutine started by the first TCP service: start it before counting
		runC09("tcp stop-active 1")
		if *fIn != "" {
			lines = readLines(*fIn)
		} else {
			r := newRng(*fSeed)
			for i := 0; i < *fN; i++ {
				lines = append(lines, fmt.Sprintf("%s stop-random %d %d", []string{"redis", "tcp"}[r.intn(2)], r.intn(30000), r.intn(5)))
			}
			for _, proto := range []string{"redis", "tcp"} {
				for _, sc := range []string{"stop-at-once", "stop-while-binding", "stop-active 1", "stop-active 4", "stop-backend-down 2", "drain-then-stop 2"} {
					lines = append(lines, proto+" "+sc)
				}
			}
			lines = append(lines, "redis stop-silent-backend 2", "tcp register-after-stop", "redis stop-halfclosed-silent", "redis drain-while-binding", "tcp drain-while-binding", "tcp drain-during-bind", "tcp stop-during-bind", "tcp drain-after-accept",
				"redis stop-after-conn-loss 3", "redis stop-after-conn-loss 2", "tcp accept-emfile", "redis accept-emfile", "redis stop-during-connect", "tcp stop-stubborn-backend 2", "redis stop-during-redirect 3", "redis stop-during-redirect 1")
			for i := 0; i < 6; i++ {
				lines = append(lines, fmt.Sprintf("tcp limit-burst %d %d", 1+r.intn(3), 6+r.intn(20)))
				lines = append(lines, fmt.Sprintf("tcp register-burst %d %d", 1+r.intn(4), 32+r.intn(64)))
			}
		}
		for _, l := range lines {
			fmt.Fprintln(cases, l)
			fmt.Fprintln(impl, runC09(l))
			hist[strings.Fields(l)[1]]++
		}
		writeHist(hist)
	})
}
