package main

import (
	"bufio"
	"encoding/hex"
	"errors"
	"fmt"
	"io"
	"strconv"
	"strings"

	redis "github.com/samaritan-proxy/samaritan/proc/redis"
)

// canonical token form of RESP values, shared with run/driver.ml:
//
//	S<hex> E<hex> I<dec> B<hex> Bn An A<k> v1 .. vk
func fmtVal(b *strings.Builder, v *redis.RespValue) {
	switch v.Type {
	case redis.SimpleString:
		b.WriteString("S" + hex.EncodeToString(v.Text))
	case redis.Error:
		b.WriteString("E" + hex.EncodeToString(v.Text))
	case redis.Integer:
		b.WriteString("I" + strconv.FormatInt(v.Int, 10))
	case redis.BulkString:
		if v.Text == nil {
			b.WriteString("Bn")
		} else {
			b.WriteString("B" + hex.EncodeToString(v.Text))
		}
	case redis.Array:
		if v.Array == nil {
			b.WriteString("An")
		} else {
			b.WriteString("A" + strconv.Itoa(len(v.Array)))
			for i := range v.Array {
				b.WriteByte(' ')
				fmtVal(b, &v.Array[i])
			}
		}
	default:
		b.WriteString("?" + strconv.Itoa(int(v.Type)))
	}
}

func valString(v *redis.RespValue) string {
	var b strings.Builder
	fmtVal(&b, v)
	return b.String()
}

func parseVal(toks []string, pos *int) *redis.RespValue {
	t := toks[*pos]
	*pos++
	unhex := func(s string) []byte {
		b, err := hex.DecodeString(s)
		if err != nil {
			die("bad hex token %q", t)
		}
		if b == nil {
			b = []byte{}
		}
		return b
	}
	switch t[0] {
	case 'S':
		return &redis.RespValue{Type: redis.SimpleString, Text: unhex(t[1:])}
	case 'E':
		return &redis.RespValue{Type: redis.Error, Text: unhex(t[1:])}
	case 'I':
		n, err := strconv.ParseInt(t[1:], 10, 64)
		if err != nil {
			die("bad int token %q", t)
		}
		return &redis.RespValue{Type: redis.Integer, Int: n}
	case 'B':
		if t == "Bn" {
			return &redis.RespValue{Type: redis.BulkString}
		}
		return &redis.RespValue{Type: redis.BulkString, Text: unhex(t[1:])}
	case 'A':
		if t == "An" {
			return &redis.RespValue{Type: redis.Array}
		}
		k, err := strconv.Atoi(t[1:])
		if err != nil {
			die("bad array token %q", t)
		}
		arr := make([]redis.RespValue, k)
		for i := 0; i < k; i++ {
			arr[i] = *parseVal(toks, pos)
		}
		return &redis.RespValue{Type: redis.Array, Array: arr}
	}
	die("bad token %q", t)
	return nil
}

// refEncode: the harness's own straightforward RESP encoder (used to build input streams)
func refEncode(out []byte, v *redis.RespValue) []byte {
	switch v.Type {
	case redis.SimpleString, redis.Error:
		out = append(out, byte(v.Type))
		out = append(out, v.Text...)
		return append(out, '\r', '\n')
	case redis.Integer:
		out = append(out, ':')
		out = strconv.AppendInt(out, v.Int, 10)
		return append(out, '\r', '\n')
	case redis.BulkString:
		if v.Text == nil {
			return append(out, "$-1\r\n"...)
		}
		out = append(out, '$')
		out = strconv.AppendInt(out, int64(len(v.Text)), 10)
		out = append(out, '\r', '\n')
		out = append(out, v.Text...)
		return append(out, '\r', '\n')
	case redis.Array:
		if v.Array == nil {
			return append(out, "*-1\r\n"...)
		}
		out = append(out, '*')
		out = strconv.AppendInt(out, int64(len(v.Array)), 10)
		out = append(out, '\r', '\n')
		for i := range v.Array {
			out = refEncode(out, &v.Array[i])
		}
		return out
	}
	return out
}

var errSrc = errors.New("source failed")
var nilEOF = io.EOF

// errClass maps implementation errors onto the model's error enumeration
func errClass(err error) string {
	switch err {
	case nil:
		return "nil"
	case io.EOF:
		return "EOF"
	case io.ErrUnexpectedEOF:
		return "UnexpectedEOF"
	case io.ErrNoProgress:
		return "NoProgress"
	case bufio.ErrBufferFull:
		return "BufferFull"
	case errSrc:
		return "SrcErr"
	case redis.ErrBadCRLFEnd:
		return "BadCRLF"
	case redis.ErrBadRespType:
		return "BadRespType"
	case redis.ErrBadArrayLen:
		return "BadArrayLen"
	case redis.ErrBadArrayLenTooLong:
		return "BadArrayLenTooLong"
	case redis.ErrBadArrayDepth:
		return "BadArrayDepth"
	case redis.ErrBadBulkStringLen:
		return "BadBulkLen"
	case redis.ErrBadBulkStringLenTooLong:
		return "BadBulkLenTooLong"
	case redis.ErrBadMultiBulkLen:
		return "BadMultiBulkLen"
	case redis.ErrBadMultiBulkContent:
		return "BadMultiBulkContent"
	}
	var ne *strconv.NumError
	if errors.As(err, &ne) {
		if ne.Err == strconv.ErrSyntax {
			return "IntSyntax"
		}
		if ne.Err == strconv.ErrRange {
			return "IntRange"
		}
	}
	return "other:" + fmt.Sprint(err)
}

// oracleReader delivers data the way the model's source does: the i-th Read returns
// min(max(1,sizes[i]), len(p), remaining) bytes (everything that fits once the oracle is
// used up) and endErr when nothing is left.
type oracleReader struct {
	data   []byte
	sizes  []int
	endErr error
	reads  int
}

func (o *oracleReader) Read(p []byte) (int, error) {
	if len(p) == 0 {
		return 0, nil
	}
	if len(o.data) == 0 {
		return 0, o.endErr
	}
	n := len(p)
	if len(o.sizes) > 0 {
		w := o.sizes[0]
		o.sizes = o.sizes[1:]
		if w < 1 {
			w = 1
		}
		if w < n {
			n = w
		}
	}
	if n > len(o.data) {
		n = len(o.data)
	}
	copy(p, o.data[:n])
	o.data = o.data[n:]
	o.reads++
	return n, nil
}

func sizesString(s []int) string {
	if len(s) == 0 {
		return "-"
	}
	parts := make([]string, len(s))
	for i, x := range s {
		parts[i] = strconv.Itoa(x)
	}
	return strings.Join(parts, ",")
}

func parseSizes(s string) []int {
	if s == "-" || s == "" {
		return nil
	}
	var out []int
	for _, p := range strings.Split(s, ",") {
		n, err := strconv.Atoi(p)
		if err != nil {
			die("bad sizes %q", s)
		}
		out = append(out, n)
	}
	return out
}
