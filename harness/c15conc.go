package main

// C15 under concurrency: several goroutines update a large host.Set at the same time with updates that commute (each
// removes, re-adds or marks its own disjoint share of the hosts), while a reader keeps taking snapshots. Whatever the
// interleaving, once all have finished the usable hosts are exactly the healthy members of the preferred tier.
//   case line:  <seed> <nmain> <nbackup> <workers>
//   output:     ok | final snapshot differs: ... | a snapshot held a duplicate / was not sorted

import (
	"fmt"
	"sort"
	"sync"

	"github.com/samaritan-proxy/samaritan/host"
)

func runC15conc(seed int64, nmain, nbackup, workers int) string {
	r := newRng(seed)
	var mains, backups []*host.Host
	for i := 0; i < nmain; i++ {
		mains = append(mains, host.NewWithType(fmt.Sprintf("10.9.%d.%d:80", i/250, i%250), host.TypeMain))
	}
	for i := 0; i < nbackup; i++ {
		backups = append(backups, host.NewWithType(fmt.Sprintf("10.10.%d.%d:80", i/250, i%250), host.TypeBackup))
	}
	set := host.NewSet(append(append([]*host.Host{}, mains...), backups...)...)
	// the share of worker w: mains with index = w mod workers
	removeAllMains := r.chance(1, 2)
	expect := map[string]bool{}
	plan := make([][]func(), workers)
	for w := 0; w < workers; w++ {
		var mine []*host.Host
		for i := w; i < nmain; i += workers {
			mine = append(mine, mains[i])
		}
		kind := r.intn(4)
		if removeAllMains {
			kind = 0
		}
		switch kind {
		case 0: // remove the whole share, in one call or one by one
			if r.chance(1, 2) {
				m := mine
				plan[w] = append(plan[w], func() { set.Remove(m...) })
			} else {
				for _, h := range mine {
					h := h
					plan[w] = append(plan[w], func() { set.Remove(h) })
				}
			}
		case 1: // mark the share unhealthy, then half of it healthy again
			for i, h := range mine {
				h, i := h, i
				plan[w] = append(plan[w], func() { set.MarkHostUnhealthy(h) })
				if i%2 == 0 {
					plan[w] = append(plan[w], func() { set.MarkHostHealthy(h) })
					expect[h.Addr] = true
				}
			}
		case 2: // remove the share and add it again (new objects of the same addresses)
			for _, h := range mine {
				h := h
				plan[w] = append(plan[w], func() { set.Remove(h) }, func() { set.Add(host.NewWithType(h.Addr, host.TypeMain)) })
				expect[h.Addr] = true
			}
		default: // nothing: the share stays
			for _, h := range mine {
				expect[h.Addr] = true
			}
		}
	}
	stop := make(chan struct{})
	bad := ""
	var rw sync.WaitGroup
	rw.Add(1)
	go func() { // a reader: every snapshot is sorted and free of duplicates
		defer rw.Done()
		for {
			select {
			case <-stop:
				return
			default:
			}
			hs := set.Healthy()
			for i := 1; i < len(hs); i++ {
				if hs[i-1].Addr >= hs[i].Addr {
					bad = "a snapshot held a duplicate or was not sorted: " + hs[i-1].Addr + " before " + hs[i].Addr
					return
				}
			}
		}
	}()
	var wg sync.WaitGroup
	for w := 0; w < workers; w++ {
		wg.Add(1)
		go func(w int) {
			defer wg.Done()
			for _, f := range plan[w] {
				f()
			}
		}(w)
	}
	wg.Wait()
	close(stop)
	rw.Wait()
	if bad != "" {
		return bad
	}
	// the preferred tier: mains if any main is healthy, else the backups
	var want []string
	for a := range expect {
		want = append(want, a)
	}
	if len(want) == 0 {
		for _, b := range backups {
			want = append(want, b.Addr)
		}
	}
	sort.Strings(want)
	var got []string
	for _, h := range set.Healthy() {
		got = append(got, h.Addr)
	}
	if len(got) != len(want) {
		return fmt.Sprintf("final snapshot differs: %d usable hosts, %d healthy members of the preferred tier", len(got), len(want))
	}
	for i := range got {
		if got[i] != want[i] {
			return fmt.Sprintf("final snapshot differs at position %d: %s, expected %s", i, got[i], want[i])
		}
	}
	return "ok"
}

func init() {
	register("c15conc", func() {
		cases, impl := create("cases.txt"), create("impl.txt")
		hist := map[string]int{}
		r := newRng(*fSeed)
		run := func(seed int64, nm, nb, w int) {
			fmt.Fprintf(cases, "%d %d %d %d\n", seed, nm, nb, w)
			fmt.Fprintln(impl, runC15conc(seed, nm, nb, w))
			hist[fmt.Sprintf("workers=%d", w)]++
		}
		if *fIn != "" {
			for _, l := range readLines(*fIn) {
				var seed int64
				var nm, nb, w int
				fmt.Sscanf(l, "%d %d %d %d", &seed, &nm, &nb, &w)
				run(seed, nm, nb, w)
			}
			writeHist(hist)
			return
		}
		for i := 0; i < *fN && !expired(); i++ {
			run(int64(r.u64()>>1), 200+r.intn(2800), 1+r.intn(5), 2+r.intn(5))
		}
		writeHist(hist)
	})
}
