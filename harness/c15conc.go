package main

// C15 under concurrency: several goroutines update a large host.Set at the same time with updates that commute (each
// removes, re-adds or marks its own disjoint share of the hosts), while a reader keeps taking snapshots. Whatever the
// interleaving, once all have finished the usable hosts are exactly the healthy members of the preferred tier.
//   case line:  <seed> <nmain> <nbackup> <workers>
//   output:     ok | final snapshot differs: ... | a snapshot held a duplicate / was not sorted

import (
	"fmt"
	"sort"
	"sync"
	"time"

	"github.com/samaritan-proxy/samaritan/host"
)

func runC15conc(seed int64, nmain, nbackup, workers int) string {
	r := newRng(seed)
	var mains, backups []*host.Host
	for i := 0; i < nmain; i++ {
		mains = append(mains, host.NewWithType(fmt.Sprintf("10.9.%d.%d:80", i/250, i%250), host.TypeMain))
	}
	for i := 0; i < nbackup; i++ {
		backups = append(backups, host.NewWithType(fmt.Sprintf("10.10.%d.%d:80", i/250, i%250), host.TypeBackup))
	}
	set := host.NewSet(append(append([]*host.Host{}, mains...), backups...)...)
	expect := map[string]bool{} // addresses of the healthy main members
	for _, h := range mains {
		expect[h.Addr] = true
	}
	check := func(when string) string {
		var want []string
		for a := range expect {
			want = append(want, a)
		}
		if len(want) == 0 {
			for _, b := range backups {
				want = append(want, b.Addr)
			}
		}
		sort.Strings(want)
		got := set.Healthy()
		if len(got) != len(want) {
			return fmt.Sprintf("%s: %d usable hosts, %d healthy members of the preferred tier", when, len(got), len(want))
		}
		for i := range got {
			if got[i].Addr != want[i] {
				return fmt.Sprintf("%s: position %d holds %s, expected %s", when, i, got[i].Addr, want[i])
			}
		}
		return ""
	}
	stop := make(chan struct{})
	bad := ""
	var rw sync.WaitGroup
	rw.Add(1)
	go func() { // a reader: every snapshot is sorted and free of duplicates
		defer rw.Done()
		for {
			select {
			case <-stop:
				return
			default:
			}
			hs := set.Healthy()
			for i := 1; i < len(hs); i++ {
				if hs[i-1].Addr >= hs[i].Addr {
					bad = "a snapshot held a duplicate or was not sorted: " + hs[i-1].Addr + " before " + hs[i].Addr
					return
				}
			}
		}
	}()
	defer func() { close(stop); rw.Wait() }()
	// a forced schedule first: a health mark of a host (its flag is flipped before the mark asks for the set's lock) and the
	// removal of the same host queue for the lock in either order - the harness holds the set's read lock meanwhile.
	// Whichever goes first, the removed host is not among the usable hosts afterwards.
	for k, markFirst := range []bool{false, true} {
		v := host.NewWithType(fmt.Sprintf("10.8.0.%d:80", k+1), host.TypeMain)
		set.Add(v)
		steps := []func(){func() { set.Remove(v) }, func() { set.MarkHostUnhealthy(v) }}
		if markFirst {
			steps[0], steps[1] = steps[1], steps[0]
		}
		set.RLock()
		var fw sync.WaitGroup
		fw.Add(2)
		go func() { defer fw.Done(); steps[0]() }()
		time.Sleep(30 * time.Millisecond) // the first one queues for the write lock
		go func() { defer fw.Done(); steps[1]() }()
		waitFor(2*time.Second, func() bool { return !v.IsHealthy() })
		time.Sleep(20 * time.Millisecond)
		set.RUnlock()
		if !within(5*time.Second, fw.Wait) {
			return "HUNG: a health mark racing with the removal of the same host"
		}
		if msg := check(fmt.Sprintf("after a health mark racing with the removal of the same host (mark first: %v)", markFirst)); msg != "" {
			return "snapshot differs " + msg
		}
	}
	// rounds: every worker makes one update of a host of its own at the same moment (the updates commute); afterwards the
	// snapshot must be the expected one whatever order they were applied and published in
	next := 0
	cur := append([]*host.Host{}, mains...) // the current object of each main address
	for round := 0; round < 40 && next+workers <= nmain; round++ {
		var ops []func()
		for w := 0; w < workers; w++ {
			i := next
			next++
			h := cur[i]
			switch r.intn(4) {
			case 0:
				ops = append(ops, func() { set.Remove(h) })
				delete(expect, h.Addr)
			case 1:
				ops = append(ops, func() { set.MarkHostUnhealthy(h) })
				delete(expect, h.Addr)
			case 2:
				nh := host.NewWithType(h.Addr, host.TypeMain)
				cur[i] = nh
				ops = append(ops, func() { set.Remove(h); set.Add(nh) })
			default:
				ops = append(ops, func() { set.MarkHostUnhealthy(h); set.MarkHostHealthy(h) })
			}
		}
		start := make(chan struct{})
		var wg sync.WaitGroup
		for _, f := range ops {
			wg.Add(1)
			go func(f func()) { defer wg.Done(); <-start; f() }(f)
		}
		close(start)
		wg.Wait()
		if bad != "" {
			return bad
		}
		if msg := check(fmt.Sprintf("after round %d", round)); msg != "" {
			return "snapshot differs " + msg
		}
	}
	// finally the remaining mains go, all at once and one by one at the same time: the backups take over
	rest := cur[next:]
	if len(rest) > 1 && r.chance(1, 2) {
		one := rest[0]
		start := make(chan struct{})
		var wg sync.WaitGroup
		wg.Add(2)
		go func() { defer wg.Done(); <-start; set.Remove(one) }()
		go func() { defer wg.Done(); <-start; set.Remove(rest[1:]...) }()
		close(start)
		wg.Wait()
		for _, h := range rest {
			delete(expect, h.Addr)
		}
		if msg := check("after removing the remaining main hosts"); msg != "" {
			return "snapshot differs " + msg
		}
	}
	if bad != "" {
		return bad
	}
	return "ok"
}

func init() {
	register("c15conc", func() {
		cases, impl := create("cases.txt"), create("impl.txt")
		hist := map[string]int{}
		r := newRng(*fSeed)
		run := func(seed int64, nm, nb, w int) {
			fmt.Fprintf(cases, "%d %d %d %d\n", seed, nm, nb, w)
			fmt.Fprintln(impl, runC15conc(seed, nm, nb, w))
			hist[fmt.Sprintf("workers=%d", w)]++
		}
		if *fIn != "" {
			for _, l := range readLines(*fIn) {
				var seed int64
				var nm, nb, w int
				fmt.Sscanf(l, "%d %d %d %d", &seed, &nm, &nb, &w)
				run(seed, nm, nb, w)
			}
			writeHist(hist)
			return
		}
		for i := 0; i < *fN && !expired(); i++ {
			run(int64(r.u64()>>1), 200+r.intn(2800), 1+r.intn(5), 2+r.intn(5))
		}
		writeHist(hist)
	})
}
